"""C11: generator totality and API shape. DESIGN.md 5.11, F4 of section 6.

Pipeline per run (reuses checks/gen.py prepare_batch): seeded DBC programs of the supported class
 - the shared batch of checks/genprogs.py, and
 - this family's own FORCED programs (below): every width boundary 1,2,7,8,9,15,16,17,31,32,33,63,64
   x unsigned/signed x enum/no enum x physical/non-physical (several ways each) x plain/M/m, float32
   with/without range, 0..4 nodes, with/without/mixed send types -
each together with the database it DENOTES -> the tree's generate.Compile + generate.Database run twice
(errors, non-determinism, non-gofmt-canonical output and compile failures are violations reported by
prepare_batch with the .dbc as replay) -> go build of all generated packages -> observation of the API
   harness/api      reads the exported declarations back from the generated source (go/parser),
   harness/genrun   mode api (api_c11.go) reflects method sets and enum String() of the built package
-> ocaml/api_main.ml compares with api_decls (api_of_db db) / enum_string extracted from Gen/Api.v and
evaluates the property's predicates (prim_type_spec, has_physical_spec, in_class43, conv_ok)."""
import json
import os
import random
import shutil

import vlib
from checks import gen as genfam
from checks import genprogs
from checks import cantool_cli
from checks import translate_tie
from checks.genprogs import hs, hx, fbits, repr_float

PROPERTIES = {
    "C11": {
        "text": "Coq theorems (Properties/C11.v) about the generator's DECISION LOGIC, modelled in Gen/Api.v from "
                "internal/generate/file.go: on the class of DESIGN.md 4.3 (in_class43) the field/accessor type is bool iff "
                "1 bit, float32 iff float, else the narrowest (u)int8/16/32/64 holding the length with the signal's "
                "signedness, a named enum type with one constant per value description exists iff descriptions exist; "
                "physical accessors exist iff the signal is multi-bit and has a factor outside {0,1}, a non-zero offset or a "
                "declared range narrower than its representable range (stated over exact values, bounds 2^L-1 not rounded); "
                "Rx(n)/Tx(n) are exactly the messages with a signal received by n / sent by n with a send type, node code "
                "iff some message has a send type; every conversion, constant and library call the templates emit "
                "satisfies Go's typing rules (conv_ok). For the unfixed hasPhysicalRepresentation the physical-accessor and "
                "conv_ok statements are refuted by a 1-bit signal with a factor (float64(bool)), F4. "
                "PARTIAL: totality of generation, byte-identical repetition, gofmt-canonicity and compilation of the output "
                "are facts about text/templates, go/format and the Go compiler; they are OBSERVED on the sampled programs of "
                "every run (shared batch + forced width/sign/enum/physical/multiplexing/node matrix), not proved.",
        "note": "Level: proof for the API decision functions and conversion typing (all databases of the class); totality, "
                "determinism, gofmt-canonicity and compilation are observed on the sampled programs only (testing level for "
                "those clauses). Trusted: Coq 8.16.1 kernel; extraction (ExtrOcamlBasic) + OCaml 4.13.1; the hand-written "
                "model Gen/Api.v, tied to the code on every run by comparing api_decls(api_of_db) with the declarations of "
                "the generated source (go/parser) and the reflected method sets / enum String() of the built packages; the "
                "program generators (checks/genprogs.py, checks/api.py) emit each program with the database it denotes; "
                "go/format, go-goon, go/parser and the Go compiler are exercised, not modelled. in_class43 adds two clauses "
                "to DESIGN.md 4.3 (multiplexer with selected signals has >= 2 bits; value-description texts free of "
                "backslash/quote) - candidate findings reported by this family. Print Assumptions: closed under the global "
                "context for every C11 theorem (the float comparisons are done on bit patterns, no Flocq).",
        "technique": "Coq proof about a Gallina model of the generator's decisions + differential correspondence against "
                     "generated, compiled Go code (source declarations and reflection)",
        "design_ref": "5.11",
    },
}

WIDTHS = [1, 2, 7, 8, 9, 15, 16, 17, 31, 32, 33, 63, 64]
SENDTYPE_ENUM = ["None", "Cyclic", "OnEvent", "Event", "cyclicIfActive", "Periodic"]
SENDTYPES = {"Cyclic": 1, "Event": 2, "None": 0, "OnEvent": 2, "cyclicIfActive": 1, "Periodic": 1}
VD_TEXTS = ["On", "Off", "Error State", "not-available", "Level 3", "Ünïcode ok", "a.b/c", "Init", "Run", "x_y", "SNA", "Stop!"]


class S:
    pass


def raw_range(length, signed):
    if signed:
        return -(1 << (length - 1)), (1 << (length - 1)) - 1
    return 0, (1 << length) - 1


def lit(x):
    """decimal literal of an integer-valued bound that the DBC float grammar accepts (<= 19 digits)"""
    if abs(x) < 10 ** 18:
        return "%d" % x
    return repr(float(x)).replace("e+", "e")


def scaling_variant(rng, length, signed, physical):
    """(factor, offset, min, max) as DBC literals; physical <=> the property requires physical accessors"""
    lo, hi = raw_range(length, signed)
    if length == 1:
        # a 1-bit signal never gets physical accessors, whatever its scaling (F4: the unfixed generator emits float64(bool))
        return rng.choice([("1", "0", "0", "0"), ("1", "0", "0", "1"), ("1.0", "0.0", "0", "1"), ("2", "0", "0", "0"),
                           ("1", "1", "0", "0"), ("0.5", "-1", "-1", "-0.5")])
    if physical:
        assert length <= 52
        k = rng.randrange(7)
        if k == 0:
            return (rng.choice(["0.1", "2", "-1", "0.5", "1e-3", "1.0000000000000002"]), "0", "0", "0")
        if k == 1:
            return ("1", rng.choice(["-40", "0.5", "1e3", "5e-324"]), "0", "0")
        if k == 2:   # identity scale, range narrower on both sides
            return ("1", "0", lit(lo // 2), lit(hi // 2 if hi > 1 else 0)) if (lo // 2, hi // 2) != (0, 0) else ("1", "0", "0", lit(hi - 1))
        if k == 3:   # only the upper bound constrains, by one
            return ("1", "0", lit(lo), lit(hi - 1))
        if k == 4:   # only the lower bound constrains, by one
            return ("1", "0", lit(lo + 1), lit(hi))
        if k == 5:   # factor and offset with the matching full range
            return ("0.25", "-8", repr_float(lo * 0.25 - 8), repr_float(hi * 0.25 - 8))
        return ("1", "0", lit(lo + 1) if lo + 1 != 0 else "0", lit(hi - 1))
    k = rng.randrange(6)
    if k == 0:
        return ("1", "0", "0", "0")
    if k == 1:       # the full representable range (for 63/64 bits the upper bound rounds up to 2^L)
        return ("1", "0", lit(lo), lit(hi))
    if k == 2:       # wider than representable
        return ("1", "0", lit(lo - 10) if length <= 52 else lit(lo), lit(hi + 5) if length <= 52 else lit(hi))
    if k == 3:
        return ("1.0", "0.0", "0", "0")
    if k == 4:
        return ("1e0", "0", "0", "0")     # (a "-0" literal is in the grammar, but go-goon dumps -0.0 as the integer
                                          # constant -0 = +0: the embedded descriptor loses the sign; reported, avoided here)
    return ("1", "0", "0.0", "0e5")


def make_signal(rng, name, length, signed, enum, physical, float_=False):
    s = S()
    s.name, s.length, s.signed, s.float = name, length, signed, float_
    s.be = False
    s.start = 0
    s.is_mux, s.muxed, s.muxval = False, False, 0
    s.unit = rng.choice(["", "V", "km/h"])
    s.desc = ""
    s.receivers = ["Vector__XXX"]
    s.default = None
    s.vds = []
    if float_:
        s.factor, s.offset = "1", "0"
        s.min, s.max = ("-100.5", "100.5") if physical else rng.choice([("0", "0"), ("-3.4028234663852886e38", "3.4028234663852886e38")])
        if physical and rng.random() < 0.3:
            s.factor, s.min, s.max = "0.5", "0", "0"
        return s
    s.factor, s.offset, s.min, s.max = scaling_variant(rng, length, signed, physical)
    lo, hi = raw_range(length, signed)
    if enum:
        if length == 1:
            vals = rng.choice([[0], [1], [0, 1], [1, 0]])
        else:
            clo, chi = max(lo, -(1 << 53)), min(hi, 1 << 53)
            cand = sorted({clo, chi, 0 if clo <= 0 <= chi else clo, min(chi, 1), min(chi, 2), rng.randrange(clo, chi + 1)})
            vals = rng.sample(cand, rng.randrange(1, min(4, len(cand)) + 1))
        texts = rng.sample(VD_TEXTS, len(vals))
        s.vds = [(v, "%s %d" % (t, i)) for i, (v, t) in enumerate(zip(vals, texts))]
    if rng.random() < 0.4:
        if length == 1:
            s.default = rng.choice([0, 1])
        else:
            s.default = rng.choice([lo, hi, 0 if lo <= 0 else lo])
            if abs(s.default) >= 1 << 53:
                s.default = 1 if length > 1 else 0
    return s


def forced_messages(rng):
    """one message per cell of the matrix width x sign x enum x physical x plain/M/m (+ float32 cells)"""
    msgs = []
    tag = lambda b, t, f: t if b else f
    for length in WIDTHS:
        for signed in (False, True):
            for enum in (False, True):
                for physical in (False, True):
                    if physical and (length == 1 or length > 52):
                        continue          # the property requires non-physical (1 bit) / outside the class (> 52)
                    for role in ("plain", "M", "m"):
                        if role == "M" and (signed or length == 1):
                            continue      # the class requires an unsigned multiplexer of >= 2 bits
                        if role == "m" and length > 62:
                            continue      # no room for a multiplexer next to it
                        base = "%s%d%s%s%s" % (tag(signed, "S", "U"), length, tag(enum, "En", "Pl"), tag(physical, "Ph", "Rw"),
                                               {"plain": "P", "M": "M", "m": "X"}[role])
                        m = S()
                        m.name = "Msg" + base
                        s = make_signal(rng, "Sig" + base, length, signed, enum, physical)
                        m.signals = [s]
                        if role == "plain":
                            if rng.random() < 0.5:
                                s.be, s.start = True, 7
                        elif role == "M":
                            s.is_mux = True
                            room = 64 - length
                            if room >= 1:
                                top = (1 << length) - 1
                                for j, sel in enumerate(sorted({0, top, rng.randrange(0, top + 1)})):
                                    c = make_signal(rng, "Sel%dOf%s" % (j, base), min(room, rng.choice([1, 3, 8])), rng.random() < 0.5, False, False)
                                    c.start, c.muxed, c.muxval = length, True, sel
                                    m.signals.append(c)
                        else:
                            s.muxed, s.muxval = True, rng.choice([0, 1, 2, 3])
                            mx = make_signal(rng, "Mux" + base, 2, False, rng.random() < 0.3, False)
                            mx.start, mx.is_mux = 62, True
                            m.signals.append(mx)
                        msgs.append(m)
    # F4 regression (fixed by e3dd3f8 in /repo): 1-bit signals with a factor / an offset / a constraining range
    m = S()
    m.name = "MsgF4Regression"
    m.signals = []
    for j, (signed, sc) in enumerate([(False, ("2", "0", "0", "0")), (False, ("1", "0.5", "0", "0")), (True, ("1", "0", "0", "1")),
                                      (False, ("0.1", "-1", "-1", "-0.9"))]):
        s = make_signal(rng, "Flag%d" % j, 1, signed, j == 3, False)
        s.factor, s.offset, s.min, s.max = sc
        s.start = j
        m.signals.append(s)
    msgs.append(m)
    for physical in (False, True):
        for enum_like in (0, 1):
            m = S()
            base = "F32%s%d" % ("Ph" if physical else "Rw", enum_like)
            m.name = "Msg" + base
            s = make_signal(rng, "Sig" + base, 32, False, False, physical, float_=True)
            s.start = 32 * enum_like
            m.signals = [s]
            msgs.append(m)
    return msgs


def render_program(rng, name, msgs, n_nodes, sendmode):
    """DBC text + the database it denotes (format of checks/genprogs.py) + summary"""
    nodes = ["Node%s%d" % (chr(65 + rng.randrange(26)), i) for i in range(n_nodes)]
    ids = set()
    for i, m in enumerate(msgs):
        m.ext = rng.random() < 0.3
        while True:
            m.id = rng.randrange(1 << 29) if m.ext else rng.randrange(0x800)
            if m.id not in ids:
                ids.add(m.id)
                break
        m.length = max([1] + [(max(genprogs.be_positions(s.start, s.length) if s.be else genprogs.le_positions(s.start, s.length)) + 8) // 8
                              for s in m.signals])
        if rng.random() < 0.5:
            m.length = 8
        m.sender = rng.choice(nodes) if nodes and rng.random() < 0.8 else "Vector__XXX"
        m.sendtype = None
        if sendmode == "all" or (sendmode == "mixed" and rng.random() < 0.5):
            m.sendtype = rng.choice(sorted(SENDTYPES))
        for s in m.signals:
            if nodes:
                s.receivers = sorted(set(rng.sample(nodes, rng.randrange(0, len(nodes) + 1)))) or ["Vector__XXX"]
    return emit_program(name, nodes, msgs, sendmode != "none")


def emit_program(name, nodes, msgs, sendattr, forced_kind="matrix"):
    """print the DBC text of fully specified messages (id, ext, length, sender, sendtype, receivers set) and the
    database it denotes"""
    L = ['VERSION ""', "", "NS_ :", "\tCM_", "\tBA_DEF_", "", "BS_:", "", "BU_: " + " ".join(nodes), ""]
    for m in msgs:
        did = m.id | (0x80000000 if m.ext else 0)
        L.append("BO_ %d %s: %d %s" % (did, m.name, m.length, m.sender))
        for s in m.signals:
            muxs = " M" if s.is_mux else (" m%d" % s.muxval if s.muxed else "")
            L.append(' SG_ %s%s : %d|%d@%d%s (%s,%s) [%s|%s] "%s" %s' % (
                s.name, muxs, s.start, s.length, 0 if s.be else 1, "-" if s.signed else "+",
                s.factor, s.offset, s.min, s.max, s.unit, ",".join(s.receivers)))
        L.append("")
    if sendattr:
        L.append('BA_DEF_ BO_ "GenMsgSendType" ENUM %s;' % ",".join('"%s"' % e for e in SENDTYPE_ENUM))
    L.append('BA_DEF_ SG_ "GenSigStartValue" INT -9223372036854775808 9223372036854775807;')
    if sendattr:
        L.append('BA_DEF_DEF_ "GenMsgSendType" "None";')
    L.append('BA_DEF_DEF_ "GenSigStartValue" 0;')
    for m in msgs:
        did = m.id | (0x80000000 if m.ext else 0)
        if m.sendtype:
            L.append('BA_ "GenMsgSendType" BO_ %d "%s";' % (did, m.sendtype))
        for s in m.signals:
            if s.default is not None:
                L.append('BA_ "GenSigStartValue" SG_ %d %s %d;' % (did, s.name, s.default))
    for m in msgs:
        did = m.id | (0x80000000 if m.ext else 0)
        for s in m.signals:
            if s.vds:
                L.append("VAL_ %d %s %s ;" % (did, s.name, " ".join('%d "%s"' % (v, t) for v, t in s.vds)))
            if s.float:
                L.append("SIG_VALTYPE_ %d %s : 1;" % (did, s.name))
    text = "\n".join(L) + "\n"
    D = ["DB %s %s %x %x" % (hs(name + ".dbc"), hs(""), len(msgs), len(nodes))]
    for n in sorted(nodes):
        D.append("NODE %s %s" % (hs(n), hs("")))
    for m in sorted(msgs, key=lambda m: m.id):
        st = SENDTYPES[m.sendtype] if m.sendtype else 0
        D.append("MSG %s %x %d %x %d %s %s %s %s %x" % (hs(m.name), m.id, 1 if m.ext else 0, m.length, st, hs(""), hs(m.sender),
                                                       hx(0), hx(0), len(m.signals)))
        for s in sorted(m.signals, key=lambda s: (s.start, s.muxval)):
            vds = sorted(s.vds)
            D.append("SIGD %s %x %x %d %d %d %d %d %x %s %s %s %s %s %s %s %x%s %x%s" % (
                hs(s.name), s.start, s.length, s.be, s.signed, s.float, s.is_mux, s.muxed, s.muxval,
                fbits(s.offset), fbits(s.factor), fbits(s.min), fbits(s.max), hs(s.unit), hs(s.desc),
                hx(s.default or 0), len(vds), "".join(" %s %s" % (hx(v), hs(t)) for v, t in vds),
                len(s.receivers), "".join(" " + hs(r) for r in s.receivers)))
    sigs = [s for m in msgs for s in m.signals]
    summary = {"messages": len(msgs), "signals": len(sigs), "nodes": len(nodes), "widths": sorted({s.length for s in sigs}),
               "muxed": sum(1 for s in sigs if s.muxed), "float": sum(1 for s in sigs if s.float),
               "scaled": sum(1 for s in sigs if s.factor not in ("1", "1.0", "1e0") or s.offset not in ("0", "0.0", "-0")),
               "extended": sum(1 for m in msgs if m.ext), "sendtypes": sendattr, "forced": forced_kind}
    return text, D, summary


def fixed_signal(name, length, signed, factor="1", offset="0", mn="0", mx="0", vds=(), default=None, float_=False,
                 start=0, receivers=("Vector__XXX",)):
    s = S()
    s.name, s.length, s.signed, s.float = name, length, signed, float_
    s.be, s.start = False, start
    s.is_mux, s.muxed, s.muxval = False, False, 0
    s.unit, s.desc = "", ""
    s.receivers = list(receivers)
    s.default = default
    s.vds = list(vds)
    s.factor, s.offset, s.min, s.max = factor, offset, mn, mx
    return s


def fixed_message(name, mid, signals, sender="Vector__XXX", sendtype=None, length=8, ext=False):
    m = S()
    m.name, m.id, m.ext, m.length, m.sender, m.sendtype, m.signals = name, mid, ext, length, sender, sendtype, list(signals)
    return m


def witness_programs(first_index):
    """ALWAYS generated, independent of the seed: one witness per clause of the property that the random variants of
    the matrix could miss.  W0..W3 node wiring (hasSendType gate, collectRx/TxMessages), W4 type/enum/physical boundaries."""
    out = []

    def add(nodes, msgs, sendattr, kind):
        name = "p%d" % (first_index + len(out))
        text, db, summary = emit_program(name, nodes, msgs, sendattr, forced_kind=kind)
        out.append((name, text, db, summary))

    sig = lambda n, recv, start=0, length=8: fixed_signal(n, length, False, start=start, receivers=recv)
    # (a) declared nodes only RECEIVE; every message with a send type is sent by Vector__XXX: node code must exist, Tx empty
    add(["NodeRa", "NodeRb"],
        [fixed_message("MsgCyc", 0x10, [sig("SigA", ["NodeRa"])], sendtype="Cyclic"),
         fixed_message("MsgEvt", 0x11, [sig("SigB", ["NodeRa", "NodeRb"])], sendtype="Event"),
         fixed_message("MsgPlain", 0x12, [sig("SigC", ["NodeRb"])])], True, "wiring-a")
    # (b) the same with a sender that is not declared in BU_ (in_class43 does not constrain senders)
    add(["NodeRa", "NodeRb"],
        [fixed_message("MsgCyc", 0x10, [sig("SigA", ["NodeRb"])], sender="GhostNode", sendtype="Cyclic"),
         fixed_message("MsgPlain", 0x12, [sig("SigC", ["NodeRa"])], sender="GhostNode")], True, "wiring-b")
    # (c) NodeS sends only messages without a send type while NodeT's message has one; (d) NodeIdle neither sends nor
    # receives; (e) MsgShared reaches NodeA and NodeB through the SAME signal, NodeB also through a second signal (once
    # in Rx), NodeC through a different signal
    add(["NodeA", "NodeB", "NodeC", "NodeIdle", "NodeS", "NodeT"],
        [fixed_message("MsgFromS1", 0x20, [sig("SigA", ["NodeA"])], sender="NodeS"),
         fixed_message("MsgFromS2", 0x21, [sig("SigA", ["Vector__XXX"])], sender="NodeS"),
         fixed_message("MsgFromT", 0x22, [sig("SigA", ["NodeS"])], sender="NodeT", sendtype="Event"),
         fixed_message("MsgShared", 0x23, [sig("SigP", ["NodeA", "NodeB"], 0), sig("SigQ", ["NodeB"], 8), sig("SigR", ["NodeC"], 16)],
                       sender="NodeT", sendtype="Cyclic"),
         fixed_message("MsgSharedExt", 0x24, [sig("SigP", ["NodeC"], 0), sig("SigQ", ["NodeC", "NodeA"], 8)], sender="NodeA",
                       sendtype="None", ext=True)], True, "wiring-cde")
    # (f) the only send type is on a message with ZERO signals (lengths 0 and 8)
    add(["NodeY", "NodeZ"],
        [fixed_message("MsgEmpty0", 0x30, [], sender="NodeZ", sendtype="Cyclic", length=0),
         fixed_message("MsgData", 0x31, [sig("SigA", ["NodeZ"])], sender="NodeY")], True, "wiring-f")
    add(["NodeY"],
        [fixed_message("MsgEmpty8", 0x30, [], sender="Vector__XXX", sendtype="Event", length=8),
         fixed_message("MsgData", 0x31, [sig("SigA", ["NodeY"])], sender="NodeY")], True, "wiring-f2")
    # type / enum / physical-accessor boundaries, one signal per message
    B = []

    def one(name, *a, **k):
        B.append(fixed_message("Msg" + name, 0x100 + len(B), [fixed_signal("Sig" + name, *a, **k)]))

    for L in (8, 16, 32, 52):
        hi = (1 << L) - 1
        one("U%dFull" % L, L, False, mn="0", mx=lit(hi))                    # range = representable range: NOT physical
        one("U%dMaxLess" % L, L, False, mn="0", mx=lit(hi - 1))              # one below: physical
        one("U%dMinMore" % L, L, False, mn="1", mx=lit(hi))                  # one above at the lower end: physical
        one("U%dWider" % L, L, False, mn="-1", mx=lit(hi + 1))               # wider than representable: NOT physical
        lo, shi = -(1 << (L - 1)), (1 << (L - 1)) - 1
        one("S%dFull" % L, L, True, mn=lit(lo), mx=lit(shi))
        one("S%dMaxLess" % L, L, True, mn=lit(lo), mx=lit(shi - 1))
        one("S%dMinMore" % L, L, True, mn=lit(lo + 1), mx=lit(shi))
    one("U63Full", 63, False, mn="0", mx="9.223372036854776e18")           # float64(2^63-1) = 2^63: NOT physical
    one("U64Full", 64, False, mn="0", mx="1.8446744073709552e19", default=1000)
    one("S64Full", 64, True, mn="-9223372036854775808", mx="9223372036854775807", default=1)
    one("S63Full", 63, True, mn="-4611686018427387904", mx="4611686018427387903", default=-5)
    one("U12Identity", 12, False)                                           # (1,0) [0|0]: NOT physical
    one("U12IdentityDot", 12, False, factor="1.0", offset="0.0", mn="0.0", mx="0e0")
    one("U12Offset", 12, False, offset="5")                                 # identity factor with an offset: physical
    one("U12OffsetTiny", 12, False, offset="5e-324")
    one("U12FactorUlp", 12, False, factor="1.0000000000000002")             # factor next to 1: physical
    one("S12FactorNeg", 12, True, factor="-1")
    one("U2MaxOnly", 2, False, mn="0", mx="3")                              # smallest multi-bit, full range: NOT physical
    one("U2Narrow", 2, False, mn="0", mx="2")
    one("B1Factor", 1, False, factor="2")                                   # 1 bit: never physical (F4)
    one("B1SignedRange", 1, True, mn="0", mx="1")
    # enum kinds
    one("S8EnumNeg", 8, True, vds=[(-128, "Lowest"), (-1, "Minus One"), (0, "Zero"), (127, "Highest")], default=-128)
    one("S9EnumNeg", 9, True, vds=[(-256, "Lowest 9")])
    one("U8EnumSingle", 8, False, vds=[(255, "Only")])                      # a single value description still gives an enum type
    one("U8EnumPhys", 8, False, factor="0.5", vds=[(0, "Off"), (1, "On"), (255, "Not available")])
    one("B1EnumBoth", 1, False, vds=[(1, "Active"), (0, "Inactive")], default=1)
    one("B1EnumOne", 1, False, vds=[(1, "Set")])
    one("B1EnumZero", 1, True, vds=[(0, "Clear")])
    one("U33Enum", 33, False, vds=[(8589934591, "Top 33")])
    one("S64Enum", 64, True, vds=[(-9007199254740992, "Low"), (9007199254740992, "High")])
    one("F32Plain", 32, False, float_=True)
    one("F32Range", 32, False, float_=True, mn="-1.5", mx="1.5")            # narrower than +-MaxFloat32: physical
    one("F32Full", 32, False, float_=True, mn="-3.4028234663852886e38", mx="3.4028234663852886e38")
    one("F32Enum", 32, False, float_=True, vds=[(0, "Zero"), (5, "Five")])   # float32 enum: inside in_class43
    add(["NodeA"], B, False, "boundaries")
    return out


def forced_programs(seed, first_index, tier):
    """this family's own programs: the forced matrix, cut into packages with different node topologies"""
    rng = random.Random(seed * 104729 + 11)
    msgs = forced_messages(rng)
    rng.shuffle(msgs)
    if tier != "quick":
        # thorough: seven more independently drawn copies of the matrix (other scaling/enum/default variants)
        for extra in range(1, 8):
            more = forced_messages(random.Random(seed * 104729 + 11 + 7919 * extra))
            for m in more:
                m.name += "V%d" % extra
                for s in m.signals:
                    s.name += "V%d" % extra
            msgs += more
        rng.shuffle(msgs)
    topo = [(0, "none"), (1, "all"), (2, "mixed"), (3, "none"), (4, "mixed"), (2, "all"), (3, "mixed"), (0, "all")]
    n_prog = 8 if tier == "quick" else 48
    per = (len(msgs) + n_prog - 1) // n_prog
    progs = []
    for k in range(n_prog):
        chunk = msgs[k * per:(k + 1) * per]
        if not chunk:
            continue
        name = "p%d" % (first_index + k)
        n_nodes, sendmode = topo[k % len(topo)]
        text, db, summary = render_program(rng, name, chunk, n_nodes, sendmode)
        progs.append((name, text, db, summary))
    return progs


class _Programs:
    """stands in for the module checks.genprogs inside checks.gen while prepare_batch runs: the shared
    batch followed by this family's forced programs (checks/gen.py offers no parameter for extra programs)"""

    def __init__(self, tier):
        self.tier = tier

    def gen_batch(self, seed, count):
        progs = genprogs.gen_batch(seed, count)
        progs = progs + forced_programs(seed, len(progs), self.tier)
        return progs + witness_programs(len(progs))


class _ReplayPrograms:
    """--replay <file>: the single program of a replay file (its "dbc" member, or a bare .dbc file). The database it
    denotes is taken to be what the tree's compiler makes of it (the compiler is C05's subject, trusted here)."""

    def __init__(self, text, scratch):
        self.text, self.scratch = text, scratch

    def gen_batch(self, seed, count):
        d = os.path.join(self.scratch, "replay")
        os.makedirs(os.path.join(d, "in"), exist_ok=True)
        os.makedirs(os.path.join(d, "out"), exist_ok=True)
        open(os.path.join(d, "in", "p0.dbc"), "w").write(self.text)
        db = []
        gen_exe, _ = vlib.build_harness("gen", d)
        if gen_exe:
            vlib.sh("ulimit -v 8000000; timeout 300 %s %s %s" % (gen_exe, os.path.join(d, "in"), os.path.join(d, "out")))
            try:
                db = open(os.path.join(d, "out", "p0.db")).read().splitlines()
            except OSError:
                pass
        summary = {"messages": 0, "signals": 0, "nodes": 0, "widths": [], "muxed": 0, "float": 0, "scaled": 0, "extended": 0,
                   "sendtypes": False, "replay": True}
        return [("p0", self.text, db, summary)]


def _fix_compile_culprit(res, scratch, progs):
    """prepare_batch looks for the package that does not compile with `go vet -overlay`, which fails for EVERY
    overlay-only package (vet chdirs into the package directory, which exists only in the overlay), so it always
    blames the first program. Local workaround: find the culprits with `go build -overlay` and replace the entry."""
    idx = [i for i, v in enumerate(res.violations) if v[0].startswith("generated code does not compile")]
    if not idx:
        return
    ovp = os.path.join(scratch, "overlay-genrun.json")
    found = []
    for name, text, _, _ in progs:
        if not os.path.exists(os.path.join(scratch, "out", name, name + ".dbc.go")):
            continue
        rc, out = vlib.sh(["go", "build", "-overlay", ovp, "./verifgen/" + name], cwd=vlib.REPO, env=vlib.go_env(), timeout=300)
        if rc != 0:
            found.append(("generated code does not compile (program %s): %s" % (name, out.strip().splitlines()[1][:200] if len(out.strip().splitlines()) > 1 else out[:200]),
                          {"dbc": text, "compiler_output": out[-1500:], "program": name}, False))
        if len(found) >= 3:
            break
    if found:
        res.violations[idx[0]:idx[0] + 1] = found


translate_tie.describe(PROPERTIES, "C11", "(here: hasPhysicalRepresentation, hasCustomType, signalPrimitiveType, signalPrimitiveSuperType "
                       "and signalSuperType of internal/generate/file.go, = the decision functions of Gen/Api.v and Gen/Message.v)",
                       translate_tie.TIE_NOTE_INT, translate_tie.TIE_NOTE_FLOAT)


def run(res, replay=None):
    vlib.proof_stage(res)
    translate_tie.run_tie(res, ["apidecide"])
    count = 10 if res.tier == "quick" else 120
    scratch = vlib.scratch_dir()
    res.corr_obligations = [
        "exported declarations of the generated source (go/parser) = api_decls (api_of_db db) for every batch program",
        "reflected method sets of *<Msg> and enum String() of the built packages = the extracted model",
        "generation succeeds, is byte-identical when repeated, gofmt-canonical, and compiles, for every batch program (observed)",
    ]
    try:
        saved = genfam.genprogs
        if replay:
            raw = open(replay).read()
            try:
                text = json.loads(raw)["replay"]["dbc"]
            except (ValueError, KeyError, TypeError):
                text = raw
            genfam.genprogs = _ReplayPrograms(text, scratch)
        else:
            genfam.genprogs = _Programs(res.tier)
        try:
            exe, progs, status = genfam.prepare_batch(res, scratch, res.seed, count)
        finally:
            genfam.genprogs = saved
        _fix_compile_culprit(res, scratch, progs)
        # the path users take: the real `cantool generate` binary must be exactly the glue around the library calls
        cantool_cli.generate_stage(res, scratch, progs)
        if exe is None:
            if not res.violations:
                res.violation("batch could not be prepared", {"status": status}, no_input=True)
            return
        # WIRING TIE for the node types (Gen/Wiring.v nodes_wiring_ok, theorem C11_wiring_nodes): strict reading of the emitted
        # node code of every batch package against collect_rx / collect_tx / has_send_type of the denoted database
        genfam.wiring_stage(res, scratch, progs)
        api_exe, log = vlib.build_harness("api", scratch)
        if api_exe is None:
            res.violation("source-reading harness does not build (broken tie)", {"build_log": log[-3000:]}, no_input=True)
            return
        drv = vlib.build_driver("api")
        names = [n for n, _, _, _ in progs if os.path.exists(os.path.join(scratch, "out", n, n + ".dbc.go"))]
        both = os.path.join(scratch, "observe.sh")
        with open(both, "w") as f:
            f.write("#!/bin/bash\nset -e\n%s %s %s\n%s api\n" % (api_exe, os.path.join(scratch, "out"), " ".join(names), exe))
        os.chmod(both, 0o755)
        rc, out, err = vlib.run_pipe(both, [], drv, [os.path.join(scratch, "exp")], timeout=900)
        texts = {n: t for n, t, _, _ in progs}
        stats = cov = None
        outside = []
        found = []
        for line in out.splitlines():
            if line.startswith("STATS "):
                stats = json.loads(line[6:])
            elif line.startswith("COV "):
                cov = json.loads(line[4:])
            elif line.startswith("OUTSIDE "):
                outside.append(line.split()[1])
            elif line.startswith("MISMATCH ") or line.startswith("PFAIL "):
                kind, _, rest = line.partition(" ")
                obs, _, detail = rest.partition(" || ")
                toks = obs.split()
                pkg = toks[1] if len(toks) > 1 else "?"
                what = ("generated API differs from api_of_db of the database the DBC denotes" if kind == "MISMATCH"
                        else "property predicate fails on the generated API")
                found.append((0 if kind == "PFAIL" else 1, "%s: %s ; %s" % (what, obs[:200], detail[:300]),
                              {"dbc": texts.get(pkg, ""), "observation": obs, "detail": detail, "program": pkg}))
        # property-predicate failures first (they name the violated clause), then model/implementation differences
        for _, what, rp in sorted(found, key=lambda f: f[0]):
            res.violation(what, rp)
        if rc != 0 or stats is None or cov is None:
            res.violation("API observation or model driver failed (rc=%s)" % rc, {"stderr": err[-2000:], "stdout_tail": out[-800:]}, no_input=True)
            return
        if outside and replay:
            print("NOTE replayed program is outside in_class43 (DESIGN.md 4.3): the property does not quantify over it")
        elif outside:
            res.violation("check machinery: sampled programs fall outside in_class43 (generator and Coq class disagree): %s" % outside[:5],
                          {"programs": outside, "dbc": texts.get(outside[0], "")}, no_input=True)
        summ = [s for _, _, _, s in progs]
        res.cov.update({
            "evaluations": stats["cases"],
            "distinct_nontrivial": stats["distinct_nontrivial"],
            "rule": "one case = one exported declaration of a generated package compared with the model (interface with its "
                    "member set, struct with its fields, named enum type, function, method, constant), one reflected method of "
                    "*<Msg>, one enum type's String() table, one signal's observed (field type, enum, accessor set) checked "
                    "against prim_type_spec / has_physical_spec, or one program's in_class43 + conv_ok evaluation; all count as "
                    "non-trivial; distinct by line hash",
            "samples": stats["samples"][:4],
            "kinds": stats["kinds"],
            "mismatches": stats["mismatches"],
            "programs": len(progs),
            "programs_forced_matrix": sum(1 for s in summ if s.get("forced") == "matrix"),
            "programs_fixed_witnesses": sorted(s["forced"] for s in summ if s.get("forced") not in (None, "matrix")),
            "programs_outside_class": cov["outside_class"],
            "signal_classes": cov["classes"],
            "program_distribution": {
                "messages": sum(s["messages"] for s in summ), "signals": sum(s["signals"] for s in summ),
                "nodes": sorted({s["nodes"] for s in summ}),
                "widths_covered": sorted({w for s in summ for w in s["widths"]}),
                "multiplexed_signals": sum(s["muxed"] for s in summ), "float_signals": sum(s["float"] for s in summ),
                "scaled_signals": sum(s["scaled"] for s in summ),
                "programs_with_send_types": sum(1 for s in summ if s["sendtypes"]),
            },
            "observed_only": "generation without error, byte-identical repetition, gofmt-canonical output and successful go build "
                             "of all %d programs (not covered by a theorem)" % len(progs),
            "generator_status": sorted(status.values())[:3],
        })
        res.assumptions = [
            "the program generators (checks/genprogs.py, checks/api.py) emit programs of DESIGN.md 4.3 together with the database "
            "they denote; every sampled program is checked against the Coq predicate in_class43 on every run",
            "go/format, go-goon, go/parser and the Go compiler are exercised on every batch program, not modelled",
            "the theorems cover the decision functions and conversion typing; totality/determinism/canonicity/compilation are observed",
        ]
    finally:
        shutil.rmtree(scratch, ignore_errors=True)
