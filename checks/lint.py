"""C18: the 20 lint analyzers (pkg/dbc/analysis/passes). DESIGN.md 5.18, Appendix A."""
import json
import re

import vlib
from checks import lint_tie, translate_tie

PROPERTIES = {
    "C18": {
        "text": "Coq theorems (Properties/C18.v) prove for EVERY file (raw bytes + any list of parsed definitions, the empty "
                "file included) and each of the 20 analyzers that the model of the pass returns, without panic, exactly the "
                "ordered list of diagnostics that its declarative rule owes (run = Ok spec: soundness, completeness, "
                "multiplicity, order), and that this list is empty iff the rule - written out in logic for all 20 passes - "
                "holds; and for the `lint` command of cmd/cantool through which a user runs them (model Dbc/LintCli.v) that its "
                "source-line function is total on every text and every offset 0..len, returns the LF-free contiguous slice "
                "around the offset (C18_source_line_*), and that the command prints, file by file and for the 19 analyzers in "
                "their order, one block per owed diagnostic, never crashes and ends with 'one or more lint errors' iff some "
                "analyzer reports (C18_cantool_lint_output; hypothesis: printed positions lie inside their text). The models "
                "are tied to the code on every run: seeded DBC texts with 0/1/many violations of each rule (redundant "
                "singleton definitions at any place, files starting with BO_), pairwise interactions, degenerate and boundary "
                "files are parsed by the real parser, all 20 Analyzer.Run are executed (panics caught), and position + "
                "message kind of every diagnostic are compared with the extracted model; the harness also checks that no pass "
                "modifies the File, that the reverse pass order gives the same diagnostics, and that analyzer values obtained "
                "once from Analyzer() and reused over a window of files (twice per file) report what fresh ones report (no "
                "state between runs: the model is per file); and the real `cantool lint` "
                "binary is run on the degenerate/boundary files one by one (empty, blank, last line without line feed with a "
                "diagnostic in column 1 / > 1, diagnostic on line 1, CRLF/CR endings, truncated files = parse errors at the "
                "end, one file per analyzer with only that analyzer reporting, exactly 1/2/255/256/257/512 diagnostics, many "
                "diagnostics of many passes) and on a sample of the other files in directory batches: exit status, standard "
                "error and the COMPLETE standard output are compared byte for byte with the output the extracted "
                "cantool_lint_output owes; a Go panic is a violation with the file as replay.",
        "note": "Trusted: Coq 8.16.1 kernel; extraction (ExtrOcamlBasic) + OCaml 4.13.1; the hand-written models Dbc/Lint.v and "
                "Dbc/LintCli.v (validated by the correspondence run); Go harness / OCaml driver / check.py glue. Oracles modelled, "
                "not verified, and compared with Go on every run: UTF-8 decoding of `range`, unicode.IsDigit/IsUpper "
                "(parameters of the theorems; the driver fills them from Go's tables), strings.HasPrefix/HasSuffix, float64 "
                "`>`, int64(float64) on amd64, %d length. The model consumes the definitions (and, for a file the parser "
                "rejects, the error position) produced by the real parser (parser fidelity is C04; that positions lie inside "
                "the text is the hypothesis file_printable of C18_cantool_lint_output, observed on every linted file). Message "
                "wording is not compared (only the call site = kind, and the node name / interval / max value where the text "
                "carries them); in the cantool output the wording of each message is taken from the in-process run of the "
                "same analyzer, everything else (order, file:line:col, analyzer name, source line, caret column, exit status) "
                "from the model. Not expressible in the functional model and only observed: colour escape codes are off when "
                "stdout is not a terminal; filepath.Walk order and the .dbc filter of a directory argument (decoy files in "
                "every batch); process exit status width. Print Assumptions: closed under the global context.",
        "technique": "Coq proof about a Gallina model + differential correspondence of model and code",
        "design_ref": "5.18",
    },
}

PROPERTIES["C18"]["text"] += lint_tie.TIE_TEXT
PROPERTIES["C18"]["note"] += " Added trusted base: " + lint_tie.TRUSTED + "."
translate_tie.describe(PROPERTIES, "C18", "(here: identifiers.IsCamelCase = the model's is_camel_case, for every interpretation of "
                       "unicode.IsDigit/IsUpper; identifiers.IsAlphaChar/IsNumChar; Identifier.Validate and the Validate methods of "
                       "pkg/dbc's enumeration types)", translate_tie.TIE_NOTE_INT, translate_tie.TIE_NOTE_LOOP)

RULE = ("per generated file and per analyzer one evaluation (ordered diagnostics list: line, column, message kind); "
        "non-trivial = the model owes at least one diagnostic; plus one file-level evaluation (File unchanged, reverse "
        "pass order) and, for every file linted by the real `cantool lint` binary (alone, or as a member of a "
        "directory batch), one evaluation of exit status + stderr + complete stdout against cantool_lint_output (kind cli; "
        "cli-only:<analyzer> / cli-count:<n> mark the promised boundary files); oracle observations (runes, "
        "IsCamelCase, float >, int64(float), prefix/suffix) counted under kinds oracle-*; distinct by line hash. "
        "Files: degenerate (empty, blank, CRLF-only, unknown lines only, metadata only), boundary (diagnostic on a last "
        "line without line feed in column 1 / > 1, on line 1, CR/CRLF layouts, truncated texts, one analyzer only, exact "
        "diagnostic counts around 256, many passes, directories of files that share identifiers with an earlier file but declare fewer of them), clean, each rule x {1, many}, "
        "pairs of rules, random mixes, and `synthetic` (parsed definitions perturbed in memory to values the parser "
        "cannot produce; a difference there is reported as a broken correspondence, not as a failing input).")

ASSUMPTIONS = [
    "the Gallina model Dbc/Lint.v is a faithful transcription of the 20 analyzer.go files and internal/identifiers: checked on "
    "every run by the differential comparison on the generated files (sampled, seeded)",
    "the definitions the model runs on are those produced by the real parser and dumped by harness/dbccommon/dump.go "
    "(all fields of pkg/dbc/def.go)",
    "Go semantics modelled as oracles: range-over-string UTF-8 decoding, unicode.IsDigit/IsUpper tables (dumped from Go at run "
    "time), strings.HasPrefix/HasSuffix, float64 comparison, int64(float64) as compiled for amd64, fmt %d",
    "diagnostic wording is outside the property: only position and message kind are compared",
    "the Gallina model Dbc/LintCli.v is a faithful transcription of lintCommand / printError / getSourceLine / "
    "caretAtPosition / analyzers() of cmd/cantool/main.go: checked on every run by the byte-exact comparison of the real "
    "binary's output (sampled files; degenerate and boundary files always)",
    "positions printed by cantool lie inside the text they refer to (0 <= offset <= len, column >= 1): hypothesis of "
    "C18_cantool_lint_output, a parser fact (C04); the model itself is partial there (out of range = crash)",
]


CANTOOL_ANALYZERS = [
    "definitiontypeorder", "intervals", "lineendings", "messagenames", "multiplexedsignals", "newsymbols",
    "nodereferences", "noreservedsignals", "requireddefinitions", "signalbounds", "signalnames",
    "singletondefinitions", "siunits", "uniquemessageids", "uniquenodenames", "uniquesignalnames", "unitsuffixes",
    "valuedescriptions", "version"]


def harness_args(tier, seed):
    n = 3300 if tier == "quick" else 40000
    cli = 300 if tier == "quick" else 4000   # sampled files linted by the real binary in directory batches
    return [seed, n, vlib.REPO, cli]


def run(res, replay=None):
    vlib.proof_stage(res)
    translate_tie.run_tie(res, ["lintnames"])
    lint_tie.run_lint_tie(res)   # stage lint_tie: analyzers regenerated from the source = Dbc/Lint.v
    args = harness_args(res.tier, res.seed)
    tmp = None
    if replay:
        obs = json.load(open(replay)).get("replay", {}).get("observation", "")
        m = re.search(r" text=([0-9a-f]*)", obs)
        b = re.search(r" batchtexts=([0-9a-f,\-]+)", obs)
        if b:
            # a violation that needs its history: the files linted / analyzed before it in the same directory / window
            import tempfile
            tmp = tempfile.NamedTemporaryFile("w", prefix="verif-lint-replay-", suffix=".txt", delete=False)
            tmp.write("\n".join(b.group(1).split(",")) + "\n")
            tmp.close()
            args = ["replaydir", vlib.REPO, tmp.name]
        elif m:
            args = ["replay", m.group(1) or '""', vlib.REPO]
    try:
        stats = vlib.standard_run(res, "lint", args, "lint", RULE, ASSUMPTIONS)
    finally:
        if tmp:
            import os
            os.unlink(tmp.name)
    if stats and not replay:
        # the boundary files the generator promises (confirmed by the model in the driver) must all be there
        kinds = stats.get("kinds", {})
        want = ["cli-only:" + a for a in CANTOOL_ANALYZERS] + ["cli-count:%d" % k for k in (1, 2, 255, 256, 257, 512)]
        missing = [k for k in want if not kinds.get(k)] + (["generator-miss"] if kinds.get("generator-miss") else [])
        if missing:
            res.violation("the lint file generator no longer produces the boundary files it promises: %s" % missing,
                          {"correspondence": res.corr_obligations[0], "missing_kinds": missing}, no_input=True)
