"""C18: the 20 lint analyzers (pkg/dbc/analysis/passes). DESIGN.md 5.18, Appendix A."""
import json
import re

import vlib

PROPERTIES = {
    "C18": {
        "text": "Coq theorems (Properties/C18.v) prove for EVERY file (raw bytes + any list of parsed definitions, the empty "
                "file included) and each of the 20 analyzers that the model of the pass returns, without panic, exactly the "
                "ordered list of diagnostics that its declarative rule owes (run = Ok spec: soundness, completeness, "
                "multiplicity, order), and that this list is empty iff the rule - written out in logic for all 20 passes - "
                "holds. The model is tied to the analyzers on every run: seeded DBC texts with 0/1/many violations of each "
                "rule, pairwise interactions and degenerate files are parsed by the real parser, all 20 Analyzer.Run are "
                "executed (panics caught), and position + message kind of every diagnostic are compared with the extracted "
                "model; the harness also checks that no pass modifies the File, that the reverse pass order gives the same "
                "diagnostics, and the exit status of the real `cantool lint` binary on a subsample.",
        "note": "Trusted: Coq 8.16.1 kernel; extraction (ExtrOcamlBasic) + OCaml 4.13.1; the hand-written model Dbc/Lint.v "
                "(validated by the correspondence run); Go harness / OCaml driver / check.py glue. Oracles modelled, not "
                "verified, and compared with Go on every run: UTF-8 decoding of `range`, unicode.IsDigit/IsUpper "
                "(parameters of the theorems; the driver fills them from Go's tables), strings.HasPrefix/HasSuffix, float64 "
                "`>`, int64(float64) on amd64, %d length. The model consumes the definitions parsed by the real parser "
                "(parser fidelity is C04). Message wording is not compared (only the call site = kind, and the node name / "
                "interval / max value where the text carries them). Print Assumptions: closed under the global context.",
        "technique": "Coq proof about a Gallina model + differential correspondence of model and code",
        "design_ref": "5.18",
    },
}

RULE = ("per generated file and per analyzer one evaluation (ordered diagnostics list: line, column, message kind); "
        "non-trivial = the model owes at least one diagnostic; plus one file-level evaluation (File unchanged, reverse "
        "pass order) and, on a subsample, one `cantool lint` exit-status evaluation; oracle observations (runes, "
        "IsCamelCase, float >, int64(float), prefix/suffix) counted under kinds oracle-*; distinct by line hash. "
        "Files: degenerate (empty, blank, CRLF-only, unknown lines only, metadata only), clean, each rule x {1, many}, "
        "pairs of rules, random mixes, and `synthetic` (parsed definitions perturbed in memory to values the parser "
        "cannot produce; a difference there is reported as a broken correspondence, not as a failing input).")

ASSUMPTIONS = [
    "the Gallina model Dbc/Lint.v is a faithful transcription of the 20 analyzer.go files and internal/identifiers: checked on "
    "every run by the differential comparison on the generated files (sampled, seeded)",
    "the definitions the model runs on are those produced by the real parser and dumped by harness/dbccommon/dump.go "
    "(all fields of pkg/dbc/def.go)",
    "Go semantics modelled as oracles: range-over-string UTF-8 decoding, unicode.IsDigit/IsUpper tables (dumped from Go at run "
    "time), strings.HasPrefix/HasSuffix, float64 comparison, int64(float64) as compiled for amd64, fmt %d",
    "diagnostic wording is outside the property: only position and message kind are compared",
]


def harness_args(tier, seed):
    n = 3000 if tier == "quick" else 40000
    cli = 60 if tier == "quick" else 400
    return [seed, n, vlib.REPO, cli]


def run(res, replay=None):
    vlib.proof_stage(res)
    args = harness_args(res.tier, res.seed)
    if replay:
        obs = json.load(open(replay)).get("replay", {}).get("observation", "")
        m = re.search(r"text=([0-9a-f]*)", obs)
        if m:
            args = ["replay", m.group(1) or '""']
    vlib.standard_run(res, "lint", args, "lint", RULE, ASSUMPTIONS)
