"""C01, C02, C17: bit core (data.go, internal/reinterpret). DESIGN.md 5.1, 5.2, 5.17."""
import vlib
from checks import translate_tie

_NOTE = ("Trusted: Coq 8.16.1 kernel; extraction (ExtrOcamlBasic) + OCaml 4.13.1; the hand-written model Can/Data.v, "
         "validated against the code by the correspondence run; Go harness / OCaml driver / check.py glue. "
         "Print Assumptions: closed under the global context (no axioms).")

PROPERTIES = {
    "C01": {
        "text": "Coq theorems (Properties/C01.v) prove for all payloads and all fitting geometries that the model of the "
                "readers returns exactly the documented payload bits (bit-extensionality, no bound); the model is tied to "
                "data.go on every run by comparing it with the real accessors on all 4160 geometries x a GF(2) payload "
                "basis + random words.",
        "note": _NOTE + " Payload axis of the correspondence is sampled (basis + random), geometries exhaustive.",
        "technique": "Coq proof about a Gallina model + differential correspondence of model and code",
        "design_ref": "5.1",
    },
    "C02": {
        "text": "Coq theorems (Properties/C02.v): every write changes exactly the addressed bits (content + frame condition "
                "in one statement), read-after-write, signed truncation, commutation of disjoint writes and "
                "order-independence of any list of pairwise-disjoint writes (induction over Permutation); model tied to "
                "the code by differential runs over all geometries, prior payloads, values and write histories.",
        "note": _NOTE + " Values/payloads sampled, geometries exhaustive.",
        "technique": "Coq proof about a Gallina model + differential correspondence of model and code",
        "design_ref": "5.2",
    },
    "C17": {
        "text": "Coq theorems (Properties/C17.v) prove check = specification over the complete domain frameLength 0..8 x "
                "start 0..255 x length 1..255 (both orders) and bits 1..64, plus the access-locality corollaries; the "
                "correspondence run enumerates the same complete domain against the real functions on every run.",
        "note": _NOTE + " The model/code tie is exhaustive over the property's domain (1,175,040 cases) on every run; "
                        "CheckValue values are boundary+random.",
        "technique": "Coq proof about a Gallina model + exhaustive correspondence of model and code",
        "design_ref": "5.17",
    },
}

RULES = {
    "C17": "exhaustive: every (frameLength 0..8, start 0..255, length 1..255) x {LE,BE} and a boundary+random value "
           "grid for bits 1..64; every case is distinct; all count as non-trivial (the domain is the property's domain)",
    "C01": "all 4160 fitting (order,start,length) geometries x payload basis (zero, ones, 64 one-hot, 64 one-cold, seeded "
           "random) x {unsigned,signed}, Bit for i=0..255; non-trivial = model result non-zero; distinct by line hash",
    "C02": "all 4160 geometries x prior payloads {zero, ones, random} x unsigned/signed values (0, max, one-hot, int64 "
           "extremes, random); SetBit i=0..255; histories of 2..6 pairwise-disjoint writes in all (<=4) or 24 random orders; "
           "non-trivial = the write changed the payload; distinct by line hash",
}


_TIE_TEXT = ' In addition the model is REGENERATED from the source on every run: harness/translate translates the Go functions (go/types-checked subset) to Gallina and coq/translate/Equiv.v re-proves, for all inputs, that each translated function equals the hand-written model; a semantic change of a translated function breaks that proof obligation.'
_TIE_NOTE = " Added trusted base of the translation tie: the translator harness/translate/main.go (unverified Go program) and Translate/GoSem.v's reading of Go's integer semantics."
for _pid in ['C01', 'C02', 'C17']:
    PROPERTIES[_pid] = dict(PROPERTIES[_pid], text=PROPERTIES[_pid]["text"] + _TIE_TEXT, note=PROPERTIES[_pid]["note"] + _TIE_NOTE)


def harness_args(pid, tier, seed):
    if pid == "C17":
        return ["c17", seed]
    if pid == "C01":
        return ["c01", seed, 4 if tier == "quick" else 400]
    return ["c02", seed] + ([2, 2000] if tier == "quick" else [40, 60000])


def harness_args_386(pid, seed):
    """second architecture (32-bit int): the C17 domain stays exhaustive; C01/C02 use the quick sample sizes"""
    if pid == "C17":
        return ["c17", seed]
    if pid == "C01":
        return ["c01", seed, 2]
    return ["c02", seed, 1, 1000]


def run(res, replay=None):
    pid = res.id
    vlib.proof_stage(res)
    translate_tie.run_tie(res, ['can'])
    vlib.standard_run(
        res, "can", harness_args(pid, res.tier, res.seed), "can", RULES[pid],
        ["the Gallina model Can/Data.v is a faithful transcription of data.go / reinterpret.go: checked on every run by the "
         "differential comparison (exhaustive over geometries / the C17 domain; payload and value axes sampled)",
         "Go semantics for shifts >= width and uint8/uint16/uint64 wrap-around as written in Can/Data.v (amd64)"],
        exhaustive=(pid == "C17"), also_goarch="386", goarch_args=harness_args_386(pid, res.seed))
