"""C01, C02, C17: bit core (data.go, internal/reinterpret). DESIGN.md 5.1, 5.2, 5.17."""
import json
import os
import shutil

import vlib

RULES = {
    "C17": "exhaustive: every (frameLength 0..8, start 0..255, length 1..255) x {LE,BE} and a boundary+random value "
           "grid for bits 1..64; every case is distinct; all count as non-trivial (the domain is the property's domain)",
    "C01": "all 4160 fitting (order,start,length) geometries x payload basis (zero, ones, 64 one-hot, 64 one-cold, seeded "
           "random) x {unsigned,signed}, Bit for i=0..255; non-trivial = model result non-zero; distinct by line hash",
    "C02": "all 4160 geometries x prior payloads {zero, ones, random} x unsigned/signed values (0, max, one-hot, int64 "
           "extremes, random); SetBit i=0..255; histories of 2..6 pairwise-disjoint writes in all (<=4) or 24 random orders; "
           "non-trivial = the write changed the payload; distinct by line hash",
}


def harness_args(pid, tier, seed):
    if pid == "C17":
        return ["c17", str(seed)]
    if pid == "C01":
        return ["c01", str(seed), "4" if tier == "quick" else "400"]
    return ["c02", str(seed)] + (["2", "2000"] if tier == "quick" else ["40", "60000"])


def run(res, replay=None):
    pid = res.id
    vlib.proof_stage(res)
    res.corr_obligations = ["impl(%s observations) = extracted model on every generated case" % pid]
    scratch = vlib.scratch_dir()
    try:
        exe, log = vlib.build_harness("can", scratch)
        if exe is None:
            res.violation("harness no longer builds against /repo (broken tie)", {"build_log": log[-3000:]}, no_input=True)
            return
        drv = vlib.build_driver("can")
        rc, out, err = vlib.run_pipe(exe, harness_args(pid, res.tier, res.seed), drv, [])
        stats = None
        mism = []
        for line in out.splitlines():
            if line.startswith("STATS "):
                stats = json.loads(line[6:])
            elif line.startswith("MISMATCH "):
                mism.append(line[9:])
        if rc != 0 or stats is None:
            res.violation("implementation harness or model driver failed (rc=%s)" % rc,
                          {"stderr": err[-2000:], "stdout_tail": out[-1000:]}, no_input=True)
            return
        res.cov.update({
            "evaluations": stats["cases"],
            "distinct_nontrivial": stats["distinct_nontrivial"],
            "rule": RULES[pid],
            "samples": stats["samples"],
            "kinds": stats["kinds"],
            "exhaustive": pid == "C17",
            "mismatches": stats["mismatches"],
        })
        res.assumptions = [
            "the Gallina model Can/Data.v is a faithful transcription of data.go / reinterpret.go (checked by this run's "
            "differential comparison, exhaustive over geometries; payload/value axis sampled)" if pid != "C17" else
            "model = code is checked exhaustively over the property's whole (frameLength,start,length) domain on every run",
            "amd64 Go semantics for shifts >= width and uint8/uint64 wrap-around as written in Can/Data.v",
        ]
        for m in mism[:5]:
            obs, _, model = m.partition(" || model=")
            res.violation("implementation disagrees with the specification (model = spec is a theorem): %s ; spec says %s" % (obs, model),
                          {"observation": obs, "spec_value": model, "how": "line format documented in harness/can/main.go; "
                           "replay with: python3 check.py %s %s" % (pid, res.tier)})
    finally:
        shutil.rmtree(scratch, ignore_errors=True)
