"""Translation tie for the DBC compiler (stage `compile_tie` of C05, DESIGN.md 9.6 "Translation tie for the DBC
compiler"): regenerate Gallina definitions of compiler.collectDescriptors / addMetadata and of the comparators
of sortDescriptors from the CURRENT internal/generate/compile.go (harness/compiletrans) and re-prove, for all
definition lists / databases, that they equal the hand model Dbc/Compile.v (coq/translate/CompileGlue.v +
CompileEquiv.v).

    run_compile_tie(res)  -> True iff the tie holds

A translator error (construct outside the subset, file:line) or a lemma that no longer checks is reported as a
VIOLATION naming the function / lemma, without a failing input (the differential run of the same check may find
one). Counts go to res.cov["compile_translation_tie"]. No PROPERTIES table: check.py does not treat this module
as a family."""
import os
import re
import shutil
import sys
import time

if __name__ == "__main__":  # python3 checks/compile_tie.py
    sys.path.insert(0, os.path.dirname(os.path.dirname(os.path.abspath(__file__))))
import vlib  # noqa: E402
from checks import translate_tie  # noqa: E402  (reused: _enclosing, COQ_MEM_KB)

TDIR = os.path.join(vlib.COQ, "translate")
_LEMMA = re.compile(r"^\s*Lemma\s+(TC_\w+_eq)\b", re.M)
HAND_ONLY = ["Compile() itself (parse, then the three passes in this order)",
             "the traversal of sortDescriptors and sort.Slice's algorithm (Base/Sort.v; only the comparators are translated)",
             "SendType.UnmarshalString (sendtype.go; callee of addMetadata, glue SendType_UnmarshalString)",
             "Database.Node/Message/Signal (database.go: tied by group lookup of Equiv.v, used here through CompileGlue.v)",
             "compileError.Error() texts (warnings are compared as kind + position)"]
TIE_TEXT = (" In addition the compiler passes are REGENERATED from the source on every run: harness/compiletrans translates "
            "compiler.collectDescriptors, compiler.addMetadata and the four sort.Slice comparators of sortDescriptors "
            "(internal/generate/compile.go; strict subset, go/types-checked) to Gallina and coq/translate/CompileEquiv.v re-proves, "
            "for all definition lists, databases and warning lists, that they equal collect_step / meta_step / node_less, "
            "msg_less, sig_less, vd_less of Dbc/Compile.v (lemmas TC_*_eq).")
TRUSTED = ("compiler translation tie: the translator harness/compiletrans/main.go (unverified Go program; go/parser, go/types, "
           "x/tools/go/packages) with its reading of Go's statement semantics (compiler value = (database, warnings); a pointer "
           "returned by Database.Node/Message/Signal = the first matching element, a write through it = replacing that element, "
           "distinct elements do not alias; owned &T{} literals are values until appended; range loops = fold_left; reason texts "
           "-> warning kinds) and coq/translate/CompileGlue.v (field correspondence, conversions, SendType.UnmarshalString)")


def _coqc(scratch, fname, timeout):
    cmd = "ulimit -v %d; timeout %d coqc -Q %s CanTranslated -Q %s CanVerif -w -notation-overridden %s" % (
        translate_tie.COQ_MEM_KB, timeout, scratch, os.path.join(vlib.COQ, "theories"), fname)
    return vlib.sh(["bash", "-c", cmd], cwd=scratch)


def run_compile_tie(res, timeout=240):
    t0 = time.time()
    cov = {"ok": False, "repo": vlib.REPO}
    res.cov["compile_translation_tie"] = cov
    name = ("CompileTranslated.v regenerated from internal/generate/compile.go and proved equal to the hand model "
            "Dbc/Compile.v (coq/translate/CompileEquiv.v)")

    def broken(what, detail):
        cov["wall_s"] = round(time.time() - t0, 2)
        cov["failure"] = what
        _hook_finish(res, name)
        d = {"correspondence": name, "repo": vlib.REPO}
        d.update(detail)
        res.violation("translated compiler source no longer equals the model: " + what, d, no_input=True)
        return False

    esrc = open(os.path.join(TDIR, "CompileEquiv.v"), encoding="utf-8").read()
    lemmas = _LEMMA.findall(vlib.strip_coq_comments(esrc))
    scratch = vlib.scratch_dir()
    try:
        exe, log = vlib.build_harness("compiletrans", scratch)
        if exe is None:
            return broken("the translator (harness/compiletrans) does not build in the source tree", {"build_log": log[-3000:]})
        cmd = "ulimit -v 8000000; timeout 120 %s %s %s" % (exe, vlib.REPO, scratch)
        rc, out = vlib.sh(["bash", "-c", cmd], env=vlib.go_env())
        cov["translate_s"] = round(time.time() - t0, 2)
        if rc != 0:
            errs = [ln[len("TRANSLATE-ERROR "):] for ln in out.splitlines() if ln.startswith("TRANSLATE-ERROR ")]
            first = errs[0] if errs else "translator exit status %d" % rc
            return broken("translator: " + first, {"translator_messages": errs[:20], "output_tail": out[-2000:]})
        translated, files = {}, []
        for ln in out.splitlines():
            p = ln.split()
            if p[:1] == ["TRANSLATED"]:
                translated[p[1]] = p[2]
            elif p[:1] == ["FILES"]:
                files = p[1:]
        cov["functions_translated"] = sorted(translated)
        cov["lemmas"] = lemmas
        cov["hand_model_correspondence_only"] = HAND_ONLY
        targets = ["theories/Base/Sort.vo", "theories/Dbc/Ast.vo", "theories/Descriptor/Types.vo", "theories/Descriptor/Lookup.vo",
                   "theories/Gen/Message.vo", "theories/Dbc/Compile.vo"]
        rc, mk = vlib.sh(["bash", "-c", "ulimit -v %d; exec %s %s" % (
            translate_tie.COQ_MEM_KB, os.path.join(vlib.ROOT, "tools", "coqmake.sh"), " ".join(targets))], timeout=3400)
        if rc != 0:
            return broken("the Coq theories the tie needs do not build (%s)" % " ".join(targets), {"log_tail": mk[-2000:]})
        shutil.copy(os.path.join(TDIR, "CompileGlue.v"), os.path.join(scratch, "CompileGlue.v"))
        for f, who in (("CompileGlue.v", "coq/translate/CompileGlue.v no longer fits Dbc/Ast.v / Descriptor/Types.v / Dbc/Compile.v"),
                       ("CompileTranslated.v", "a struct field, conversion, callee or type-switch case the glue does not define, or a "
                                               "function that no longer fits the model's types")):
            rc, o1 = _coqc(scratch, f, timeout)
            if rc != 0:
                return broken("the regenerated %s is rejected by coqc (%s): %s" % (f, who, " ".join(o1.split())[:300]),
                              {"coqc_output": o1[-3000:]})
        full = esrc + "\nDefinition compile_tie_all_lemmas__ := (%s, tt).\nPrint Assumptions compile_tie_all_lemmas__.\n" % ", ".join(
            "@" + l for l in lemmas)
        open(os.path.join(scratch, "CompileEquiv.v"), "w", encoding="utf-8").write(full)
        rc, o2 = _coqc(scratch, "CompileEquiv.v", timeout)
        cov["go_files"] = files
        if rc != 0:
            lines = full.split("\n")
            m = re.search(r'File "[^"]*CompileEquiv\.v", line (\d+), characters [\d-]+:\s*\n(?:Warning[^\n]*\n)*Error:?\s*(.*)', o2, re.S)
            if m:
                ln = int(m.group(1))
                lemma = translate_tie._enclosing(lines, ln) or "?"
                err = " ".join(m.group(2).split())[:240]
                fn = next((f for f in sorted(translated, key=len, reverse=True)
                           if f.replace("sortDescriptors_", "") in lemma), "")
                where = translated.get(fn, "")
                tsrc = open(os.path.join(scratch, "CompileTranslated.v"), encoding="utf-8").read()
                dm = re.search(r"Definition %s(_step)? .*?\.\n\n" % re.escape(fn), tsrc, re.S) if fn else None
                what = "lemma %s (coq/translate/CompileEquiv.v) no longer checks against the regenerated %s%s: %s" % (
                    lemma, fn or "CompileTranslated.v", " (%s)" % where if where else "", err)
                return broken(what, {"lemma": lemma, "equiv_line": ln, "go_function": fn, "go_position": where, "coq_error": err,
                                     "regenerated_definition": dm.group(0).strip()[:6000] if dm else ""})
            why = "timeout" if rc == 124 else "rc=%d" % rc
            return broken("CompileEquiv.v does not compile against the regenerated CompileTranslated.v (%s)" % why,
                          {"coqc_output": o2[-3000:]})
        closed = len(re.findall(r"Closed under the global context", o2))
        cov["closed_under_global_context"] = bool(closed == 1)
        if closed != 1 or "Axioms:" in o2:
            return broken("the TC_ lemmas are not closed under the global context: " + " ".join(o2.split())[-300:],
                          {"print_assumptions": o2[-3000:]})
        cov["ok"] = True
        cov["wall_s"] = round(time.time() - t0, 2)
        line = ("CompileTranslated.v regenerated from %s's current %s (%s) and proved equal to the hand model Dbc/Compile.v for all "
                "definition lists / databases (CompileEquiv.v: %s; closed under the global context); hand model, correspondence "
                "only: %s" % (vlib.REPO, "|".join(files) or "source", " ".join(sorted(translated)), " ".join(lemmas),
                              "; ".join(HAND_ONLY)))
        res.corr_obligations.append(line)
        _hook_finish(res, line)
        return True
    finally:
        shutil.rmtree(scratch, ignore_errors=True)


def _hook_finish(res, line):
    """vlib.standard_run replaces res.corr_obligations and res.assumptions; put the tie's lines back when the
    evidence is written, and list violations that carry a concrete failing input first."""
    if getattr(res, "_ctie_lines", None) is not None:
        res._ctie_lines.append(line)
        return
    res._ctie_lines = [line]
    orig = res.finish

    def finish(*a, **kw):
        for ln in res._ctie_lines:
            if ln not in res.corr_obligations:
                res.corr_obligations.append(ln)
        if TRUSTED not in res.assumptions:
            res.assumptions = list(res.assumptions) + [TRUSTED]
        res.violations.sort(key=lambda v: bool(v[2]))  # stable: concrete inputs first
        return orig(*a, **kw)

    res.finish = finish


if __name__ == "__main__":
    import json
    _res = vlib.Result("CTIE", "quick", 1)
    _ok = run_compile_tie(_res)
    print(json.dumps(_res.cov["compile_translation_tie"], indent=1))
    for _v in _res.violations:
        print("BROKEN TIE: " + _v[0])
    print("\n".join(_res.corr_obligations))
    sys.exit(0 if _ok else 1)
