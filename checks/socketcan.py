"""C06, C07: SocketCAN wire format and stream reassembly (pkg/socketcan, frame.go Validate).
DESIGN.md 5.6, 5.7."""
import vlib
from checks import translate_tie

_NOTE = ("Trusted: Coq 8.16.1 kernel; extraction (ExtrOcamlBasic) + OCaml 4.13.1; the hand-written models "
         "Socketcan/Wire.v, Receiver.v, Transmitter.v, validated against the code through the public API by the "
         "correspondence run; Go harness / OCaml driver / check.py glue. Print Assumptions: closed under the global "
         "context (no axioms). ")

PROPERTIES = {
    "C06": {
        "text": "Coq theorems (Properties/C06.v) prove, with no bound other than the Go type ranges: Validate accepts exactly "
                "the frames whose ID fits its format and whose length is 0..8; for every valid frame the bytes handed to "
                "conn.Write are exactly the 16 bytes of struct can_frame (little-endian can_id = ID + 2^31 if extended + 2^30 "
                "if remote, length in byte 4, zero padding, data in bytes 8..15); for ALL 2^128 16-byte blocks the receiver "
                "reports flags from bits 31/30, the ID masked to 29/11 bits, the dlc byte, the data, error iff bit 29, error "
                "class = can_id without bit 29 and the detail bytes at the offsets of linux/can/error.h; and every valid frame "
                "survives transmit-then-receive unchanged. The specification (WireSpec.v) is arithmetic only, the model uses "
                "the bit operators of the Go code; equality is proved by bit-extensionality. The model is tied to the code on "
                "every run through the public API (fake net.Conn, scripted reader): all 2^11 standard IDs x flags x lengths "
                "exhaustively, extended/out-of-range IDs (boundary, one-hot, one-cold, random), lengths 9..255, and blocks for "
                "every flag combination x ID patterns x dlc x payloads (+ random padding) plus random blocks.",
        "note": _NOTE + "The standard-ID/flag/length lattice of the correspondence is exhaustive; extended IDs, payloads and "
                        "blocks are sampled (structured + random). Transmitting a frame that fails validation is outside the "
                        "property; there the implementation is compared with the model only.",
        "technique": "Coq proof about a Gallina model + differential correspondence of model and code through the public API",
        "design_ref": "5.6",
    },
    "C07": {
        "text": "Coq theorems (Properties/C07.v) about a Gallina model of bufio.Scanner.Scan (Go 1.23) with the receiver's "
                "split function, run against an arbitrary list of read results (data, data+error, error, EOF, empty reads): "
                "for EVERY byte stream and EVERY segmentation into reads the client sees floor(n/16) frames in stream order, "
                "the k-th decoded from bytes 16k..16k+15, the trailing partial block dropped and Err() = nil; an error at read "
                "k (with or without data) is reported only after the frames completed by the bytes delivered up to and "
                "including read k; 101 consecutive empty reads give io.ErrNoProgress after the complete frames; reception stays "
                "ended; the interceptor is called exactly once per delivered frame with that frame; Scan never panics, hangs or "
                "hits the 64 KiB token limit. Proof by induction over the read list with the buffered-prefix invariant. "
                "Transmitter: complete case table over the connection's answers - one 16-byte Write per successful call, "
                "interceptor iff the write succeeded and after it, no write if SetWriteDeadline failed. The correspondence run "
                "drives the real Receiver with a scripted io.ReadCloser whose log of returned reads is what the model consumes "
                "(every constant chunk size 1..64 for streams of 0..6 frames + 0..15 trailing bytes, ALL cut sets of streams "
                "up to 17 bytes, seeded random partitions, an error with and without data at every read index, empty-read "
                "runs of 1..150, reads larger than the scanner buffer) and the real Transmitter with a fake net.Conn.",
        "note": _NOTE + "bufio.Scanner is modelled, not verified (oracle, DESIGN.md section 3): buffer shifting/doubling is "
                        "abstracted as re-segmentation of reads, a reader violating 0 <= n <= len(p) is not modelled. "
                        "TransmitFrame discards the byte count returned by Write: model = code, so a Write answering "
                        "(n < 16, nil) counts as a success and is never followed by a second Write "
                        "(C07_transmit_ignores_write_count). "
                        "Segmentations are exhaustive only for streams up to 17 bytes (20 in the thorough tier).",
        "technique": "Coq proof (induction over read results) about a Gallina model + differential correspondence under "
                     "scripted segmentations and fault injection",
        "design_ref": "5.7",
    },
}

RULES = {
    "C06": "V/T lines: every standard ID 0..0x7ff x {std,ext} x {data,remote} x length 0..8 (exhaustive), extended and "
           "out-of-range IDs (26 boundaries, 32 one-hot, 29 one-cold, seeded random) x flags x lengths, lengths 9..255, payload "
           "basis; R lines: 8 flag combinations x ID patterns x dlc {0..9,15,16,255} x payloads (zero, ones, ramp, random; "
           "random padding on every other) + payload basis + seeded random blocks; C lines: 2..8 goroutines transmitting "
           "distinct valid frames on ONE shared Transmitter whose conn holds every Write until all are inside Write, the "
           "multiset of written blocks compared with the frames' layouts (10 rounds quick, 100 thorough; normal build, no "
           "-race); distinct by line hash; every case counts "
           "as non-trivial (each exercises a different ID/flag/length/byte pattern)",
    "C07": "S lines = one scripted connection each: const chunk sizes 1..64 x 112 stream lengths; all cut sets for n <= 17 "
           "(20 thorough); random partitions with empty reads; error without/with data at every read index of 7 base "
           "segmentations per stream; empty-read runs {1,2,50,99,100,101,102,150} at 6 positions; long streams read through "
           "the 4096-byte buffer; X lines = sequences of 1..5 TransmitFrame calls; all 40 answer combinations (ctx with/without "
           "deadline x SetWriteDeadline ok/failed x Write answering n in {0,1,8,15,16} x {nil, error}) exhaustively as "
           "single calls and as first call of a sequence, then random sequences. "
           "non-trivial = at least one complete frame or a non-nil terminating error; distinct by line hash",
}


_TIE_TEXT = ' In addition the model is REGENERATED from the source on every run: harness/translate translates the Go functions (go/types-checked subset) to Gallina and coq/translate/Equiv.v re-proves, for all inputs, that each translated function equals the hand-written model; a semantic change of a translated function breaks that proof obligation.'
_TIE_NOTE = " Added trusted base of the translation tie: the translator harness/translate/main.go (unverified Go program) and Translate/GoSem.v's reading of Go's integer semantics."
for _pid in ['C06']:
    PROPERTIES[_pid] = dict(PROPERTIES[_pid], text=PROPERTIES[_pid]["text"] + _TIE_TEXT, note=PROPERTIES[_pid]["note"] + _TIE_NOTE)


def harness_args(pid, tier, seed):
    return ["c06" if pid == "C06" else "c07", seed, "thorough" if tier == "thorough" else "quick"]


def run(res, replay=None):
    pid = res.id
    vlib.proof_stage(res)
    assumptions = {
        "C06": [
            "the Gallina model Socketcan/Wire.v is a faithful transcription of pkg/socketcan/frame.go and Frame.Validate: "
            "checked on every run through Transmitter.TransmitFrame / Receiver / Validate (standard-ID lattice exhaustive, "
            "the rest sampled)",
            "little-endian byte order of encoding/binary.LittleEndian as written in put_u32/get_u32",
        ],
        "C07": [
            "the Gallina model Socketcan/Receiver.v is a faithful model of bufio.Scanner.Scan (Go 1.23 source) + receiver.go, "
            "and Transmitter.v of transmitter.go: checked on every run against the real Receiver/Transmitter",
            "the underlying reader honours the io.Reader contract 0 <= n <= len(p) (bufio.ErrBadReadCount not modelled)",
            "a read list that ends without EOF is continued by (0, io.EOF) for ever (the harness's reader does so)",
        ],
    }[pid]
    if pid == "C06":
        translate_tie.run_tie(res, ["wire"])
    vlib.standard_run(res, "socketcan", harness_args(pid, res.tier, res.seed), "socketcan", RULES[pid], assumptions,
                      exhaustive=False, timeout=3000 if res.tier == "thorough" else 900)
