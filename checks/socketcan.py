"""C06, C07: SocketCAN wire format and stream reassembly (pkg/socketcan, frame.go Validate).
DESIGN.md 5.6, 5.7."""
import vlib
from checks import translate_tie

_NOTE = ("Trusted: Coq 8.16.1 kernel; extraction (ExtrOcamlBasic) + OCaml 4.13.1; the hand-written models "
         "Socketcan/Wire.v, Receiver.v, Transmitter.v, validated against the code through the public API by the "
         "correspondence run; Go harness / OCaml driver / check.py glue. Print Assumptions: closed under the global "
         "context (no axioms). ")

PROPERTIES = {
    "C06": {
        "text": "Coq theorems (Properties/C06.v) prove, with no bound other than the Go type ranges: Validate accepts exactly "
                "the frames whose ID fits its format and whose length is 0..8; for every valid frame the bytes handed to "
                "conn.Write are exactly the 16 bytes of struct can_frame (little-endian can_id = ID + 2^31 if extended + 2^30 "
                "if remote, length in byte 4, zero padding, data in bytes 8..15); for ALL 2^128 16-byte blocks the receiver "
                "reports flags from bits 31/30, the ID masked to 29/11 bits, the dlc byte, the data, error iff bit 29, error "
                "class = can_id without bit 29 and the detail bytes at the offsets of linux/can/error.h; and every valid frame "
                "survives transmit-then-receive unchanged. The specification (WireSpec.v) is arithmetic only, the model uses "
                "the bit operators of the Go code; equality is proved by bit-extensionality. The model is tied to the code on "
                "every run through the public API (fake net.Conn, scripted reader): all 2^11 standard IDs x flags x lengths "
                "exhaustively, extended/out-of-range IDs (boundary, one-hot, one-cold, random), lengths 9..255, and blocks for "
                "every flag combination x ID patterns x dlc x payloads (+ random padding) plus random blocks. A third of "
                "the structured and a quarter of the random blocks are ALSO delivered unaligned (Q lines): 1..4 blocks as one "
                "byte stream through one Receiver, cut at an arbitrary offset, inside every block, by a constant read size "
                "that is not 16, by a random partition, or all blocks in one read; the k-th Receive must yield exactly "
                "what the theorem says about the k-th block, so 'a 16-byte block yields the frame' is checked for "
                "unaligned reads too and not only for one Read = one block. The receive side covers ALL 256 values of the "
                "length byte x 8 flag combinations x 4 IDs; the transmit side also runs valid frames on connections whose "
                "first Write of a call fails with a real error kind (ENOBUFS, EAGAIN, EINTR, EPIPE, ECONNRESET, a net.Error "
                "with Timeout/Temporary, io.ErrShortWrite, os.ErrDeadlineExceeded, context.DeadlineExceeded, also wrapped "
                "in os.SyscallError / net.OpError) after accepting n = 0..16 bytes while any further Write would succeed: "
                "still exactly one Write of the frame's 16 bytes and that error returned. A third of the unaligned block "
                "batches runs again through a read script WITH a fault (QF lines: an error between or inside blocks, data "
                "and error in one Read, io.EOF, injected errors and real timeout-kind net.Errors) after which the scripted "
                "stream continues while the client keeps calling Receive: every block completed by the bytes delivered up "
                "to and including the faulting Read decodes per the theorem, every other call yields nothing - no frame is "
                "ever decoded from a wrong offset (reception stays ended, C07).",
        "note": _NOTE + "The standard-ID/flag/length lattice of the correspondence is exhaustive; extended IDs, payloads and "
                        "blocks are sampled (structured + random). That the decoded frame does not depend on how the "
                        "block is cut into reads is C07's theorem (C07_segmentation_independent); C06 only samples it "
                        "(Q lines). Transmitting a frame that fails validation is outside the "
                        "property; there the implementation is compared with the model only.",
        "technique": "Coq proof about a Gallina model + differential correspondence of model and code through the public API",
        "design_ref": "5.6",
    },
    "C07": {
        "text": "Coq theorems (Properties/C07.v) about a Gallina model of bufio.Scanner.Scan (Go 1.23) with the receiver's "
                "split function, run against an arbitrary list of read results (data, data+error, error, EOF, empty reads): "
                "for EVERY byte stream and EVERY segmentation into reads the client sees floor(n/16) frames in stream order, "
                "the k-th decoded from bytes 16k..16k+15, the trailing partial block dropped and Err() = nil; an error at read "
                "k (with or without data) is reported only after the frames completed by the bytes delivered up to and "
                "including read k; 101 consecutive empty reads give io.ErrNoProgress after the complete frames; reception stays "
                "ended; the interceptor is called exactly once per delivered frame with that frame; Scan never panics, hangs or "
                "hits the 64 KiB token limit. Proof by induction over the read list with the buffered-prefix invariant. "
                "Transmitter: complete case table over the connection's answers - one 16-byte Write per successful call, "
                "interceptor iff the write succeeded and after it, no write if SetWriteDeadline failed. The correspondence run "
                "drives the real Receiver with a scripted io.ReadCloser whose log of returned reads is what the model consumes "
                "(every constant chunk size 1..64 for streams of 0..6 frames + 0..15 trailing bytes, ALL cut sets of streams "
                "up to 17 bytes, seeded random partitions, an error with and without data at every read index, empty-read "
                "runs of 1..150, reads larger than the scanner buffer) and the real Transmitter with a fake net.Conn. "
                "SEVERAL receivers / transmitters in one process: Socketcan/Process.v models a process as a finite map of "
                "receiver states driven by operations tagged with the receiver they address (NewReceiver with/without an "
                "interceptor, Receive, Close); C07_receivers_independent proves that under EVERY interleaving receiver i "
                "shows what the single-receiver model shows on the operations addressed to i, C07_receiver_in_process that "
                "this is the floor(n/16) frames of ITS OWN stream with one call of ITS OWN interceptor each (none if it has "
                "none); C07_transmitter_in_process is the analogue for transmitters. The correspondence run drives 1..5 real "
                "Receivers at a time (M lines: own scripted connection and own tagged interceptor each; every with/without-"
                "interceptor assignment for up to 3 receivers in both creation orders; life cycles with Close once/twice/"
                "three times - also while frames are buffered - followed by new receivers; seeded random create/Receive/"
                "Close schedules; many frames per read) and 1..5 real Transmitters (N lines: own connection and own tagged "
                "interceptor each), records for every call which receiver's/transmitter's interceptor and connection were "
                "touched, and compares the whole tagged observation sequence with the process model. Transmit faults: the "
                "first Write of a call answering (n, err) for every n = 0..16 x 15 real error kinds (syscall.ENOBUFS/EAGAIN/"
                "EINTR/EPIPE/ECONNRESET, a net.Error with Timeout/Temporary, io.ErrShortWrite, os.ErrDeadlineExceeded, "
                "context.DeadlineExceeded, and os.SyscallError / net.OpError wrappers of them) with every later Write of the "
                "call succeeding - one Write, no interceptor, the error returned (C07_transmit_cases holds for every error "
                "value); 2..8 goroutines on ONE shared Transmitter whose connection holds every Write until all are "
                "pending - each pending Write carries its own frame (C lines). CONNECTION GLUE under the Receiver/Transmitter: "
                "every 4th read script (and every error-injection script) also runs on a Receiver over the REAL fileConn "
                "(fileconn.go, the net.Conn behind Dial(\"can\"); reached through an export file overlaid into package "
                "socketcan) whose file is the scripted reader (SF lines), every 3rd transmit sequence on a Transmitter over "
                "fileConn on the fake conn (XF lines): the wrapper must be transparent - same (n, err) sequence, errors as "
                "*net.OpError of the right operation and network around the file's error with one *os.PathError level "
                "removed (kinds compared, not texts) - so the unchanged model applies to the logged file reads. U lines: a "
                "Transmitter and a Receiver on ONE shared connection of every kind Dial returns - fileConn on a fake duplex "
                "file (transmit faults / deadlines interleaved with scripted reads; the file must see SetWriteDeadline and "
                "Write only), the real Dial(\"udp\") multicast transceiver, real Dial(\"tcp\") and Dial(\"unix\") "
                "connections to an echoing loopback peer: every frame sent comes back decoded, and a transmit deadline that "
                "has passed does not end reception. PACKET connections (G lines): a scripted packet reader (and the real "
                "udp transceiver) hands out one datagram per Read and discards what does not fit the slice it was offered; "
                "Socketcan/ScanBuffer.v models the geometry of bufio.Scanner's buffer (start, end, len; shift/grow before a "
                "Read) and C07_scan_offers_room / C07_every_read_is_offered_room prove that the receiver's scanner keeps its "
                "4096-byte buffer and offers EVERY Read at least 2033 bytes, so datagrams of up to 127 frames are never "
                "truncated and the stream theorems apply to the concatenation of the datagrams. The harness logs len(p) of "
                "every Read; the driver runs the extracted geometry model next to it, flags a Read that was offered less room "
                "than the model says and thereby lost bytes of its datagram (clause frames-lost-to-a-short-read-buffer), and "
                "compares the frames with those of the datagrams cut to the room the MODEL offers (datagrams of 1..64 "
                "frames, alone / after an 8-byte fragment / in sequences, arbitrary odd sizes, empty datagrams, and "
                "datagrams of 2032..5000 bytes after 0..200 frames, where the model must predict the cut exactly). The "
                "error-injection scripts also use real error kinds (among them read-deadline errors with Timeout() true) "
                "and every second one is POLLED on: Receive is called until it has returned false four times while the "
                "scripted stream continues after the fault (reception stays ended). Y lines: histories of 3..12 "
                "TransmitFrame calls by 1..3 Transmitters on ONE fake conn with contexts reused along the history (the same "
                "deadline twice in a row, alternating deadlines, none) and SetWriteDeadline / Write faults at random steps; "
                "the conn records which deadline it was given and C07_transmit_cases is compared with the event list of "
                "EVERY call: a call whose context has a deadline sets its own deadline on the conn before it writes. "
                "CONNECTION GLUE MODEL (Socketcan/Glue.v, theorems C07_glue_*): fileConn, udpTxRx and dialCtx as forwarding "
                "machines over scripted underlying answers, error values as Unwrap-chain trees. Proved for every history and "
                "script: each conn operation makes exactly the listed underlying calls in order and no others, counts and data "
                "pass through, an error comes back iff the underlying call failed - on fileConn as OpError{Op label, Net} around "
                "the file's error with exactly one PathError level removed (C07_glue_unwrap_one_level); a Receiver / Transmitter "
                "over fileConn sees what it sees over the script with errors mapped (C07_glue_receiver_over_fileconn, "
                "_receiver_stream, _transmitter_over_fileconn), so the theorems above carry over; dialCtx never leaks the "
                "provider's conn under any schedule (C07_glue_dial_no_leak, _dial_completes). FC / UD / DC lines run seeded "
                "histories on the REAL fileConn (scripted file), the REAL udpTxRx (scripted packet conns under its two "
                "ipv4.PacketConn for deadlines/Close incl. faults, Close twice, operations after Close; real loopback UDP "
                "sockets for Read/Write) and the REAL dialCtx (scripted provider x ctx timing, explicit synchronisation), "
                "and the extracted model recomputes every operation: calls seen, n, data, error structure. "
                "THE EMULATED BUS (Socketcan/Emulator.v, theorems C07_emu_*): emulator.go has no fan-out code of its own - every "
                "endpoint is a udpTxRx on one multicast group, the kernel queues a datagram at every member socket - so the bus "
                "is modelled as a list of endpoints with the datagrams handed to each; proved for every connect / disconnect / "
                "transmit history: an endpoint holds exactly the frames transmitted while it was open (its own included), once "
                "each, in history order (C07_emu_delivery), per-sender order is preserved (C07_emu_per_sender_order), and a "
                "Receiver on an endpoint returns exactly the valid frames transmitted to it - transmit through the emulator "
                "then receive is the identity (C07_emu_end_to_end, with C06_roundtrip and C07_any_segmentation). E lines: "
                "seeded histories on the REAL Emulator (Emulator.Receiver(), Dial(\"udp\", Addr()) endpoints with a Receiver "
                "and a Transmitter, Emulator.TransmitFrame, TransmitFrame on endpoints - also closed ones -, Close) over real "
                "loopback multicast; what every endpoint's Receiver returned over the whole history is compared with the model. "
                "ACTION-SEQUENCE TIE: harness/sockwire reads receiver.go and transmitter.go statement by statement; "
                "Receiver.Receive and Transmitter.TransmitFrame must equal the programs receive_prog / transmit_prog of "
                "Socketcan/Program.v, which C07_receive_program_is_model / C07_transmit_program_is_model prove to be the models "
                "Receiver.receive / Transmitter.transmit when executed step by step (the other functions of the two files are "
                "compared with reference texts); a difference is reported with the first differing statement.",
        "note": _NOTE + "Glue model boundary: ipv4.PacketConn (x/net) between udpTxRx and the sockets is not modelled; it "
                        "forwards Close and the deadline setters to the net.PacketConn it embeds (that field is replaced by a "
                        "scripted one through reflect/unsafe in the harness) but does not hand ReadFrom/WriteTo to a non-UDP "
                        "conn, so Read/Write of udpTxRx are observed on real loopback sockets only (no read/write faults there); "
                        "multicast options, udpTransceiver, dialRaw are outside. Emulator model boundary: the kernel's multicast fan-out "
                        "(every member socket gets each datagram once, in order, no loss for these small histories) is an "
                        "ASSUMPTION of Emulator.v observed by the E lines, not code of the repository; Run's sender counting / "
                        "WaitForSenders, logging and contexts are not modelled; the E lines need a multicast-capable loopback "
                        "(skipped with a message on stderr otherwise; kinds E-* in the coverage show what ran). Through fileConn a wrapped io.EOF is no longer "
                        "recognised by bufio.Scanner: Receiver.Err() is non-nil at end of stream (C07_glue_receiver_stream). "
                        "bufio.Scanner is modelled, not verified (oracle, DESIGN.md section 3): buffer shifting/doubling is "
                        "abstracted as re-segmentation of reads, a reader violating 0 <= n <= len(p) is not modelled. "
                        "TransmitFrame discards the byte count returned by Write: model = code, so a Write answering "
                        "(n < 16, nil) counts as a success and is never followed by a second Write "
                        "(C07_transmit_ignores_write_count). "
                        "Segmentations are exhaustive only for streams up to 17 bytes (20 in the thorough tier). "
                        "In the process model (Process.v) receivers and transmitters are VALUES, so the independence "
                        "theorems hold by construction of the model; that the Go objects share no memory (scan buffers "
                        "from a package-level pool, option structs reached through a shared pointer, ...) is a fact about "
                        "Go aliasing that the functional model cannot express - it is OBSERVED by the M/N lines on the "
                        "sampled schedules (sequential interleavings in one goroutine; concurrent use of different "
                        "receivers is not exercised), not proved. Receiver.Close only forwards to the connection; what "
                        "the connection answers to reads after Close (the harness: keeps serving, or an error) is part "
                        "of the logged read list the model consumes. Connection kinds exercised in this sandbox: can "
                        "(fileConn, on a fake file - no CAN interface here, dialRaw itself is not run), udp (real multicast "
                        "transceiver via Dial, works offline here), tcp and unix (real loopback sockets); if a kind cannot be "
                        "set up the harness skips its U lines and says so on stderr (the kind counts U-udp/U-tcp/U-unix in the "
                        "evidence show what ran). In the SF/XF/U lines the glue is observed for transparency with respect to the "
                        "Receiver/Transmitter models; its own model (Glue.v) is compared in the FC/UD/DC lines. The shared-"
                        "connection scenarios never transmit without a deadline after a call with one (TransmitFrame leaves "
                        "the connection's write deadline set; see the report), and a scenario whose short-deadline call was "
                        "itself overtaken by its deadline (process stall) is dropped. The buffer-geometry model "
                        "(ScanBuffer.v) is a separate small model of scan.go:193-234, not derived from Receiver.v's scanner "
                        "(which abstracts the buffer as a list): it is tied to the code by the G lines only, where len(p) of "
                        "every Read must be at least - and for oversize datagrams behaves exactly as - what the model offers.",
        "technique": "Coq proof (induction over read results) about a Gallina model + differential correspondence under "
                     "scripted segmentations and fault injection",
        "design_ref": "5.7",
    },
}

RULES = {
    "C06": "V/T lines: every standard ID 0..0x7ff x {std,ext} x {data,remote} x length 0..8 (exhaustive), extended and "
           "out-of-range IDs (26 boundaries, 32 one-hot, 29 one-cold, seeded random) x flags x lengths, lengths 9..255, payload "
           "basis; R lines: 8 flag combinations x ID patterns x dlc {0..9,15,16,255} x payloads (zero, ones, ramp, random; "
           "random padding on every other) + payload basis + seeded random blocks; C lines: 2..8 goroutines transmitting "
           "distinct valid frames on ONE shared Transmitter whose conn holds every Write until all are inside Write, the "
           "multiset of written blocks compared with the frames' layouts (10 rounds quick, 100 thorough; normal build, no "
           "-race); Q lines: every 3rd structured and every 4th random block again, in batches of 1..4 blocks through ONE "
           "Receiver whose reader cuts the stream at one arbitrary offset / inside every block / by a constant size "
           "1..47 not divisible by 16 / by a random partition / not at all (all blocks in one read); "
           "all 256 length bytes x 8 flag combinations x 4 IDs as R lines; X lines: valid frames, first Write of the call "
           "answering (n, real error kind) for n 0..16 x 15 kinds x with/without deadline, alone and inside a 5-call "
           "sequence, later Writes of the call succeeding; QF lines: every 3rd Q batch again with a fault in the read "
           "script (error alone or with data, EOF / injected / real kinds) and len(blocks)+3 Receive calls; "
           "FC lines: 1500 histories of Write / SetWriteDeadline on the real fileConn over a scripted file against the "
           "extracted glue model (Glue.v): the bytes reach the file unchanged, count and error structure come back as the "
           "model says; distinct by line hash; every case counts "
           "as non-trivial (each exercises a different ID/flag/length/byte pattern)",
    "C07": "S lines = one scripted connection each: const chunk sizes 1..64 x 112 stream lengths; all cut sets for n <= 17 "
           "(20 thorough); random partitions with empty reads; error without/with data at every read index of 7 base "
           "segmentations per stream; empty-read runs {1,2,50,99,100,101,102,150} at 6 positions; long streams read through "
           "the 4096-byte buffer; X lines = sequences of 1..5 TransmitFrame calls; all 40 answer combinations (ctx with/without "
           "deadline x SetWriteDeadline ok/failed x Write answering n in {0,1,8,15,16} x {nil, error}) exhaustively as "
           "single calls and as first call of a sequence, then random sequences; "
           "M lines = one process with 1..5 Receivers each: 14 with/without-interceptor assignments x 2 creation orders x 6, "
           "500 close life cycles (Close 1..3 times after 0..2 Receives, then 1..3 new receivers, all drained interleaved), "
           "1500 random create/Receive/Close schedules of 8..47 operations (streams of 0..6 frames + tail, whole-stream / "
           "constant / random reads, trailing errors, connections that fail or keep serving after Close); N lines = 1..5 "
           "Transmitters with own connection: the same 14 x 2 x 6 assignments + 400 random ones, 4..15 calls with random answers "
           "(x20 in the thorough tier); further X lines: first Write of a call answering (n, real error kind) for n 0..16 x 15 "
           "kinds x with/without deadline (alone and inside a 5-call sequence; later Writes of the call would succeed), "
           "SetWriteDeadline failing with each kind; C lines: 2..8 goroutines on one shared Transmitter, 10 rounds (100 "
           "thorough); streams contain blocks with length bytes 9..255 and fully random blocks; SF lines = every 4th S "
           "script and all error-injection scripts again through the real fileConn over the scripted file (every second "
           "error as *os.PathError); XF lines = every 3rd X sequence through fileConn; U lines = Transmitter + Receiver on "
           "one connection: 600 fileConn/duplex-file schedules, 10 each on real udp / tcp / unix connections with deadlines "
           "a few ms ahead that are allowed to pass before reception continues; G lines = packet connections: 192 "
           "datagram scripts of 1..64 frames, 300 streams cut into datagrams of arbitrary sizes (with empty datagrams), 63 "
           "oversize scripts (2032..5000 bytes after 0..200 frames), 12 scripts on the real udp transceiver; error scripts "
           "use injected + 15 real error kinds, every second one polled until 4 falses; Y lines = 150 x 3 transmitter "
           "counts x 3 context patterns call histories on one conn. FC lines = 5400 histories of 1..10 operations on the real "
           "fileConn (150 per operation kind alone, 4000 mixed, 500 Read/Close; 40% of the file's answers fail: 15 leaf error "
           "kinds under 0..3 wrappers PathError/SyscallError/OpError/%w, wrappers around nil, (n>0, err)); UD fake = 4000 "
           "histories of deadline/Close operations on the real udpTxRx over scripted packet conns, UD real = 150 Read/Write "
           "histories on loopback sockets; DC = 4 scenarios x cancel/deadline x nil/conn/typed-nil x with/without error, 4 "
           "times (x10 in the thorough tier); kinds FC*, UD-*, DC-* in the coverage. E lines = 80 histories (1000 thorough) of 4..11 operations on up to 4 endpoints "
           "of one real Emulator each (kinds E-<k>transmits). "
           "non-trivial = at least one complete frame or a non-nil terminating error; distinct by line hash",
}


_TIE_TEXT = ' In addition the model is REGENERATED from the source on every run: harness/translate translates the Go functions (go/types-checked subset) to Gallina and coq/translate/Equiv.v re-proves, for all inputs, that each translated function equals the hand-written model; a semantic change of a translated function breaks that proof obligation.'
_TIE_NOTE = " Added trusted base of the translation tie: the translator harness/translate/main.go (unverified Go program) and Translate/GoSem.v's reading of Go's integer semantics."
for _pid in ['C06']:
    PROPERTIES[_pid] = dict(PROPERTIES[_pid], text=PROPERTIES[_pid]["text"] + _TIE_TEXT,
                            note=PROPERTIES[_pid]["note"] + _TIE_NOTE + translate_tie.TIE_NOTE_WIRE)
translate_tie.describe(PROPERTIES, "C07", "(here: the split function scanFrames of receiver.go, = the model's scan_frames)",
                       translate_tie.TIE_NOTE_INT, translate_tie.TIE_NOTE_SLICE)



def _wire_stage(res):
    """ACTION-SEQUENCE TIE (DESIGN.md 9.6 "Action-sequence tie for the socketcan family"): the CURRENT text of
    pkg/socketcan/receiver.go and transmitter.go is read by the strict extractor harness/sockwire (go/parser; one node
    per statement: depth + canonical text; statement shapes outside its set are errors with file:line) and compared node
    by node (extracted first_diff) with the reference programs: Receiver.Receive and Transmitter.TransmitFrame are the
    Coq constants receive_prog / transmit_prog of Socketcan/Program.v, which C07_receive_program_is_model /
    C07_transmit_program_is_model prove to BE the models Receiver.receive / Transmitter.transmit when executed step by
    step; the other small functions (constructors, getters, Close, options) are compared with reference texts."""
    import json as _json, os as _os, subprocess, time as _t
    t0 = _t.time()
    scratch = vlib.scratch_dir()
    try:
        wexe, log = vlib.build_harness("sockwire", scratch)
        if wexe is None:
            res.violation("socketcan action-sequence extractor no longer builds (broken tie)", {"build_log": log[-3000:]}, no_input=True)
            return
        drv = vlib.build_driver("socketcan")
        files = [_os.path.join(vlib.REPO, "pkg", "socketcan", f) for f in ("receiver.go", "transmitter.go")]
        p = subprocess.run(["bash", "-c", "timeout 120 %s %s | %s wire" % (wexe, " ".join(files), drv)],
                           stdout=subprocess.PIPE, stderr=subprocess.PIPE, text=True)
    finally:
        import shutil as _sh
        _sh.rmtree(scratch, ignore_errors=True)
    how = ("harness/sockwire <repo>/pkg/socketcan/receiver.go transmitter.go | socketcan driver `wire` (extracted first_diff, "
           "receive_prog / transmit_prog of Socketcan/Program.v); the correspondence run of this check supplies a concrete failing "
           "input where the behaviour at the interfaces changed")
    stat, reported = None, 0
    for line in p.stdout.splitlines():
        text = None
        if line.startswith("SWSTAT "):
            stat = _json.loads(line[7:])
        elif line.startswith("SWERR "):
            text = "socketcan source is outside the statement shapes the action-sequence extractor accepts: %s" % line[6:][:400]
        elif line.startswith(("SWDIFF ", "SWMISSING ", "SWUNKNOWN ")):
            head, _, detail = line.partition(" || ")
            toks = head.split()
            text = ("action sequence of %s is no longer the reference program the Receiver/Transmitter model was proved for (%s): %s"
                    % (toks[1], " ".join(toks[2:]), detail[:500]))
        if text:
            reported += 1
            if reported <= 3:
                res.violation(text, {"line": line, "how": how}, no_input=True)
    if stat is None:
        res.violation("socketcan action-sequence extractor or model driver failed (rc=%s)" % p.returncode,
                      {"stderr": p.stderr[-2000:], "stdout_tail": p.stdout[-800:]}, no_input=True)
        return
    res.cov["action_sequence_tie"] = dict(stat, wall_s=round(_t.time() - t0, 1), rule=(
        "every function declaration of receiver.go and transmitter.go, statement by statement (signature, depth, canonical "
        "text) against the reference; Receive and TransmitFrame against the Coq constants proved equal to the models"))
    res.corr_obligations = list(res.corr_obligations) + [
        "the statement sequences of Receiver.Receive / Transmitter.TransmitFrame (and the constructors, getters, Close, options) "
        "read from the current source text equal the reference programs of Socketcan/Program.v, which are proved to be the models "
        "(C07_receive_program_is_model, C07_transmit_program_is_model)"]


def harness_args(pid, tier, seed):
    return ["c06" if pid == "C06" else "c07", seed, "thorough" if tier == "thorough" else "quick"]


def run(res, replay=None):
    pid = res.id
    vlib.proof_stage(res)
    assumptions = {
        "C06": [
            "the Gallina model Socketcan/Wire.v is a faithful transcription of pkg/socketcan/frame.go and Frame.Validate: "
            "checked on every run through Transmitter.TransmitFrame / Receiver / Validate (standard-ID lattice exhaustive, "
            "the rest sampled)",
            "little-endian byte order of encoding/binary.LittleEndian as written in put_u32/get_u32",
        ],
        "C07": [
            "the Gallina model Socketcan/Receiver.v is a faithful model of bufio.Scanner.Scan (Go 1.23 source) + receiver.go, "
            "and Transmitter.v of transmitter.go: checked on every run against the real Receiver/Transmitter",
            "the underlying reader honours the io.Reader contract 0 <= n <= len(p) (bufio.ErrBadReadCount not modelled)",
            "a read list that ends without EOF is continued by (0, io.EOF) for ever (the harness's reader does so)",
        ],
    }[pid]
    if pid == "C06":
        translate_tie.run_tie(res, ["wire"])
    else:
        translate_tie.run_tie(res, ["scan"])
    _wire_stage(res)    # first: its violations name the statement that changed; the run below supplies failing inputs
    wire_obl = list(res.corr_obligations)
    vlib.standard_run(res, "socketcan", harness_args(pid, res.tier, res.seed), "socketcan", RULES[pid], assumptions,
                      exhaustive=False, timeout=3000 if res.tier == "thorough" else 900)
    res.corr_obligations = list(res.corr_obligations) + wire_obl
