"""C04, C12: DBC parser (pkg/dbc/parser.go, def.go, text/scanner subset). DESIGN.md 5.4, 5.12."""
import vlib

_NOTE = ("Trusted: Coq 8.16.1 kernel; extraction (ExtrOcamlBasic) + OCaml 4.13.1; the hand-written models "
         "Dbc/Scanner.v (text/scanner subset), Dbc/Parser.v (parser.go, def.go), Dbc/DecFloat.v (strconv.ParseFloat as the "
         "correctly rounded conversion computed with Coq's Floats.SpecFloat, ParseUint, Atoi), validated against the code and "
         "against strconv/unicode by the correspondence run; Go harness (incl. its grammar generator, which also produces the "
         "expected definitions) / OCaml driver / check.py glue. Print Assumptions: closed under the global context.")

PROPERTIES = {
    "C04": {
        "text": "Coq model of the scanner subset and of every parseFrom (one-token lookahead, whitespace-mode switches, "
                "multi-line strings, numeric helpers); theorems (Properties/C04.v): parse_print_partial = parse (print ds) = Ok "
                "(elaborate ds) for every list of well-formed VERSION, BS_, BU_, BO_ with SG_ lines (plain/M/m<k>) and unknown-line "
                "definitions in the plain layout (any count and order; positions included), unknown_one (an unknown line yields one "
                "UnknownDef and does not change how the following lines are parsed), and refutations of the pre-fix discardLine (F8) "
                "and BS_ (F9). On every run a grammar-based generator (all 16 definition kinds + unknown lines, layout variants) "
                "produces texts with the definitions they denote; implementation, extracted model and expectation are compared "
                "three ways; P = implementation equals expectation.",
        "note": _NOTE + " The round-trip theorem is proved for 5 of the 17 kinds and the plain layout only (statement and list of "
                        "what is not covered in Properties/C04.v); the remaining kinds and layouts are covered by the three-way "
                        "differential run, which samples the grammar.",
        "technique": "Coq proof about a Gallina model + differential correspondence of model, code and generator-side denotation",
        "design_ref": "5.4",
    },
    "C12": {
        "text": "Coq theorem parse_total (Properties/C12.v): for EVERY byte list and every non-ASCII classification the model "
                "parser with fuel length+4 returns Ok or Err with a position inside the input, never Panic (no index operation "
                "fails) and never OutOfFuel (every loop iteration consumes input); determinism is functional-ness; "
                "error_local_partial: after well-formed VERSION/BS_/BU_/BO_+SG_/unknown definitions (plain layout) followed by any "
                "bytes that still begin with a keyword, an error is positioned inside those bytes and Defs() extends the "
                "definitions of the prefix. Locality on the implementation: generated files (all kinds, all layouts) x definition "
                "index x corruption operators (error not before the corrupted definition, Defs() = the preceding definitions), "
                "also compared with the model; arbitrary bytes: outcome kind, position and Defs() of two runs under "
                "recover()+timeout compared with the model.",
        "note": _NOTE + " What the model cannot show (other runtime panics, real termination time) is covered only by running the "
                        "implementation under recover() and a 2 s timeout. Locality holds for corruptions that leave the first token "
                        "of the corrupted definition scannable (a NUL / invalid UTF-8 byte as the very first byte after a BS_, NS_, BO_ "
                        "or SG_ definition is raised by that definition's one-token lookahead; reported as a design-inherent limitation).",
        "technique": "Coq proof about a Gallina model + differential correspondence of model and code",
        "design_ref": "5.12",
    },
}

RULES = {
    "C04": "seeded grammar generator in the Go harness: files of 0..40 definitions over the 16 dispatching kinds + unknown lines "
           "(1..8 tokens), BA_DEF_DEF_/BA_ typed by the first earlier BA_DEF_, identifiers up to 128 chars, uints up to 2^64-1, ints up "
           "to 2^53, decimal/exponent floats, strings with \\\" / backslash / UTF-8 / embedded LF and CRLF, layouts (LF/CRLF/mixed, blank "
           "lines, indentation, extra spaces, empty gaps next to punctuation, line ends inside definitions); one case per file "
           "(c04-file, non-trivial = at least one definition, distinct by text hash) plus one count per expected definition "
           "(c04-def-<kind>) plus the strconv oracle stream (num)",
    "C12": "(a) c12a-<operator>: every definition of generated files x {truncate before a mandatory token, delete a mandatory token, "
           "replace a mandatory token by an illegal character ($ ? NUL 0xFF truncated/surrogate UTF-8), truncate inside a string, "
           "unterminated string, oversized number, keyword replaced by $}; (b) c12b-<generator>-<outcome>: grammar outputs with 1-3 byte "
           "edits, inserted invalid UTF-8/NUL/BOM, huge and malformed numbers, deep repetition (200..1700 fragments), random bytes, "
           "random DBC-alphabet text, token soup, integer-conversion probes; non-trivial = error or at least one definition; "
           "distinct by text hash",
}

ASSUME = [
    "the Gallina models Dbc/Scanner.v, Dbc/Parser.v, Dbc/DecFloat.v are faithful transcriptions of text/scanner (go1.23), "
    "pkg/dbc/parser.go, def.go and strconv: checked on every run by the differential comparison on generated inputs (sampled)",
    "unicode.IsLetter/IsDigit for runes >= 128 enter the model as a parameter (theorems hold for every classification); the driver "
    "fills it with Go's own tables printed by the harness",
    "strconv.ParseFloat is the correctly rounded decimal/hex -> binary64 conversion (differentially tested by the num stream; "
    "deviation possible only for > 800 significant digits, see Dbc/DecFloat.v)",
    "int64(float64) for the value 2^63 behaves as on amd64 (MinInt64)",
]


def harness_args(pid, tier, seed):
    if pid == "C04":
        return ["c04", seed] + ([6000, 40] if tier == "quick" else [60000, 40])
    return ["c12", seed] + ([220, 25, 25000] if tier == "quick" else [3000, 30, 400000])


def run(res, replay=None):
    pid = res.id
    vlib.proof_stage(res)
    vlib.standard_run(
        res, "parser", harness_args(pid, res.tier, res.seed), "parser", RULES[pid], ASSUME,
        corr_name="Parse()/Defs() of pkg/dbc = extracted Coq parser (outcome kind, error position, definitions) on every "
                  "generated text; strconv/unicode oracles = their models (harness/parser | ocaml/parser_main.ml)",
        timeout=3000)
