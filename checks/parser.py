"""C04, C12: DBC parser (pkg/dbc/parser.go, def.go, text/scanner subset). DESIGN.md 5.4, 5.12."""
import vlib
from checks import parser_tie
from checks import translate_tie

_NOTE = ("Trusted: Coq 8.16.1 kernel; extraction (ExtrOcamlBasic) + OCaml 4.13.1; the hand-written models "
         "Dbc/Scanner.v (text/scanner subset), Dbc/Parser.v (parser.go, def.go), Dbc/DecFloat.v (strconv.ParseFloat as the "
         "correctly rounded conversion computed with Coq's Floats.SpecFloat, ParseUint, Atoi), validated against the code and "
         "against strconv/unicode by the correspondence run; Go harness (incl. its grammar generator, which also produces the "
         "expected definitions) / OCaml driver / check.py glue. Print Assumptions: closed under the global context.")

PROPERTIES = {
    "C04": {
        "text": "Coq model of the scanner subset and of every parseFrom (one-token lookahead, whitespace-mode switches, "
                "multi-line strings, numeric helpers); theorems (Properties/C04.v): parse_print_partial = parse (print ds) = Ok "
                "(elaborate ds) for every well-formed file over all 16 dispatching kinds (top-level SG_ excepted) and unknown lines "
                "with every line ended by the same run of spaces/CRs + LF (LF, CRLF, trailing blanks) and any blank lines before the "
                "definitions and at the end (any count and order; positions included; number literals with fraction and exponent; "
                "strings with escaped quotes and backslashes; CM_ texts over several lines; BA_DEF_DEF_/BA_ typed by the first "
                "earlier BA_DEF_), unknown_one (an unknown line yields one "
                "UnknownDef and does not change how the following lines are parsed), int_conversion_exact / "
                "int_conversion_every_int64 / int_field_is_written_value (Parser.int reads every decimal integer token as its "
                "value, saturating at the int64 limits; the INT / HEX fields of the round trip are the written value for every "
                "int64), and refutations of the pre-fix discardLine (F8), BS_ (F9) and Parser.int through float64 (F12). On every run a grammar-based generator (all 16 definition kinds + unknown lines, layout variants) "
                "produces texts with the definitions they denote; implementation, extracted model and expectation are compared "
                "three ways; P = implementation equals expectation.",
        "note": _NOTE + " The round-trip theorem is proved for single spaces between tokens, one uniform line-end run and blank "
                        "lines between definitions (statement and list of what is not covered - top-level SG_, UTF-8 in strings, line "
                        "ends in strings other than CM_ texts, indentation, extra spaces, empty gaps, line ends inside definitions - "
                        "in Properties/C04.v); those are covered by the three-way differential run, which samples the grammar.",
        "technique": "Coq proof about a Gallina model + differential correspondence of model, code and generator-side denotation",
        "design_ref": "5.4",
    },
    "C12": {
        "text": "Coq theorem parse_total (Properties/C12.v): for EVERY byte list and every non-ASCII classification the model "
                "parser with fuel length+4 returns Ok or Err with a position inside the input, never Panic (no index operation "
                "fails) and never OutOfFuel (every loop iteration consumes input); determinism is functional-ness; "
                "error_local_partial: after a well-formed file prefix (all kinds and layouts of C04's round trip) followed by any "
                "bytes that still begin with a keyword, an error is positioned inside those bytes and Defs() extends the "
                "definitions of the prefix. Locality on the implementation: generated files (all kinds, all layouts) x definition "
                "index x corruption operators (error not before the corrupted definition, Defs() = the preceding definitions), "
                "also compared with the model; arbitrary bytes: outcome kind, position and Defs() of two runs under "
                "recover()+timeout compared with the model; every byte value and multi-byte sequences inside every string literal and "
                "identifier (byte sweep). C12_validate_bytewise: Identifier.Validate transcribed rune by rune (the loop with "
                "IsAlphaChar/IsNumChar as comparison chains) equals the byte-wise check of the parser model for every byte list.",
        "note": _NOTE + " What the model cannot show (other runtime panics, real termination time) is covered only by running the "
                        "implementation under recover() and a 2 s timeout (a hang is reported only if the run is still unfinished 10 s later, "
                        "so that a stalled machine raises no false alarm). Determinism: the model is a function, so C12_deterministic "
                        "is trivial for it; run-to-run variation of the Go code (map iteration order, state kept between parsers) is "
                        "outside the functional model and is observed by parsing every text five times with fresh parsers and "
                        "comparing all outcomes including the error text, and (history) by parsing a seeded sample of earlier texts - accepted and "
                        "rejected ones - AGAIN after every 4th case, with all the parses in between behind them (failing parses, files that "
                        "use the same invalid spellings as attribute names), requiring the first outcome again (HIST lines, counted as "
                        "<stream>-history-ok/err; in the C04 run one file in six is followed by a failing corruption of itself, compared "
                        "with the model as c12b-interleaved-<operator>). Aliasing of the caller's buffer is a fact about Go memory that the "
                        "functional model cannot express (its definitions are values): the first run of every case parses from a buffer "
                        "the harness owns and reuses, overwrites it with 0xFF bytes and then with another text, and dumps Defs() again "
                        "each time - it must not change (diff-aliased-buffer). KNOWN FINDING " + "C12-lookahead-scanner-error-drops-previous-definition"
                        ": a NUL / invalid UTF-8 byte as the very first byte after a BS_, NS_, BO_ or SG_ definition (or directly after "
                        "the line end of a BU_ / unknown line) is reported by the scanner while that definition is still reading, so it "
                        "is missing from Defs(); exactly these cases are excluded, every other locality failure is a violation.",
        "technique": "Coq proof about a Gallina model + differential correspondence of model and code",
        "design_ref": "5.12",
    },
}

translate_tie.describe(PROPERTIES, "C04", "(here: MessageID.IsExtended/ToCAN/Validate of pkg/dbc/messageid.go = msgid_is_extended/msgid_to_can/"
                       "msgid_valid; Identifier.Validate = Dbc/Validate.v validate = the byte-wise ident_valid; identifiers.IsAlphaChar/IsNumChar = the "
                       "model's character classes; the Validate methods of "
                       "SignalValueType, EnvironmentVariableType, AccessType, AttributeValueType, ObjectType = the acceptance tests of "
                       "the parser model)", translate_tie.TIE_NOTE_INT, translate_tie.TIE_NOTE_LOOP)
translate_tie.describe(PROPERTIES, "C12", "(here: Identifier.Validate = validate = the byte-wise ident_valid; identifiers.IsAlphaChar/IsNumChar and the Validate methods of SignalValueType, "
                       "EnvironmentVariableType, AccessType, AttributeValueType, ObjectType = the character classes and acceptance "
                       "tests of the parser model)", translate_tie.TIE_NOTE_INT, translate_tie.TIE_NOTE_LOOP)

RULES = {
    "C04": "seeded grammar generator in the Go harness: files of 0..40 definitions over the 16 dispatching kinds + unknown lines "
           "(1..8 tokens: identifiers, keywords, numbers, every printable ASCII punctuation character except the dot - the double "
           "quote, the backslash and the apostrophe included, as in the class upunct of C04_unknown_one - and string literals "
           "glued from words, numbers, blanks, punctuation, apostrophes, escaped quotes in odd and even counts, backslashes "
           "and multi-byte UTF-8: discardLine reads tokens up to the line end, a string inside an unknown line denotes nothing "
           "and must not change how the next line is parsed; counted as c04-unknown-line-with-string / "
           "-odd-number-of-quotes), BA_DEF_DEF_/BA_ typed by the first earlier BA_DEF_, identifiers up to 128 chars, uints up to 2^64-1, INT / HEX "
           "attribute ranges, defaults and values over the whole int64 range as decimal integers (odd values beyond 2^53, 2^53 and "
           "its neighbours, both int64 limits and their neighbours, one beyond each limit and beyond uint64 = saturation, leading "
           "zeros) and as fraction / exponent spellings of integers below 2^53 (F12), decimal/exponent floats, strings with \\\" / backslash / multi-byte UTF-8 (2-4 byte encodings, incl. runes whose low byte is NUL / LF / quote / backslash; "
           "counted per definition kind as c04-utf8-in-string-<kind>) / embedded LF and CRLF; ENUM lists of 1..10 values in no "
           "particular order with duplicates, BA_DEF_DEF_ / BA_ enum values by index, by the name of a declared value (every "
           "position of the list after one ENUM definition in three: c04-enum-probe-by-name) and by an arbitrary string; "
           "near-colliding identifiers and attribute names (capitalization, one character replaced / added / dropped), references "
           "to attribute names that match no BA_DEF_ exactly or are no valid identifiers (six spellings with a non-ASCII letter per "
           "run, shared by all files and by the invalid-ident corruption); every text parsed five times (all outcomes equal), the "
           "first time from a reused caller buffer that is overwritten afterwards (Defs() must not change); one file in six "
           "followed by a failing corruption of itself; earlier texts parsed again after every 4th case (history); layouts (LF/CRLF/mixed, blank "
           "lines, indentation, extra spaces, empty gaps next to punctuation, line ends inside definitions); one case per file "
           "(c04-file, non-trivial = at least one definition, distinct by text hash) plus one count per expected definition "
           "(c04-def-<kind>) plus the strconv oracle stream (num)",
    "C12": "(a) c12a-<operator>: every definition of generated files x {truncate before a mandatory token, delete a mandatory token, "
           "replace a mandatory token by an illegal character ($ ? NUL 0xFF truncated/surrogate UTF-8), truncate inside a string, "
           "unterminated string, oversized number, keyword replaced by $, keyword replaced by NUL / 0xFF / truncated 2-byte "
           "sequence (illegal-first-byte, counted per kind of the preceding definition; the witness BO_ 1 M: 8 N\\n\\x00 first), "
           "a token that the parser hands to an X.Validate() replaced by a SCANNABLE token the Validate rejects, one per class "
           "present in the definition (invalid-attrtype / -objtype / -access / -envtype / -sigvaltype / -msgid (standard > 0x7ff, "
           "extended > 0x1fffffff) / -ident (129 characters, non-ASCII letter or digit) / -strident: all eight Validate call sites "
           "of parser.go; the site that rejected is counted as <stream>-validate-<site> from the implementation's reason), "
           "NUL / 0xFF / truncated / surrogate UTF-8 inserted INSIDE the definition after its intact keyword: in the middle of every "
           "string literal and at one more place (illegal-inside; Defs() must not contain the corrupted definition: clause "
           "locality-corrupted-definition-reported)}; (b) c12b-<generator>-<outcome>: grammar outputs with 1-3 byte "
           "edits, inserted invalid UTF-8/NUL/BOM, huge and malformed numbers, deep repetition (200..1700 fragments), random bytes, "
           "random DBC-alphabet text, token soup, integer-conversion probes; (c) c12b-tokmut-<kind>-<outcome>: grammar-aware token "
           "mutations (harness/parser/tokmut.go): 49 fixed well-formed instances covering every definition kind and form (BA_DEF_DEF_ / BA_ "
           "after the five BA_DEF_ types, and after four BA_DEF_ whose names nearly collide - Ab aB ab Abc with different types - "
           "referenced by a name that matches none exactly), each single token in turn replaced by each of 110 boundary tokens (m M m0 mM m1M m-1 "
           "m9..9, single letters, - + . e 0x 1e 1e+ 00 -0, \"\" and unterminated strings, identifiers of 128/129 chars, every "
           "punctuation character, 2047/2048, 2^31, 2^32, 2^53, 2^63, 2^64 and neighbours, 1e400, enumeration names, NUL/0xFF/"
           "truncated UTF-8/BOM, every DBC keyword), deleted, duplicated; at every string position in addition 25 string literals with "
           "runs of 1..3 backslashes before a plain character / an escaped quote / a line end / a space / the closing quote, "
           "embedded LF and CRLF, NUL and invalid UTF-8 inside (always emitted) and the four unterminated literals \" \"a \"\\ \"\\\" "
           "(always emitted, both followed by the rest of the definition and as the last bytes of the input); variants: alone / followed by another definition / input "
           "ends right after the changed token; quick = every triple at the SG_ multiplexer position (alone and at the end of the "
           "input), the attribute value / range positions, enum indices, message ids and one position per Validate call site "
           "(attribute value type, object type, access type, env-var type, signal value type, identifier) plus one in 8 of the others chosen by the "
           "seed, thorough = every triple in all three variants (~126000); non-trivial = error or at least one definition; "
           "distinct by text hash; (d) c12b-bytesweep-<kind>-<outcome>: byte sweep over the same 49 instances (tokmut.go "
           "emitByteSweep): at each of the 168 positions that hold a string literal or an identifier (keywords included) one item "
           "inserted at the start, in the middle (\"a<b>z\" / A<b>Z) and at the end of the token; items = each of the 256 byte "
           "values, 46 runes >= 0x80 (letters, digits, marks, symbols, separators, format/private-use characters, non-characters "
           "from Latin-1, Greek, Cyrillic, Hebrew, Arabic, Devanagari, Thai, CJK, Hangul, fullwidth, mathematical, emoji and tag "
           "blocks at the 2/3/4-byte encoding boundaries; the class the harness computes with unicode.IsLetter/IsDigit is "
           "compared with the UNI tables given to the model) and 17 ill-formed sequences (overlong, surrogate, > U+10FFFF, "
           "truncated, lone continuation bytes); quick = every (item, place) at the 25 quoted attribute names (BA_DEF_: "
           "Parser.stringIdentifier -> Identifier.Validate on arbitrary string content; BA_DEF_DEF_ / BA_) and at one other string "
           "position and one identifier position per definition kind, one in 8 of the rest chosen by the seed (~64000 cases); "
           "thorough = every (position, item, place), the mandatory positions in all three variants (~260000). Every text of "
           "(a)-(d) is parsed five times by fresh parsers and all five outcomes (kind, position, Defs()) must be equal "
           "(determinism clause; also the complete error text Error() and Reason(), which is compared between the five runs only, "
           "not with the model: a difference is reported with both texts); generated files carry near-colliding identifiers (other capitalization, one character "
           "replaced / added / dropped at either end) among all names, BA_DEF_ names that nearly collide with earlier ones and "
           "BA_DEF_DEF_ / BA_ references that match no BA_DEF_ exactly (counted as c12a-file-attr-*-near-collision)",
}

for _pid in ("C04", "C12"):
    PROPERTIES[_pid] = dict(PROPERTIES[_pid], text=PROPERTIES[_pid]["text"] + parser_tie.TIE_TEXT,
                            note=PROPERTIES[_pid]["note"] + parser_tie.TIE_NOTE)

ASSUME = [
    "the Gallina models Dbc/Scanner.v, Dbc/Parser.v, Dbc/DecFloat.v are faithful transcriptions of text/scanner (go1.23), "
    "pkg/dbc/parser.go, def.go and strconv: checked on every run by the differential comparison on generated inputs (sampled)",
    "unicode.IsLetter/IsDigit for runes >= 128 enter the model as a parameter (theorems hold for every classification); the driver "
    "fills it with Go's own tables printed by the harness",
    "strconv.ParseFloat is the correctly rounded decimal/hex -> binary64 conversion: the model's conversion of (mantissa, "
    "exponent) is PROVED to be round-to-nearest-even of the exact value with overflow to ErrRange (Properties/C04.v "
    "C04_decimal_correctly_rounded, C04_hexadecimal_correctly_rounded, C04_bits_are_ieee754, via Flocq); that Go's readFloat "
    "syntax analysis, its dp > 310 / dp < -330 shortcuts and its Eisel-Lemire/slow-path algorithms agree with it is tested "
    "differentially by the num stream (deviation possible only for > 800 significant digits, see Dbc/DecFloat.v)",
    "int64(float64) is never reached with a value outside int64 after the fix F12 (every f >= 2^63 is clamped first); only the "
    "regression model int_of_token_old assumes that int64(2^63) behaves as on amd64 (MinInt64)",
]


KNOWN_ID = "C12-lookahead-scanner-error-drops-previous-definition"
# definition kinds whose parseFrom is still reading when the first byte of the next definition is scanned:
# one-token lookahead (BS_ unless its full form, NS_, BO_, SG_ incl. the last signal of a message) and, only when the
# byte directly follows the line end, the kinds that consume the newline token (BU_, unknown lines: scanning '\n'
# reads one character ahead)
_PEEKING = {"bittiming", "newsymbols", "message", "message-sg", "signal"}
_NEWLINE = {"nodes", "unknown"}


def make_known_matcher(counts):
    entry = next((k for k in vlib.load_known().get("known", []) if k.get("id") == KNOWN_ID), None)

    def matcher(obs):
        """obs = 'c12a case=<n> <k> <start> <op> prev=<kind> byte=<hex> adj=<0|1> text=<hex> failed=<clause>
        expected-defs=<n> observed-defs=<m>' (ocaml/parser_main.ml)"""
        if entry is None or not obs.startswith("c12a "):
            return None
        f = dict(x.split("=", 1) for x in obs.split() if "=" in x)
        if " illegal-first-byte " not in obs or f.get("failed") != "locality-defs-so-far":
            return None
        if f.get("byte") not in ("00", "ff", "c3"):
            return None
        prev, adj = f.get("prev"), f.get("adj")
        if not (prev in _PEEKING or (prev in _NEWLINE and adj == "1")):
            return None
        try:
            if int(f["expected-defs"]) - int(f["observed-defs"]) != 1:
                return None
        except (KeyError, ValueError):
            return None
        key = "%s/%s" % (prev, f.get("byte"))
        counts[key] = counts.get(key, 0) + 1
        return entry["line"]

    return matcher


def harness_args(pid, tier, seed):
    if pid == "C04":
        return ["c04", seed] + ([6000, 40] if tier == "quick" else [60000, 40])
    # files, max definitions, random cases, token-mutation stride (0 = every triple in every variant)
    # (thorough with 3000 files / 400000 random cases took 2890 s of the 3000 s pipeline timeout: 2000 / 300000 leaves a margin)
    # quick: 8000 random cases (10000 before the byte sweep was added: its ~57000 small cases cost ~5 s)
    return ["c12", seed] + ([170, 25, 8000, 8] if tier == "quick" else [2000, 30, 300000, 0])


def run(res, replay=None):
    pid = res.id
    vlib.proof_stage(res)
    # stage parser_tie: the parseFrom methods regenerated from the source = the hand model, for all parser states
    parser_tie.run_parser_tie(res)
    translate_tie.run_tie(res, ["dbcid", "dbcvalidate"] if pid == "C04" else ["dbcvalidate"])
    counts = {}
    vlib.standard_run(
        res, "parser", harness_args(pid, res.tier, res.seed), "parser", RULES[pid], ASSUME,
        corr_name="Parse()/Defs() of pkg/dbc = extracted Coq parser (outcome kind, error position, definitions) on every "
                  "generated text; strconv/unicode oracles = their models (harness/parser | ocaml/parser_main.ml)",
        timeout=3000, known_matcher=make_known_matcher(counts) if pid == "C12" else None)
    if pid == "C12":
        res.cov["known_finding_cases"] = {"id": KNOWN_ID, "total": sum(counts.values()),
                                          "by_previous_kind_and_byte": dict(sorted(counts.items())),
                                          "witness": "c12a case=0: BO_ 1 M: 8 N\\n\\x00 (replayed first on every run)"}
