"""C13, C14: runner lock discipline and protocol (pkg/canrunner/run.go + generated channel code).
DESIGN.md 5.13, 5.14, Appendix B, section 6 (K1)."""
import json
import os
import re
import shutil

import vlib

_NOTE = ("Trusted: Coq 8.16.1 kernel; extraction (ExtrOcamlBasic) + OCaml 4.13.1; the hand-written LTS Runner/Lts.v "
         "(sync.Mutex, channels, select, time.Ticker with their textbook semantics), validated against the code by trace "
         "inclusion on every run; Go harness (step controller, fakes) / OCaml driver (inserts the hidden Apply/Tick/TickTake "
         "events; for Run-level traces only Spawn/WorkerRet; for send deadlines only Stamp/WithTimeout) / check.py glue. "
         "Print Assumptions: closed under the global context (no axioms). Not modelled: durations (how long a write "
         "takes), scheduler fairness, memory-model races, goroutine leaks of the real runtime (measured by the harness "
         "only). Modelled and proved, then observed: the ORDER in which the send deadline is derived (timed layer of "
         "Runner/RunLts.v: deadline = clock reading after the hook's return + send timeout; the fake transmitter logs "
         "the deadline of the context it is handed against system-clock readings at the hook's return and at the "
         "call, with a runner clock that is skewed from the system clock) and Run's own control flow (LTS of Run: "
         "the connection obtained from Connect is closed on every return path, whenever the cancellation comes). "
         "The instrumented node lock comes in two flavours, a plain sync.Locker and (every third schedule) one that also "
         "offers RLocker(): an acquisition through the shared side covers reads only - a write of message state "
         "(Set{Receive,Transmit}Time, UnmarshalFrame) under it is logged with ownership bit 0, i.e. an access without the "
         "node lock (I2); the LTS is unchanged by this, its lock discipline is exclusive ownership. Failing TransmitFrame "
         "calls of the fake transmitter return real error kinds (*net.OpError around ENOBUFS / EAGAIN / EINTR / ENETDOWN, an "
         "expired write deadline, context errors, a plain error) in turn.")

PROPERTIES = {
    "C13": {
        "text": "Coq theorems (Properties/C13.v) over a labelled transition system of run.go with any number of receiver, "
                "transmitter and application threads: in every reachable state the mutex owner is exactly the thread inside "
                "a critical section (I1), every message-state access and write happens under the lock (I2), hooks are "
                "called unlocked and may lock (I3), nothing is accessed while another thread holds the lock, and per "
                "transmission HookRet < Frame() < Transmit with the transmitted frame = the content at Frame(). Tie to the "
                "code: the real RunMessageReceiver/RunMessageTransmitter run against step-controlled fakes (instrumented "
                "sync.Locker recording the caller), schedules enumerated in windows + seeded random; every logged trace "
                "must be accepted by the extracted step_fn and satisfy the ownership bits observed by the fakes - from the "
                "very first access of a thread on, whatever a received frame looks like (remote / extended / wrong-length "
                "frames with a known ID take the ordinary locked path: C13_rejected_known_frame_locked).",
        "note": _NOTE,
        "technique": "Coq proof of inductive invariants of an LTS + trace-inclusion correspondence under forced schedules",
        "design_ref": "5.13",
    },
    "C14": {
        "text": "Coq theorems (Properties/C14.v) over the same LTS: exactly-once accounting accepted+ticks-transmitted-"
                "aborted in {0,1} and =1 exactly inside transmit (I4), no lost toggle (I5) with the parked-ticker corollary, "
                "at most one stale tick after a handled disable (I6), Done absorbing / cancel stable / failure only "
                "returns (I7), receive loop = declarative specification, Run's result mapping incl. the 'closed' rule with "
                "the refutation K1; send deadline handed to TransmitFrame = (clock reading after the before-transmit hook "
                "returned, not after the call) + send timeout, so a slow hook never costs the frame "
                "(C14_transmit_deadline_after_hook, timed layer conservative over the LTS); LTS of Run: on every return "
                "path after a successful Connect - cancelled before Run, during Connect, while running, or a goroutine "
                "failed - the connection has been closed and every goroutine of the group has returned "
                "(C14_run_returns_clean); initial states with the flag already set and no wake-up token (role RoleTxOn) "
                "are covered by every invariant (C14_enabled_parked_is_armed); a ticker exists only for send type cyclic AND "
                "cycle time > 0, any other message transmits on request only (C14_armed_implies_eligible, "
                "C14_not_eligible_frames_are_requests). Tie to the code: logged traces of forced schedules incl. real 1 ms tickers must be "
                "accepted by the extracted step_fn and, decorated with the observed deadlines and clock readings, by the "
                "extracted tstep; whole-node scenarios with the GENERATED example node over a unix socket "
                "and net.Pipe check counts, toggles, return values, closed connection and goroutine leaks, incl. hooks "
                "slower than the send timeout (event and cyclic) and cancellation before Run / during Connect; their "
                "Run-level traces (Connect, Close, return) must be accepted by the extracted qstep. PARTIAL: "
                "durations (that a write finishes within its send timeout), fairness and leak-freedom of the real "
                "runtime are measured, not proved.",
        "note": _NOTE + " Known finding K1 (Run maps any error containing 'closed' to nil) is reproduced by one scenario.",
        "technique": "Coq proof of inductive invariants of an LTS + trace-inclusion correspondence + whole-node scenarios",
        "design_ref": "5.14",
    },
}

RULES = {
    "C13": "one case = one logged schedule (trace) of the real runner functions against step-controlled fakes: (a) model "
           "traces from the exhaustive exploration of the LTS for {1 receiver, 1 transmitter, 1 application thread} "
           "(complete reachable abstract state space, see coverage.model_exploration: every transition as BFS-shortest path "
           "+ the transition; quick = seeded sample, thorough = all) forced event by event (xf = followed, xp = abandoned at "
           "a select choice after Cancel that cannot be forced; the same exploration once more for a transmitter whose "
           "message is already enabled at the start with an empty wake-up channel: xfon / xpon; frames whose unmarshal the "
           "model trace lets fail are given the shapes remote / extended / wrong length / scripted failure in turn); (b) 7 fixed "
           "scenarios (receiver + 1..2 transmitters + 1..3 application threads; hooks that lock and mutate; hook / transmit / "
           "unmarshal errors; remote, extended and wrong-length frames with known and unknown IDs; a transmitter started "
           "with the flag already set; cancel races) and the never-a-ticker scenarios (send type event / none with cycle times "
           "1 ns / 0.3 ms / 1 ms, send type cyclic with cycle time 0: enabled, enabled again, disabled, enabled, event request; a "
           "panic of a runner function is caught and logged as PN) with every combination of choices inside sliding windows of 3 consecutive "
           "scheduling decisions, seeded random scenarios under seeded random schedules; distinct by line hash; every "
           "trace counts as non-trivial (each contains lock sections of at least two threads); (c) debug HTTP handlers of the "
           "generated MOTOR and DRIVER nodes (Rx and Tx): not served while the application holds the node lock, the lock is "
           "held while a page is served (handshake inside the ResponseWriter), the page shows both signals of an update; "
           "(d) the generated DRIVER node run by canrunner.Run over net.Pipe and a unix socket with its Lock / Unlock observed: a hook "
           "(after-receive, before-transmit) replaced by the application exactly in the window after the runner's Unlock - the hook "
           "read under the lock runs for that frame, the new one from the next on (HK lines through the extracted kstep); hooks "
           "replaced continuously while frames / requests are served; several toggles in one and in consecutive critical sections "
           "while the transmitter sits in a hook that wants the lock (never blocks, last toggle in force); the same scenarios once "
           "more built with the race detector (coverage.race_gennode; about 3 s); (e) in a third of the random scenarios and in the "
           "fixed scenarios toggle / toggles2 / starton the fake message delegates flag, setter and wake-up channel to a GENERATED "
           "message (a toggle = one call of its SetCyclicTransmissionEnabled; TB = the call did not return within a second)",
    "C14": "as C13 (incl. the forced model traces) plus schedules with a real ticker of 1 ms and of 1 ns (ticks nondeterministic, hidden "
           "Tick/TickTake inferred; NT = no tick for more than a second while the model's ticker is armed and the loop parked), "
           "tick-triggered transmissions whose hook / TransmitFrame fails (k-th invocation, enabled by toggle or from the start), "
           "the role of every transmitter computed by the model from the descriptor's send type and cycle time (ticker_eligible), and the "
           "whole-node scenarios with the generated DRIVER node (event exactly-once, toggles while parked/busy, receive "
           "order, failing rx hook / tx hook / unmarshal / transmit / Connect, cancel while running / before Run / during "
           "Connect, before-transmit hooks slower than the send timeout for an event request and for cyclic ticks, event "
           "requests to each transmitted message in turn with frames attributed per message ID, run / cancel / run again "
           "on the same node value (enabled in run 1 -> run 2 transmits without a new toggle; disabled -> silent; enabled "
           "while nothing runs -> next run transmits), remote / extended / wrong-length / well-formed frames with a known ID "
           "(SH lines: receiver stops iff the model's shape_accepts is false), a failing hook / write on a cycle tick (Run returns that "
           "error, hook not invoked again, no further frame), cyclic transmission enabled on messages that must not get a ticker "
           "(event / none with a cycle time, cyclic without), enabling again every 12 ms with a 40 ms cycle time, toggles while "
           "the transmitter is busy in a hook, the context cancelled while a transmission is in flight (waiting for the lock in "
           "front of the hook / inside the hook / waiting for the lock in front of Frame(); event request and tick; peer alive or "
           "already gone, so that the transmitter's result is the group's first error): Run returns nil, connection closed, no "
           "goroutine left, the peer of a net.Pipe delaying its reads while two event requests for different messages / a tick "
           "and a request are under way (pending writes: one frame per request with the ID and payload of ITS message), K1) "
           "over a unix socket and net.Pipe; every transmission of every trace additionally carries the deadline the "
           "frame transmitter was handed (coverage.kinds.deadlines_checked; event messages with cycle times 0 / 0.7 ms / "
           "2 ms / 40 ms / 250 ms / 3 s, runner clock skewed by 0 / -1 h / +1 h / -3 ms from the system clock); one case "
           "per trace / WN check / RUN line / RN line (Run-level trace); distinct by line hash (clock readings excluded)",
}


def _known_matcher(pid):
    entries = [e for e in vlib.load_known().get("known", []) if e.get("property") == pid]

    def match(obs):
        for e in entries:
            pats = [e["matcher"]] if "matcher" in e else list(e.get("witness", []))
            for p in pats:
                if obs == p:
                    return e.get("line") or e.get("description") or ("known finding: " + p)
        return None

    return match


def _race_stress(res):
    """thorough tier: the free-running stress part of the harness built with the race detector"""
    scratch = vlib.scratch_dir()
    try:
        hdir = os.path.join(vlib.ROOT, "harness", "runner")
        ov = {os.path.join(vlib.REPO, "cmd", "verif_runner", f): os.path.join(hdir, f)
              for f in sorted(os.listdir(hdir)) if f.endswith(".go")}
        ovp = os.path.join(scratch, "overlay-race.json")
        json.dump({"Replace": ov}, open(ovp, "w"))
        exe = os.path.join(scratch, "harness-runner-race")
        rc, out = vlib.sh(["go", "build", "-race", "-overlay", ovp, "-o", exe, "./cmd/verif_runner"],
                          cwd=vlib.REPO, env=vlib.go_env(), timeout=900)
        if rc != 0:
            res.cov["race_stress"] = "race build unavailable: " + out[-300:]
            return
        drv = vlib.build_driver("runner")
        rc, out, err = vlib.run_pipe(exe, ["stress", str(res.seed), "0"], drv, ["c13"], timeout=600, mem_kb=64000000)
        res.cov["race_stress"] = {"rc": rc, "stdout_tail": out[-400:]}
        bad = [line for line in out.splitlines() if line.startswith("PFAIL ")]
        if rc != 0 or bad or "DATA RACE" in err:
            res.violation("race-detector stress run of the runner failed (rc=%s)" % rc,
                          {"stderr": err[-3000:], "pfail": bad[:3], "harness": "harness/runner stress (go build -race)"})
    finally:
        shutil.rmtree(scratch, ignore_errors=True)


def _race_gennode(res):
    """quick and thorough tier, C13: the generated-node lock-discipline scenarios (hook replaced in the window after the
    runner's Unlock, hooks replaced continuously while frames / requests are served, toggles while the transmitter is
    busy) built with the race detector: a read of node state outside the node lock that meets a locked write is
    reported by the runtime as DATA RACE.  Costs about 2-4 s (the race-instrumented packages are cached)."""
    import time as _t
    t0 = _t.time()
    scratch = vlib.scratch_dir()
    try:
        hdir = os.path.join(vlib.ROOT, "harness", "runner")
        ov = {os.path.join(vlib.REPO, "cmd", "verif_runner", f): os.path.join(hdir, f)
              for f in sorted(os.listdir(hdir)) if f.endswith(".go")}
        for k, v in vlib.EXTRA_OVERLAYS.get("runner", {}).items():
            ov[os.path.join(vlib.REPO, k)] = v
        ovp = os.path.join(scratch, "overlay-race.json")
        json.dump({"Replace": ov}, open(ovp, "w"))
        exe = os.path.join(scratch, "harness-runner-race")
        rc, out = vlib.sh(["go", "build", "-race", "-overlay", ovp, "-o", exe, "./cmd/verif_runner"],
                          cwd=vlib.REPO, env=vlib.go_env(), timeout=900)
        if rc != 0:
            res.cov["race_gennode"] = "race build unavailable: " + out[-300:]
            return
        drv = vlib.build_driver("runner")
        rc, out, err = vlib.run_pipe(exe, ["gennode", str(res.seed), "0"], drv, ["c13"], timeout=600, mem_kb=64000000)
        bad = [line for line in out.splitlines() if line.startswith("PFAIL ")]
        races = err.count("WARNING: DATA RACE")
        res.cov["race_gennode"] = {"rc": rc, "data_races": races, "pfail": len(bad), "wall_s": round(_t.time() - t0, 1),
                                   "stdout_tail": out[-300:]}
        if races:
            m = re.search(r"WARNING: DATA RACE\n(.*?)(?:\n==================|\Z)", err, re.S)
            report = (m.group(1) if m else err)[:2500]
            frames = re.findall(r"^  ([\w./*()\-]+)\(\)\n\s+(\S+:\d+)", report, re.M)
            under = ["%s at %s" % f for f in frames if "go.einride.tech/can/" in f[0] and "cmd/verif_runner" not in f[1]]
            res.violation("race detector: %d data race(s) in the generated-node lock-discipline scenarios - node state is accessed "
                          "outside the node lock; first report involves: %s" % (races, "; ".join(under[:4]) or "see replay"),
                          {"race_report": report, "harness": "harness/runner gennode (go build -race)",
                           "scenarios": "hookswap rx/tx, hookchurn, busytoggles over net.Pipe and a unix socket"})
        elif bad:
            for b in bad[:3]:
                obs, _, rest = b[6:].partition(" || ")
                res.violation("property predicate fails on the implementation's output (race build): %s ; %s" % (obs, rest),
                              {"observation": obs, "detail": rest, "harness": "harness/runner gennode (go build -race)"})
        elif rc != 0:
            res.violation("race-detector run of the generated-node scenarios failed (rc=%s)" % rc,
                          {"stderr": err[-3000:], "harness": "harness/runner gennode (go build -race)"}, no_input=True)
    finally:
        shutil.rmtree(scratch, ignore_errors=True)


def run(res, replay=None):
    pid = res.id
    vlib.proof_stage(res)
    mode = pid.lower()
    quick = res.tier == "quick"
    budget = (3000 if quick else 40000) if pid == "C13" else (1500 if quick else 20000)
    args = [mode, res.seed, budget] + ([] if quick else ["stress"])
    # exhaustive exploration of the model for one receiver + one transmitter + one application thread;
    # its transitions become schedules that the harness forces on the implementation
    gen_dir = vlib.scratch_dir()
    try:
        _fresh_example(res, gen_dir)
        _wire_stage(res, pid, gen_dir)
        wire_obl = list(res.corr_obligations)
        _run_with_model_traces(res, pid, mode, quick, args, gen_dir)
        res.corr_obligations = list(res.corr_obligations) + wire_obl
        if pid == "C13":
            _race_gennode(res)
    finally:
        vlib.EXTRA_OVERLAYS.pop("runner", None)
        shutil.rmtree(gen_dir, ignore_errors=True)
    if not quick and pid == "C13":
        _race_stress(res)


# functions of run.go that contain lock sections: a difference there is reported by C13 as well
_C13_FUNCS = ("RunMessageReceiver", "RunMessageTransmitter.transmit", "RunMessageTransmitter.setCyclicTransmission", "gen.Node")


def _wire_stage(res, pid, gen_dir):
    """ACTION-SEQUENCE TIE (DESIGN.md 9.6 "Action-sequence tie for the runner"): the CURRENT text of pkg/canrunner/run.go and
    of the example node generated by the tree's generator in this run is read by the strict extractor harness/runwire
    (go/parser; every statement becomes a node class + canonical text + successors; unknown statement shapes are errors
    with file:line) into the action programs of Runner/Program.v. The driver compares every function node by node with the
    reference program (extracted first_diff) and evaluates the extracted checker prog_lock_ok / gen_prog_passive. By
    C13_prog_* / C14_prog_* the lock discipline and the transmitter's select / ticker / transmit structure then hold of
    the source text for every path, not only for the schedules executed below."""
    import time as _t
    t0 = _t.time()
    wexe, log = vlib.build_harness("runwire", gen_dir)
    if wexe is None:
        res.violation("runner action-sequence extractor no longer builds (broken tie)", {"build_log": log[-3000:]}, no_input=True)
        return
    drv = vlib.build_driver("runner")
    gen_file = vlib.EXTRA_OVERLAYS.get("runner", {}).get("testdata/gen/go/example/example.dbc.go") or \
        os.path.join(vlib.REPO, "testdata", "gen", "go", "example", "example.dbc.go")
    run_go = os.path.join(vlib.REPO, "pkg", "canrunner", "run.go")
    cmd = "%s %s %s | %s wire" % (wexe, run_go, gen_file, drv)
    import subprocess
    p = subprocess.run(["bash", "-c", "timeout 120 " + cmd], stdout=subprocess.PIPE, stderr=subprocess.PIPE, text=True)
    out, err = p.stdout, p.stderr
    stat = None
    reported = 0
    how = ("harness/runwire <repo>/pkg/canrunner/run.go <generated example.dbc.go> | runner driver `wire` (extracted first_diff / "
           "prog_lock_ok of Runner/Program.v); the forced schedules and whole-node scenarios of this check supply a concrete "
           "failing schedule where the behaviour at the interfaces changed")

    def report(text, replay):
        nonlocal reported
        reported += 1
        if reported <= 3:
            res.violation(text, dict(replay, how=how), no_input=True)

    for line in out.splitlines():
        if line.startswith("RWSTAT "):
            stat = json.loads(line[7:])
        elif line.startswith("RWERR "):
            report("runner source is outside the statement shapes the action-sequence extractor accepts: %s" % line[6:][:400],
                   {"extractor_error": line})
        elif line.startswith(("RWDIFF ", "RWMISSING ", "RWUNKNOWN ", "RWLOCK ")):
            head, _, detail = line.partition(" || ")
            toks = head.split()
            kind, fn, inst = toks[0], toks[1], toks[2]
            where = " ".join(toks[3:])
            is_gen = fn.startswith("gen.")
            if kind == "RWLOCK":
                mine = pid == "C13" or is_gen
                text = ("lock discipline of the source text fails (extracted prog_lock_ok = false): function %s%s, first offending node %s: %s"
                        % (fn, "" if inst == "-" else " of " + inst, where, detail[:300]))
            else:
                mine = pid == "C14" or fn in _C13_FUNCS
                text = ("action sequence of %s%s is no longer the reference program the runner model was proved for (%s): %s"
                        % (fn, "" if inst == "-" else " of " + inst, where, detail[:400]))
            if mine:
                report(text, {"function": fn, "instance": inst, "node": where, "detail": detail, "line": line})
    if stat is None:
        res.violation("runner action-sequence extractor or model driver failed (rc=%s)" % p.returncode,
                      {"stderr": err[-2000:], "stdout_tail": out[-800:]}, no_input=True)
        return
    res.cov["action_sequence_tie"] = dict(stat, wall_s=round(_t.time() - t0, 1), rule=(
        "one function = RunMessageReceiver / RunMessageTransmitter / its 4 closures / Run / its 3 goroutine bodies / every method of "
        "every generated xxx_<NODE>_{Tx,Rx}_<Msg> type / the embedded fields of every xxx_<NODE>; one node = one statement or "
        "condition (class, canonical text, successor indices) compared with the reference program by decidable equality"))
    res.corr_obligations = [
        "action programs extracted from the current run.go and the freshly generated node code = the reference programs of "
        "Runner/Program.v (first_diff = None for every function), prog_lock_ok / gen_prog_passive = true"]


def _fresh_example(res, gen_dir):
    """The whole-node scenarios run the GENERATED example node. The checked-in testdata/gen/go/example/example.dbc.go is
    not regenerated by the repository's tests, so a change of the generator's node templates would not reach it: generate
    the package afresh with the tree's own `cantool generate testdata/dbc <scratch>` (same command, same relative source
    path as the checked-in file) and compile the harness against THAT file through the overlay."""
    from checks import cantool_cli
    exe, log = cantool_cli.build_cantool(gen_dir)
    info = {"used": "checked-in file"}
    if exe is not None:
        out_dir = os.path.join(gen_dir, "example-gen")
        rc, out = vlib.sh([exe, "generate", "testdata/dbc", out_dir], cwd=vlib.REPO, timeout=300)
        fresh = os.path.join(out_dir, "example", "example.dbc.go")
        if rc == 0 and os.path.exists(fresh):
            checked_in = os.path.join(vlib.REPO, "testdata", "gen", "go", "example", "example.dbc.go")
            same = os.path.exists(checked_in) and open(checked_in, "rb").read() == open(fresh, "rb").read()
            vlib.EXTRA_OVERLAYS["runner"] = {"testdata/gen/go/example/example.dbc.go": fresh}
            info = {"used": "freshly generated by the tree's `cantool generate testdata/dbc`", "equals_checked_in_file": same}
        else:
            info["generation_failed"] = out[-500:]
    else:
        info["cantool_build_failed"] = log[-500:]
    res.cov["generated_example_node"] = info


def _run_with_model_traces(res, pid, mode, quick, args, gen_dir):
    explo = None
    try:
        drv = vlib.build_driver("runner")
        gen_file = os.path.join(gen_dir, "model-traces.txt")
        limit = (3000 if pid == "C13" else 2000) if quick else 0
        rc, out = vlib.sh([drv, "gen", gen_file, str(limit), str(res.seed)], timeout=900)
        m = re.search(r"GEN states=(\d+) transitions=(\d+) depth=(\d+) written=(\d+) toggles=(\d+)", out)
        if rc == 0 and m:
            explo = {
                "configuration": "receiver 1, transmitter 2 (event message, no ticker), application thread 0x10; content in {0,1}; "
                                 "ghost counters erased from the state identity",
                "bound": "none on depth: the complete reachable abstract state space (BFS to fixpoint, every event of the alphabet "
                         "tried in every state)",
                "states": int(m.group(1)), "transitions": int(m.group(2)), "bfs_depth": int(m.group(3)),
                "traces_replayed": int(m.group(4)),
                "replay": "every transition" if limit == 0 else
                          "deterministic set of %s application toggles (SetFlag / WakeSend at every transmitter pc of T0,S1..S4,T1,SEL "
                          "x flag x last-read x token x application state, incl. the second toggle of a pair inside the window after "
                          "the flag read) + seeded sample of %d transitions" % (m.group(5), limit),
            }
            args = args + ["dir=" + gen_file]
            # the same for a transmitter whose message is already enabled when it starts (no wake-up token)
            gen_on = os.path.join(gen_dir, "model-traces-on.txt")
            rc2, out2 = vlib.sh([drv, "gen", gen_on, str(limit // 4), str(res.seed), "on"], timeout=900)
            m2 = re.search(r"GEN states=(\d+) transitions=(\d+) depth=(\d+) written=(\d+) toggles=(\d+)", out2)
            if rc2 == 0 and m2:
                explo["enabled_at_start"] = {"states": int(m2.group(1)), "transitions": int(m2.group(2)),
                                             "bfs_depth": int(m2.group(3)), "traces_replayed": int(m2.group(4))}
                args = args + ["diron=" + gen_on]
            else:
                explo["enabled_at_start"] = {"error": out2[-300:]}
        else:
            explo = {"error": "model exploration failed: " + out[-300:]}
    except Exception as e:  # the remaining schedules still run
        explo = {"error": repr(e)}
    vlib.standard_run(
        res, "runner", args, "runner", RULES[pid],
        ["the LTS Runner/Lts.v is a faithful transcription of run.go's statement order and of the generated "
         "SetCyclicTransmissionEnabled / Transmit / wake-up channel code: checked on every run by trace inclusion of the "
         "logged schedules (the 1 receiver + 1 transmitter + 1 application configuration: every transition of the "
         "completely explored model forced on the code in the thorough tier, a seeded sample in the quick tier; larger "
         "configurations: windowed enumeration + seeded random)",
         "sync.Mutex, channels, select and time.Ticker behave as modelled (one owner; capacity-1 wake-up channel with "
         "non-blocking send; rendezvous event channel; ticker buffer of one, Stop leaves a buffered tick)",
         "the OCaml driver inserts only Apply / Tick / TickTake events (not observable at the interfaces); into timed "
         "traces only Stamp / WithTimeout with the observed clock readings; into Run-level traces only Spawn / WorkerRet",
         "context.WithTimeout reads the system clock (monotonic) when it is called; the harness's readings of the same clock "
         "at the hook's return and at the entry of TransmitFrame bracket it",
         "durations, fairness and goroutine leaks are measured by the whole-node scenarios only; a whole-node scenario "
         "whose outcome depends on a write finishing within one cycle time is repeated with longer cycle times before it "
         "counts as failed"],
        driver_args=[mode], timeout=1500 if quick else 3000, known_matcher=_known_matcher(pid),
        corr_name="every logged trace of the real runner under forced schedules is accepted by the extracted step_fn and "
                  "satisfies the trace predicates (harness/runner | ocaml/runner_main.ml %s)" % mode)
    res.cov["model_exploration"] = explo
    _explain_crash(res)


def _explain_crash(res):
    """If the harness process died with a Go panic (a panic inside a goroutine started by the code under test cannot
    be recovered by the harness), say WHICH call panicked: the panic text, the first frames of the stack that are in
    code under test and the whole-node scenario that was running go into the violation text and into the replay."""
    for k, (what, replay, no_input) in enumerate(res.violations):
        if not (isinstance(replay, dict) and what.startswith("implementation harness or model driver failed")):
            continue
        err = replay.get("stderr", "")
        m = re.search(r"^(panic: .*|fatal error: .*)$", err, re.M)
        if not m:
            continue
        lines = err[m.start():].splitlines()
        frames = []
        for i in range(1, len(lines)):
            if lines[i].startswith("\t") and not lines[i - 1].startswith("\t"):
                frames.append((lines[i - 1].strip(), lines[i].strip().split(" +")[0]))
        under_test = [f for f in frames if "go.einride.tech/can/" in f[0] and "cmd/verif_runner" not in f[1]]
        scen = re.findall(r"^verif_runner: (whole-node scenario .*)$", err[:m.start()], re.M)
        call = "%s at %s" % under_test[0] if under_test else ("%s at %s" % frames[0] if frames else "?")
        text = ("the harness process CRASHED with a Go %s ; failing call%s: %s ; while running: %s"
                % (m.group(1), " (first frame inside the code under test)" if under_test else "", call,
                   scen[-1] if scen else "the step-controlled schedules (no whole-node scenario started yet)"))
        replay = dict(replay, panic=lines[:30], failing_call=call, frames_in_code_under_test=["%s at %s" % f for f in under_test[:8]],
                      scenario=scen[-1] if scen else None,
                      how_to_reproduce="build harness/runner into the tree (go build -overlay, see vlib.build_harness) and run it "
                                       "with the arguments of this check; the panic is deterministic for the named scenario")
        res.violations[k] = (text, replay, False if under_test else no_input)
