"""The path ordinary users take: the `cantool generate` command line (cmd/cantool/main.go).

Not a family (no PROPERTIES table): a stage used by the C11 check (checks/api.py).

The library entry points generate.Compile + generate.Database are what the theorems' model is tied to
(harness/gen). Users reach them through `cantool generate <input-dir> <output-dir>`; this stage checks that
the command is exactly the glue its documentation describes, by comparing the REAL binary built from the
tree with the library results of the same run:

  * every file with extension .dbc anywhere below <input-dir> (and nothing else: other extensions, `.DBC`,
    directories whose name ends in .dbc) produces <output-dir>/<relative path>.go;
  * the bytes written are exactly generate.Database(generate.Compile(path, bytes)) - compared with the
    output harness/gen obtained from the library for the same text, modulo the source path that the
    generator embeds (`// Source: <path>` and the SourceFile field of the descriptor);
  * exit status 0 and one `wrote: <path>` line per file;
  * a file that does not parse, or whose compilation yields a warning, makes the command fail (non-zero
    exit status) without writing an output file for it.

A difference is reported as a violation of the property with the DBC text and both outputs as the replay
(it is a concrete input on which what the user gets differs from what the model is tied to)."""
import os
import shutil

import vlib

_DISTRACTORS = {
    "README.txt": "this is not a DBC file\n",
    "sub/old.dbc.bak": "BO_ garbage that does not parse !!!\n",
    "sub/UPPER.DBC": "BO_ garbage that does not parse !!!\n",
    "notes.dbc.txt": "BO_ garbage\n",
    "dir.dbc/inner.txt": "a directory whose name ends in .dbc is not an input file\n",
}

_WARNING_DBC = ('VERSION ""\n\nNS_ :\n\nBS_:\n\nBU_: NodeA\n\nBO_ 100 MsgA: 8 NodeA\n SG_ SigA : 0|8@1+ (1,0) [0|0] "" NodeA\n\n'
                'CM_ SG_ 999 Nowhere "comment on a signal of an undeclared message";\n')
_BROKEN_DBC = 'VERSION ""\n\nBO_ 100 MsgA: 8 NodeA\n SG_ SigA : 0|8@1+ (1,0 [0|0] "" NodeA\n'


def _rel_for(i, name):
    return [name + ".dbc", "sub/" + name + ".dbc", "sub/deep er/x-y_z/" + name + ".dbc"][i % 3]


def build_cantool(scratch):
    exe = os.path.join(scratch, "cantool")
    rc, out = vlib.sh(["go", "build", "-o", exe, "./cmd/cantool"], cwd=vlib.REPO, env=vlib.go_env(), timeout=600)
    return (exe if rc == 0 and os.path.exists(exe) else None), out


def _walk(root):
    found = {}
    for d, _, files in os.walk(root):
        for f in files:
            p = os.path.join(d, f)
            found[os.path.relpath(p, root)] = open(p, "rb").read()
    return found


def generate_stage(res, scratch, progs):
    """progs: [(name, text, db, summary)]; library outputs are expected at <scratch>/out/<name>/<name>.dbc.go.
    Returns a coverage dict (also stored in res.cov["cantool_generate_cli"])."""
    cov = {"files": 0, "distractors": len(_DISTRACTORS), "failing_inputs": 0, "compared_bytes": 0}
    exe, log = build_cantool(scratch)
    if exe is None:
        res.violation("cmd/cantool no longer builds (broken tie to the command-line path)", {"build_log": log[-3000:]}, no_input=True)
        return cov
    cin, cout = os.path.join(scratch, "cli_in"), os.path.join(scratch, "cli_out")
    shutil.rmtree(cin, ignore_errors=True)
    shutil.rmtree(cout, ignore_errors=True)
    os.makedirs(cin)
    expect = {}
    texts = {}
    k = 0
    for name, text, _, _ in progs:
        lib = os.path.join(scratch, "out", name, name + ".dbc.go")
        if not os.path.exists(lib):
            continue
        rel = _rel_for(k, name)
        k += 1
        p = os.path.join(cin, rel)
        os.makedirs(os.path.dirname(p), exist_ok=True)
        open(p, "w").write(text)
        want = open(lib, "rb").read().decode("utf-8", "surrogateescape")
        want = want.replace("// Source: %s.dbc\n" % name, "// Source: %s\n" % rel)
        want = want.replace('SourceFile: (string)("%s.dbc")' % name, 'SourceFile: (string)("%s")' % rel)
        expect[rel + ".go"] = want.encode("utf-8", "surrogateescape")
        texts[rel + ".go"] = text
    for rel, content in _DISTRACTORS.items():
        p = os.path.join(cin, rel)
        os.makedirs(os.path.dirname(p), exist_ok=True)
        open(p, "w").write(content)
    cov["files"] = len(expect)
    # two ways of naming the input directory: "." from inside it, and its absolute path from elsewhere
    # (the path given to generate.Compile, which the generator embeds, is <input-dir>/<relative path>)
    for how, argv, cwd, prefix in (("dot", [exe, "generate", ".", os.path.relpath(cout, cin)], cin, ""),
                                   ("absolute", [exe, "generate", cin, cout], scratch, cin + "/")):
        shutil.rmtree(cout, ignore_errors=True)
        rc, out = vlib.sh(argv, cwd=cwd, timeout=600)
        got = _walk(cout) if os.path.isdir(cout) else {}
        tag = "`cantool generate` (input directory given as %s)" % ("'.'" if how == "dot" else "an absolute path")
        if rc != 0:
            res.violation("%s fails (exit status %d) on a directory of DBC files of the supported class on which "
                          "generate.Compile + generate.Database succeed" % (tag, rc),
                          {"output_tail": out[-2000:], "files": sorted(expect)[:20],
                           "dbc": next(iter(texts.values()), "")})
        missing = sorted(set(expect) - set(got))
        extra = sorted(set(got) - set(expect))
        if rc == 0 and missing:
            res.violation("%s exits 0 but wrote no output for %s" % (tag, missing[:3]),
                          {"dbc": texts[missing[0]], "missing": missing, "stdout_tail": out[-1500:]})
        if extra:
            res.violation("%s wrote output for files that are not .dbc inputs: %s" % (tag, extra[:3]),
                          {"extra": extra, "stdout_tail": out[-1500:]})
        for rel in sorted(set(expect) & set(got)):
            cov["compared_bytes"] += len(got[rel])
            want = expect[rel]
            if prefix:
                src = rel[:-3].encode()
                want = want.replace(b"// Source: " + src + b"\n", b"// Source: " + prefix.encode() + src + b"\n")
                want = want.replace(b'SourceFile: (string)("' + src + b'")', b'SourceFile: (string)("' + prefix.encode() + src + b'")')
            if got[rel] != want:
                a, b = got[rel].decode("utf-8", "replace").splitlines(), want.decode("utf-8", "replace").splitlines()
                diff = [(i + 1, x, y) for i, (x, y) in enumerate(zip(a, b)) if x != y][:3]
                res.violation("%s output differs from generate.Database(generate.Compile(..)) for %s" % (tag, rel),
                              {"dbc": texts[rel], "first_differences(line, cli, library)": diff, "lengths": [len(a), len(b)]})
                break
        if rc == 0:
            wrote = [l for l in out.splitlines() if l.startswith("wrote: ")]
            if len(wrote) != len(expect):
                res.violation("%s printed %d `wrote:` lines for %d generated files" % (tag, len(wrote), len(expect)),
                              {"stdout_tail": out[-1500:], "dbc": next(iter(texts.values()), "")})
        cov["invocations"] = cov.get("invocations", 0) + 1
    # HISTORY: generate again into an output directory that already holds the results of an earlier run, after the inputs
    # changed - half of the files now carry ANOTHER program's text (so outputs shrink/grow) and every input is made OLDER
    # than the existing outputs (a make-style "up to date" shortcut must not exist; an output written without truncation
    # keeps the tail of the previous one). Reference = the same command on the same inputs into a fresh directory.
    rels = sorted(r[:-3] for r in expect)        # <rel>.dbc
    if len(rels) >= 2:
        import time
        hist_in, hist_out, fresh_out = (os.path.join(scratch, d) for d in ("cli_hist_in", "cli_hist_out", "cli_fresh_out"))
        for d in (hist_in, hist_out, fresh_out):
            shutil.rmtree(d, ignore_errors=True)
        shutil.copytree(cin, hist_in)
        rc1, out1 = vlib.sh([exe, "generate", ".", os.path.relpath(hist_out, hist_in)], cwd=hist_in, timeout=600)
        by_size = sorted(rels, key=lambda r: len(open(os.path.join(cin, r), "rb").read()))
        swaps = list(zip(by_size[:len(by_size) // 2], reversed(by_size[len(by_size) // 2:])))
        for small, large in swaps:
            a, b = open(os.path.join(cin, small), "rb").read(), open(os.path.join(cin, large), "rb").read()
            open(os.path.join(hist_in, small), "wb").write(b)
            open(os.path.join(hist_in, large), "wb").write(a)
        old = time.time() - 7200
        for r in rels:
            os.utime(os.path.join(hist_in, r), (old, old))
        rc2, out2 = vlib.sh([exe, "generate", ".", os.path.relpath(hist_out, hist_in)], cwd=hist_in, timeout=600)
        rc3, out3 = vlib.sh([exe, "generate", ".", os.path.relpath(fresh_out, hist_in)], cwd=hist_in, timeout=600)
        cov["regenerated_into_existing_directory"] = len(rels)
        if rc1 != 0 or rc2 != 0 or rc3 != 0:
            res.violation("`cantool generate` fails when run a second time into an existing output directory (exit %d, %d, fresh %d)" % (rc1, rc2, rc3),
                          {"output_tail": (out2 + out3)[-2000:], "dbc": next(iter(texts.values()), "")})
        else:
            h, f = _walk(hist_out), _walk(fresh_out)
            bad = sorted(r for r in set(h) | set(f) if h.get(r) != f.get(r))
            if bad:
                r = bad[0]
                res.violation("`cantool generate` into an output directory that holds the results of an earlier run differs from the "
                              "same command into a fresh directory (file %s: %d bytes vs %d bytes): the result depends on what was "
                              "generated before" % (r, len(h.get(r, b"")), len(f.get(r, b""))),
                              {"dbc": open(os.path.join(hist_in, r[:-3]), "rb").read().decode("utf-8", "replace"),
                               "files_differing": bad[:10], "second_run_stdout_tail": out2[-1000:]})
    # inputs that must make the command fail, each in its own directory
    for label, text in (("warning", _WARNING_DBC), ("syntax-error", _BROKEN_DBC)):
        d = os.path.join(scratch, "cli_bad_" + label)
        shutil.rmtree(d, ignore_errors=True)
        os.makedirs(os.path.join(d, "in"))
        open(os.path.join(d, "in", "bad.dbc"), "w").write(text)
        rc2, out2 = vlib.sh([exe, "generate", "in", "out"], cwd=d, timeout=120)
        cov["failing_inputs"] += 1
        wrote = os.path.exists(os.path.join(d, "out", "bad.dbc.go"))
        if rc2 == 0 or wrote:
            res.violation("`cantool generate` does not fail on a DBC with a %s (exit status %d, output written: %s)" % (label, rc2, wrote),
                          {"dbc": text, "output_tail": out2[-1500:]})
    res.cov["cantool_generate_cli"] = cov
    return cov
