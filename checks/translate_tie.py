"""Translation tie: regenerate Gallina definitions from the CURRENT Go source and re-prove, for all
inputs, that they equal the hand-written Coq models.

    run_tie(res, functions=None)

1. builds harness/translate (cmd/verif_translate, compiled into vlib.REPO's working tree like every
   other harness) and runs it into a fresh scratch directory -> Translated.v;
2. compiles Translated.v (logical path CanTranslated.Translated) against coq/theories
   (Translate/GoSem.v is the semantics it is written in; built through tools/coqmake.sh);
3. assembles coq/translate/Equiv.v (header + the selected groups), appends a Print Assumptions over
   all T_ lemmas, and compiles it against the regenerated file under a shell timeout.

The T_ lemmas of the integer/bit/byte groups must be closed under the global context; those of the
floating-point groups (physical, apidecide: Flocq) may depend on the standard-library axioms of
vlib.AXIOM_WHITELIST and on nothing else.

Failure of any step is a broken tie: res.violation("translated source no longer equals the model:
...", no_input=True) naming the lemma / the translator's file:line message. On success one line is
added to res.corr_obligations and the counts go to res.cov["translation_tie"].

`functions`: None = every group of Equiv.v; otherwise an iterable of group names ("can",
"descriptor", "wire", "physical", "apidecide", "netlink", "scan", "dbcid", "dbcvalidate", "lookup", "lintnames", "frametext", "render") and/or translated function names
("Data_Bit", "Signal_MaxUnsigned", ...):
the groups containing them, plus the groups those require, are checked (a group is the unit because
the generated records contain exactly the struct fields the translated functions use).

This module has no PROPERTIES table: check.py does not treat it as a family.

Call it BEFORE vlib.standard_run: a violation found by the correspondence run (a concrete failing
input) is then still what is reported first; vlib.standard_run assigns res.corr_obligations afresh,
so run_tie hooks res.finish to put its obligation line back and to order concrete inputs first.
"""
import os
import re
import shutil
import sys
import time

if __name__ == "__main__":  # python3 checks/translate_tie.py [group|function ...]
    sys.path.insert(0, os.path.dirname(os.path.dirname(os.path.abspath(__file__))))
import vlib  # noqa: E402

TIE_TEXT = (" In addition the model is REGENERATED from the source on every run: harness/translate translates the Go functions "
            "%s (go/types-checked subset) to Gallina and coq/translate/Equiv.v re-proves, for all inputs, that each translated "
            "function equals the hand-written model; a semantic change of a translated function breaks that proof obligation.")
TIE_NOTE_INT = (" Added trusted base of the translation tie: the translator harness/translate/main.go (unverified Go program) and "
                "Translate/GoSem.v's reading of Go's integer semantics.")
TIE_NOTE_FLOAT = (" The translated float64/float32 operations are read as one IEEE-754 round-to-nearest-even operation per Go operator "
                  "(Translate/GoSemFloat.v on Flocq: no FMA fusion, amd64, a single NaN, math.Max/Min by the case order of dim.go, "
                  "constants = the bit pattern go/types computes); the T_ lemmas of these groups depend on the standard-library "
                  "real-number axioms that Flocq uses and on nothing else.")
TIE_NOTE_SLICE = (" Translated []byte values are their contents (nil = empty, no aliasing: only stores into a make'd local or into the "
                  "one written []byte parameter are accepted), slice/index panics other than an explicit `_ = b[k]` check are not modelled by the translation (the hand model's checked slicing is what the "
                  "no-out-of-bounds theorems are about), nlenc is little-endian.")
TIE_NOTE_WIRE = (" Translated here: Frame.Validate and all of pkg/socketcan/frame.go (encodeFrame, decodeFrame, isExtended/isRemote/"
                 "isError/id, unmarshalBinary, marshalBinary, decodeErrorFrame and its seven accessors). The two codecs are "
                 "translated to functions into option (None = the explicit bounds check `_ = b[15]` panics; the only panic the "
                 "translation models); marshalBinary returns the final contents of the []byte parameter it writes through, "
                 "assumed not to overlap the receiver; binary.LittleEndian.Uint32/PutUint32 are read as little-endian "
                 "accessors of the first four bytes (Translate/GoSem.v).")
TIE_NOTE_LOOP = (" Loops of the form `for i, x := range l` / `for i := 0; i < len(l); i++` whose body assigns locals, continues or "
                 "returns are translated to the fold go_range of Translate/GoSem.v (state = the assigned locals, early exit = "
                 "LoopReturn); a []*S is read as the list of the element values (elements assumed non-nil, pointer identity not "
                 "represented), a returned *S as option S; `range` over a string decodes UTF-8 by GoSem.v's go_utf8_decode (RFC 3629 "
                 "table, invalid byte = U+FFFD of width 1); unicode.IsDigit/IsUpper are uninterpreted (parameters of the translated "
                 "function: the lemma holds for every interpretation).")


def describe(properties, pid, functions, *notes):
    """append the tie's claim and trusted-base text to a family's PROPERTIES[pid] (MANIFEST level text / note)"""
    p = properties[pid]
    properties[pid] = dict(p, text=p["text"] + TIE_TEXT % functions, note=p["note"] + "".join(notes))


EQUIV = os.path.join(vlib.COQ, "translate", "Equiv.v")
_GROUP = re.compile(r"^\(\* @group (\w+)(?: requires ([\w ]+?))? \*\)\s*$", re.M)
_LEMMA = re.compile(r"^\s*Lemma\s+T_(\w+?)_eq('*)\b", re.M)
COQ_MEM_KB = 16000000


def parse_equiv(src):
    """-> (header text, [(group, requires, text, [function names])]) in file order."""
    marks = list(_GROUP.finditer(src))
    if not marks:
        raise RuntimeError("coq/translate/Equiv.v has no @group markers")
    header = src[:marks[0].start()]
    groups = []
    for i, m in enumerate(marks):
        end = marks[i + 1].start() if i + 1 < len(marks) else len(src)
        text = src[m.start():end]
        fns = []
        for lm in _LEMMA.finditer(vlib.strip_coq_comments(text)):
            if lm.group(1) not in fns:
                fns.append(lm.group(1))
        groups.append((m.group(1), (m.group(2) or "").split(), text, fns))
    return header, groups


def select_groups(groups, functions):
    names = [g[0] for g in groups]
    if functions is None:
        return names
    want = set()
    for f in functions:
        hit = [g[0] for g in groups if f == g[0] or f in g[3]]
        if not hit:
            raise RuntimeError("translate_tie: %r is neither a group nor a function with a T_ lemma in Equiv.v" % f)
        want.update(hit)
    changed = True
    while changed:
        changed = False
        for g in groups:
            if g[0] in want:
                for r in g[1]:
                    if r not in want:
                        want.add(r)
                        changed = True
    return [n for n in names if n in want]


def _coqc(scratch, fname, timeout):
    cmd = "ulimit -v %d; timeout %d coqc -Q %s CanTranslated -Q %s CanVerif -w -notation-overridden %s" % (
        COQ_MEM_KB, timeout, scratch, os.path.join(vlib.COQ, "theories"), fname)
    return vlib.sh(["bash", "-c", cmd], cwd=scratch)


def _enclosing(lines, n):
    for i in range(min(n, len(lines)) - 1, -1, -1):
        m = re.match(r"\s*(Lemma|Theorem|Definition|Example|Ltac)\s+([\w']+)", lines[i])
        if m:
            return m.group(2)
    return None


def _definition_of(translated_src, name):
    m = re.search(r"^\(\*\* [^\n]*\*\)\nDefinition %s .*?\.\n\n" % re.escape(name), translated_src, re.M | re.S)
    return m.group(0).strip() if m else ""


TRUSTED = ("translation tie: the translator harness/translate/main.go (unverified Go program; go/parser, go/types, "
           "x/tools/go/packages) and Translate/GoSem.v's / GoSemFloat.v's / GoSemText.v's reading of Go's integer, slice, "
           "floating-point and string / text-library semantics (see the headers of those files)")


def _hook_finish(res, line):
    """vlib.standard_run replaces res.corr_obligations and res.assumptions; put the tie's lines back
    when the evidence is written, and list violations that carry a concrete failing input before
    those that do not."""
    if getattr(res, "_tie_lines", None) is not None:
        res._tie_lines.append(line)
        return
    res._tie_lines = [line]
    orig = res.finish

    def finish(*a, **kw):
        for ln in res._tie_lines:
            if ln not in res.corr_obligations:
                res.corr_obligations.append(ln)
        if TRUSTED not in res.assumptions:
            res.assumptions = list(res.assumptions) + [TRUSTED]
        res.violations.sort(key=lambda v: bool(v[2]))  # stable: concrete inputs first
        return orig(*a, **kw)

    res.finish = finish


def run_tie(res, functions=None, timeout=240):
    """See the module docstring. Returns True iff the tie holds."""
    t0 = time.time()
    cov = {"ok": False, "repo": vlib.REPO}
    res.cov["translation_tie"] = cov
    name = "Translated.v regenerated from the Go source and proved equal to the hand model (coq/translate/Equiv.v)"

    def broken(what, detail):
        cov["wall_s"] = round(time.time() - t0, 2)
        cov["failure"] = what
        _hook_finish(res, name)
        d = {"correspondence": name, "repo": vlib.REPO}
        d.update(detail)
        res.violation("translated source no longer equals the model: " + what, d, no_input=True)
        return False

    header, groups = parse_equiv(open(EQUIV, encoding="utf-8").read())
    sel = select_groups(groups, functions)
    cov["groups"] = sel
    wanted, body = [], header
    for g in groups:
        if g[0] in sel:
            body += g[2]
            wanted += [f for f in g[3] if f not in wanted]
    lemma_names = ["T_%s_eq%s" % (m.group(1), m.group(2)) for m in _LEMMA.finditer(vlib.strip_coq_comments(body))]
    scratch = vlib.scratch_dir()
    try:
        # 1. translator, built into the tree under test
        exe, log = vlib.build_harness("translate", scratch)
        if exe is None:
            return broken("the translator (harness/translate) does not build in the source tree",
                          {"build_log": log[-3000:]})
        out_dir = os.path.join(scratch, "ct")
        os.makedirs(out_dir)
        cmd = "ulimit -v 8000000; timeout 120 %s %s %s -only %s" % (exe, vlib.REPO, out_dir, ",".join(wanted))
        rc, out = vlib.sh(["bash", "-c", cmd], env=vlib.go_env())
        cov["translate_s"] = round(time.time() - t0, 2)
        if rc != 0:
            errs = [ln[len("TRANSLATE-ERROR "):] for ln in out.splitlines() if ln.startswith("TRANSLATE-ERROR ")]
            first = errs[0] if errs else "translator exit status %d" % rc
            return broken("translator: " + first, {"translator_messages": errs[:20], "output_tail": out[-2000:]})
        translated = {}
        files = []
        for ln in out.splitlines():
            p = ln.split()
            if p[:1] == ["TRANSLATED"]:
                translated[p[1]] = p[2]
            elif p[:1] == ["FILES"]:
                files = p[1:]
        tsrc = open(os.path.join(out_dir, "Translated.v"), encoding="utf-8").read()
        stripped = vlib.strip_coq_comments(body)
        orphan = [f for f in translated
                  if not re.search(r"Lemma\s+T_%s_eq\b(?:[^.]|\.(?=\w))*?Translated\.%s\b" % (re.escape(f), re.escape(f)), stripped, re.S)]
        if orphan:
            return broken("no lemma T_%s_eq about Translated.%s in the selected groups of Equiv.v" % (orphan[0], orphan[0]),
                          {"functions_without_lemma": orphan})
        # 2. theories needed (GoSem + the hand models), then the generated file
        targets = ["theories/Translate/GoSem.vo", "theories/Translate/GoSemProofs.vo"]
        # (Translated.v imports Translate.GoSemFloat only when a translated function mentions a float type)
        for m in re.finditer(r"^\s*From CanVerif Require(?: Import| Export)? ([\w. ]+)\.\s*$",
                             vlib.strip_coq_comments(tsrc) + "\n" + stripped, re.M):
            for mod in m.group(1).split():
                t = "theories/" + mod.replace(".", "/") + ".vo"
                if t not in targets:
                    targets.append(t)
        rc, mk = vlib.sh(["bash", "-c", "ulimit -v %d; exec %s %s" % (
            COQ_MEM_KB, os.path.join(vlib.ROOT, "tools", "coqmake.sh"), " ".join(targets))], timeout=3400)
        if rc != 0:
            return broken("the Coq theories the tie needs do not build (%s)" % " ".join(targets), {"log_tail": mk[-2000:]})
        shutil.copy(os.path.join(out_dir, "Translated.v"), os.path.join(scratch, "Translated.v"))
        rc, o1 = _coqc(scratch, "Translated.v", timeout)
        if rc != 0:
            return broken("the regenerated Translated.v is rejected by coqc (translator or GoSem.v defect): "
                          + " ".join(o1.split())[:300], {"coqc_output": o1[-3000:]})
        # 3. the proof obligations
        # one Print Assumptions over the tuple of all lemmas (one traversal of the dependency closure)
        esrc = body + "\nDefinition tie_all_lemmas__ := (%s, tt).\nPrint Assumptions tie_all_lemmas__.\n" % ", ".join(
            "@" + n for n in lemma_names)
        open(os.path.join(scratch, "Equiv.v"), "w", encoding="utf-8").write(esrc)
        rc, o2 = _coqc(scratch, "Equiv.v", timeout)
        cov["functions"] = len(translated)
        cov["lemmas"] = len(lemma_names)
        cov["go_files"] = files
        if rc != 0:
            lines = esrc.split("\n")
            m = re.search(r'File "[^"]*Equiv\.v", line (\d+), characters [\d-]+:\s*\n(?:Warning[^\n]*\n)*Error:?\s*(.*)', o2, re.S)
            if m:
                ln = int(m.group(1))
                lemma = _enclosing(lines, ln) or "?"
                err = " ".join(m.group(2).split())[:240]
                fn = re.sub(r"^T_|_eq'*$", "", lemma)
                where = translated.get(fn, "")
                what = "lemma %s (coq/translate/Equiv.v) no longer checks against the regenerated Translated.%s%s: %s" % (
                    lemma, fn, " (%s)" % where if where else "", err)
                return broken(what, {"lemma": lemma, "equiv_line": ln, "go_function": fn, "go_position": where,
                                     "coq_error": err, "regenerated_definition": _definition_of(tsrc, fn)})
            why = "timeout" if rc == 124 else "rc=%d" % rc
            return broken("Equiv.v does not compile against the regenerated Translated.v (%s)" % why,
                          {"coqc_output": o2[-3000:]})
        # integer/bit groups: closed under the global context. Groups on Flocq (floats): only the
        # standard-library axioms that Flocq's own lemmas bring in (vlib.AXIOM_WHITELIST, DESIGN.md 9.5).
        closed = len(re.findall(r"Closed under the global context", o2))
        axioms = set()
        for block in re.findall(r"Axioms:\n((?:.+\n?)+?)(?=\n\S|\Z|Closed under|Axioms:)", o2):
            for am in re.finditer(r"^([A-Za-z_][\w.']*)\s*:", block, re.M):
                axioms.add(am.group(1))
        bad = sorted(a for a in axioms if a not in vlib.AXIOM_WHITELIST and a.split(".")[-1] not in vlib.AXIOM_WHITELIST)
        n_blocks = closed + len(re.findall(r"^Axioms:", o2, re.M))
        cov["closed_under_global_context"] = bool(closed == 1)
        cov["axioms"] = sorted(axioms)
        if bad or n_blocks != 1 or (closed != 1 and not axioms):
            return broken("the T_ lemmas depend on axioms outside the standard-library whitelist: "
                          + (", ".join(bad) or " ".join(o2.split())[-300:]), {"print_assumptions": o2[-3000:]})
        cov["ok"] = True
        cov["wall_s"] = round(time.time() - t0, 2)
        line = ("Translated.v regenerated from %s's current %s (%d functions) and proved equal to the hand model "
                "for all inputs (Equiv.v: %d lemmas, groups %s, %s)" % (
                    vlib.REPO, "|".join(files) or "source",
                    len(translated), len(lemma_names), "+".join(sel),
                    "all closed under the global context" if closed == 1 else
                    "axioms: only the standard-library ones reached through Flocq (%s)" % ", ".join(sorted(axioms))))
        res.corr_obligations.append(line)
        _hook_finish(res, line)
        return True
    finally:
        shutil.rmtree(scratch, ignore_errors=True)


if __name__ == "__main__":
    import json
    _res = vlib.Result("TIE", "quick", 1)
    _ok = run_tie(_res, sys.argv[1:] or None)
    print(json.dumps(_res.cov["translation_tie"], indent=1))
    for _v in _res.violations:
        print("BROKEN TIE: " + _v[0])
    print("\n".join(_res.corr_obligations))
    sys.exit(0 if _ok else 1)
