#!/usr/bin/env python3
"""Entry point of every check:  python3 check.py <ID> [quick|thorough] [--replay <file>]

exit 0: the property held on everything explored (KNOWN-FINDING lines allowed);
exit 1: `VIOLATION property=<id> replay=<path>` lines on stdout.
Honours VERIF_SEED (default 1) and VERIF_TIER."""
import importlib
import json
import os
import sys
import traceback

sys.path.insert(0, os.path.dirname(os.path.abspath(__file__)))
import vlib  # noqa: E402

def families():
    """checks/<family>.py declares PROPERTIES = {id: {...manifest text...}}"""
    fam = {}
    d = os.path.join(os.path.dirname(os.path.abspath(__file__)), "checks")
    for fn in sorted(os.listdir(d)):
        if fn.endswith(".py") and not fn.startswith("_"):
            mod = importlib.import_module("checks." + fn[:-3])
            for pid in getattr(mod, "PROPERTIES", {}):
                fam[pid] = mod
    return fam


def main():
    if len(sys.argv) < 2:
        print(__doc__)
        return 2
    pid = sys.argv[1]
    tier = os.environ.get("VERIF_TIER") or (sys.argv[2] if len(sys.argv) > 2 and not sys.argv[2].startswith("--") else "quick")
    seed = int(os.environ.get("VERIF_SEED", "1") or 1)
    replay = None
    if "--replay" in sys.argv:
        replay = sys.argv[sys.argv.index("--replay") + 1]
    if replay and os.path.exists(replay):
        # a replay file records the seed and tier of the run that produced it: every random choice derives
        # from the seed, so re-running with them reproduces the violation (family checks may narrow further)
        try:
            rj = json.load(open(replay))
            seed = int(rj.get("seed", seed))
            tier = rj.get("tier", tier)
            print("# replaying %s (seed %d, tier %s): %s" % (replay, seed, tier, str(rj.get("what", ""))[:200]))
        except Exception:
            pass
    fam = families()
    if pid not in fam:
        print("unknown property %s" % pid)
        return 2
    mod = fam[pid]
    res = vlib.Result(pid, tier, seed)
    try:
        mod.run(res, replay=replay)
    except Exception as e:  # a crashed check must not look like a pass
        traceback.print_exc()
        res.violation("check machinery failed: %r" % (e,), {"exception": repr(e)}, no_input=True)
    return res.finish()


if __name__ == "__main__":
    sys.exit(main())
