(* deps: runwire.ml *)
(* Model driver for the runner family (C13 lock discipline, C14 protocol).
   Reads the harness output (harness/runner): one logged implementation trace per TR line, plus
   whole-node check lines (WN / RUN), Run-level traces (RN) and the stress line (ST).
   For a TR line: (1) the hidden events the interfaces cannot show (Apply after the unlock that
   ends setCyclicTransmission; Tick / TickTake when a parked transmitter shows up at Lock without a
   delivery) are inserted; only those three kinds are ever inserted; (2) the completed trace is
   run through the extracted [step_fn] (= [accepts]); (3) the observed lock-ownership bits are
   compared with the property (Access / Mutate need the lock, HookCall must not have it) and with
   the model's owner; (4) the extracted trace predicates [order_ok], [discipline_ok], [tx_ok] are
   evaluated.  A rejected event is reported with its index and the model state of its thread.
   argv.(1) = c13 | c14 selects which failures count as the property predicate being false
   (PFAIL) and which only break the correspondence (DISAGREE). *)
open Model
open Common

let mode = if Array.length Sys.argv > 1 then Sys.argv.(1) else "c14"

let rec nat_of_int n = if n <= 0 then O else S (nat_of_int (n - 1))
let rec int_of_nat = function O -> 0 | S n -> 1 + int_of_nat n
let hx s = int_of_string ("0x" ^ s)
let nh s = nat_of_int (hx s)

let ascii_of_char c =
  let n = Char.code c in
  let b i = (n lsr i) land 1 = 1 in
  Ascii (b 0, b 1, b 2, b 3, b 4, b 5, b 6, b 7)

let char_of_ascii (Ascii (b0, b1, b2, b3, b4, b5, b6, b7)) =
  let v b i = if b then 1 lsl i else 0 in
  Char.chr (v b0 0 + v b1 1 + v b2 2 + v b3 3 + v b4 4 + v b5 5 + v b6 6 + v b7 7)

let text_of_string s = List.init (String.length s) (fun i -> ascii_of_char s.[i])
let string_of_text t = String.init (List.length t) (fun i -> char_of_ascii (List.nth t i))

let unhex s =
  if s = "-" then ""
  else String.init (String.length s / 2) (fun i -> Char.chr ((hexval s.[2 * i] * 16) + hexval s.[(2 * i) + 1]))

(* ---------------------------------------------------------------- printing *)

let what_str = function
  | WHook -> "hook" | WTime -> "time"
  | WUnmarshal ok -> if ok then "unm1" else "unm0"
  | WFlag b -> if b then "flag1" else "flag0"
  | WFrame v -> Printf.sprintf "frame%x" (int_of_nat v)

let b01 b = if b then "1" else "0"
let i = int_of_nat

let ev_str = function
  | Lock t -> Printf.sprintf "Lock(%x)" (i t)
  | Unlock t -> Printf.sprintf "Unlock(%x)" (i t)
  | Access (t, w) -> Printf.sprintf "Access(%x,%s)" (i t) (what_str w)
  | HookCall t -> Printf.sprintf "HookCall(%x)" (i t)
  | HookRet (t, ok) -> Printf.sprintf "HookRet(%x,%s)" (i t) (b01 ok)
  | Mutate (t, m, v) -> Printf.sprintf "Mutate(%x,%x,%x)" (i t) (i m) (i v)
  | Recv (t, ok) -> Printf.sprintf "Recv(%x,%s)" (i t) (b01 ok)
  | RxFrame t -> Printf.sprintf "RxFrame(%x)" (i t)
  | Lookup (t, k) -> Printf.sprintf "Lookup(%x,%s)" (i t) (b01 k)
  | RecvErr (t, ok) -> Printf.sprintf "RecvErr(%x,%s)" (i t) (b01 ok)
  | TxInit t -> Printf.sprintf "TxInit(%x)" (i t)
  | Apply t -> Printf.sprintf "Apply(%x)" (i t)
  | GetWake t -> Printf.sprintf "GetWake(%x)" (i t)
  | Wake t -> Printf.sprintf "Wake(%x)" (i t)
  | Accept (t, a) -> Printf.sprintf "Accept(%x,%x)" (i t) (i a)
  | TickTake t -> Printf.sprintf "TickTake(%x)" (i t)
  | Transmit (t, f, ok) -> Printf.sprintf "Transmit(%x,%x,%s)" (i t) (i f) (b01 ok)
  | SetFlag (a, m, b) -> Printf.sprintf "SetFlag(%x,%x,%s)" (i a) (i m) (b01 b)
  | WakeSend (a, m) -> Printf.sprintf "WakeSend(%x,%x)" (i a) (i m)
  | Offer (a, m) -> Printf.sprintf "Offer(%x,%x)" (i a) (i m)
  | OfferAbort a -> Printf.sprintf "OfferAbort(%x)" (i a)
  | Tick t -> Printf.sprintf "Tick(%x)" (i t)
  | Cancel -> "Cancel"
  | Done (t, ok) -> Printf.sprintf "Done(%x,%s)" (i t) (b01 ok)

let rpc_str = function
  | R0 -> "R0" | R1 -> "R1" | R2 -> "R2" | R3 -> "R3" | R4 -> "R4" | R5 -> "R5" | R6 -> "R6"
  | R7 _ -> "R7" | R8 -> "R8" | RH -> "RH" | RHL -> "RHL" | RErr -> "RErr" | REnd _ -> "REnd" | RDone -> "RDone"

let tpc_str = function
  | T0 -> "T0" | S1 -> "S1" | S2 -> "S2" | S3 -> "S3" | S4 -> "S4" | T1 -> "T1" | SEL -> "SEL"
  | X1 -> "X1" | X2 -> "X2" | X3 -> "X3" | X4 -> "X4" | X5 -> "X5" | XHU -> "XHU" | XHL -> "XHL"
  | X6 -> "X6" | X7 -> "X7" | X8 -> "X8" | X9 -> "X9" | TFail -> "TFail" | TDone -> "TDone"

let thread_str = function
  | TRx p -> "rx@" ^ rpc_str p
  | TTx x ->
      Printf.sprintf "tx@%s{flag=%s last=%s wake=%s armed=%s tick=%s acc=%d tk=%d txd=%d ab=%d}" (tpc_str x.t_pc)
        (b01 x.t_flag) (b01 x.t_last) (b01 x.t_wake) (b01 x.t_armed) (b01 x.t_tick) (i x.t_acc) (i x.t_tk) (i x.t_txd) (i x.t_ab)
  | TApp a -> "app{locked=" ^ b01 a.a_locked ^ "}"
  | TNone -> "none"

let actor_of = function
  | Lock t | Unlock t | Access (t, _) | HookCall t | HookRet (t, _) | Mutate (t, _, _) | Recv (t, _) | RxFrame t
  | Lookup (t, _) | RecvErr (t, _) | TxInit t | Apply t | GetWake t | Wake t | Accept (t, _) | TickTake t
  | Transmit (t, _, _) | Done (t, _) | SetFlag (t, _, _) | WakeSend (t, _) | Offer (t, _) | OfferAbort t | Tick t -> Some t
  | Cancel -> None

(* ---------------------------------------------------------------- parsing *)

type obs = { ev : event option; held : bool option; wrong_err : bool; raw : string }

let parse_token tok =
  let mk ?held ?(wrong_err = false) e = { ev = Some e; held; wrong_err; raw = tok } in
  let bit s = s = "1" in
  match String.split_on_char '.' tok with
  | [ "L"; t ] -> mk (Lock (nh t))
  | [ "U"; t ] | [ "UBAD"; t ] -> mk (Unlock (nh t))
  | [ "A"; t; w; h ] ->
      let w' =
        match w with
        | "hook" -> Some WHook | "time" -> Some WTime | "unm1" -> Some (WUnmarshal true) | "unm0" -> Some (WUnmarshal false)
        | "flag1" -> Some (WFlag true) | "flag0" -> Some (WFlag false)
        | _ when String.length w > 5 && String.sub w 0 5 = "frame" -> Some (WFrame (nh (String.sub w 5 (String.length w - 5))))
        | _ -> None
      in
      (match w' with Some w' -> mk ~held:(bit h) (Access (nh t, w')) | None -> { ev = None; held = Some (bit h); wrong_err = false; raw = tok })
  | [ "HC"; t; h ] -> mk ~held:(bit h) (HookCall (nh t))
  | [ "HR"; t; ok ] -> mk (HookRet (nh t, bit ok))
  | [ "M"; t; m; v; h ] -> mk ~held:(bit h) (Mutate (nh t, nh m, nh v))
  | [ "RV"; t; ok ] -> mk (Recv (nh t, bit ok))
  | [ "RF"; t ] -> mk (RxFrame (nh t))
  | [ "LK"; t; k ] -> mk (Lookup (nh t, bit k))
  | [ "RE"; t; ok ] -> mk (RecvErr (nh t, bit ok))
  | [ "TI"; t ] -> mk (TxInit (nh t))
  | [ "GW"; t ] -> mk (GetWake (nh t))
  | [ "WK"; t ] -> mk (Wake (nh t))
  | [ "AC"; t; a ] -> mk (Accept (nh t, nh a))
  | [ "X"; t; f; ok ] -> mk (Transmit (nh t, nh f, bit ok))
  | [ "SF"; a; m; b ] -> mk (SetFlag (nh a, nh m, bit b))
  | [ "WS"; a; m ] -> mk (WakeSend (nh a, nh m))
  | [ "OF"; a; m ] -> mk (Offer (nh a, nh m))
  | [ "OA"; a ] -> mk (OfferAbort (nh a))
  | [ "CA" ] -> mk Cancel
  | [ "DN"; t; c ] -> mk ~wrong_err:(c = "2") (Done (nh t, c = "1"))
  | _ -> { ev = None; held = None; wrong_err = false; raw = tok }

let parse_cfg s =
  List.map
    (fun item ->
      match String.split_on_char ':' item with
      | [ t; "rx" ] -> (nh t, RoleRx)
      | [ t; "tx" ] | [ t; "tx"; _ ] -> (nh t, RoleTx false)
      | [ t; "txc" ] | [ t; "txc"; _ ] -> (nh t, RoleTx true)
      | [ t; (("tx" | "txon") as r); c; st ] -> (nh t, role_of_descriptor (nh st) (z_of_i64hex c) (r = "txon"))
      | [ t; "txon"; _ ] -> (nh t, RoleTxOn false)
      | [ t; "txcon"; _ ] -> (nh t, RoleTxOn true)
      | [ t; "app" ] -> (nh t, RoleApp)
      | _ -> failwith ("bad cfg item " ^ item))
    (String.split_on_char ',' s)

(* cycle times (ns) of the transmitted messages: third field of a tx / txc item; absent = none / 1 ms *)
let parse_cycles s =
  List.filter_map
    (fun item ->
      match String.split_on_char ':' item with
      | [ t; ("tx" | "txc" | "txon" | "txcon"); c ] | [ t; ("tx" | "txon"); c; _ ] -> Some (nh t, z_of_i64hex c)
      | [ t; "tx" ] -> Some (nh t, z_of_int 0)
      | [ t; "txc" ] -> Some (nh t, z_of_int 1000000)
      | _ -> None)
    (String.split_on_char ',' s)

(* DL.t.<hook return>.<call>.<deadline|none>: what the fake frame transmitter saw of the context it was handed *)
type dl_obs = { dl_hr : z; dl_call : z; dl_deadline : z option }

let is_dl tok = String.length tok > 3 && String.sub tok 0 3 = "DL."

let parse_dl tok =
  match String.split_on_char '.' tok with
  | [ "DL"; t; hr; call; d ] ->
      Some (nh t, { dl_hr = z_of_i64hex hr; dl_call = z_of_i64hex call; dl_deadline = (if d = "none" then None else Some (z_of_i64hex d)) })
  | _ -> None

let rec int_of_z_signed (x : z) : string =
  if Z.ltb x (z_of_int 0) then "-" ^ int_of_z_signed (Z.sub (z_of_int 0) x) else string_of_int (int_of_z x)

let tev_str = function
  | TE e -> ev_str e
  | TStamp (t, c) -> Printf.sprintf "Stamp(%x,%sns)" (i t) (int_of_z_signed c)
  | TDeadline (t, c) -> Printf.sprintf "WithTimeout(%x,at %sns)" (i t) (int_of_z_signed c)
  | TTransmit (t, f, ok, d) -> Printf.sprintf "Transmit(%x,%x,%s,deadline %sns)" (i t) (i f) (b01 ok) (int_of_z_signed d)

(* ---------------------------------------------------------------- reporting *)

let n_pfail = ref 0
let n_disagree = ref 0
let bump k = Hashtbl.replace kinds k (1 + try Hashtbl.find kinds k with Not_found -> 0)

let pfail line clause =
  incr n_pfail;
  bump "PFAIL";
  if !n_pfail <= 40 then Printf.printf "PFAIL %s || clause=%s\n" line clause

let disagree line what =
  incr n_disagree;
  bump "DISAGREE";
  if !n_disagree <= 40 then Printf.printf "DISAGREE %s || model=%s\n" line what

(* discipline alphabet: a rejection at one of these events is a C13 failure *)
let is_discipline_event = function
  | Lock _ | Unlock _ | Access _ | HookCall _ | HookRet _ | Mutate _ -> true
  | _ -> false

(* ---------------------------------------------------------------- one trace *)

exception Rejected of int * string * string (* index, event, why *)

(* send deadlines (timed layer of Runner/RunLts.v): the accepted trace is decorated with the clock
   readings of the DL records - Stamp at the HookRet of a transmission, the hidden WithTimeout at
   deadline - send_timeout(cycle), Stamp at the call, Transmit with its deadline - and run through
   the extracted [tstep].  Only Stamp / WithTimeout events are inserted. *)
let check_deadlines line cfg cycles dls tr =
  let cyc = cyc_of_list cycles in
  let q : (int, dl_obs list) Hashtbl.t = Hashtbl.create 8 in
  List.iter (fun (t, d) -> let k = i t in Hashtbl.replace q k ((try Hashtbl.find q k with Not_found -> []) @ [ d ])) dls;
  let peek t = match Hashtbl.find_opt q (i t) with Some (d :: _) -> Some d | _ -> None in
  let pop t = match Hashtbl.find_opt q (i t) with Some (d :: tl) -> Hashtbl.replace q (i t) tl; Some d | _ -> None in
  let is_tx t = List.exists (fun (u, _) -> u = t) cycles in
  let missing = ref None in
  let timed =
    List.concat_map
      (fun e ->
        match e with
        | HookRet (t, true) when is_tx t -> ( match peek t with Some d -> [ TStamp (t, d.dl_hr); TE e ] | None -> [ TE e ])
        | Transmit (t, f, ok) -> (
            match pop t with
            | Some { dl_call; dl_deadline = Some d; _ } ->
                bump "deadlines_checked";
                [ TDeadline (t, Z.sub d (send_timeout (cyc t))); TStamp (t, dl_call); TTransmit (t, f, ok, d) ]
            | Some { dl_deadline = None; _ } ->
                if !missing = None then missing := Some (Printf.sprintf "%s: the context handed to TransmitFrame has no deadline (send timeout %sns)" (ev_str e) (int_of_z_signed (send_timeout (cyc t))));
                [ TE e ]
            | None -> [ TE e ] (* no record: trace from a harness without deadline observation *))
        | _ -> [ TE e ])
      tr
  in
  match !missing with
  | Some c -> pfail line ("send-deadline: " ^ c)
  | None ->
      if List.exists (function TTransmit _ -> true | _ -> false) timed then begin
        match tfirst_reject cyc (tinit cfg) timed O with
        | None -> ()
        | Some n ->
            let n = int_of_nat n in
            let ctxt = List.filteri (fun k _ -> k >= n - 3 && k <= n + 2) timed in
            let t = match List.nth timed n with TStamp (t, _) | TDeadline (t, _) | TTransmit (t, _, _, _) -> Some t | TE _ -> None in
            pfail line
              (Printf.sprintf
                 "send-deadline: timed event#%d %s not enabled in the timed model (send timeout %sns): the deadline handed to TransmitFrame must be (a clock reading taken after the before-transmit hook returned and not after the call) + send timeout; around: %s"
                 n (tev_str (List.nth timed n))
                 (match t with Some t -> int_of_z_signed (send_timeout (cyc t)) | None -> "?")
                 (String.concat " " (List.map tev_str ctxt)))
      end

let handle_trace line name cfgs toks =
  let cfgl = parse_cfg cfgs in
  let cfg = cfg_of_list cfgl in
  let marker, toks =
    match List.rev toks with
    | ("DEADLOCK" | "HANG") as m :: rest -> (Some m, List.rev rest)
    | _ -> (None, toks)
  in
  (* deadline records travel next to the trace: the k-th DL of thread t belongs to its k-th Transmit *)
  let dls = List.filter_map parse_dl (List.filter is_dl toks) in
  let toks = List.filter (fun tok -> not (is_dl tok)) toks in
  let line_id = String.concat " " ("TR" :: name :: cfgs :: toks) (* identity of the schedule: clock readings left out *) in
  let cycles = parse_cycles cfgs in
  let obs = List.map parse_token toks in
  let completed = ref [] (* reverse order *) in
  let st = ref (init cfg) in
  let hidden = ref 0 in
  let raw_events = List.filter_map (fun o -> o.ev) obs in
  (* the property's own predicates evaluated on the logged trace itself, whether or not the LTS
     accepts it: observed ownership bits, the model-free monitor [raw_discipline], [order_ok] *)
  let held_pf =
    let rec go idx = function
      | [] -> None
      | { ev = Some ((Access (_, _) | Mutate (_, _, _)) as e); held = Some false; _ } :: _ ->
          Some (Printf.sprintf "I2-access-without-lock: event#%d %s performed without holding the node lock" idx (ev_str e))
      | { ev = Some (HookCall _ as e); held = Some true; _ } :: _ ->
          Some (Printf.sprintf "I3-hook-under-lock: event#%d %s: hook invoked while the invoking thread holds the node lock" idx (ev_str e))
      | _ :: tl -> go (idx + 1) tl
    in
    go 0 obs
  in
  let raw_pf =
    match raw_discipline None raw_events O with
    | None -> None
    | Some (n, v) ->
        let n = int_of_nat n in
        let e = ev_str (List.nth raw_events n) in
        Some
          (match v with
           | DvExitLocked -> Printf.sprintf "lock-held-at-thread-exit: event#%d %s: the thread returns while it owns the node lock (I1); every later Lock blocks for ever" n e
           | DvAccessUnlocked -> Printf.sprintf "I2-access-without-lock: event#%d %s by a thread that does not own the node lock" n e
           | DvHookLocked -> Printf.sprintf "I3-hook-under-lock: event#%d %s by the thread that owns the node lock" n e
           | DvLockBusy -> Printf.sprintf "lock-while-owned: event#%d %s although the mutex is owned" n e
           | DvUnlockNotOwner -> Printf.sprintf "unlock-by-non-owner: event#%d %s by a thread that does not own the node lock" n e)
  in
  let order_pf =
    if order_ok raw_events then None
    else Some "order: a frame was marshalled / transmitted out of the order HookRet < Frame() < Transmit, or a different frame was transmitted"
  in
  let prop_pf = match (held_pf, raw_pf, order_pf) with Some c, _, _ | None, Some c, _ | None, None, Some c -> Some c | _ -> None in
  let push e s' = completed := e :: !completed; st := s' in
  let auto_apply t =
    match tx_of !st t with
    | Some x when is_s4 x -> (
        match step_fn !st (Apply t) with Some s' -> incr hidden; push (Apply t) s' | None -> ())
    | _ -> ()
  in
  let try_events es =
    (* all or nothing *)
    let rec go s acc = function
      | [] -> Some (s, acc)
      | e :: tl -> ( match step_fn s e with Some s' -> go s' (e :: acc) tl | None -> None)
    in
    match go !st !completed es with
    | Some (s, acc) -> st := s; completed := acc; true
    | None -> false
  in
  let take_tick t =
    (* the parked transmitter t arrived at Lock without a delivery: it took a tick *)
    match tx_of !st t with
    | Some x when is_sel x ->
        if x.t_tick then try_events [ TickTake t; Lock t ]
        else if x.t_armed then try_events [ Tick t; TickTake t; Lock t ]
        else begin
          (* disarmed: the tick must have been buffered before the Apply that stopped the ticker *)
          (* candidates: right before each earlier Apply of t, the most recent first (the Apply that
             stopped the ticker need not be the last one: a second wake-up may have re-read "disabled") *)
          let rec try_at acc = function
            | [] -> false
            | (Apply t' as a) :: older when t' = t -> (
                let tr = List.rev older @ [ Tick t ] @ (a :: acc) @ [ TickTake t; Lock t ] in
                match run (init cfg) tr with
                | Some s -> st := s; completed := List.rev tr; true
                | None -> try_at (a :: acc) older)
            | e :: older -> try_at (e :: acc) older
          in
          try_at [] !completed
        end
    | _ -> false
  in
  (try
     List.iteri
       (fun idx o ->
         match o.ev with
         | None when String.length o.raw > 3 && String.sub o.raw 0 3 = "WD." ->
             raise (Rejected (idx, o.raw, "I5 lost toggle: the wake-up token was received from the channel but the loop did not come back to re-read the flag (a receive on the wake-up channel that the model does not have)"))
         | None when String.length o.raw > 3 && String.sub o.raw 0 3 = "PN." ->
             let msg = match String.split_on_char '.' o.raw with [ _; _; h ] -> unhex h | _ -> "" in
             raise (Rejected (idx, o.raw, "the runner function of this thread PANICKED: " ^ msg))
         | None when String.length o.raw > 3 && String.sub o.raw 0 3 = "TB." ->
             raise (Rejected (idx, o.raw, "SetCyclicTransmissionEnabled of the generated message did not return within a second: the application is blocked in it (holding the node lock); the model's WakeSend is a non-blocking send and always enabled"))
         | None when String.length o.raw > 3 && String.sub o.raw 0 3 = "NT." -> (
             (* the harness saw no tick for more than a second while the loop sat in its select: fine unless
                the model says the ticker is running there *)
             match String.split_on_char '.' o.raw with
             | [ _; t ] -> (
                 match tx_of !st (nh t) with
                 | Some x when is_sel x && x.t_armed && (not x.t_wake) && not (!st).cancelled ->
                     raise (Rejected (idx, o.raw, "enable did not take effect: no tick for more than a second (cycle time <= 1 ms) although the model's ticker is armed and the loop is parked: " ^ thread_str (TTx x)))
                 | _ -> ())
             | _ -> ())
         | None -> raise (Rejected (idx, o.raw, "call outside the modelled interface sequence"))
         | Some e ->
             let stepped =
               match step_fn !st e with
               | Some s' -> push e s'; true
               | None -> ( match e with Lock t -> if take_tick t then (hidden := !hidden + 2; true) else false | _ -> false)
             in
             if not stepped then begin
               let who = match actor_of e with Some t -> thread_str ((!st).th t) | None -> "-" in
               raise (Rejected (idx, ev_str e, "not enabled in the model; thread state " ^ who))
             end;
             (match (o.held, actor_of e) with
              | Some _, Some _ -> ()
              | _ -> ());
             if o.wrong_err then raise (Rejected (idx, ev_str e, "runner returned an error that does not wrap the failing hook/transmit/unmarshal error"));
             (match actor_of e with Some t -> auto_apply t | None -> ()))
       obs;
     (* accepted *)
     let tr = List.rev !completed in
     Hashtbl.replace kinds "hidden_events_inserted" (!hidden + try Hashtbl.find kinds "hidden_events_inserted" with Not_found -> 0);
     Hashtbl.replace kinds "events_total" (List.length tr + try Hashtbl.find kinds "events_total" with Not_found -> 0);
     note_case ("TR " ^ (if String.length name >= 4 && String.sub name 0 4 = "rand" then "rand" else name)) line_id;
     (match prop_pf with Some c -> pfail line c | None -> ());
     check_deadlines line cfg cycles dls tr;
     if not (accepts cfg tr) then pfail line "internal: completed trace not accepted";
     if not (order_ok tr) then pfail line "order_ok false: hook < Frame() < transmit order violated";
     if not (discipline_ok (init cfg) tr) then pfail line "discipline_ok false";
     List.iter (fun (t, _) -> if not (tx_ok ((!st).th t)) then pfail line (Printf.sprintf "I4/I6 false for thread %x: %s" (i t) (thread_str ((!st).th t)))) cfgl;
     (match marker with
      | Some m ->
          let waiting = String.concat "," (List.filter_map (fun (t, r) -> match r with RoleApp | RoleNone -> None | _ -> if is_done ((!st).th t) then None else Some (Printf.sprintf "%x:%s" (i t) (thread_str ((!st).th t)))) cfgl) in
          pfail line (Printf.sprintf "%s: runner threads never returned although every enabled step was granted: %s" m waiting)
      | None ->
          List.iter (fun (t, r) -> match r with
              | RoleRx | RoleTx _ | RoleTxOn _ -> if not (is_done ((!st).th t)) then pfail line (Printf.sprintf "thread %x not Done at the end of the run: %s" (i t) (thread_str ((!st).th t)))
              | _ -> ()) cfgl)
   with Rejected (idx, e, why) ->
     note_case ("TR " ^ name) line_id;
     let clause = Printf.sprintf "event#%d %s rejected: %s ; accepted prefix: %s" idx e why
         (String.concat " " (List.map ev_str (List.rev (match !completed with a :: b :: c :: d :: e :: f :: _ -> [ a; b; c; d; e; f ] | l -> l)))) in
     (* which property does the rejection falsify?  A property predicate that is false on the
        logged trace itself is reported as such (PFAIL, both properties); otherwise a rejection at
        a lock / access / hook event falsifies C13, any rejection falsifies C14's protocol, and a
        protocol-only rejection merely breaks the correspondence for C13 *)
     let at_discipline_event =
       match List.nth_opt obs idx with
       | Some { ev = Some e; _ } -> is_discipline_event e
       | Some { ev = None; raw; _ } -> not (String.length raw > 3 && (String.sub raw 0 3 = "WD." || String.sub raw 0 3 = "NT."))
       | None -> false
     in
     (match prop_pf with
      | Some c -> pfail line (c ^ " ; LTS: " ^ clause)
      | None -> if mode = "c13" && not at_discipline_event then disagree line clause else pfail line clause))

(* ---------------------------------------------------------------- whole-node lines *)

let kv s = match String.index_opt s '=' with Some k -> (String.sub s 0 k, String.sub s (k + 1) (String.length s - k - 1)) | None -> (s, "")

let handle_wn line fields =
  let f = List.map kv fields in
  let get k = try List.assoc k f with Not_found -> "" in
  note_case ("WN " ^ get "check") line;
  if get "ok" <> "1" then pfail line (Printf.sprintf "%s failed in scenario %s: %s" (get "check") (get "scen") (unhex (get "info")))

let handle_run line fields =
  let f = List.map kv fields in
  let get k = try List.assoc k f with Not_found -> "" in
  let node = text_of_string "DRIVER" in
  let got = if get "got" = "nil" then None else Some (unhex (get "got")) in
  let show = function None -> "nil" | Some s -> "\"" ^ s ^ "\"" in
  note_case ("RUN " ^ get "cause") line;
  let e =
    match get "cause" with
    | "rxhook" -> Some (wrap_receiver (text_of_string (unhex (get "text"))))
    | "txhook" -> Some (wrap_transmitter (text_of_string (unhex (get "msg"))) (text_of_string (unhex (get "text"))))
    | "connect" -> Some (text_of_string (unhex (get "text")))
    | _ -> None
  in
  match get "cause" with
  | "none" -> if got <> None then pfail line ("Run returned " ^ show got ^ " after a plain cancellation; the property demands nil")
  | "other" -> if got = None then pfail line "Run returned nil although unmarshal/transmit failed; the property demands that error"
  | _ ->
      let spec = Option.map string_of_text (run_spec node e) in
      let model = Option.map string_of_text (run_result node [ e ]) in
      if got <> spec then
        pfail line (Printf.sprintf "Run returned %s; the property demands %s (model of run.go: %s)" (show got) (show spec) (show model))
      else if got <> model then disagree line (show model)

(* Run-level trace (RN line) against the LTS of Run (Runner/RunLts.v).  Observable: Cancel, Connect
   call / return, Close() on the returned connection, return of Run.  Hidden, inserted here and
   nowhere else: Spawn right after a successful Connect; WorkerRet false when a Close or an error
   return is observed without a cancellation / failure so far (some goroutine failed); WorkerRet
   true for the goroutines still running when the return of Run is observed. *)
let qev_str = function
  | QCancel -> "Cancel" | QConnectCall -> "ConnectCall" | QConnectRet ok -> "ConnectRet(" ^ b01 ok ^ ")"
  | QSpawn n -> Printf.sprintf "Spawn(%d)" (i n) | QWorkerRet ok -> "WorkerRet(" ^ b01 ok ^ ")"
  | QClose -> "Close" | QReturn ok -> "Return(" ^ b01 ok ^ ")"

let qstate_str q =
  Printf.sprintf "pc=%s cancelled=%s failed=%s connected=%s live=%d closer-running=%s closes=%d"
    (match q.q_pc with QStart -> "Start" | QConnecting -> "Connecting" | QConnFailed -> "ConnFailed" | QConnected -> "Connected" | QRunning -> "Running" | QReturned -> "Returned")
    (b01 q.q_cancelled) (b01 q.q_failed) (b01 q.q_connected) (i q.q_live) (b01 q.q_closer) (i q.q_closes)

let handle_rn line fields =
  let kvs, toks = List.partition (fun f -> String.contains f '=') fields in
  let f = List.map kv kvs in
  let get k = try List.assoc k f with Not_found -> "" in
  let n = nh (get "n") in
  note_case "RN" line;
  let st = ref qinit in
  let completed = ref [] in
  let step e = match qstep !st e with Some q -> st := q; completed := e :: !completed; true | None -> false in
  let hidden e = if step e then bump "run_hidden_events_inserted" in
  try
    List.iteri
      (fun idx tok ->
        let e =
          match tok with
          | "CA" -> QCancel | "CC" -> QConnectCall | "CR.1" -> QConnectRet true | "CR.0" -> QConnectRet false
          | "CL" -> QClose | "RT.1" -> QReturn true | "RT.0" -> QReturn false
          | _ -> failwith ("bad RN token " ^ tok)
        in
        (match e with
         | QClose -> if q_is_running !st && not (!st.q_cancelled || !st.q_failed) then hidden (QWorkerRet false)
         | QReturn ok ->
             if q_is_running !st then begin
               if (not ok) && not !st.q_failed then hidden (QWorkerRet false);
               while (match !st.q_live with O -> false | S _ -> true) && step (QWorkerRet true) do bump "run_hidden_events_inserted" done
             end
         | _ -> ());
        if not (step e) then begin
          let why =
            match e with
            | QReturn _ when q_is_connected !st || (q_is_running !st && !st.q_closer) ->
                "Run returned although the connection it obtained from Connect has not been closed"
            | QReturn true -> "Run returned nil where the model returns an error"
            | QClose -> "Close() on the connection where the model does not close it (not connected, or closed twice)"
            | _ -> "not enabled in the model of Run"
          in
          raise (Rejected (idx, qev_str e, why ^ " ; model state: " ^ qstate_str !st))
        end;
        if q_is_connected !st then hidden (QSpawn n))
      toks;
    if not (q_clean !st) then pfail line ("q_clean false at the end of the Run-level trace: " ^ qstate_str !st)
  with Rejected (idx, e, why) ->
    pfail line (Printf.sprintf "run-level event#%d %s rejected: %s ; accepted prefix: %s" idx e why (String.concat " " (List.rev_map qev_str !completed)))

(* SH line: a frame with the ID of a received message in some shape, sent to the running node; the
   receiver stops there iff the model's shape_accepts is false (run_receiver), the hook runs iff not *)
let handle_sh line fields =
  let f = List.map kv fields in
  let get k = try List.assoc k f with Not_found -> "0" in
  note_case "SH" line;
  let shape = { sh_remote = get "remote" = "1"; sh_extended = get "ext" = "1"; sh_len = nh (get "len") } in
  let fr = rframe_of_shape (nat_of_int 200) true (get "msgext" = "1") (nh (get "msglen")) shape true in
  let acts, res = run_receiver [ fr ] true in
  let model_stops = (match res with ResNil -> false | _ -> true) in
  let model_hooks = List.length (List.filter (function ActHook _ -> true | _ -> false) acts) in
  if (get "stopped" = "1") <> model_stops || hx (get "hooks") <> model_hooks then
    pfail line
      (Printf.sprintf "receiver %s with %d hook call(s) at a frame the message %s; the model (lock, receive time, UnmarshalFrame, unlock): %s with %d hook call(s)"
         (if get "stopped" = "1" then "stopped" else "went on") (hx (get "hooks")) (if model_stops then "rejects" else "accepts")
         (if model_stops then "stops" else "goes on") model_hooks)

(* HK line: which hook runs.  Per runner goroutine g that called a hook: its KL / KU, every KS (the
   application replaced the hook under the lock) and its KC tokens, through RunLts.kstep *)
let handle_hk line fields =
  let kvs, toks = List.partition (fun f -> String.contains f '=') fields in
  let f = List.map kv kvs in
  let get k = try List.assoc k f with Not_found -> "0" in
  note_case "HK" line;
  let parsed = List.map (fun t -> String.split_on_char '.' t) toks in
  let gs = List.sort_uniq compare (List.filter_map (function [ "KC"; g; _ ] -> Some g | _ -> None) parsed) in
  if gs = [] then pfail line "no hook call observed";
  List.iter
    (fun g ->
      let evs =
        List.filter_map
          (function
            | [ "KL"; g' ] when g' = g -> Some KLock
            | [ "KU"; g' ] when g' = g -> Some KUnlock
            | [ "KS"; h ] -> Some (KSet (nh h))
            | [ "KC"; g'; h ] when g' = g -> Some (KCall (nh h))
            | _ -> None)
          parsed
      in
      let show = function KLock -> "Lock" | KUnlock -> "Unlock" | KSet h -> Printf.sprintf "Set(%d)" (i h) | KCall h -> Printf.sprintf "Call(%d)" (i h) in
      match kfirst_reject (kinit (nh (get "first"))) evs O with
      | None -> ()
      | Some n ->
          let n = int_of_nat n in
          pfail line
            (Printf.sprintf "which-hook-runs: event#%d %s of runner goroutine %s not enabled in the model: the hook called must be the one that was installed when the runner read the hook inside its critical section; its events: %s"
               n (show (List.nth evs n)) g (String.concat " " (List.map show evs))))
    gs

let handle_st line fields =
  let f = List.map kv fields in
  let get k = try List.assoc k f with Not_found -> "0" in
  note_case "ST" line;
  if get "unlocked" <> "0" then pfail line ("I2: " ^ get "unlocked" ^ " message accesses without the node lock in the stress run");
  if get "hooks_locked" <> "0" then pfail line ("I3: " ^ get "hooks_locked" ^ " hook invocations with the node lock held in the stress run");
  if get "stopped" <> "1" then pfail line "runner threads did not stop after cancel in the stress run"

let handle line =
  match split_ws line with
  | "TR" :: name :: cfg :: toks -> handle_trace line name cfg toks
  | "WN" :: fields -> handle_wn line fields
  | "RUN" :: fields -> handle_run line fields
  | "RN" :: fields -> handle_rn line fields
  | "SH" :: fields -> handle_sh line fields
  | "HK" :: fields -> handle_hk line fields
  | "ST" :: fields -> handle_st line fields
  | _ -> failwith ("unparsable line: " ^ line)

(* ---------------------------------------------------------------- exhaustive model exploration

   `driver gen <file> <limit> <seed> [on]`: breadth-first exploration of the COMPLETE reachable state
   space of the LTS for the configuration {receiver 1, transmitter 2 (event message, no ticker;
   with `on`: its flag already set at the start, no wake-up token), application thread 0x10}, message content in {0,1}, with the ghost counters (accepted, ticks,
   transmitted, aborted, stale) erased from the state identity (they never influence a guard).
   Every event of the alphabet over these threads is tried in every state.  For every transition
   found, the trace  (BFS-shortest path to its source) ++ [transition]  is a schedule to be forced
   on the implementation by the harness (`dir=<file>`); with limit > 0 a seeded sample of that
   many transitions is written, with limit = 0 all of them.  Prints
   GEN states=<n> transitions=<n> depth=<n> written=<n>. *)

let tok_of_event = function
  | Lock t -> Printf.sprintf "L.%x" (i t)
  | Unlock t -> Printf.sprintf "U.%x" (i t)
  | Access (t, w) -> Printf.sprintf "A.%x.%s" (i t) (what_str w)
  | HookCall t -> Printf.sprintf "HC.%x" (i t)
  | HookRet (t, ok) -> Printf.sprintf "HR.%x.%s" (i t) (b01 ok)
  | Mutate (t, m, v) -> Printf.sprintf "M.%x.%x.%x" (i t) (i m) (i v)
  | Recv (t, ok) -> Printf.sprintf "RV.%x.%s" (i t) (b01 ok)
  | RxFrame t -> Printf.sprintf "RF.%x" (i t)
  | Lookup (t, k) -> Printf.sprintf "LK.%x.%s" (i t) (b01 k)
  | RecvErr (t, ok) -> Printf.sprintf "RE.%x.%s" (i t) (b01 ok)
  | TxInit t -> Printf.sprintf "TI.%x" (i t)
  | Apply t -> Printf.sprintf "AP.%x" (i t)
  | GetWake t -> Printf.sprintf "GW.%x" (i t)
  | Wake t -> Printf.sprintf "WK.%x" (i t)
  | Accept (t, a) -> Printf.sprintf "AC.%x.%x" (i t) (i a)
  | TickTake t -> Printf.sprintf "TT.%x" (i t)
  | Transmit (t, f, ok) -> Printf.sprintf "X.%x.%x.%s" (i t) (i f) (b01 ok)
  | SetFlag (a, m, b) -> Printf.sprintf "SF.%x.%x.%s" (i a) (i m) (b01 b)
  | WakeSend (a, m) -> Printf.sprintf "WS.%x.%x" (i a) (i m)
  | Offer (a, m) -> Printf.sprintf "OF.%x.%x" (i a) (i m)
  | OfferAbort a -> Printf.sprintf "OA.%x" (i a)
  | Tick t -> Printf.sprintf "TK.%x" (i t)
  | Cancel -> "CA"
  | Done (t, ok) -> Printf.sprintf "DN.%x.%s" (i t) (b01 ok)

let gen () =
  let file = Sys.argv.(2) in
  let limit = if Array.length Sys.argv > 3 then int_of_string Sys.argv.(3) else 0 in
  let seed = if Array.length Sys.argv > 4 then int_of_string Sys.argv.(4) else 1 in
  let start_on = Array.length Sys.argv > 5 && Sys.argv.(5) = "on" in
  let r = nat_of_int 1 and x = nat_of_int 2 and a = nat_of_int 16 in
  let cfg = cfg_of_list [ (r, RoleRx); (x, (if start_on then RoleTxOn false else RoleTx false)); (a, RoleApp) ] in
  let tids = [ r; x; a ] in
  let bools = [ true; false ] in
  let vals = [ O; S O ] in
  let alphabet =
    List.concat_map (fun t ->
        [ Lock t; Unlock t; HookCall t; RxFrame t; TxInit t; Apply t; GetWake t; Wake t; TickTake t; Tick t; OfferAbort t ]
        @ List.concat_map (fun b -> [ HookRet (t, b); Recv (t, b); Lookup (t, b); RecvErr (t, b); Done (t, b); Access (t, WUnmarshal b); Access (t, WFlag b) ]) bools
        @ [ Access (t, WHook); Access (t, WTime) ]
        @ List.concat_map (fun v -> [ Access (t, WFrame v); Mutate (t, x, v) ] @ List.map (fun b -> Transmit (t, v, b)) bools) vals)
      tids
    @ [ Cancel; Accept (x, a); WakeSend (a, x); Offer (a, x) ]
    @ List.map (fun b -> SetFlag (a, x, b)) bools
  in
  let erase = function
    | TTx y -> TTx { y with t_acc = O; t_tk = O; t_txd = O; t_ab = O; t_stale = O }
    | h -> h
  in
  let key s = (s.owner, s.cancelled, s.th r, erase (s.th x), s.th a) in
  let seen = Hashtbl.create 100000 in
  (* node: state, reversed path *)
  let q = Queue.create () in
  let s0 = init cfg in
  Hashtbl.replace seen (key s0) ();
  Queue.add (s0, [], 0) q;
  let transitions = ref [] in
  let ntrans = ref 0 and depth = ref 0 in
  while not (Queue.is_empty q) do
    let s, path, d = Queue.pop q in
    if d > !depth then depth := d;
    List.iter
      (fun e ->
        match step_fn s e with
        | None -> ()
        | Some s' ->
            incr ntrans;
            transitions := (e :: path) :: !transitions;
            let k = key s' in
            if not (Hashtbl.mem seen k) then begin
              Hashtbl.replace seen k ();
              Queue.add (s', e :: path, d + 1) q
            end)
      alphabet
  done;
  (* deterministic directed set (always written, before the sample): application toggles placed at
     every position of the transmitter's wake-up handling cycle S1..S4 / T1 / SEL (and T0): the
     first transition found (shortest path) for every combination of
     (event kind and value, transmitter pc, flag, last read flag, token, WakeUpChan fetched, application pc, lock owner),
     before any cancellation - this includes the second toggle of an enable-disable / disable-enable
     pair landing in the window right after the flag read *)
  let prio = Hashtbl.create 1000 in
  let prio_list = ref [] in
  List.iter
    (fun p ->
      match p with
      | ((SetFlag (_, _, _) | WakeSend (_, _)) as e) :: rpath -> (
          match run (init cfg) (List.rev rpath) with
          | Some s when not s.cancelled -> (
              match s.th x with
              | TTx y when (match y.t_pc with T0 | S1 | S2 | S3 | S4 | T1 | SEL -> true | _ -> false) ->
                  let k = (tok_of_event e, y.t_pc, y.t_flag, y.t_last, y.t_wake, y.t_gotwake, s.th a, s.owner) in
                  if not (Hashtbl.mem prio k) then begin
                    Hashtbl.replace prio k ();
                    prio_list := p :: !prio_list
                  end
              | _ -> ())
          | _ -> ())
      | _ -> ())
    (List.rev !transitions);
  let all = Array.of_list !transitions in
  let n = Array.length all in
  let oc = open_out file in
  let written = ref 0 in
  (* Cancel commutes with every event except the `return nil` of a parked transmitter, and a
     select choice after Cancel cannot be forced on the real select (ctx.Done is ready); so in the
     path part of a schedule Cancel is moved as late as possible: before the first later
     Done(t,true) of a transmitter, else to the end of the path (the source state is the same) *)
  let delay_cancel rev =
    match rev with
    | [] -> []
    | last :: rpath -> (
        let path = List.rev rpath in
        if not (List.mem Cancel path) then List.rev rev
        else
          let rec split acc = function
            | Cancel :: tl -> (List.rev acc, tl)
            | e :: tl -> split (e :: acc) tl
            | [] -> (List.rev acc, [])
          in
          let before, after = split [] path in
          let rec place acc = function
            | (Done (t, true) as d) :: tl when t = x -> List.rev acc @ (Cancel :: d :: tl)
            | e :: tl -> place (e :: acc) tl
            | [] -> List.rev acc @ [ Cancel ]
          in
          let tr = before @ place [] after @ [ last ] in
          match run (init cfg) tr with Some _ -> tr | None -> List.rev rev)
  in
  let emit p =
    incr written;
    output_string oc (String.concat " " (List.map tok_of_event (delay_cancel p)));
    output_char oc '\n'
  in
  if limit <= 0 || limit >= n then Array.iter emit all
  else begin
    List.iter emit (List.rev !prio_list);
    let st = Random.State.make [| seed |] in
    (* sample without replacement: partial Fisher-Yates *)
    for k = 0 to limit - 1 do
      let j = k + Random.State.int st (n - k) in
      let tmp = all.(k) in
      all.(k) <- all.(j);
      all.(j) <- tmp;
      emit all.(k)
    done
  end;
  close_out oc;
  Printf.printf "GEN states=%d transitions=%d depth=%d written=%d toggles=%d\n" (Hashtbl.length seen) n !depth !written (List.length !prio_list)

let () =
  if Array.length Sys.argv > 1 && Sys.argv.(1) = "gen" then gen ()
  else if Array.length Sys.argv > 1 && Sys.argv.(1) = "wire" then Runwire.run ()
  else iter_lines handle
