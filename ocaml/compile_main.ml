(* deps: dbcdump.ml *)
(* Model driver for C05 (internal/generate/compile.go): reads the blocks printed by
   harness/compile/main.go, rebuilds the parsed definitions, runs the extracted Coq model
   [compile] on them and compares database and warnings with what generate.Compile returned.
   Independently of the model it evaluates the property predicates on the IMPLEMENTATION's
   output: in_class (generator sanity), canonical order, denotes, the warnings specification and
   equality of the compiled databases across all reorderings of one file.

   END TO END (the TEXT is the reference, not the definitions the tree's parser produced): every
   text is also parsed by the extracted parser model ([text_defs] of Dbc/CompileText.v = Dbc/Parser.v's
   [parse_bytes], with the unicode classes of the UNI lines).  When the model-parsed definitions equal
   the dumped ones, everything established from the dumped definitions holds verbatim for the text.
   When they differ, class / denotes / warnings are evaluated against the definitions the TEXT denotes
   (clauses text_denotes, text_warnings_exact) and [compile_text] is compared with generate.Compile; the
   detail names the first differing definition, which localises the fault (parser vs compiler).

   Verdict lines (vlib.standard_run):
     PFAIL <obs> || clause=<c> ...     a property predicate is false on the implementation's output
     DISAGREE <obs> || model=...       implementation <> model, all predicates hold
   (the specification is a relation, so MISMATCH is not used). *)
open Model
open Common
open Dbcdump

(* ------------------------------------------------------------------ the parser model's oracle *)
let letters : (int * int) list ref = ref []
let digits : (int * int) list ref = ref []
let letters_a = ref [||]
let digits_a = ref [||]
let frozen = ref false
let freeze () =
  if not !frozen then begin
    letters_a := Array.of_list (List.rev !letters);
    digits_a := Array.of_list (List.rev !digits);
    frozen := true
  end
let in_ranges (a : (int * int) array) (r : int) : bool =
  let lo = ref 0 and hi = ref (Array.length a - 1) and found = ref false in
  while (not !found) && !lo <= !hi do
    let mid = (!lo + !hi) / 2 in
    let l, h = a.(mid) in
    if r < l then hi := mid - 1 else if r > h then lo := mid + 1 else found := true
  done;
  !found
let is_letter_hi (z : z) = in_ranges !letters_a (int_of_z z)
let is_digit_hi (z : z) = in_ranges !digits_a (int_of_z z)

let bytes_of_hex (h : string) : z list =
  List.init (String.length h / 2) (fun i -> z_of_int ((hexval h.[2 * i] * 16) + hexval h.[(2 * i) + 1]))

let def_name = function
  | DVersion _ -> "VERSION" | DNewSymbols _ -> "NS_" | DBitTiming _ -> "BS_" | DNodes _ -> "BU_"
  | DValueTable _ -> "VAL_TABLE_" | DMessage _ -> "BO_" | DSignal _ -> "SG_" | DSignalValueType _ -> "SIG_VALTYPE_"
  | DMessageTransmitters _ -> "BO_TX_BU_" | DValueDescriptions _ -> "VAL_" | DEnvVar _ -> "EV_"
  | DEnvVarData _ -> "ENVVAR_DATA_" | DComment _ -> "CM_" | DAttribute _ -> "BA_DEF_" | DAttributeDefault _ -> "BA_DEF_DEF_"
  | DAttributeValue _ -> "BA_" | DUnknown _ -> "unknown"

(* first difference between the dumped definitions (Parser.Defs()) and the ones the text denotes *)
let diff_defs (a : def list) (b : def list) : string =
  let describe d = Printf.sprintf "%s@%s" (def_name d) (string_of_pos (def_pos d)) in
  let rec go i a b =
    match (a, b) with
    | [], [] -> "equal"
    | x :: a', y :: b' ->
        if x = y then go (i + 1) a' b'
        else
          let extra =
            match (x, y) with
            | DAttributeValue u, DAttributeValue v when u.av_int <> v.av_int ->
                Printf.sprintf " IntValue %s / %s" (i64hex_of_z u.av_int) (i64hex_of_z v.av_int)
            | DAttributeValue u, DAttributeValue v when u.av_float <> v.av_float ->
                Printf.sprintf " FloatValue %s / %s" (hex_of_z u.av_float) (hex_of_z v.av_float)
            | _ -> ""
          in
          Printf.sprintf "definition #%d %s / %s%s" i (describe x) (describe y) extra
    | x :: _, [] -> Printf.sprintf "definition #%d %s / none" i (describe x)
    | [], y :: _ -> Printf.sprintf "definition #%d none / %s" i (describe y)
  in
  go 0 a b

(* ------------------------------------------------------------------ reading the database dump *)
let cur_of l = { toks = split_ws l }

let node_of c : node =
  let n = bytes_of_s (next c) in
  let d = bytes_of_s (next c) in
  { node_name = n; node_description = d }

let send_type_of = function "0" -> SendNone | "1" -> SendCyclic | "2" -> SendEvent | s -> failwith ("send type " ^ s)

let signal_of_dump c : signal =
  let name = bytes_of_s (next c) in
  let start = z_of_hex (next c) in
  let len = z_of_hex (next c) in
  let be = bool_of (next c) in
  let sg = bool_of (next c) in
  let fl = bool_of (next c) in
  let mx = bool_of (next c) in
  let md = bool_of (next c) in
  let mv = z_of_hex (next c) in
  let off = z_of_hex (next c) in
  let sc = z_of_hex (next c) in
  let mn = z_of_hex (next c) in
  let mxv = z_of_hex (next c) in
  let u = bytes_of_s (next c) in
  let d = bytes_of_s (next c) in
  let dv = z_of_i64hex (next c) in
  let rc = next_list c (fun c -> bytes_of_s (next c)) in
  let vds =
    next_list c (fun c ->
        let v = z_of_i64hex (next c) in
        let t = bytes_of_s (next c) in
        { vdesc_value = v; vdesc_text = t })
  in
  { s_name = name; s_start = start; s_length = len; s_big_endian = be; s_signed = sg; s_float = fl;
    s_multiplexer = mx; s_multiplexed = md; s_mux_value = mv; s_offset = off; s_scale = sc; s_min = mn;
    s_max = mxv; s_unit = u; s_description = d; s_value_descriptions = vds; s_receivers = rc; s_default = dv }

(* MSG line + the following SGN lines *)
let rec take_signals k acc rest =
  if k = 0 then (List.rev acc, rest)
  else
    match rest with
    | l :: tl ->
        let c = cur_of l in
        if next c <> "SGN" then failwith "expected SGN line";
        take_signals (k - 1) (signal_of_dump c :: acc) tl
    | [] -> failwith "missing SGN lines"

let database_of_lines (lines : string list) : database =
  match lines with
  | [] -> failwith "no DB line"
  | l :: rest ->
      let c = cur_of l in
      if next c <> "DB" then failwith "expected DB line";
      let source = bytes_of_s (next c) in
      let version = bytes_of_s (next c) in
      let nn = int_of_string ("0x" ^ next c) in
      let nm = int_of_string ("0x" ^ next c) in
      let rec nodes k acc rest =
        if k = 0 then (List.rev acc, rest)
        else
          match rest with
          | l :: tl ->
              let c = cur_of l in
              if next c <> "NODE" then failwith "expected NODE line";
              nodes (k - 1) (node_of c :: acc) tl
          | [] -> failwith "missing NODE lines"
      in
      let ns, rest = nodes nn [] rest in
      let rec msgs k acc rest =
        if k = 0 then (List.rev acc, rest)
        else
          match rest with
          | l :: tl ->
              let c = cur_of l in
              if next c <> "MSG" then failwith "expected MSG line";
              let name = bytes_of_s (next c) in
              let id = z_of_hex (next c) in
              let ext = bool_of (next c) in
              let len = z_of_hex (next c) in
              let st = send_type_of (next c) in
              let desc = bytes_of_s (next c) in
              let sender = bytes_of_s (next c) in
              let cyc = z_of_i64hex (next c) in
              let del = z_of_i64hex (next c) in
              let nsig = int_of_string ("0x" ^ next c) in
              let sigs, tl = take_signals nsig [] tl in
              msgs (k - 1)
                ({ msg_name = name; msg_id = id; msg_extended = ext; msg_length = len; msg_send_type = st;
                   msg_description = desc; msg_signals = sigs; msg_sender = sender; msg_cycle_time = cyc;
                   msg_delay_time = del } :: acc) tl
          | [] -> failwith "missing MSG lines"
      in
      let ms, rest = msgs nm [] rest in
      if rest <> [] then failwith "trailing lines after the database dump";
      { db_source_file = source; db_version = version; db_messages = ms; db_nodes = ns }

(* ------------------------------------------------------------------ printing (diagnostics) *)
let kind_name = function
  | WNoSignal -> "nosignal" | WNoMessage -> "nomessage" | WNoNode -> "nonode"
  | WFloatLength -> "floatlength" | WUnsupportedType -> "unsupportedtype"

let txt b = String.concat "" (List.map (fun x -> let c = int_of_z x in if c >= 32 && c < 127 && c <> 32 then String.make 1 (Char.chr c) else Printf.sprintf "\\x%02x" c) b)

let show_vd v = Printf.sprintf "%s=%s" (i64hex_of_z v.vdesc_value) (txt v.vdesc_text)
let show_signal s =
  Printf.sprintf "{%s start=%s len=%s be=%b signed=%b float=%b M=%b m=%b mux=%s off=%s scale=%s min=%s max=%s unit=%s desc=%s vds=[%s] recv=[%s] default=%s}"
    (txt s.s_name) (hex_of_z s.s_start) (hex_of_z s.s_length) s.s_big_endian s.s_signed s.s_float s.s_multiplexer
    s.s_multiplexed (hex_of_z s.s_mux_value) (hex_of_z s.s_offset) (hex_of_z s.s_scale) (hex_of_z s.s_min)
    (hex_of_z s.s_max) (txt s.s_unit) (txt s.s_description)
    (String.concat "," (List.map show_vd s.s_value_descriptions))
    (String.concat "," (List.map txt s.s_receivers)) (i64hex_of_z s.s_default)
let show_message m =
  Printf.sprintf "{%s id=%s ext=%b len=%s send=%s desc=%s sender=%s cycle=%s delay=%s signals=[%s]}" (txt m.msg_name)
    (hex_of_z m.msg_id) m.msg_extended (hex_of_z m.msg_length)
    (match m.msg_send_type with SendNone -> "none" | SendCyclic -> "cyclic" | SendEvent -> "event")
    (txt m.msg_description) (txt m.msg_sender) (i64hex_of_z m.msg_cycle_time) (i64hex_of_z m.msg_delay_time)
    (String.concat ";" (List.map show_signal m.msg_signals))

(* first difference between two databases, as a short text *)
let diff_db (a : database) (b : database) : string =
  if a.db_source_file <> b.db_source_file then "source_file"
  else if a.db_version <> b.db_version then Printf.sprintf "version %s / %s" (txt a.db_version) (txt b.db_version)
  else if a.db_nodes <> b.db_nodes then
    Printf.sprintf "nodes [%s] / [%s]"
      (String.concat "," (List.map (fun n -> txt n.node_name ^ ":" ^ txt n.node_description) a.db_nodes))
      (String.concat "," (List.map (fun n -> txt n.node_name ^ ":" ^ txt n.node_description) b.db_nodes))
  else if List.length a.db_messages <> List.length b.db_messages then
    Printf.sprintf "message count %d / %d" (List.length a.db_messages) (List.length b.db_messages)
  else
    match List.find_opt (fun (x, y) -> x <> y) (List.combine a.db_messages b.db_messages) with
    | None -> "none"
    | Some (x, y) ->
        if List.length x.msg_signals = List.length y.msg_signals && { x with msg_signals = [] } = { y with msg_signals = [] } then (
          match List.find_opt (fun (s, t) -> s <> t) (List.combine x.msg_signals y.msg_signals) with
          | Some (s, t) -> Printf.sprintf "message %s signal %s / %s" (hex_of_z x.msg_id) (show_signal s) (show_signal t)
          | None -> "none")
        else Printf.sprintf "message %s / %s" (show_message x) (show_message y)

let show_warnings ws =
  String.concat "," (List.map (fun (k, p) -> kind_name k ^ "@" ^ string_of_pos p) ws)

(* ------------------------------------------------------------------ one block *)
let block : string list ref = ref []
let header = ref ""
let text = ref ""

(* per generated file: what the original order compiled to *)
let ref_file = ref (-1)
let ref_db : database option ref = ref None
let ref_warn : (string * string) list ref = ref []

let n_class = ref 0
let stride = ref (if Array.length Sys.argv > 1 then int_of_string Sys.argv.(1) else 32)
let n_hist_kept = ref 0
let n_hist_redumps = ref 0
let n_hist_again = ref 0
let n_text_parsed = ref 0
let n_text_defs_equal = ref 0
let n_text_defs_differ = ref 0
let n_perm_compared = ref 0
let n_warn_cases = ref 0
let n_warnings = ref 0
let hist : (string, int) Hashtbl.t = Hashtbl.create 16
let bump k = Hashtbl.replace hist k (1 + try Hashtbl.find hist k with Not_found -> 0)

let n_pfail = ref 0
let n_disagree = ref 0
let clause_count : (string, int) Hashtbl.t = Hashtbl.create 8
let pf_lines : (string * string) list ref = ref []
(* one PFAIL line per case, naming every failed clause; the first few failures of EVERY clause are printed *)
let pfail obs (fails : (string * string) list) =
  incr n_pfail; incr n_mismatch;
  let fresh = ref false in
  List.iter (fun (c, _) ->
      let n = 1 + (try Hashtbl.find clause_count c with Not_found -> 0) in
      Hashtbl.replace clause_count c n;
      if n <= 6 then fresh := true) fails;
  if !fresh then
    pf_lines :=
      (String.concat "+" (List.map fst fails),
       Printf.sprintf "PFAIL %s || clause=%s %s" obs (String.concat "+" (List.map fst fails))
         (String.concat " ;; " (List.map (fun (c, d) -> c ^ ": " ^ d) fails)))
      :: !pf_lines
let disagree obs detail =
  incr n_disagree; incr n_mismatch;
  if !n_disagree <= 20 then Printf.printf "DISAGREE %s || model=%s\n" obs detail

(* a warning identified independently of where its definition stands in the text: the dump line of
   the definition with the position token removed *)
let is_pos_token t = List.length (String.split_on_char ':' t) = 3
let strip_pos (l : string) =
  (* every <line>:<col>:<off> token goes (value descriptions carry their own positions) *)
  String.concat " " (List.filter (fun t -> not (is_pos_token t)) (split_ws l))

let finish_block () =
  let lines = List.rev !block in
  let fileno, variant, kind, what =
    match split_ws !header with
    | [ "CASE"; f; v; k; w ] -> (int_of_string f, int_of_string v, k, w)
    | _ -> failwith ("bad CASE line: " ^ !header)
  in
  let obs = Printf.sprintf "file=%d variant=%d kind=%s perm=%s text=%s" fileno variant kind what !text in
  let is_def l = String.length l > 4 && (String.sub l 0 4 = "DEF " || String.sub l 0 4 = "SIG ") in
  let is_warn l = String.length l > 5 && String.sub l 0 5 = "WARN " in
  let bad = List.filter (fun l -> String.length l > 8 && (String.sub l 0 8 = "PARSEERR" || String.sub l 0 8 = "COMPILEE")) lines in
  if bad <> [] then begin
    (* the generator only produces parseable files: a parse failure is a broken tie *)
    note_case (kind ^ ":unparsable") obs;
    disagree obs ("the implementation did not parse/compile a generated file: " ^ List.hd bad)
  end
  else begin
    let def_lines = List.filter is_def lines in
    let warn_lines = List.filter is_warn lines in
    let db_lines = List.filter (fun l -> not (is_def l) && not (is_warn l)) lines in
    let defs = defs_of_lines def_lines in
    let impl_db = database_of_lines db_lines in
    let impl_warn =
      List.map (fun l -> match split_ws l with [ _; k; p ] -> (k, p) | _ -> failwith ("bad WARN line " ^ l)) warn_lines
    in
    let model_db, model_warn = compile impl_db.db_source_file defs in
    let model_warn_s = List.map (fun (k, p) -> (kind_name k, string_of_pos p)) model_warn in
    let srt l = List.sort compare l in
    let agree_db = model_db = impl_db in
    let agree_warn = srt model_warn_s = srt impl_warn in
    (* the text as the reference: the definitions it denotes (parser model) *)
    freeze ();
    (* the parser model costs about 1 microsecond per byte and up to a millisecond per many-digit float
       literal: it is run on the original order of every file and on every [stride]-th reordering (a
       reordered text consists of the same lines); for the other texts the dumped definitions stand in *)
    let parse_it = variant = 0 || (fileno + variant) mod !stride = 0 in
    let tdefs = if parse_it then text_defs is_letter_hi is_digit_hi (bytes_of_hex (String.sub !text 2 (String.length !text - 2))) else Some defs in
    let same_defs = tdefs = Some defs in
    if parse_it then begin
      incr n_text_parsed;
      if same_defs then incr n_text_defs_equal else incr n_text_defs_differ
    end;
    let parser_note =
      match tdefs with
      | None -> "the parser model rejects the text"
      | Some td ->
          "Parser.Defs() differs from the definitions the text denotes (the fault is in the parser, the compiler was given other definitions than the text's): first difference (Parser.Defs() / text) "
          ^ diff_defs defs td
    in
    (* compile_text = compile after text_defs; when the definitions are the same its result is model_db *)
    let text_result =
      match tdefs with
      | None -> None
      | Some td -> if same_defs then Some (model_db, model_warn_s)
          else let db, w = compile impl_db.db_source_file td in
            Some (db, List.map (fun (k, p) -> (kind_name k, string_of_pos p)) w)
    in
    let agree_text = match text_result with Some (db, w) -> db = impl_db && srt w = srt impl_warn | None -> false in
    let text_detail () =
      (match text_result with
       | None -> "compile_text fails"
       | Some (db, w) ->
           if db <> impl_db then "database: first difference (compile_text / generate.Compile): " ^ diff_db db impl_db
           else Printf.sprintf "warnings: compile_text [%s] generate.Compile [%s]"
               (String.concat "," (List.map (fun (k, p) -> k ^ "@" ^ p) w))
               (String.concat "," (List.map (fun (k, p) -> k ^ "@" ^ p) impl_warn)))
      ^ " ;; " ^ parser_note
    in
    let nsig = List.fold_left (fun a m -> a + List.length m.msg_signals) 0 impl_db.db_messages in
    note_case ~nontrivial:(impl_db.db_messages <> []) (kind ^ ":" ^ what) (Printf.sprintf "file=%d variant=%d %s" fileno variant what);
    bump (Printf.sprintf "messages_%s" (let n = List.length impl_db.db_messages in if n = 0 then "0" else if n <= 4 then "1-4" else if n <= 12 then "5-12" else "13+"));
    bump (Printf.sprintf "signals_%s" (if nsig = 0 then "0" else if nsig <= 8 then "1-8" else if nsig <= 32 then "9-32" else "33+"));
    List.iter (fun (k, _) -> bump ("warning_" ^ k)) impl_warn;
    n_warnings := !n_warnings + List.length impl_warn;
    if impl_warn <> [] then incr n_warn_cases;
    (* numeric paths: how large are the INT attribute values the compiler consumes *)
    List.iter (function
        | DAttributeValue a when (a.av_object = OtMessage || a.av_object = OtSignal) ->
            let m = if Z.ltb a.av_int Z0 then Z.sub Z0 a.av_int else a.av_int in
            if Z.ltb (z_of_hex "20000000000000") m then bump "int_attr_above_2^53"
            else if Z.ltb (z_of_hex "100000000") m then bump "int_attr_2^32..2^53"
            else if Z.ltb (z_of_hex "1000000") m then bump "int_attr_2^24..2^32"
            else bump "int_attr_upto_2^24"
        | _ -> ()) (match tdefs with Some td -> td | None -> defs);
    if kind = "class" then begin
      incr n_class;
      (* the class is a property of the TEXT: decided on the definitions the text denotes *)
      let cdefs =
        match tdefs with
        | Some td -> td
        | None -> failwith (Printf.sprintf "generator produced a text the parser model rejects: file=%d variant=%d" fileno variant)
      in
      if not (in_class cdefs) then
        failwith (Printf.sprintf "generator produced a file outside the compile class: file=%d variant=%d" fileno variant);
      let fails = ref [] in
      let pf clause detail = fails := (clause, detail) :: !fails in
      (* when Parser.Defs() is not what the text denotes the clauses are evaluated against the text *)
      let cl c = if same_defs then c else "text_" ^ c in
      let note d = if same_defs then d else d ^ " ;; " ^ parser_note in
      (* P1: canonical order *)
      if not (canonicalb impl_db) then pf "canonical" "nodes by name, messages by id, signals by (start, mux), value descriptions by value";
      (* P2: denotes (decided as in CompileProofs.denotes_check_sound) *)
      let lhs = denotes_check_lhs impl_db and rhs = denotes_check_rhs cdefs impl_db in
      if lhs <> rhs then pf (cl "denotes") (note ("first difference (implementation / denoted): " ^ diff_db lhs rhs));
      (* P3: warnings exactly for the unresolved metadata lines *)
      let spec_w = List.map (fun (k, p) -> (kind_name k, string_of_pos p)) (spec_warnings cdefs) in
      if srt spec_w <> srt impl_warn then
        pf (cl "warnings_exact") (note (Printf.sprintf "implementation [%s] specification [%s]"
                               (String.concat "," (List.map (fun (k, p) -> k ^ "@" ^ p) impl_warn))
                               (String.concat "," (List.map (fun (k, p) -> k ^ "@" ^ p) spec_w))));
      (* P4: order independence: same database and same warnings (as a multiset, identified by the
         definition they are about) as the original order of this file *)
      let by_pos = List.map (fun l -> match split_ws l with _ :: _ :: p :: _ -> (p, strip_pos l) | _ -> ("", l))
                     (List.filter (fun l -> String.length l > 4 && String.sub l 0 4 = "DEF ") def_lines) in
      let stable = srt (List.map (fun (k, p) -> (k, try List.assoc p by_pos with Not_found -> "?" ^ p)) impl_warn) in
      if variant = 0 || !ref_file <> fileno then begin
        ref_file := fileno; ref_db := Some impl_db; ref_warn := stable
      end
      else begin
        incr n_perm_compared;
        (match !ref_db with
         | Some r when r <> impl_db -> pf "compile_perm" ("database differs from the one compiled from the original order: " ^ diff_db r impl_db)
         | _ -> ());
        if !ref_warn <> stable then pf "compile_perm_warnings" "warnings differ from the original order as a multiset"
      end;
      if !fails <> [] then pfail obs (List.rev !fails)
      else if same_defs && not (agree_db && agree_warn) then
        disagree obs
          (if not agree_db then "database: first difference (model / implementation): " ^ diff_db model_db impl_db
           else Printf.sprintf "warnings: model [%s] implementation [%s]" (show_warnings model_warn)
                  (String.concat "," (List.map (fun (k, p) -> k ^ "@" ^ p) impl_warn)))
      else if not agree_text then disagree obs ("end to end: " ^ text_detail ())
    end
    else begin
      (* outside the class only the ties are checked: compile model = implementation on the dumped
         definitions, and compile_text = generate.Compile on the text *)
      if same_defs && not (agree_db && agree_warn) then
        disagree obs
          (if not agree_db then "database: first difference (model / implementation): " ^ diff_db model_db impl_db
           else Printf.sprintf "warnings: model [%s] implementation [%s]" (show_warnings model_warn)
                  (String.concat "," (List.map (fun (k, p) -> k ^ "@" ^ p) impl_warn)))
      else if not agree_text then disagree obs ("end to end: " ^ text_detail ())
    end
  end

(* first differing line of two dumps (s:<hex> tokens), printable *)
let first_diff_line (a : string) (b : string) : string =
  let raw t = String.concat "" (List.map (fun z -> String.make 1 (Char.chr (int_of_z z))) (bytes_of_s t)) in
  let la = String.split_on_char '\n' (raw a) and lb = String.split_on_char '\n' (raw b) in
  let rec go i la lb =
    match (la, lb) with
    | x :: la', y :: lb' -> if x = y then go (i + 1) la' lb' else Printf.sprintf "line %d: %S / %S" i x y
    | x :: _, [] -> Printf.sprintf "line %d: %S / <none>" i x
    | [], y :: _ -> Printf.sprintf "line %d: <none> / %S" i y
    | [], [] -> "equal"
  in
  go 1 la lb

let handle line =
  if String.length line >= 4 && String.sub line 0 4 = "UNI " then begin
    match split_ws line with
    | [ "UNI"; "L"; lo; hi ] -> letters := (int_of_string ("0x" ^ lo), int_of_string ("0x" ^ hi)) :: !letters
    | [ "UNI"; "D"; lo; hi ] -> digits := (int_of_string ("0x" ^ lo), int_of_string ("0x" ^ hi)) :: !digits
    | _ -> failwith ("bad UNI line: " ^ line)
  end
  else if String.length line >= 5 && String.sub line 0 5 = "HIST " then begin
    (* results are values: a CompileResult that the caller keeps must not change when later files are
       compiled, and compiling the same text again must give the same result (decided by the harness on
       two dumps of the implementation's own objects; for the model this is trivial) *)
    match split_ws line with
    | [ "HIST"; "kept"; f; v; n; "same" ] ->
        incr n_hist_kept; n_hist_redumps := !n_hist_redumps + int_of_string ("0x" ^ n);
        note_case ~nontrivial:(n <> "0") "history:kept" (Printf.sprintf "kept file=%s variant=%s" f v)
    | [ "HIST"; "kept"; f; v; n; "changed"; kf; kv; before; now; ktext; ltext ] ->
        incr n_hist_kept;
        note_case "history:kept" (Printf.sprintf "kept file=%s variant=%s" f v);
        pfail (Printf.sprintf "history kept_file=%s kept_variant=%s after_file=%s after_variant=%s text=%s then=%s" kf kv f v ktext ltext)
          [ ("kept_result_changed",
             Printf.sprintf "the CompileResult of an earlier Compile call (kept by the caller) changed when a later text was compiled: first difference (dump right after its call / dump now) %s"
               (first_diff_line before now)) ]
    | [ "HIST"; "again"; f; v; "same" ] ->
        incr n_hist_again; note_case "history:again" (Printf.sprintf "again file=%s variant=%s" f v)
    | [ "HIST"; "again"; f; v; "changed"; d1; d2; t ] ->
        incr n_hist_again; note_case "history:again" (Printf.sprintf "again file=%s variant=%s" f v);
        pfail (Printf.sprintf "history again_file=%s variant=%s text=%s" f v t)
          [ ("recompile_differs",
             Printf.sprintf "compiling the same text again after other texts gives another result: first difference (first / second) %s"
               (first_diff_line d1 d2)) ]
    | _ -> failwith ("bad HIST line: " ^ String.sub line 0 (min 80 (String.length line)))
  end
  else if String.length line >= 5 && String.sub line 0 5 = "CASE " then begin header := line; block := []; text := "" end
  else if String.length line >= 5 && String.sub line 0 5 = "TEXT " then text := String.sub line 5 (String.length line - 5)
  else if line = "END" then finish_block ()
  else block := line :: !block

let () =
  (try
     while true do
       let l = input_line stdin in
       if l <> "" then handle l
     done
   with End_of_file -> ());
  (* PFAIL lines: one representative of every distinct set of failed clauses first (check.py turns
     the first five into replays), then the others *)
  let all = List.rev !pf_lines in
  let seen = Hashtbl.create 8 in
  let firsts, rest = List.partition (fun (cs, _) -> if Hashtbl.mem seen cs then false else (Hashtbl.replace seen cs (); true)) all in
  let firsts = List.stable_sort (fun (a, _) (b, _) -> compare (String.length b) (String.length a)) firsts in
  List.iter (fun (_, l) -> print_endline l) (firsts @ rest);
  let ks = Hashtbl.fold (fun k v acc -> Printf.sprintf "\"%s\":%d" (json_escape k) v :: acc) kinds [] in
  let hs = Hashtbl.fold (fun k v acc -> Printf.sprintf "\"%s\":%d" (json_escape k) v :: acc) hist [] in
  let ss = List.map (fun s -> "\"" ^ json_escape s ^ "\"") (List.rev !samples) in
  Printf.printf
    "STATS {\"cases\":%d,\"mismatches\":%d,\"distinct_nontrivial\":%d,\"kinds\":{%s},\"samples\":[%s],\"class_cases\":%d,\"texts_parsed_by_the_parser_model\":%d,\"texts_with_parser_defs_equal_to_model\":%d,\"texts_with_parser_defs_different\":%d,\"history_compiles_followed_by_redump_of_kept_results\":%d,\"history_kept_results_redumped\":%d,\"history_texts_compiled_again\":%d,\"permuted_orders_compared\":%d,\"cases_with_warnings\":%d,\"warnings_total\":%d,\"predicate_failures\":%d,\"disagreements\":%d,\"failed_clauses\":{%s},\"histogram\":{%s}}\n"
    !n_cases !n_mismatch !n_nontrivial (String.concat "," (List.sort compare ks)) (String.concat "," ss)
    !n_class !n_text_parsed !n_text_defs_equal !n_text_defs_differ !n_hist_kept !n_hist_redumps !n_hist_again !n_perm_compared !n_warn_cases !n_warnings !n_pfail !n_disagree
    (String.concat "," (Hashtbl.fold (fun k v acc -> Printf.sprintf "\"%s\":%d" (json_escape k) v :: acc) clause_count []))
    (String.concat "," (List.sort compare hs))
