(* Model driver for the frame text forms (C15 candump text, C16 JSON): reads the
   implementation's observations (harness/frametext/main.go), recomputes each with the
   extracted Coq model (Can/FrameString.v, Can/FrameJSON.v, Base/Dec.v, Base/Hex.v) and
   reports disagreements.  The specification of both properties is a total function and
   model = specification is a theorem, so inside the modelled class every disagreement is a
   MISMATCH (= violation).  Observations outside the modelled class (a document embedded
   through encoding/json that is not by itself a valid JSON text) are counted separately
   as out_of_model / out_of_model_disagree and never as agreement. *)
open Model
open Common

let ztab = Array.init 256 z_of_int

let bytes_of_hex (s : string) : z list =
  if s = "-" then []
  else List.init (String.length s / 2) (fun i -> ztab.((hexval s.[2 * i] * 16) + hexval s.[(2 * i) + 1]))

let hex_of_bytes (l : z list) : string =
  if l = [] then "-"
  else begin
    let b = Buffer.create 64 in
    List.iter (fun x -> Buffer.add_string b (Printf.sprintf "%02x" (int_of_z x))) l;
    Buffer.contents b
  end

let rec nat_of_int n = if n <= 0 then O else S (nat_of_int (n - 1))

let frame_of_string (s : string) : frame =
  match String.split_on_char ':' s with
  | [ id; len; data; r; e ] ->
      { f_id = z_of_hex id; f_len = z_of_hex len; f_data = data_of_hex data; f_remote = r = "1"; f_ext = e = "1" }
  | _ -> failwith ("bad frame " ^ s)

let string_of_frame (f : frame) : string =
  Printf.sprintf "%s:%s:%s:%s:%s" (hex_of_z f.f_id) (hex_of_z f.f_len) (hex_of_data f.f_data)
    (if f.f_remote then "1" else "0")
    (if f.f_ext then "1" else "0")

let string_of_outcome = function Ok -> "ok" | Error -> "err" | Panic -> "panic"
let string_of_sres = function S_ok s -> hex_of_bytes s | S_panic -> "PANIC"

(* extra statistics *)
let out_of_model = ref 0
let out_of_model_disagree = ref 0
let feat : (string, int) Hashtbl.t = Hashtbl.create 16
let bump k = Hashtbl.replace feat k (1 + try Hashtbl.find feat k with Not_found -> 0)
let n_pfail = ref 0

let pfail line clause =
  incr n_pfail;
  if !n_pfail <= 50 then Printf.printf "PFAIL %s || clause=%s\n" line clause

let canonical_frame f = frame_wfb f && canonicalb f

(* ------------------------------------------------------------------ C15 *)

let handle_s line fs impl =
  let f = frame_of_string fs in
  let m = to_string f in
  let ms = string_of_sres m in
  let canon = canonical_frame f in
  let kind =
    if m = S_panic then "S-panic" else if canon then "S-canonical" else if validate f then "S-valid-unused-nonzero" else "S-invalid"
  in
  note_case kind line;
  if canon then begin
    (* the property's own predicate, evaluated on what the implementation printed *)
    if impl = "PANIC" then pfail line "String() panicked on a valid frame"
    else begin
      let ib = bytes_of_hex impl in
      if not (matches_patternb true ib) then pfail line "text does not match the documented upper-case pattern"
      else
        match unmarshal_string ib zero_frame with
        | Ok, g when frame_eqb f g -> ()
        | _ -> pfail line "parsing the printed text does not give the frame back"
    end
  end;
  if ms <> impl then mismatch line ms

let handle_u line input sent res dst =
  let s = bytes_of_hex input in
  let o, d = unmarshal_string s (frame_of_string sent) in
  let pat = matches_patternb false s in
  let kind =
    match o with
    | Ok -> if pat then "U-ok-pattern" else "U-ok-outside-pattern"
    | Error -> "U-err"
    | Panic -> "U-panic"
  in
  note_case kind line;
  if res = "panic" then pfail line "UnmarshalString panicked"
  else if res = "err" && dst <> sent then pfail line "destination modified although an error was returned"
  else if pat && res <> "ok" then pfail line "a string of the documented pattern was rejected";
  let expected = string_of_outcome o ^ " " ^ string_of_frame d in
  if expected <> res ^ " " ^ dst then mismatch line expected

(* ------------------------------------------------------------------ C16 *)

let handle_j line fs impl valid same =
  let f = frame_of_string fs in
  let m = to_json f in
  let ms = string_of_sres m in
  let canon = canonical_frame f in
  let kind =
    if m = S_panic then "J-panic" else if canon then "J-canonical" else if validate f then "J-valid-unused-nonzero" else "J-invalid"
  in
  note_case kind line;
  (match m with
   | S_ok s -> if not (json_valid s) then pfail line "model output is not valid JSON (model error)"
   | S_panic -> ());
  if canon then begin
    if impl = "PANIC" then pfail line "JSON() panicked on a valid frame"
    else begin
      if valid <> "1" then pfail line "JSON() output rejected by json.Valid";
      if same <> "1" then pfail line "MarshalJSON() differs from JSON()";
      let ib = bytes_of_hex impl in
      if not (json_valid ib) then pfail line "JSON() output is not a valid RFC 8259 text"
      else
        match unmarshal_json ib zero_frame with
        | Ok, g when frame_eqb f g -> ()
        | _ -> pfail line "decoding the JSON form does not give the frame back"
    end
  end
  else if impl <> "PANIC" && (valid <> "1" || same <> "1") then pfail line "json.Valid / MarshalJSON disagreement on JSON() output";
  if ms <> impl then mismatch line ms

let handle_m line fs impl =
  let f = frame_of_string fs in
  let expected =
    match to_json f with
    | S_ok s -> hex_of_bytes ((z_of_int 91 :: s) @ [ z_of_int 93 ])
    | S_panic -> "PANIC"
  in
  note_case "M-marshal-in-array" line;
  if expected <> impl then mismatch line expected

(* a frame inside a Go container, marshalled and decoded back through encoding/json: the document
   must carry exactly the JSON() text at the frame's position(s), and decoding it must give the
   frame(s) back.  (That MarshalJSON is reachable for non-addressable values - i.e. has a value
   receiver - is a fact about Go method sets, not expressible in the model; it is observed here.) *)
let zs (s : string) : z list = List.init (String.length s) (fun i -> ztab.(Char.code s.[i]))

let container_doc kind (j : z list) : (z list * int) option =
  match kind with
  | "value" | "pointer" | "iface" -> Some (j, 1)
  | "struct" | "structptr" -> Some (zs "{\"f\":" @ j @ zs ",\"p\":" @ j @ zs "}", 2)
  | "slice" | "ptrslice" -> Some (zs "[" @ j @ zs "]", 1)
  | "map" -> Some (zs "{\"k\":" @ j @ zs "}", 1)
  | "ifaceslice" -> Some (zs "[" @ j @ zs ",[" @ j @ zs "]]", 2)
  | _ -> None

let last_c : (string * (sres * (outcome * frame) option)) option ref = ref None

let handle_c line kind fs doc res back =
  let f = frame_of_string fs in
  let m, dec =
    match !last_c with
    | Some (k, v) when k = fs -> v
    | _ ->
        let m = to_json f in
        let dec = match m with S_ok j -> Some (unmarshal_json j zero_frame) | S_panic -> None in
        last_c := Some (fs, (m, dec));
        (m, dec)
  in
  note_case ("C-" ^ kind) line;
  match (m, dec, container_doc kind (match m with S_ok j -> j | S_panic -> [])) with
  | _, _, None -> failwith ("unknown container kind: " ^ line)
  | S_panic, _, _ | _, None, _ ->
      if doc <> "PANIC" then mismatch line "PANIC - -"
  | S_ok _, Some (o, g), Some (d, n) ->
      let canon = canonical_frame f in
      let exp_doc = hex_of_bytes d in
      let exp_back =
        match o with
        | Ok -> "ok " ^ String.concat "," (List.init n (fun _ -> string_of_frame g))
        | Error -> "err -"
        | Panic -> "panic -"
      in
      if canon && not (o = Ok && frame_eqb f g) then pfail line "model error: canonical frame does not round-trip";
      if doc <> exp_doc then
        pfail line
          (Printf.sprintf "container %s: the document produced by encoding/json does not carry the JSON() text at the frame's position; expected %s" kind exp_doc)
      else if res ^ " " ^ back <> exp_back then
        pfail line
          (Printf.sprintf "container %s: decoding the document back through encoding/json does not give the identical frame; expected %s" kind exp_back)

(* results of MarshalJSON retained across further calls, sequentially (A) and concurrently (AC) *)
let json_hex f = match to_json f with S_ok j -> hex_of_bytes j | S_panic -> hex_of_bytes (zs "PANIC")

let handle_a line f1 f2 f3 b1 copy1 b2 b3 j1 j2 =
  note_case "A-marshal-retained" line;
  let e1 = json_hex (frame_of_string f1) and e2 = json_hex (frame_of_string f2) and e3 = json_hex (frame_of_string f3) in
  if copy1 <> e1 then pfail line ("MarshalJSON() result differs from the JSON form; expected " ^ e1)
  else if b1 <> copy1 then
    pfail line "marshal-result-aliased: the bytes returned by MarshalJSON() for the first frame changed when further frames were marshalled"
  else if b2 <> e2 || b3 <> e3 then pfail line "marshal-result-aliased: a later MarshalJSON() result is not the JSON form of its frame"
  else if j1 <> e1 || j2 <> e2 then pfail line "marshal-result-aliased: json.Marshal of two frames in sequence does not give their JSON forms"

let handle_ac line f results =
  note_case "AC-marshal-concurrent" line;
  let e = json_hex (frame_of_string f) in
  if results <> e then
    pfail line ("marshal-result-aliased (concurrent): a goroutine saw a MarshalJSON()/json.Marshal result that is not the JSON form of its frame; expected only " ^ e)

(* two decodes into the same destination *)
let handle_r line kind in1 in2 r1 a1 r2 a2 rf af =
  let dec = if kind = "RS" then unmarshal_string else unmarshal_json in
  let s1 = bytes_of_hex in1 and s2 = bytes_of_hex in2 in
  let o1, d1 = dec s1 zero_frame in
  let o2, d2 = dec s2 d1 in
  let of_, df = dec s2 zero_frame in
  note_case (kind ^ "-destination-reused") line;
  if r2 = "ok" && rf = "ok" && a2 <> af then
    pfail line "destination-state: decoding into a used destination gives a different frame than decoding into a fresh one";
  let expected =
    String.concat " "
      [ string_of_outcome o1; string_of_frame d1; string_of_outcome o2; string_of_frame d2; string_of_outcome of_; string_of_frame df ]
  in
  if expected <> String.concat " " [ r1; a1; r2; a2; rf; af ] then mismatch line expected

let has_byte p s = List.exists p s

let handle_d line doc sent res dst valid =
  let s = bytes_of_hex doc in
  let o, d = unmarshal_json s (frame_of_string sent) in
  let gv = go_valid s in
  let kind =
    match o with
    | Ok -> "D-ok"
    | Panic -> "D-panic"
    | Error -> if not gv then "D-err-syntax" else if read_doc s = None then "D-err-decode" else "D-err-after-decode"
  in
  note_case kind line;
  if has_byte (fun c -> int_of_z c = 92) s then bump "docs_with_escapes";
  if has_byte (fun c -> int_of_z c >= 128) s then bump "docs_with_non_ascii";
  if gv <> json_valid s then bump "docs_valid_rfc8259_but_over_go_depth_limit";
  if res = "panic" then pfail line "UnmarshalJSON panicked";
  if (if gv then "1" else "0") <> valid then mismatch line ("json.Valid=" ^ if gv then "1" else "0");
  let expected = string_of_outcome o ^ " " ^ string_of_frame d in
  if expected <> res ^ " " ^ dst then mismatch line expected

let handle_e line kind doc res fs =
  let s = bytes_of_hex doc in
  let expected =
    match unmarshal_json s zero_frame with
    | Ok, g -> "ok " ^ string_of_frame g
    | Error, _ -> "err -"
    | Panic, _ -> "panic -"
  in
  if not (go_valid s) then begin
    (* the embedded text is not a JSON value by itself: outside the modelled class *)
    incr out_of_model;
    note_case ~nontrivial:false ("E-" ^ kind ^ "-out-of-model") line;
    if expected <> res ^ " " ^ fs then incr out_of_model_disagree
  end
  else begin
    note_case ("E-" ^ kind) line;
    if res = "panic" then pfail line "decoding through encoding/json panicked";
    if expected <> res ^ " " ^ fs then mismatch line expected
  end

(* ------------------------------------------------------------------ library oracles *)

let string_of_pu = function PU_ok n -> "ok:" ^ hex_of_z n | PU_syntax -> "syntax" | PU_range -> "range"

let oracle line kind (expected : string) (impl : string) =
  note_case kind line;
  if expected <> impl then mismatch line expected

let handle line =
  match split_ws line with
  | [ "S"; f; impl ] -> handle_s line f impl
  | [ "U"; input; sent; res; dst ] -> handle_u line input sent res dst
  | [ "J"; f; impl; valid; same ] -> handle_j line f impl valid same
  | [ "M"; f; impl ] -> handle_m line f impl
  | [ "C"; kind; f; doc; res; back ] -> handle_c line kind f doc res back
  | [ "A"; f1; f2; f3; b1; copy1; b2; b3; j1; j2 ] -> handle_a line f1 f2 f3 b1 copy1 b2 b3 j1 j2
  | [ "AC"; f; _; results ] -> handle_ac line f results
  | [ (("RS" | "RJ") as kind); in1; in2; r1; a1; r2; a2; rf; af ] -> handle_r line kind in1 in2 r1 a1 r2 a2 rf af
  | [ "D"; doc; sent; res; dst; valid ] -> handle_d line doc sent res dst valid
  | [ "E"; kind; doc; res; f ] -> handle_e line kind doc res f
  | [ "O-pu16"; s; r ] -> oracle line "O-ParseUint16" (string_of_pu (parse_uint (bytes_of_hex s) (z_of_int 16) (z_of_int 32))) r
  | [ "O-pu10"; s; r ] -> oracle line "O-ParseUint10" (string_of_pu (parse_uint (bytes_of_hex s) (z_of_int 10) (z_of_int 64))) r
  | [ "O-atoi"; s; r ] ->
      oracle line "O-Atoi" (match atoi (bytes_of_hex s) with Some v -> "ok:" ^ i64hex_of_z v | None -> "err") r
  | [ "O-hexdec"; s; r ] ->
      oracle line "O-hex.Decode" (match hex_decode (bytes_of_hex s) with Some b -> "ok:" ^ hex_of_bytes b | None -> "err") r
  | "O-split" :: s :: n :: parts ->
      let m = split (z_of_int 35) (bytes_of_hex s) in
      oracle line "O-strings.Split"
        (String.concat " " (string_of_int (List.length m) :: List.map hex_of_bytes m))
        (String.concat " " (n :: parts))
  | [ "O-itoa"; n; r ] -> oracle line "O-Itoa" (hex_of_bytes (itoa (z_of_i64hex n))) r
  | [ "O-fmt3"; n; r ] -> oracle line "O-fmt%03X" (hex_of_bytes (fmt_hex_upper (nat_of_int 3) (z_of_hex n))) r
  | [ "O-fmt8"; n; r ] -> oracle line "O-fmt%08X" (hex_of_bytes (fmt_hex_upper (nat_of_int 8) (z_of_hex n))) r
  | [ "O-hexenc"; s; r ] -> oracle line "O-hex.Encode" (hex_of_bytes (hex_encode (bytes_of_hex s))) r
  | [ "O-upper"; s; r ] -> oracle line "O-strings.ToUpper" (hex_of_bytes (ascii_upper (bytes_of_hex s))) r
  | _ -> failwith ("unparsable line: " ^ line)

let print_stats_ext () =
  let ks = Hashtbl.fold (fun k v acc -> Printf.sprintf "\"%s\":%d" (json_escape k) v :: acc) kinds [] in
  let fs = Hashtbl.fold (fun k v acc -> Printf.sprintf "\"%s\":%d" (json_escape k) v :: acc) feat [] in
  let ss = List.map (fun s -> "\"" ^ json_escape (if String.length s > 400 then String.sub s 0 400 ^ "..." else s) ^ "\"") (List.rev !samples) in
  Printf.printf
    "STATS {\"cases\":%d,\"mismatches\":%d,\"predicate_failures\":%d,\"distinct_nontrivial\":%d,\"out_of_model\":%d,\"out_of_model_disagree\":%d,\"features\":{%s},\"kinds\":{%s},\"samples\":[%s]}\n"
    !n_cases !n_mismatch !n_pfail !n_nontrivial !out_of_model !out_of_model_disagree
    (String.concat "," (List.sort compare fs))
    (String.concat "," (List.sort compare ks))
    (String.concat "," ss)

let () =
  (try
     while true do
       let l = input_line stdin in
       if l <> "" then handle l
     done
   with End_of_file -> ());
  print_stats_ext ()
