(* Reader for the canonical definition dump of harness/dbccommon/dump.go into the extracted
   Coq type Dbc.Ast.def (module Model must have been extracted with the Ast constructors). *)
open Model
open Common

let bytes_of_s (tok : string) : z list =
  (* "s:" ^ hex *)
  if String.length tok < 2 || String.sub tok 0 2 <> "s:" then failwith ("expected s:<hex>, got " ^ tok);
  let h = String.sub tok 2 (String.length tok - 2) in
  List.init (String.length h / 2) (fun i -> z_of_int ((hexval h.[2 * i] * 16) + hexval h.[(2 * i) + 1]))

let string_of_s tok =
  let h = String.sub tok 2 (String.length tok - 2) in
  String.init (String.length h / 2) (fun i -> Char.chr ((hexval h.[2 * i] * 16) + hexval h.[(2 * i) + 1]))

let s_of_bytes (b : z list) : string =
  "s:" ^ String.concat "" (List.map (fun x -> Printf.sprintf "%02x" (int_of_z x)) b)

let pos_of (tok : string) : position =
  match String.split_on_char ':' tok with
  | [ l; c; o ] -> { p_line = z_of_hex l; p_column = z_of_hex c; p_offset = z_of_hex o }
  | _ -> failwith ("bad position " ^ tok)

let string_of_pos (p : position) =
  Printf.sprintf "%s:%s:%s" (hex_of_z p.p_line) (hex_of_z p.p_column) (hex_of_z p.p_offset)

let bool_of tok = tok = "1"

(* token cursor *)
type cur = { mutable toks : string list }

let next c = match c.toks with [] -> failwith "dump line too short" | t :: tl -> c.toks <- tl; t
let next_list c f =
  let n = int_of_string ("0x" ^ next c) in
  List.init n (fun _ -> ()) |> List.map (fun () -> f c)

let value_desc c =
  let p = pos_of (next c) in
  let v = z_of_hex (next c) in
  let d = bytes_of_s (next c) in
  { vd_pos = p; vd_value = v; vd_description = d }

let object_type_of tok =
  match string_of_s tok with
  | "" -> OtUnspecified | "BU_" -> OtNode | "BO_" -> OtMessage | "SG_" -> OtSignal | "EV_" -> OtEnvVar
  | s -> failwith ("object type " ^ s)

let attr_type_of tok =
  match string_of_s tok with
  | "INT" -> AtInt | "HEX" -> AtHex | "FLOAT" -> AtFloat | "STRING" -> AtString | "ENUM" -> AtEnum
  | s -> failwith ("attr type " ^ s)

let access_of tok =
  match string_of_s tok with
  | "DUMMY_NODE_VECTOR0" -> AccUnrestricted | "DUMMY_NODE_VECTOR1" -> AccRead
  | "DUMMY_NODE_VECTOR2" -> AccWrite | "DUMMY_NODE_VECTOR3" -> AccReadWrite
  | s -> failwith ("access type " ^ s)

let signal_of c : signal_def =
  let p = pos_of (next c) in
  let name = bytes_of_s (next c) in
  let start = z_of_hex (next c) in
  let size = z_of_hex (next c) in
  let be = bool_of (next c) in
  let sg = bool_of (next c) in
  let mx = bool_of (next c) in
  let md = bool_of (next c) in
  let mv = z_of_hex (next c) in
  let off = z_of_hex (next c) in
  let fac = z_of_hex (next c) in
  let mn = z_of_hex (next c) in
  let mxv = z_of_hex (next c) in
  let u = bytes_of_s (next c) in
  let rc = next_list c (fun c -> bytes_of_s (next c)) in
  { sg_pos = p; sg_name = name; sg_start = start; sg_size = size; sg_big_endian = be; sg_signed = sg;
    sg_mux_switch = mx; sg_multiplexed = md; sg_mux_value = mv; sg_offset = off; sg_factor = fac;
    sg_min = mn; sg_max = mxv; sg_unit = u; sg_receivers = rc }

(* parse a block of dump lines (DEF/SIG) into defs *)
let defs_of_lines (lines : string list) : def list =
  let rec go acc = function
    | [] -> List.rev acc
    | l :: rest -> (
        let c = { toks = split_ws l } in
        match next c with
        | "DEF" -> (
            match next c with
            | "version" ->
                let p = pos_of (next c) in
                go (DVersion (p, bytes_of_s (next c)) :: acc) rest
            | "newsymbols" ->
                let p = pos_of (next c) in
                go (DNewSymbols (p, next_list c (fun c -> bytes_of_s (next c))) :: acc) rest
            | "bittiming" ->
                let p = pos_of (next c) in
                let a = z_of_hex (next c) in
                let b = z_of_hex (next c) in
                let d = z_of_hex (next c) in
                go (DBitTiming (p, a, b, d) :: acc) rest
            | "nodes" ->
                let p = pos_of (next c) in
                go (DNodes (p, next_list c (fun c -> bytes_of_s (next c))) :: acc) rest
            | "valuetable" ->
                let p = pos_of (next c) in
                let n = bytes_of_s (next c) in
                go (DValueTable (p, n, next_list c value_desc) :: acc) rest
            | "message" ->
                let p = pos_of (next c) in
                let id = z_of_hex (next c) in
                let name = bytes_of_s (next c) in
                let size = z_of_hex (next c) in
                let tx = bytes_of_s (next c) in
                let n = int_of_string ("0x" ^ next c) in
                let rec take k acc_s rest =
                  if k = 0 then (List.rev acc_s, rest)
                  else
                    match rest with
                    | l :: tl ->
                        let c = { toks = split_ws l } in
                        if next c <> "SIG" then failwith "expected SIG line";
                        take (k - 1) (signal_of c :: acc_s) tl
                    | [] -> failwith "missing SIG lines"
                in
                let sigs, rest' = take n [] rest in
                go (DMessage { m_pos = p; m_id = id; m_name = name; m_size = size; m_transmitter = tx; m_signals = sigs } :: acc) rest'
            | "signal" -> go (DSignal (signal_of c) :: acc) rest
            | "sigvaltype" ->
                let p = pos_of (next c) in
                let id = z_of_hex (next c) in
                let s = bytes_of_s (next c) in
                let t = z_of_hex (next c) in
                go (DSignalValueType (p, id, s, t) :: acc) rest
            | "msgtx" ->
                let p = pos_of (next c) in
                let id = z_of_hex (next c) in
                go (DMessageTransmitters (p, id, next_list c (fun c -> bytes_of_s (next c))) :: acc) rest
            | "valdesc" ->
                let p = pos_of (next c) in
                let ot = object_type_of (next c) in
                let id = z_of_hex (next c) in
                let s = bytes_of_s (next c) in
                let e = bytes_of_s (next c) in
                let vs = next_list c value_desc in
                go (DValueDescriptions { vs_pos = p; vs_object = ot; vs_message_id = id; vs_signal = s; vs_envvar = e; vs_values = vs } :: acc) rest
            | "envvar" ->
                let p = pos_of (next c) in
                let name = bytes_of_s (next c) in
                let t = z_of_hex (next c) in
                let mn = z_of_hex (next c) in
                let mx = z_of_hex (next c) in
                let u = bytes_of_s (next c) in
                let init = z_of_hex (next c) in
                let id = z_of_hex (next c) in
                let a = access_of (next c) in
                let ns = next_list c (fun c -> bytes_of_s (next c)) in
                go (DEnvVar { ev_pos = p; ev_name = name; ev_type = t; ev_min = mn; ev_max = mx; ev_unit = u;
                              ev_initial = init; ev_id = id; ev_access = a; ev_access_nodes = ns } :: acc) rest
            | "envvardata" ->
                let p = pos_of (next c) in
                let n = bytes_of_s (next c) in
                go (DEnvVarData (p, n, z_of_hex (next c)) :: acc) rest
            | "comment" ->
                let p = pos_of (next c) in
                let ot = object_type_of (next c) in
                let node = bytes_of_s (next c) in
                let id = z_of_hex (next c) in
                let s = bytes_of_s (next c) in
                let e = bytes_of_s (next c) in
                let cm = bytes_of_s (next c) in
                go (DComment { cm_pos = p; cm_object = ot; cm_node = node; cm_message_id = id; cm_signal = s;
                               cm_envvar = e; cm_comment = cm } :: acc) rest
            | "attr" ->
                let p = pos_of (next c) in
                let ot = object_type_of (next c) in
                let n = bytes_of_s (next c) in
                let t = attr_type_of (next c) in
                let mi = z_of_i64hex (next c) in
                let ma = z_of_i64hex (next c) in
                let fi = z_of_hex (next c) in
                let fa = z_of_hex (next c) in
                let ev = next_list c (fun c -> bytes_of_s (next c)) in
                go (DAttribute { ad_pos = p; ad_object = ot; ad_name = n; ad_type = t; ad_min_int = mi; ad_max_int = ma;
                                 ad_min_float = fi; ad_max_float = fa; ad_enum_values = ev } :: acc) rest
            | "attrdef" ->
                let p = pos_of (next c) in
                let n = bytes_of_s (next c) in
                let i = z_of_i64hex (next c) in
                let f = z_of_hex (next c) in
                let s = bytes_of_s (next c) in
                go (DAttributeDefault { dd_pos = p; dd_name = n; dd_int = i; dd_float = f; dd_string = s } :: acc) rest
            | "attrval" ->
                let p = pos_of (next c) in
                let n = bytes_of_s (next c) in
                let ot = object_type_of (next c) in
                let id = z_of_hex (next c) in
                let s = bytes_of_s (next c) in
                let node = bytes_of_s (next c) in
                let e = bytes_of_s (next c) in
                let i = z_of_i64hex (next c) in
                let f = z_of_hex (next c) in
                let st = bytes_of_s (next c) in
                go (DAttributeValue { av_pos = p; av_name = n; av_object = ot; av_message_id = id; av_signal = s;
                                      av_node = node; av_envvar = e; av_int = i; av_float = f; av_string = st } :: acc) rest
            | "unknown" ->
                let p = pos_of (next c) in
                go (DUnknown (p, bytes_of_s (next c)) :: acc) rest
            | k -> failwith ("unknown DEF kind " ^ k))
        | t -> failwith ("unexpected dump line tag " ^ t))
  in
  go [] lines
