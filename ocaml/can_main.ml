(* Model driver for the bit core (C01, C02, C17): reads the implementation's observations,
   recomputes each with the extracted Coq model, reports disagreements. *)
open Model
open Common

let zi = z_of_int
let b01 b = if b then "1" else "0"

let check_row kind f fl s bits line =
  (* bits.[l-1] = '1' iff the implementation returned nil for range length l *)
  for l = 1 to 255 do
    let m = f (zi fl) (zi s) (zi l) in
    let case = Printf.sprintf "%s fl=%d s=%d l=%d impl=%c" kind fl s l bits.[l - 1] in
    note_case kind case;
    if b01 m <> String.make 1 bits.[l - 1] then mismatch case (b01 m)
  done;
  ignore line

let handle line =
  match split_ws line with
  | [ "CL"; fl; s; bits ] -> check_row "CL" check_le (int_of_string fl) (int_of_string s) bits line
  | [ "CB"; fl; s; bits ] -> check_row "CB" check_be (int_of_string fl) (int_of_string s) bits line
  | [ "CV"; b; v; ok ] ->
      note_case "CV" line;
      let m = check_value (z_of_hex v) (zi (int_of_string b)) in
      if b01 m <> ok then mismatch line (b01 m)
  | [ "UL"; s; l; d; r ] ->
      let m = hex_of_z (ubits_le (data_of_hex d) (zi (int_of_string s)) (zi (int_of_string l))) in
      note_case ~nontrivial:(m <> "0") "UL" line;
      if m <> r then mismatch line m
  | [ "UB"; s; l; d; r ] ->
      let m = hex_of_z (ubits_be (data_of_hex d) (zi (int_of_string s)) (zi (int_of_string l))) in
      note_case ~nontrivial:(m <> "0") "UB" line;
      if m <> r then mismatch line m
  | [ "SL"; s; l; d; r ] ->
      let m = i64hex_of_z (sbits_le (data_of_hex d) (zi (int_of_string s)) (zi (int_of_string l))) in
      note_case ~nontrivial:(m <> "0") "SL" line;
      if m <> r then mismatch line m
  | [ "SB"; s; l; d; r ] ->
      let m = i64hex_of_z (sbits_be (data_of_hex d) (zi (int_of_string s)) (zi (int_of_string l))) in
      note_case ~nontrivial:(m <> "0") "SB" line;
      if m <> r then mismatch line m
  | [ "BT"; i; d; r ] ->
      let m = b01 (bit (data_of_hex d) (zi (int_of_string i))) in
      note_case ~nontrivial:(m <> "0") "BT" line;
      if m <> r then mismatch line m
  | [ "WUL"; s; l; d; v; r ] ->
      let m = hex_of_data (set_ubits_le (data_of_hex d) (zi (int_of_string s)) (zi (int_of_string l)) (z_of_hex v)) in
      note_case ~nontrivial:(m <> d) "WUL" line;
      if m <> r then mismatch line m
  | [ "WUB"; s; l; d; v; r ] ->
      let m = hex_of_data (set_ubits_be (data_of_hex d) (zi (int_of_string s)) (zi (int_of_string l)) (z_of_hex v)) in
      note_case ~nontrivial:(m <> d) "WUB" line;
      if m <> r then mismatch line m
  | [ "WSL"; s; l; d; v; r ] ->
      let m = hex_of_data (set_sbits_le (data_of_hex d) (zi (int_of_string s)) (zi (int_of_string l)) (z_of_i64hex v)) in
      note_case ~nontrivial:(m <> d) "WSL" line;
      if m <> r then mismatch line m
  | [ "WSB"; s; l; d; v; r ] ->
      let m = hex_of_data (set_sbits_be (data_of_hex d) (zi (int_of_string s)) (zi (int_of_string l)) (z_of_i64hex v)) in
      note_case ~nontrivial:(m <> d) "WSB" line;
      if m <> r then mismatch line m
  | [ "WBT"; i; d; b; r ] ->
      let m = hex_of_data (set_bit (data_of_hex d) (zi (int_of_string i)) (b = "1")) in
      note_case ~nontrivial:(m <> d) "WBT" line;
      if m <> r then mismatch line m
  | "SEQ" :: d0 :: rest ->
      (* SEQ d0 <n> {kind s l v}*n final : a history of writes executed in the given order *)
      let rec go d = function
        | [ final ] -> (d, final)
        | k :: s :: l :: v :: tl ->
            let s = zi (int_of_string s) and l = zi (int_of_string l) in
            let d' =
              match k with
              | "ul" -> set_ubits_le d s l (z_of_hex v)
              | "ub" -> set_ubits_be d s l (z_of_hex v)
              | "sl" -> set_sbits_le d s l (z_of_i64hex v)
              | "sb" -> set_sbits_be d s l (z_of_i64hex v)
              | _ -> failwith "bad SEQ op"
            in
            go d' tl
        | _ -> failwith "bad SEQ"
      in
      let d, final = go (data_of_hex d0) rest in
      let m = hex_of_data d in
      note_case ~nontrivial:(m <> d0) "SEQ" line;
      if m <> final then mismatch line m
  | _ -> failwith ("unparsable line: " ^ line)

let () = iter_lines handle
