(* deps: dbcdump.ml *)
open Model
open Common
open Dbcdump

let block = ref []
let handle line =
  match split_ws line with
  | "FILE" :: _ -> block := []
  | [ "END" ] ->
      let defs = defs_of_lines (List.rev !block) in
      List.iter (fun d -> note_case "def" (string_of_pos (def_pos d))) defs
  | _ -> block := line :: !block

let () = iter_lines handle
