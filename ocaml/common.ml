(* Glue shared by all model drivers: conversions between text and the extracted Coq
   numbers (Z / positive stay the Coq inductives: 2^64 does not fit an OCaml int). *)
open Model

let rec pos_of_bits_msb (acc : positive) (bits : bool list) : positive =
  match bits with
  | [] -> acc
  | b :: tl -> pos_of_bits_msb (if b then XI acc else XO acc) tl

(* bits most significant first *)
let z_of_bits_msb (bits : bool list) : z =
  let rec drop = function false :: tl -> drop tl | l -> l in
  match drop bits with
  | [] -> Z0
  | _ :: tl -> Zpos (pos_of_bits_msb XH tl)

let hexval c =
  match c with
  | '0' .. '9' -> Char.code c - 48
  | 'a' .. 'f' -> Char.code c - 87
  | 'A' .. 'F' -> Char.code c - 55
  | _ -> failwith ("bad hex digit in " ^ String.make 1 c)

(* non-negative hexadecimal, optional leading '-' *)
let z_of_hex (s : string) : z =
  let neg = String.length s > 0 && s.[0] = '-' in
  let s = if neg then String.sub s 1 (String.length s - 1) else s in
  let msb = ref [] in
  (* collect bits least significant first by walking the string backwards *)
  for i = String.length s - 1 downto 0 do
    let v = hexval s.[i] in
    msb := ((v land 8) <> 0) :: ((v land 4) <> 0) :: ((v land 2) <> 0) :: ((v land 1) <> 0) :: !msb
  done;
  match z_of_bits_msb !msb with
  | Zpos p -> if neg then Zneg p else Zpos p
  | z -> z

let rec bits_lsb_of_pos (p : positive) : bool list =
  match p with
  | XH -> [ true ]
  | XO q -> false :: bits_lsb_of_pos q
  | XI q -> true :: bits_lsb_of_pos q

let hex_of_pos (p : positive) : string =
  let bits = Array.of_list (bits_lsb_of_pos p) in
  let n = Array.length bits in
  let nn = (n + 3) / 4 in
  let b = Bytes.make nn '0' in
  for i = 0 to nn - 1 do
    let v = ref 0 in
    for j = 0 to 3 do
      let k = (4 * i) + j in
      if k < n && bits.(k) then v := !v lor (1 lsl j)
    done;
    Bytes.set b (nn - 1 - i) "0123456789abcdef".[!v]
  done;
  Bytes.to_string b

let hex_of_z (x : z) : string =
  match x with Z0 -> "0" | Zpos p -> hex_of_pos p | Zneg p -> "-" ^ hex_of_pos p

let z_of_int (n : int) : z =
  if n = 0 then Z0
  else
    let a = abs n in
    let rec bits k acc = if k = 0 then acc else bits (k lsr 1) (((k land 1) <> 0) :: acc) in
    match z_of_bits_msb (bits a []) with
    | Zpos p -> if n < 0 then Zneg p else Zpos p
    | z -> z

let int_of_z (x : z) : int =
  let rec ip p = match p with XH -> 1 | XO q -> 2 * ip q | XI q -> (2 * ip q) + 1 in
  match x with Z0 -> 0 | Zpos p -> ip p | Zneg p -> -ip p

(* payload: 16 hex digits, byte 0 first *)
let data_of_hex (s : string) : z list =
  let n = String.length s / 2 in
  List.init n (fun i -> z_of_int ((hexval s.[2 * i] * 16) + hexval s.[(2 * i) + 1]))

let hex_of_data (d : z list) : string =
  String.concat "" (List.map (fun b -> Printf.sprintf "%02x" (int_of_z b)) d)

let two64 = z_of_hex "10000000000000000"

(* int64 carried as the hex of its uint64 reinterpretation *)
let z_of_i64hex (s : string) : z =
  let u = z_of_hex s in
  if Z.ltb u (z_of_hex "8000000000000000") then u else Z.sub u two64

let i64hex_of_z (x : z) : string = hex_of_z (Z.modulo x two64)

let split_ws (s : string) : string list =
  List.filter (fun x -> x <> "") (String.split_on_char ' ' s)

(* statistics shared by drivers *)
let n_cases = ref 0
let n_mismatch = ref 0
let n_nontrivial = ref 0
let distinct : (int, unit) Hashtbl.t = Hashtbl.create 100000
let kinds : (string, int) Hashtbl.t = Hashtbl.create 64
let samples : string list ref = ref []

let note_case ?(nontrivial = true) (kind : string) (line : string) =
  incr n_cases;
  Hashtbl.replace kinds kind (1 + try Hashtbl.find kinds kind with Not_found -> 0);
  if nontrivial then begin
    let h = Hashtbl.hash line in
    if not (Hashtbl.mem distinct h) then begin
      Hashtbl.replace distinct h ();
      incr n_nontrivial
    end
  end;
  if List.length !samples < 6 && (!n_cases mod 9973 = 1 || !n_cases < 3) then samples := line :: !samples

let mismatch (line : string) (expected : string) =
  incr n_mismatch;
  if !n_mismatch <= 50 then Printf.printf "MISMATCH %s || model=%s\n" line expected

let json_escape s =
  let b = Buffer.create (String.length s + 8) in
  String.iter (fun c ->
      match c with
      | '"' -> Buffer.add_string b "\\\""
      | '\\' -> Buffer.add_string b "\\\\"
      | '\n' -> Buffer.add_string b "\\n"
      | c when Char.code c < 32 -> Buffer.add_string b (Printf.sprintf "\\u%04x" (Char.code c))
      | c -> Buffer.add_char b c) s;
  Buffer.contents b

let print_stats () =
  let ks = Hashtbl.fold (fun k v acc -> Printf.sprintf "\"%s\":%d" (json_escape k) v :: acc) kinds [] in
  let ss = List.map (fun s -> "\"" ^ json_escape s ^ "\"") (List.rev !samples) in
  Printf.printf "STATS {\"cases\":%d,\"mismatches\":%d,\"distinct_nontrivial\":%d,\"kinds\":{%s},\"samples\":[%s]}\n"
    !n_cases !n_mismatch !n_nontrivial (String.concat "," (List.sort compare ks)) (String.concat "," ss)

let iter_lines (f : string -> unit) =
  (try
     while true do
       let l = input_line stdin in
       if l <> "" then f l
     done
   with End_of_file -> ());
  print_stats ()
