(* deps: dbcdump.ml *)
(* Model driver for property C18 (lint analyzers). Reads the blocks printed by harness/lint/main.go,
   rebuilds the parsed definitions, runs the 20 extracted Coq analyzers and compares, per pass, the
   ORDERED list of diagnostics: line, column and message KIND.

   Message kinds. A pass with a single Reportf call site has one kind; its text is not compared (the
   property does not constrain wording). For the three passes with several call sites the kind is
   recovered from the text:  intervals (int:<min>:<max> | float),  multiplexedsignals (many | signed |
   both | nosw | exceeds:<max>),  nodereferences (tx|rx|acc:<node name>).  A text that matches none of
   the known patterns is a wildcard (position still compared), so rewording never raises an alarm.

   unicode.IsDigit / unicode.IsUpper (parameters of the model) are filled from the tables the harness
   dumps from Go's unicode package (UNI lines); the ASCII part is fixed here and checked (UNIASCII). *)
open Model
open Common
open Dbcdump

let digit_tbl : (int, unit) Hashtbl.t = Hashtbl.create 1024
let upper_tbl : (int, unit) Hashtbl.t = Hashtbl.create 4096
let ud (r : z) : bool =
  let i = int_of_z r in
  if i < 128 then i >= 48 && i <= 57 else Hashtbl.mem digit_tbl i
let uu (r : z) : bool =
  let i = int_of_z r in
  if i < 128 then i >= 65 && i <= 90 else Hashtbl.mem upper_tbl i

let passes =
  [ ("boolprefix", ABoolPrefix); ("definitiontypeorder", ADefinitionTypeOrder); ("intervals", AIntervals);
    ("lineendings", ALineEndings); ("messagenames", AMessageNames); ("multiplexedsignals", AMultiplexedSignals);
    ("newsymbols", ANewSymbols); ("nodereferences", ANodeReferences); ("noreservedsignals", ANoReservedSignals);
    ("requireddefinitions", ARequiredDefinitions); ("signalbounds", ASignalBounds); ("signalnames", ASignalNames);
    ("singletondefinitions", ASingletonDefinitions); ("siunits", ASiUnits); ("uniquemessageids", AUniqueMessageIDs);
    ("uniquenodenames", AUniqueNodeNames); ("uniquesignalnames", AUniqueSignalNames); ("unitsuffixes", AUnitSuffixes);
    ("valuedescriptions", AValueDescriptions); ("version", AVersion) ]

let zi = z_of_int

(* decimal integer (optional '-') to Z *)
let z_of_dec (s : string) : z option =
  let n = String.length s in
  if n = 0 then None
  else
    let neg = s.[0] = '-' in
    let start = if neg then 1 else 0 in
    if start >= n then None
    else
      let acc = ref Z0 and ok = ref true in
      for i = start to n - 1 do
        let c = s.[i] in
        if c >= '0' && c <= '9' then acc := Z.add (Z.mul !acc (zi 10)) (zi (Char.code c - 48)) else ok := false
      done;
      if !ok then Some (if neg then Z.sub Z0 !acc else !acc) else None

let starts_with p s = String.length s >= String.length p && String.sub s 0 (String.length p) = p
let after p s = String.sub s (String.length p) (String.length s - String.length p)
let hex_of_string s = String.concat "" (List.map (fun c -> Printf.sprintf "%02x" (Char.code c)) (List.init (String.length s) (String.get s)))

let kind_of_msg (m : msg) : string =
  match m with
  | MIntervalFloat _ -> "float"
  | MIntervalInt (a, b) -> "int:" ^ hex_of_z a ^ ":" ^ hex_of_z b
  | MMuxMany -> "many"
  | MMuxSigned -> "signed"
  | MMuxBoth -> "both"
  | MMuxNoSwitch -> "nosw"
  | MMuxExceeds v -> "exceeds:" ^ hex_of_z v
  | MUndeclTransmitter n -> "tx:" ^ s_of_bytes n
  | MUndeclReceiver n -> "rx:" ^ s_of_bytes n
  | MUndeclAccess n -> "acc:" ^ s_of_bytes n
  | _ -> "-"

(* kind of an implementation message text; None = unknown wording (wildcard) *)
let classify (pass : string) (text : string) : string option =
  match pass with
  | "intervals" ->
      let p = "invalid interval: [" in
      if starts_with p text && String.length text > String.length p && text.[String.length text - 1] = ']' then begin
        let inner = String.sub text (String.length p) (String.length text - String.length p - 1) in
        match Str.bounded_split (Str.regexp_string ", ") inner 2 with
        | [ a; b ] -> (
            match (z_of_dec a, z_of_dec b) with
            | Some x, Some y -> Some ("int:" ^ hex_of_z x ^ ":" ^ hex_of_z y)
            | _ -> Some "float")
        | _ -> None
      end
      else None
  | "multiplexedsignals" -> (
      match text with
      | "more than one multiplexer switch" -> Some "many"
      | "signed multiplexer switch" -> Some "signed"
      | "can't be multiplexer and multiplexed" -> Some "both"
      | "no multiplexer switch for multiplexed signal" -> Some "nosw"
      | _ ->
          let p = "multiplexer switch exceeds max value: " in
          if starts_with p text then match z_of_dec (after p text) with Some v -> Some ("exceeds:" ^ hex_of_z v) | None -> None
          else None)
  | "nodereferences" ->
      let t = "undeclared transmitter node: " and r = "undeclared receiver node: " and a = "undeclared access node: " in
      if starts_with t text then Some ("tx:s:" ^ hex_of_string (after t text))
      else if starts_with r text then Some ("rx:s:" ^ hex_of_string (after r text))
      else if starts_with a text then Some ("acc:s:" ^ hex_of_string (after a text))
      else None
  | _ -> Some "-"

let string_of_hex (h : string) : string =
  String.init (String.length h / 2) (fun i -> Char.chr ((hexval h.[2 * i] * 16) + hexval h.[(2 * i) + 1]))

(* ---- current block *)
let cur_n = ref "" and cur_cat = ref "" and cur_text = ref ""
let parse_ok = ref false
let dump : string list ref = ref []
let data : z list ref = ref []
let diag_lines : string list list ref = ref []
let pure = ref "-" and order = ref "-" and cli : string option ref = ref None

let n_text_wild = ref 0

(* MISMATCH / PFAIL (real, parser-produced files: a concrete failing input) and DISAGREE (synthetic files
   only) have separate print budgets, so that disagreements on synthetic files can never crowd out a
   concrete replay. *)
let n_real_printed = ref 0 and n_dis_printed = ref 0

let mismatch obs expected =
  incr n_mismatch;
  if !n_real_printed < 50 then begin incr n_real_printed; Printf.printf "MISMATCH %s || model=%s\n" obs expected end

let report synthetic obs expected =
  if synthetic then begin
    incr n_mismatch;
    if !n_dis_printed < 10 then begin incr n_dis_printed; Printf.printf "DISAGREE %s || model=%s\n" obs expected end
  end
  else mismatch obs expected

let pfail obs clause =
  incr n_mismatch;
  if !n_real_printed < 50 then begin incr n_real_printed; Printf.printf "PFAIL %s || clause=%s\n" obs clause end

let render_model (ds : diagnostic list) : string =
  Printf.sprintf "ok %x%s" (List.length ds)
    (String.concat "" (List.map (fun d -> Printf.sprintf " %s:%s:%s" (hex_of_z d.dg_pos.p_line) (hex_of_z d.dg_pos.p_column) (kind_of_msg d.dg_msg)) ds))

let cat_prefix c = match String.index_opt c ':' with Some i -> String.sub c 0 i | None -> c

let finish_block () =
  let synthetic = !cur_cat = "synthetic" in
  let where = Printf.sprintf "file=%s cat=%s" !cur_n !cur_cat in
  if not !parse_ok then note_case ~nontrivial:false "parsefail" where
  else begin
    let defs = defs_of_lines (List.rev !dump) in
    let f = { f_data = !data; f_defs = defs } in
    let any_cli = ref false in
    List.iter
      (fun toks ->
        match toks with
        | pass :: outcome :: _count :: items ->
            let a = try List.assoc pass passes with Not_found -> failwith ("unknown pass " ^ pass) in
            let impl =
              List.map
                (fun it ->
                  match String.split_on_char ':' it with
                  | [ l; c; t ] -> (l, c, classify pass (string_of_hex t))
                  | _ -> failwith ("bad diagnostic item " ^ it))
                items
            in
            let impl_str =
              outcome ^ " "
              ^ String.concat " " (List.map (fun (l, c, k) -> Printf.sprintf "%s:%s:%s" l c (match k with Some k -> k | None -> "?")) impl)
            in
            let obs = Printf.sprintf "%s pass=%s impl=%s text=%s" where pass impl_str !cur_text in
            let model = run ud uu a f in
            let spec = spec_diagnostics ud a f in
            (match model with
            | Ok ds ->
                note_case ~nontrivial:(ds <> []) pass (Printf.sprintf "%s pass=%s impl=%s" where pass impl_str);
                if ds <> spec then pfail obs "internal: extracted model and extracted specification differ";
                if ds <> [] && pass <> "boolprefix" then any_cli := true;
                if outcome <> "ok" then pfail obs ("analyzer terminates without error or panic (got " ^ outcome ^ ")")
                else begin
                  let same =
                    List.length ds = List.length impl
                    && List.for_all2
                         (fun d (l, c, k) ->
                           hex_of_z d.dg_pos.p_line = l
                           && hex_of_z d.dg_pos.p_column = c
                           && match k with None -> incr n_text_wild; true | Some k -> k = kind_of_msg d.dg_msg)
                         ds impl
                  in
                  if not same then report synthetic obs (render_model ds)
                end
            | Panic ->
                note_case pass obs;
                any_cli := true;
                if outcome <> "panic" then report synthetic obs "panic")
        | _ -> failwith "bad DIAG line")
      (List.rev !diag_lines);
    note_case ~nontrivial:(defs <> []) ("file:" ^ cat_prefix !cur_cat) where;
    if !pure <> "-" then
      pfail (Printf.sprintf "%s modified_by=%s text=%s" where !pure !cur_text) "analyzers do not modify the file";
    if !order <> "-" then
      pfail (Printf.sprintf "%s differs=%s text=%s" where !order !cur_text) "diagnostics do not depend on the order in which the passes run";
    match !cli with
    | None -> ()
    | Some x ->
        let expected = if !any_cli then "1" else "0" in
        let obs = Printf.sprintf "%s cantool_lint_exit_nonzero=%s text=%s" where x !cur_text in
        note_case ~nontrivial:(!any_cli) "cli" obs;
        if x <> expected then mismatch obs ("exit status non-zero iff one of the 19 passes of cantool reports: " ^ expected)
  end

let bytes_of_tok = bytes_of_s
let hexlist (l : z list) = String.concat " " (List.map hex_of_z l)
let b01 b = if b then "1" else "0"

let handle line =
  match split_ws line with
  | "FILE" :: n :: cat :: rest ->
      cur_n := n; cur_cat := cat; cur_text := (match rest with [ t ] -> t | _ -> "");
      parse_ok := false; dump := []; data := []; diag_lines := []; pure := "-"; order := "-"; cli := None
  | [ "PARSE"; r ] -> parse_ok := r = "ok"
  | ("DEF" | "SIG") :: _ -> dump := line :: !dump
  | "DATA" :: rest -> data := (match rest with [ h ] -> data_of_hex h | _ -> [])
  | "DIAG" :: toks -> diag_lines := toks :: !diag_lines
  | [ "PURE"; x ] -> pure := x
  | [ "ORDER"; x ] -> order := x
  | [ "CLI"; x ] -> cli := Some x
  | [ "END" ] -> finish_block ()
  | "UNI" :: which :: rs ->
      let tbl = if which = "digit" then digit_tbl else upper_tbl in
      List.iter (fun r -> Hashtbl.replace tbl (int_of_string ("0x" ^ r)) ()) rs
  | "UNIASCII" :: which :: rs ->
      note_case "oracle-unicode" line;
      let expect =
        if which = "digit" then List.init 10 (fun i -> Printf.sprintf "%x" (48 + i)) else List.init 26 (fun i -> Printf.sprintf "%x" (65 + i))
      in
      if rs <> expect then mismatch line "ASCII digits are 0-9 and ASCII upper-case letters are A-Z"
  | "RUNES" :: s :: rs ->
      note_case "oracle-runes" line;
      let m = hexlist (utf8_runes (bytes_of_tok s)) in
      if m <> String.concat " " rs then mismatch line m
  | [ "CC"; s; r ] ->
      note_case "oracle-camelcase" line;
      let m = b01 (is_camel_case ud uu (bytes_of_tok s)) in
      if m <> r then mismatch line m;
      if b01 (camel_case ud (bytes_of_tok s)) <> r then mismatch line ("spec camel_case=" ^ b01 (camel_case ud (bytes_of_tok s)))
  | [ "FGT"; a; b; r ] ->
      note_case "oracle-float-gt" line;
      let m = b01 (f64_gt (z_of_hex a) (z_of_hex b)) in
      if m <> r then mismatch line m
  | [ "F2I"; a; i; l ] ->
      note_case "oracle-float-to-int64" line;
      let v = f64_to_int64 (z_of_hex a) in
      let m = i64hex_of_z v ^ " " ^ hex_of_z (decimal_len v) in
      if m <> i ^ " " ^ l then mismatch line m
  | [ "PFX"; p; s; r1; r2 ] ->
      note_case "oracle-prefix-suffix" line;
      let m = b01 (has_prefix (bytes_of_tok p) (bytes_of_tok s)) ^ " " ^ b01 (has_suffix (bytes_of_tok p) (bytes_of_tok s)) in
      if m <> r1 ^ " " ^ r2 then mismatch line m
  | _ -> failwith ("unexpected line: " ^ (if String.length line > 80 then String.sub line 0 80 else line))

let () = iter_lines handle
