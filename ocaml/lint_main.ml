(* deps: dbcdump.ml *)
(* Model driver for property C18 (lint analyzers). Reads the blocks printed by harness/lint/main.go,
   rebuilds the parsed definitions, runs the 20 extracted Coq analyzers and compares, per pass, the
   ORDERED list of diagnostics: line, column and message KIND.

   Message kinds. A pass with a single Reportf call site has one kind; its text is not compared (the
   property does not constrain wording). For the three passes with several call sites the kind is
   recovered from the text:  intervals (int:<min>:<max> | float),  multiplexedsignals (many | signed |
   both | nosw | exceeds:<max>),  nodereferences (tx|rx|acc:<node name>).  A text that matches none of
   the known patterns is a wildcard (position still compared), so rewording never raises an alarm.

   cantool lint (CLI1 / CLIB / BATCH / CLIR lines): the real `cantool lint` binary was run on the file
   (alone, or as a member of a directory batch). The expected standard output is computed with the
   extracted [cantool_lint_output] (Dbc/LintCli.v): order of analyzers and diagnostics, file:line:col,
   analyzer name, the SOURCE LINE of each diagnostic and the caret column, and the exit status
   (0 / 1 "one or more lint errors" / 2 crash) all come from the model; only the message wording is
   taken from the in-process run of the same analyzer (parse errors: from the in-process parser).
   The comparison is byte-exact; a Go panic (exit status 2) is a violation with the file as replay.
   In a batch the first file whose expected output is not found at its place is the culprit.

   unicode.IsDigit / unicode.IsUpper (parameters of the model) are filled from the tables the harness
   dumps from Go's unicode package (UNI lines); the ASCII part is fixed here and checked (UNIASCII). *)
open Model
open Common
open Dbcdump

let digit_tbl : (int, unit) Hashtbl.t = Hashtbl.create 1024
let upper_tbl : (int, unit) Hashtbl.t = Hashtbl.create 4096
let ud (r : z) : bool =
  let i = int_of_z r in
  if i < 128 then i >= 48 && i <= 57 else Hashtbl.mem digit_tbl i
let uu (r : z) : bool =
  let i = int_of_z r in
  if i < 128 then i >= 65 && i <= 90 else Hashtbl.mem upper_tbl i

let passes =
  [ ("boolprefix", ABoolPrefix); ("definitiontypeorder", ADefinitionTypeOrder); ("intervals", AIntervals);
    ("lineendings", ALineEndings); ("messagenames", AMessageNames); ("multiplexedsignals", AMultiplexedSignals);
    ("newsymbols", ANewSymbols); ("nodereferences", ANodeReferences); ("noreservedsignals", ANoReservedSignals);
    ("requireddefinitions", ARequiredDefinitions); ("signalbounds", ASignalBounds); ("signalnames", ASignalNames);
    ("singletondefinitions", ASingletonDefinitions); ("siunits", ASiUnits); ("uniquemessageids", AUniqueMessageIDs);
    ("uniquenodenames", AUniqueNodeNames); ("uniquesignalnames", AUniqueSignalNames); ("unitsuffixes", AUnitSuffixes);
    ("valuedescriptions", AValueDescriptions); ("version", AVersion) ]

let zi = z_of_int

(* decimal integer (optional '-') to Z *)
let z_of_dec (s : string) : z option =
  let n = String.length s in
  if n = 0 then None
  else
    let neg = s.[0] = '-' in
    let start = if neg then 1 else 0 in
    if start >= n then None
    else
      let acc = ref Z0 and ok = ref true in
      for i = start to n - 1 do
        let c = s.[i] in
        if c >= '0' && c <= '9' then acc := Z.add (Z.mul !acc (zi 10)) (zi (Char.code c - 48)) else ok := false
      done;
      if !ok then Some (if neg then Z.sub Z0 !acc else !acc) else None

let starts_with p s = String.length s >= String.length p && String.sub s 0 (String.length p) = p
let after p s = String.sub s (String.length p) (String.length s - String.length p)
let hex_of_string s = String.concat "" (List.map (fun c -> Printf.sprintf "%02x" (Char.code c)) (List.init (String.length s) (String.get s)))

let kind_of_msg (m : msg) : string =
  match m with
  | MIntervalFloat _ -> "float"
  | MIntervalInt (a, b) -> "int:" ^ hex_of_z a ^ ":" ^ hex_of_z b
  | MMuxMany -> "many"
  | MMuxSigned -> "signed"
  | MMuxBoth -> "both"
  | MMuxNoSwitch -> "nosw"
  | MMuxExceeds v -> "exceeds:" ^ hex_of_z v
  | MUndeclTransmitter n -> "tx:" ^ s_of_bytes n
  | MUndeclReceiver n -> "rx:" ^ s_of_bytes n
  | MUndeclAccess n -> "acc:" ^ s_of_bytes n
  | _ -> "-"

(* kind of an implementation message text; None = unknown wording (wildcard) *)
let classify (pass : string) (text : string) : string option =
  match pass with
  | "intervals" ->
      let p = "invalid interval: [" in
      if starts_with p text && String.length text > String.length p && text.[String.length text - 1] = ']' then begin
        let inner = String.sub text (String.length p) (String.length text - String.length p - 1) in
        match Str.bounded_split (Str.regexp_string ", ") inner 2 with
        | [ a; b ] -> (
            match (z_of_dec a, z_of_dec b) with
            | Some x, Some y -> Some ("int:" ^ hex_of_z x ^ ":" ^ hex_of_z y)
            | _ -> Some "float")
        | _ -> None
      end
      else None
  | "multiplexedsignals" -> (
      match text with
      | "more than one multiplexer switch" -> Some "many"
      | "signed multiplexer switch" -> Some "signed"
      | "can't be multiplexer and multiplexed" -> Some "both"
      | "no multiplexer switch for multiplexed signal" -> Some "nosw"
      | _ ->
          let p = "multiplexer switch exceeds max value: " in
          if starts_with p text then match z_of_dec (after p text) with Some v -> Some ("exceeds:" ^ hex_of_z v) | None -> None
          else None)
  | "nodereferences" ->
      let t = "undeclared transmitter node: " and r = "undeclared receiver node: " and a = "undeclared access node: " in
      if starts_with t text then Some ("tx:s:" ^ hex_of_string (after t text))
      else if starts_with r text then Some ("rx:s:" ^ hex_of_string (after r text))
      else if starts_with a text then Some ("acc:s:" ^ hex_of_string (after a text))
      else None
  | _ -> Some "-"

let string_of_hex (h : string) : string =
  String.init (String.length h / 2) (fun i -> Char.chr ((hexval h.[2 * i] * 16) + hexval h.[(2 * i) + 1]))

let unhex (h : string) : string = if h = "-" then "" else string_of_hex h

(* ---- current block *)
let cur_n = ref "" and cur_cat = ref "" and cur_text = ref ""
let parse_ok = ref false
let dump : string list ref = ref []
let data : z list ref = ref []
let diag_lines : string list list ref = ref []
let pure = ref "-" and order = ref "-"
let reuse : (string * string) option ref = ref None   (* passes that differ, texts of the window *)
let parse_err : (position * string) option ref = ref None

(* ---- cantool lint *)
type cli_obs = { c_exit : string; c_out : string; c_err : string }
let cli_single : (string * cli_obs) option ref = ref None       (* path, observation *)
let cli_batch : (string * string) option ref = ref None         (* batch id, path *)

type expectation = { e_where : string; e_n : string; e_text : string; e_out : string; e_exit : string; e_nontrivial : bool }
let batch_members : (string, expectation list) Hashtbl.t = Hashtbl.create 16   (* in reverse order *)
let batch_obs : (string, cli_obs) Hashtbl.t = Hashtbl.create 16
let batch_reruns : (string, (string * cli_obs) list) Hashtbl.t = Hashtbl.create 16

let n_text_wild = ref 0

(* MISMATCH / PFAIL (real, parser-produced files: a concrete failing input) and DISAGREE (synthetic files
   only) have separate print budgets, so that disagreements on synthetic files can never crowd out a
   concrete replay. *)
let n_real_printed = ref 0 and n_dis_printed = ref 0

let mismatch obs expected =
  incr n_mismatch;
  if !n_real_printed < 50 then begin incr n_real_printed; Printf.printf "MISMATCH %s || model=%s\n" obs expected end

let report synthetic obs expected =
  if synthetic then begin
    incr n_mismatch;
    if !n_dis_printed < 10 then begin incr n_dis_printed; Printf.printf "DISAGREE %s || model=%s\n" obs expected end
  end
  else mismatch obs expected

let pfail obs clause =
  incr n_mismatch;
  if !n_real_printed < 50 then begin incr n_real_printed; Printf.printf "PFAIL %s || clause=%s\n" obs clause end

let render_model (ds : diagnostic list) : string =
  Printf.sprintf "ok %x%s" (List.length ds)
    (String.concat "" (List.map (fun d -> Printf.sprintf " %s:%s:%s" (hex_of_z d.dg_pos.p_line) (hex_of_z d.dg_pos.p_column) (kind_of_msg d.dg_msg)) ds))

let cat_prefix c = match String.index_opt c ':' with Some i -> String.sub c 0 i | None -> c

(* ---- rendering of the model's output items as the bytes cantool writes to standard output *)
let string_of_bytes (b : z list) : string =
  let buf = Buffer.create 64 in
  List.iter (fun x -> Buffer.add_char buf (Char.chr (int_of_z x land 255))) b;
  Buffer.contents buf

let bytes_of_string (s : string) : z list = List.init (String.length s) (fun i -> z_of_int (Char.code s.[i]))

let pkg_of_analyzer (a : analyzer) : string = fst (List.find (fun (_, a') -> a' = a) passes)

(* text/scanner.Position.String() *)
let position_string (name : z list) (p : position) : string =
  let n = if name = [] then "<input>" else string_of_bytes name in
  if int_of_z p.p_line > 0 then Printf.sprintf "%s:%d:%d" n (int_of_z p.p_line) (int_of_z p.p_column) else n

(* [texts pass] = the message texts of the in-process run of that pass, in order; [parse_text] the
   parser's reason *)
let render_items (texts : string -> string list) (parse_text : string) (items : out_item list) : string =
  let buf = Buffer.create 1024 in
  let counters : (string, int) Hashtbl.t = Hashtbl.create 8 in
  List.iter
    (fun it ->
      match it with
      | OHeader (name, pos, pass, _m) ->
          let text =
            match pass with
            | PParse -> parse_text
            | PAnalyzer a ->
                let pkg = pkg_of_analyzer a in
                let k = try Hashtbl.find counters pkg with Not_found -> 0 in
                Hashtbl.replace counters pkg (k + 1);
                (match List.nth_opt (texts pkg) k with Some t -> t | None -> "<no such diagnostic in the in-process run>")
          in
          Buffer.add_string buf
            (Printf.sprintf "\n%s: %s (%s)\n" (position_string name pos) text (string_of_bytes (pass_name pass)))
      | OSourceLine l -> Buffer.add_string buf (string_of_bytes l); Buffer.add_char buf '\n'
      | OCaret n -> Buffer.add_string buf (String.make (max 0 (int_of_z n)) ' '); Buffer.add_string buf "^\n")
    items;
  Buffer.contents buf

let exit_of_status = function ExitOk -> "0" | ExitLintErrors -> "1" | Crash -> "2"

let contains (hay : string) (needle : string) : bool =
  try ignore (Str.search_forward (Str.regexp_string needle) hay 0); true with Not_found -> false

let clip n s = if String.length s > n then String.sub s 0 n ^ "..." else s

(* what is wrong with standard error, given the exit status (None = fine) *)
let stderr_problem (exit : string) (err : string) : string option =
  if exit = "0" then (if err = "" then None else Some "exit status 0 but standard error is not empty")
  else if exit = "1" then
    if contains err "panic" || contains err "goroutine " then Some "exit status 1 with a panic trace"
    else if contains err "one or more lint errors" then None
    else Some "exit status 1 without \"one or more lint errors\""
  else None

let cli_obs_string (e : expectation) (o : cli_obs) =
  Printf.sprintf "%s cantool_lint exit=%s stdout=%s stderr=%s text=%s" e.e_where o.c_exit (hex_of_string o.c_out)
    (hex_of_string (clip 400 o.c_err)) e.e_text

let cli_model_string exit out = Printf.sprintf "exit=%s stdout=%s" exit (hex_of_string out)

(* one file linted by one invocation *)
let compare_single (e : expectation) (o : cli_obs) =
  note_case ~nontrivial:e.e_nontrivial "cli" (Printf.sprintf "%s cantool_lint exit=%s stdout=%s" e.e_where o.c_exit (hex_of_string o.c_out));
  if o.c_exit <> e.e_exit || o.c_out <> e.e_out then mismatch (cli_obs_string e o) (cli_model_string e.e_exit e.e_out)
  else
    match stderr_problem o.c_exit o.c_err with
    | Some why -> pfail (cli_obs_string e o) ("cantool lint: " ^ why)
    | None -> ()

let is_prefix_at (hay : string) (pos : int) (p : string) : bool =
  String.length hay - pos >= String.length p && String.sub hay pos (String.length p) = p

(* a directory of files linted by one invocation: the output is the concatenation of the members' outputs (in
   the lexical order of the file names = the order of the members), the exit status is 1 iff some member's is *)
let finish_batch (id : string) =
  let members = List.rev (try Hashtbl.find batch_members id with Not_found -> []) in
  let reruns = List.rev (try Hashtbl.find batch_reruns id with Not_found -> []) in
  (match Hashtbl.find_opt batch_obs id with
  | None -> failwith ("BATCHEND without BATCH " ^ id)
  | Some o ->
      if reruns <> [] then begin
        (* the batch run ended abnormally: the harness ran every member alone *)
        let before = !n_mismatch in
        List.iter
          (fun e -> match List.assoc_opt e.e_n reruns with Some r -> compare_single e r | None -> failwith "member without rerun")
          members;
        if !n_mismatch = before then
          match members with
          | e :: _ ->
              pfail (cli_obs_string { e with e_where = e.e_where ^ " (whole batch of " ^ string_of_int (List.length members) ^ " files)" } o)
                "cantool lint terminates without panic on a directory of files each of which it lints without panic"
          | [] -> ()
      end
      else begin
        let pos = ref 0 and culprit = ref false in
        List.iter
          (fun e ->
            if not !culprit then
              if is_prefix_at o.c_out !pos e.e_out then begin
                note_case ~nontrivial:e.e_nontrivial "cli" (Printf.sprintf "%s cantool_lint(batch) stdout=%s" e.e_where (hex_of_string e.e_out));
                pos := !pos + String.length e.e_out
              end
              else begin
                culprit := true;
                let rest = String.sub o.c_out !pos (String.length o.c_out - !pos) in
                let rec upto = function
                  | [] -> []
                  | m :: tl -> (if m.e_text = "" then "-" else m.e_text) :: (if m.e_n = e.e_n then [] else upto tl)
                in
                mismatch
                  (cli_obs_string e { o with c_out = clip (String.length e.e_out + 300) rest }
                  ^ " batchtexts=" ^ String.concat "," (upto members))
                  (cli_model_string e.e_exit e.e_out ^ " (member of a directory batch: output expected at byte "
                 ^ string_of_int !pos ^ " of the batch output)")
              end)
          members;
        if not !culprit then begin
          let want = if List.exists (fun e -> e.e_exit = "1") members then "1" else "0" in
          let blame pred why =
            match (List.filter pred members, members) with
            | e :: _, _ | [], e :: _ -> pfail (cli_obs_string e { o with c_out = clip 300 o.c_out }) why
            | [], [] -> ()
          in
          if !pos <> String.length o.c_out then
            blame (fun _ -> false) "cantool lint on a directory prints nothing but the blocks of its *.dbc files"
          else if o.c_exit <> want then
            blame (fun e -> e.e_exit = "1")
              ("cantool lint on a directory exits with status 1 iff some file has a diagnostic (expected " ^ want ^ ")")
          else
            match stderr_problem o.c_exit o.c_err with
            | Some why -> blame (fun _ -> false) ("cantool lint: " ^ why)
            | None -> ()
        end
      end);
  Hashtbl.remove batch_members id; Hashtbl.remove batch_obs id; Hashtbl.remove batch_reruns id

(* expectation for the current file linted under [path] *)
let cli_expectation (where : string) (path : string) (parse : parse_result) (parse_text : string)
    (texts : string -> string list) : expectation =
  let input = { li_name = bytes_of_string path; li_source = data_of_hex !cur_text; li_parse = parse } in
  let items, status = cantool_lint_output ud uu [ input ] in
  (* cross-check of the extracted model with the extracted declarative description (equality is a theorem
     for printable positions); on small files only: the specification reverses lists with the quadratic List.rev *)
  if status <> Crash && String.length !cur_text <= 3000 then begin
    let spec_items = file_blocks ud input in
    let spec_status = if file_reports ud input then ExitLintErrors else ExitOk in
    if items <> spec_items || status <> spec_status then
      pfail (Printf.sprintf "%s text=%s" where !cur_text) "internal: extracted cantool model and its extracted specification differ"
  end;
  if status = Crash then
    pfail (Printf.sprintf "%s text=%s" where !cur_text)
      "cantool lint terminates without panic (the model crashes: a position to print lies outside the text, or an analyzer panics)";
  { e_where = where; e_n = !cur_n; e_text = !cur_text; e_out = render_items texts parse_text items;
    e_exit = exit_of_status status; e_nontrivial = items <> [] }

let handle_cli (where : string) (parse : parse_result) (parse_text : string) (texts : string -> string list) =
  (match !cli_single with
  | Some (path, o) -> compare_single (cli_expectation where path parse parse_text texts) o
  | None -> ());
  match !cli_batch with
  | Some (id, path) ->
      let e = cli_expectation where path parse parse_text texts in
      Hashtbl.replace batch_members id (e :: (try Hashtbl.find batch_members id with Not_found -> []))
  | None -> ()

let finish_block () =
  let synthetic = !cur_cat = "synthetic" in
  let where = Printf.sprintf "file=%s cat=%s" !cur_n !cur_cat in
  if not !parse_ok then begin
    note_case ~nontrivial:false "parsefail" where;
    match !parse_err with
    | Some (pos, reason) -> handle_cli where (ParseError pos) reason (fun _ -> [])
    | None -> if !cli_single <> None || !cli_batch <> None then failwith "CLI line without the parse error position"
  end
  else begin
    let defs = defs_of_lines (List.rev !dump) in
    let f = { f_data = !data; f_defs = defs } in
    let texts_tbl : (string, string list) Hashtbl.t = Hashtbl.create 20 in
    let model_counts : (string * int) list ref = ref [] in
    List.iter
      (fun toks ->
        match toks with
        | pass :: outcome :: _count :: items ->
            let a = try List.assoc pass passes with Not_found -> failwith ("unknown pass " ^ pass) in
            let impl =
              List.map
                (fun it ->
                  match String.split_on_char ':' it with
                  | [ l; c; t ] -> (l, c, classify pass (string_of_hex t))
                  | _ -> failwith ("bad diagnostic item " ^ it))
                items
            in
            Hashtbl.replace texts_tbl pass
              (List.map (fun it -> match String.split_on_char ':' it with [ _; _; t ] -> string_of_hex t | _ -> "") items);
            let impl_str =
              outcome ^ " "
              ^ String.concat " " (List.map (fun (l, c, k) -> Printf.sprintf "%s:%s:%s" l c (match k with Some k -> k | None -> "?")) impl)
            in
            let obs = Printf.sprintf "%s pass=%s impl=%s text=%s" where pass impl_str !cur_text in
            let model = run ud uu a f in
            let spec = spec_diagnostics ud a f in
            (match model with
            | Ok ds ->
                note_case ~nontrivial:(ds <> []) pass (Printf.sprintf "%s pass=%s impl=%s" where pass impl_str);
                if ds <> spec then pfail obs "internal: extracted model and extracted specification differ";
                if pass <> "boolprefix" then model_counts := (pass, List.length ds) :: !model_counts;
                if outcome <> "ok" then pfail obs ("analyzer terminates without error or panic (got " ^ outcome ^ ")")
                else begin
                  let same =
                    List.length ds = List.length impl
                    && List.for_all2
                         (fun d (l, c, k) ->
                           hex_of_z d.dg_pos.p_line = l
                           && hex_of_z d.dg_pos.p_column = c
                           && match k with None -> incr n_text_wild; true | Some k -> k = kind_of_msg d.dg_msg)
                         ds impl
                  in
                  if not same then report synthetic obs (render_model ds)
                end
            | Panic ->
                note_case pass obs;
                if outcome <> "panic" then report synthetic obs "panic")
        | _ -> failwith "bad DIAG line")
      (List.rev !diag_lines);
    note_case ~nontrivial:(defs <> []) ("file:" ^ cat_prefix !cur_cat) where;
    if !pure <> "-" then
      pfail (Printf.sprintf "%s modified_by=%s text=%s" where !pure !cur_text) "analyzers do not modify the file";
    if !order <> "-" then
      pfail (Printf.sprintf "%s differs=%s text=%s" where !order !cur_text) "diagnostics do not depend on the order in which the passes run";
    (match !reuse with
    | None -> ()
    | Some ("-", _) -> note_case ~nontrivial:(defs <> []) "reuse" where
    | Some (x, texts) ->
        note_case "reuse" where;
        pfail (Printf.sprintf "%s reused_analyzer_differs=%s text=%s batchtexts=%s" where x !cur_text texts)
          "an analyzer value obtained once from Analyzer() and run over several files in sequence (and twice over the same file) reports for each file what a fresh one reports: nothing is kept between runs");
    if (!cli_single <> None || !cli_batch <> None) && hex_of_data !data <> !cur_text then
      pfail (Printf.sprintf "%s text=%s" where !cur_text) "File.Data of the parsed file is the text that was parsed";
    (* the generator's promises about its boundary files, confirmed with the model (kinds cli-only:<analyzer>,
       cli-count:<n>; a broken promise is counted under generator-miss and reported by checks/lint.py) *)
    let only_p = "boundary:only:" and count_p = "boundary:count:" in
    if starts_with only_p !cur_cat then begin
      match List.filter (fun (_, n) -> n > 0) !model_counts with
      | [ (p, _) ] when p = after only_p !cur_cat -> note_case ("cli-only:" ^ p) where
      | _ -> note_case ~nontrivial:false "generator-miss" where
    end;
    if starts_with count_p !cur_cat then begin
      let total = List.fold_left (fun acc (_, n) -> acc + n) 0 !model_counts in
      if Printf.sprintf "%x" total = after count_p !cur_cat then note_case (Printf.sprintf "cli-count:%d" total) where
      else note_case ~nontrivial:false "generator-miss" where
    end;
    handle_cli where (Parsed defs) "" (fun pass -> try Hashtbl.find texts_tbl pass with Not_found -> [])
  end

let bytes_of_tok = bytes_of_s
let hexlist (l : z list) = String.concat " " (List.map hex_of_z l)
let b01 b = if b then "1" else "0"

let handle line =
  match split_ws line with
  | "FILE" :: n :: cat :: rest ->
      cur_n := n; cur_cat := cat; cur_text := (match rest with [ t ] -> t | _ -> "");
      parse_ok := false; dump := []; data := []; diag_lines := []; pure := "-"; order := "-";
      parse_err := None; cli_single := None; cli_batch := None; reuse := None
  | [ "PARSE"; "ok" ] -> parse_ok := true
  | [ "PARSE"; "err"; pos; reason ] -> parse_ok := false; parse_err := Some (pos_of pos, string_of_s reason)
  | ("DEF" | "SIG") :: _ -> dump := line :: !dump
  | "DATA" :: rest -> data := (match rest with [ h ] -> data_of_hex h | _ -> [])
  | "DIAG" :: toks -> diag_lines := toks :: !diag_lines
  | [ "PURE"; x ] -> pure := x
  | [ "ORDER"; x ] -> order := x
  | [ "REUSE"; "-" ] -> reuse := Some ("-", "")
  | [ "REUSE"; x; texts ] -> reuse := Some (x, texts)
  | [ "CLI1"; path; exit; out; err ] -> cli_single := Some (unhex path, { c_exit = exit; c_out = unhex out; c_err = unhex err })
  | [ "CLIB"; id; path ] -> cli_batch := Some (id, unhex path)
  | [ "BATCH"; id; exit; out; err ] -> Hashtbl.replace batch_obs id { c_exit = exit; c_out = unhex out; c_err = unhex err }
  | [ "CLIR"; id; n; exit; out; err ] ->
      Hashtbl.replace batch_reruns id
        ((n, { c_exit = exit; c_out = unhex out; c_err = unhex err }) :: (try Hashtbl.find batch_reruns id with Not_found -> []))
  | [ "BATCHEND"; id ] -> finish_batch id
  | [ "END" ] -> finish_block ()
  | "UNI" :: which :: rs ->
      let tbl = if which = "digit" then digit_tbl else upper_tbl in
      List.iter (fun r -> Hashtbl.replace tbl (int_of_string ("0x" ^ r)) ()) rs
  | "UNIASCII" :: which :: rs ->
      note_case "oracle-unicode" line;
      let expect =
        if which = "digit" then List.init 10 (fun i -> Printf.sprintf "%x" (48 + i)) else List.init 26 (fun i -> Printf.sprintf "%x" (65 + i))
      in
      if rs <> expect then mismatch line "ASCII digits are 0-9 and ASCII upper-case letters are A-Z"
  | "RUNES" :: s :: rs ->
      note_case "oracle-runes" line;
      let m = hexlist (utf8_runes (bytes_of_tok s)) in
      if m <> String.concat " " rs then mismatch line m
  | [ "CC"; s; r ] ->
      note_case "oracle-camelcase" line;
      let m = b01 (is_camel_case ud uu (bytes_of_tok s)) in
      if m <> r then mismatch line m;
      if b01 (camel_case ud (bytes_of_tok s)) <> r then mismatch line ("spec camel_case=" ^ b01 (camel_case ud (bytes_of_tok s)))
  | [ "FGT"; a; b; r ] ->
      note_case "oracle-float-gt" line;
      let m = b01 (f64_gt (z_of_hex a) (z_of_hex b)) in
      if m <> r then mismatch line m
  | [ "F2I"; a; i; l ] ->
      note_case "oracle-float-to-int64" line;
      let v = f64_to_int64 (z_of_hex a) in
      let m = i64hex_of_z v ^ " " ^ hex_of_z (decimal_len v) in
      if m <> i ^ " " ^ l then mismatch line m
  | [ "PFX"; p; s; r1; r2 ] ->
      note_case "oracle-prefix-suffix" line;
      let m = b01 (has_prefix (bytes_of_tok p) (bytes_of_tok s)) ^ " " ^ b01 (has_suffix (bytes_of_tok p) (bytes_of_tok s)) in
      if m <> r1 ^ " " ^ r2 then mismatch line m
  | _ -> failwith ("unexpected line: " ^ (if String.length line > 80 then String.sub line 0 80 else line))

let () = iter_lines handle
