(* Model driver for the descriptor family (C08, C09): reads the implementation's observations
   (harness/descriptor/main.go), recomputes each with the extracted Coq model
   (Descriptor/Signal.v, Descriptor/Physical.v) and, for the relational property C09, evaluates
   the extracted clause predicates on the IMPLEMENTATION's outputs.
     MISMATCH : C08, the specification is a total function (model = spec is a theorem)
     PFAIL    : C09, a clause predicate is false on what the implementation returned
     DISAGREE : C09, implementation differs from the model but every clause holds *)
open Model
open Common

let zi = z_of_int
let b01 b = if b then "1" else "0"
let ios = int_of_string

let geom be s l sg = mk_signal (zi (ios s)) (zi (ios l)) (be = "1") (sg = "1")
let fbits h = f64_of_bits (z_of_hex h)
let fhex x = hex_of_z (bits_of_f64 x)

let n_pfail = ref 0
let n_disagree = ref 0
let n_class = ref 0
let n_one_low = ref 0
let n_over_one_step = ref 0
let n_clause_evals = ref 0

let pfail line clause model =
  incr n_pfail;
  if !n_pfail <= 50 then Printf.printf "PFAIL %s || clause=%s model=%s\n" line clause model

(* the property's own physical round-trip clause (error < 1 step): refuted for the unchanged code
   (Properties/C09.v: C09_roundtrip_physical_refuted); clause and ratio are part of the observation
   text so that the check can match the known finding *)
let n_one_step_printed = ref 0
let max_ratio = ref 0.0
let float_of_hexbits h = Int64.float_of_bits (Int64.of_string ("0x" ^ h))

let pfail_one_step line ratio model =
  incr n_over_one_step;
  if ratio > !max_ratio then max_ratio := ratio;
  incr n_one_step_printed;
  if !n_one_step_printed <= 50 then
    Printf.printf "PFAIL %s clause=roundtrip-physical-one-step ratio=%.17g || clause=roundtrip-physical-one-step ratio=%.17g model=%s\n"
      line ratio ratio model

let disagree line model =
  incr n_disagree;
  if !n_disagree <= 50 then Printf.printf "DISAGREE %s || model=%s\n" line model

(* C08: equality with the model *)
let expect kind ?(nontrivial = true) line got model =
  note_case ~nontrivial kind line;
  if got <> model then mismatch line model

(* float32 NaN pattern inside a payload -> canonical quiet NaN (NaN payloads are not modelled) *)
let canon_nan32 s d =
  let u = unmarshal_unsigned s d in
  let u32 = Z.modulo u (z_of_hex "100000000") in
  let f = f32_of_bits u32 in
  let is_nan32 = match f with B754_nan -> true | _ -> false in
  if is_nan32 then marshal_unsigned s d (Z.add (Z.sub u u32) (z_of_hex "7fc00000")) else d

let parse_vds vds =
  if vds = "-" then []
  else
    List.map
      (fun part ->
        match String.split_on_char ':' part with
        | [ v; t ] -> { vdesc_value = z_of_i64hex v; vdesc_text = data_of_hex t }
        | _ -> failwith "bad value description")
      (String.split_on_char ',' vds)

(* C09 signal: l sg scale offset min max *)
let psig l sg sc o mn mx =
  let s = mk_signal Z0 (zi (ios l)) false (sg = "1") in
  { s with s_scale = z_of_hex sc; s_offset = z_of_hex o; s_min = z_of_hex mn; s_max = z_of_hex mx }

let raw_of s h = if s.s_signed then z_of_i64hex h else z_of_hex h
let raw_hex s z = if s.s_signed then i64hex_of_z z else hex_of_z z
let in_class s = c09_class_f (sc s) (off s) (smin s) (smax s)
let not_nan x = not (is_nan (zi 53) (zi 1024) x)
let same_value a b = (is_nan (zi 53) (zi 1024) a && is_nan (zi 53) (zi 1024) b) || beqb (zi 53) (zi 1024) a b

(* verdict for a C09 observation: [agree] = implementation output equals the model's,
   [clauses] = (name, holds) evaluated on the implementation's output *)
let verdict line ~agree ~model clauses =
  List.iter (fun _ -> incr n_clause_evals) clauses;
  match List.filter (fun (_, ok) -> not ok) clauses with
  | (c, _) :: _ -> pfail line c model
  | [] -> if not agree then disagree line model

let handle line =
  match split_ws line with
  | [ "UU"; be; s; l; d; r ] ->
      let m = hex_of_z (unmarshal_unsigned (geom be s l "0") (data_of_hex d)) in
      expect "UU" ~nontrivial:(m <> "0") line r m
  | [ "US"; be; s; l; d; r ] ->
      let m = i64hex_of_z (unmarshal_signed (geom be s l "1") (data_of_hex d)) in
      expect "US" ~nontrivial:(m <> "0") line r m
  | [ "UB"; s; d; r ] ->
      let m = b01 (unmarshal_bool (geom "0" s "1" "0") (data_of_hex d)) in
      expect "UB" ~nontrivial:(m <> "0") line r m
  | [ "UF"; be; s; l; d; r ] ->
      let m = fhex (unmarshal_float (geom be s l "0") (data_of_hex d)) in
      expect "UF" ~nontrivial:(m <> "0") line r m
  | [ "MU"; be; s; l; d; v; r ] ->
      let m = hex_of_data (marshal_unsigned (geom be s l "0") (data_of_hex d) (z_of_hex v)) in
      expect "MU" ~nontrivial:(m <> d) line r m
  | [ "MS"; be; s; l; d; v; r ] ->
      let m = hex_of_data (marshal_signed (geom be s l "1") (data_of_hex d) (z_of_i64hex v)) in
      expect "MS" ~nontrivial:(m <> d) line r m
  | [ "MB"; s; d; b; r ] ->
      let m = hex_of_data (marshal_bool (geom "0" s "1" "0") (data_of_hex d) (b = "1")) in
      expect "MB" ~nontrivial:(m <> d) line r m
  | [ "MF"; be; s; l; d; v; r ] ->
      let sg = geom be s l "0" in
      let m = hex_of_data (marshal_float sg (data_of_hex d) (fbits v)) in
      let r' = hex_of_data (canon_nan32 sg (data_of_hex r)) in
      expect "MF" ~nontrivial:(m <> d) line r' m
  | [ "BD"; l; mu; mn; mx ] ->
      let l = zi (ios l) in
      let m = Printf.sprintf "%s %s %s" (hex_of_z (max_unsigned_l l)) (i64hex_of_z (min_signed_l l)) (i64hex_of_z (max_signed_l l)) in
      expect "BD" line (Printf.sprintf "%s %s %s" mu mn mx) m
  | [ "SS"; l; v; r ] ->
      let m = i64hex_of_z (saturated_cast_signed_l (zi (ios l)) (z_of_i64hex v)) in
      expect "SS" ~nontrivial:(m <> v) line r m
  | [ "SU"; l; v; r ] ->
      let m = hex_of_z (saturated_cast_unsigned_l (zi (ios l)) (z_of_hex v)) in
      expect "SU" ~nontrivial:(m <> v) line r m
  | [ "SF"; v; r ] ->
      let m = fhex (saturated_cast_float (fbits v)) in
      expect "SF" ~nontrivial:(m <> v) line r m
  | [ "VD"; be; s; l; sg; d; vds; r ] ->
      let sg = { (geom be s l sg) with s_value_descriptions = parse_vds vds } in
      let m = match unmarshal_value_description sg (data_of_hex d) with None -> "-" | Some t -> "+" ^ hex_of_data t in
      expect "VD" ~nontrivial:(m <> "-") line r m
  | [ "TP"; l; sg; sc_; o; mn; mx; raw; res; back ] ->
      let s = psig l sg sc_ o mn mx in
      let r = raw_of s raw in
      let res_m = getter_physical s r in
      let fp_m = from_physical s res_m in
      let back_m = if not_nan fp_m then raw_hex s (btrunc (zi 53) (zi 1024) fp_m) else "x" in
      let model = fhex res_m ^ " " ^ back_m in
      note_case ~nontrivial:(res <> "0") "TP" line;
      let res_i = fbits res in
      let cls = in_class s in
      if cls then incr n_class;
      let clauses =
        if not cls then []
        else
          [ ("clamp", clamp_ok_f (sc s) (off s) (smin s) (smax s) (f64_of_Z r) res_i) ]
          @ (if back = "x" then [ ("encodable", false) ]
             else
               let b = raw_of s back in
               [ ("encodable", (ios l > 52) || raw_in_range s.s_signed s.s_length b);
                 ("roundtrip-raw", rt_raw_ok_f (sc s) (off s) (smin s) (smax s) s.s_signed s.s_length r b) ])
      in
      if l = "16" && sg = "0" && sc_ = "3fb999999999999a" && o = "0" && mn = "0" && mx = "0" && back <> "x"
         && Z.eqb (raw_of s back) (Z.sub r (zi 1))
      then incr n_one_low;
      verdict line ~agree:(res ^ " " ^ back = model) ~model clauses
  | [ "FP"; l; sg; sc_; o; mn; mx; p; res; t; back ] ->
      let s = psig l sg sc_ o mn mx in
      let pf = fbits p in
      let res_m = from_physical s pf in
      let t_m, back_m =
        if not_nan res_m then
          let tz = btrunc (zi 53) (zi 1024) res_m in
          (raw_hex s tz, fhex (getter_physical s tz))
        else ("x", "x")
      in
      let model = fhex res_m ^ " " ^ t_m ^ " " ^ back_m in
      note_case ~nontrivial:(res <> "0" && res <> "8000000000000000") "FP" line;
      let res_i = fbits res in
      let cls = in_class s && not_nan pf in
      if cls then incr n_class;
      let one_step = ref true and ratio = ref 0.0 in
      let clauses =
        if not cls then []
        else if t = "x" || back = "x" then [ ("saturation", false) ]
        else begin
          let ti = raw_of s t in
          let bi = fbits back in
          one_step :=
            rt_phys_ok_f (zi 1) (sc s) (off s) (smin s) (smax s) s.s_signed s.s_length pf bi;
          if not !one_step then
            ratio := abs_float (float_of_hexbits back -. float_of_hexbits p) /. abs_float (float_of_hexbits sc_);
          [ ("saturation", (ios l > 52) || sat_ok_f s.s_signed s.s_length res_i ti);
            ("roundtrip-physical-two-steps",
             rt_phys_ok_f (zi 2) (sc s) (off s) (smin s) (smax s) s.s_signed s.s_length pf bi);
            ("rule", same_value res_i res_m) ]
        end
      in
      if List.for_all snd clauses && not !one_step then begin
        List.iter (fun _ -> incr n_clause_evals) clauses;
        incr n_clause_evals;
        pfail_one_step line !ratio model
      end
      else verdict line ~agree:(res ^ " " ^ t ^ " " ^ back = model) ~model clauses
  | [ "MO"; l; sg; sc_; o; mn; mx; p; q; rp; rq ] ->
      let s = psig l sg sc_ o mn mx in
      let pf = fbits p and qf = fbits q in
      let model = fhex (from_physical s pf) ^ " " ^ fhex (from_physical s qf) in
      note_case ~nontrivial:(rp <> rq) "MO" line;
      let cls = in_class s && not_nan pf && not_nan qf && ios l <= 52 in
      if cls then incr n_class;
      let clauses = if cls then [ ("monotone", mono_ok_f (sc s) (fbits rp) (fbits rq)) ] else [] in
      verdict line ~agree:(rp ^ " " ^ rq = model) ~model clauses
  | [ "UP"; l; sg; sc_; o; mn; mx; be; st; d; res ] ->
      let s0 = psig l sg sc_ o mn mx in
      let s = { s0 with s_start = zi (ios st); s_big_endian = (be = "1") } in
      let res_m = unmarshal_physical s (data_of_hex d) in
      note_case ~nontrivial:(res <> "0") "UP" line;
      let cls = in_class s in
      if cls then incr n_class;
      let clauses = if cls then [ ("rule", same_value (fbits res) res_m) ] else [] in
      verdict line ~agree:(res = fhex res_m) ~model:(fhex res_m) clauses
  | [ "FPW"; l; sg; sc_; o; mn; mx; p; res ] ->
      let s = psig l sg sc_ o mn mx in
      let m = fhex (from_physical s (fbits p)) in
      note_case "FPW" line;
      verdict line ~agree:(res = m) ~model:m []
  | _ -> failwith ("unparsable line: " ^ line)

let () =
  (try
     while true do
       let l = input_line stdin in
       if l <> "" then handle l
     done
   with End_of_file -> ());
  let ks = Hashtbl.fold (fun k v acc -> Printf.sprintf "\"%s\":%d" (json_escape k) v :: acc) kinds [] in
  let ss = List.map (fun s -> "\"" ^ json_escape s ^ "\"") (List.rev !samples) in
  Printf.printf
    "STATS {\"cases\":%d,\"mismatches\":%d,\"distinct_nontrivial\":%d,\"kinds\":{%s},\"samples\":[%s],\"pfail\":%d,\"disagree\":%d,\"in_property_class\":%d,\"clause_evaluations\":%d,\"raw_one_step_low_0p1_u16\":%d,\"physical_roundtrip_over_one_step\":%d,\"physical_roundtrip_max_ratio\":%.17g}\n"
    !n_cases (!n_mismatch + !n_pfail + !n_disagree) !n_nontrivial
    (String.concat "," (List.sort compare ks))
    (String.concat "," ss) !n_pfail !n_disagree !n_class !n_clause_evals !n_one_low !n_over_one_step !max_ratio
