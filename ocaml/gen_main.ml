(* deps: gendb.ml genwire.ml *)
(* Model driver for generated message types (C03, C10): replays every history the generic runner
   (harness/genrun) executed on the generated Go types through the descriptor interpreter
   extracted from Coq (Gen/Message.v, Gen/History.v), over the database each program DENOTES
   (argv[1]/<pkg>.db written by checks/genprogs.py). *)
open Model
open Common
open Gendb

let dbdir = Sys.argv.(1)
let dbs : (string, database) Hashtbl.t = Hashtbl.create 16
let n_msgs_in_class = ref 0
let n_msgs_out_class = ref 0
let out_of_class : string list ref = ref []
let db_of pkg = match Hashtbl.find_opt dbs pkg with Some d -> d | None ->
  let d = load_database dbdir pkg in
  Hashtbl.replace dbs pkg d;
  (* are the hypotheses of the C03/C10 theorems (Gen/ClassCheck.v in_theorem_class, proved sound) true of
     every message of this program? *)
  List.iter (fun m ->
      if in_theorem_class m then incr n_msgs_in_class
      else begin incr n_msgs_out_class; out_of_class := (pkg ^ "." ^ string_of_bytes m.msg_name) :: !out_of_class end) d.db_messages;
  d

let two32 = z_of_hex "100000000"

(* field value from its text, given the signal's field type *)
let field_of_text (s : signal) (t : string) : z =
  match signal_prim_type s with
  | PInt _ -> z_of_i64hex t
  | _ -> z_of_hex t

let text_of_field (s : signal) (v : z) : string =
  match signal_prim_type s with
  | PInt _ -> i64hex_of_z v
  | _ -> hex_of_z v

let frame_of_toks id len ext rem data =
  { fr_id = z_of_hex id; fr_length = z_of_hex len; fr_data = data_of_hex data; fr_remote = (rem = "1"); fr_extended = (ext = "1") }

let state_text (m : message) (st : z list) : string =
  let f = frame_of m st in
  let vs = List.map2 text_of_field m.msg_signals st in
  Printf.sprintf "%s|%s,%s,%d,%d,%s|%d" (String.concat "," vs) (hex_of_z f.fr_id) (hex_of_z f.fr_length)
    (if f.fr_extended then 1 else 0) (if f.fr_remote then 1 else 0) (hex_of_data f.fr_data)
    (if frame_valid f then 1 else 0)

let parse_state (m : message) (txt : string) : z list * string =
  (* "v,v,..|frame|valid" -> field values, rest *)
  match String.split_on_char '|' txt with
  | [ vs; fr; valid ] ->
      let toks = if vs = "" then [] else String.split_on_char ',' vs in
      (List.map2 field_of_text m.msg_signals toks, fr ^ "|" ^ valid)
  | _ -> failwith ("bad state " ^ txt)

let n_ops = ref 0
let n_phys = ref 0
let n_phys_exact = ref 0
let opkinds : (string, int) Hashtbl.t = Hashtbl.create 16
let bump k = Hashtbl.replace opkinds k (1 + try Hashtbl.find opkinds k with Not_found -> 0)

let z_to_nat_int (i : int) = Z.to_nat (z_of_int i)

(* one history line *)
let handle_hist (line : string) =
  let parts = Str.split (Str.regexp " ; ") line in
  match parts with
  | hd :: steps -> (
      match split_ws hd with
      | [ "H"; pkg; mi ] ->
          let db = db_of pkg in
          let m = List.nth db.db_messages (int_of_string ("0x" ^ mi)) in
          let a = ref (reset_state m) and b = ref (reset_state m) in
          let bad = ref None in
          let nontrivial = ref false in
          List.iter (fun stp ->
              if !bad = None then begin
                match Str.split (Str.regexp " => ") stp with
                | [ opt; obs ] ->
                    incr n_ops;
                    let ot = split_ws opt in
                    let who, opname = match String.split_on_char ':' (List.hd ot) with [ w; o ] -> (w, o) | _ -> failwith "bad op" in
                    bump opname;
                    let this, other = if who = "A" then (a, b) else (b, a) in
                    let obs_t = split_ws obs in
                    let okflag, sa, sb = match obs_t with
                      | [ k; sa; sb ] -> (k = "K", String.sub sa 2 (String.length sa - 2), String.sub sb 2 (String.length sb - 2))
                      | _ -> failwith ("bad obs " ^ obs) in
                    let ok_model =
                      match opname, List.tl ot with
                      | "N", [] -> this := reset_state m; true
                      | "R", [] -> this := reset_state m; true
                      | "U", [ id; len; ext; rem; data ] ->
                          let ok, st = step m !this !other (OpUnmarshal (frame_of_toks id len ext rem data)) in
                          this := st; nontrivial := true; ok
                      | "SR", [ si; v ] ->
                          let i = int_of_string ("0x" ^ si) in
                          let s = List.nth m.msg_signals i in
                          this := raw_set m !this (z_to_nat_int i) (field_of_text s v);
                          nontrivial := true; true
                      | "SP", [ si; x ] ->
                          (* physical setter: T(FromPhysical(v)). For a signal of the supported class (integer,
                             2..52 bits, scaling in the class of C09, argument not NaN) the stored value is computed
                             exactly with the Flocq model (Gen/HistoryPhys.v phys_set_value). Outside that class the
                             observed value is adopted after checking it against the C10 range invariant. *)
                          incr n_phys;
                          let i = int_of_string ("0x" ^ si) in
                          let s = List.nth m.msg_signals i in
                          let xb = z_of_hex x in
                          let in_class = phys_okb s xb in
                          if in_class then begin
                            incr n_phys_exact;
                            this := phys_set m !this (z_to_nat_int i) xb
                          end else begin
                            let obs_state, _ = parse_state m (if who = "A" then sa else sb) in
                            let v = List.nth obs_state i in
                            if not (in_range s v) then
                              bad := Some (Printf.sprintf "PFAIL %s || clause=physical setter left raw value %s outside the raw range of signal %d" line (hex_of_z v) i);
                            this := List.mapi (fun j x -> if j = i then v else x) !this
                          end;
                          nontrivial := true;
                          true
                      | "C", [] -> this := copy_from m !this !other; nontrivial := true; true
                      | "CS", [] -> this := copy_from m !this !this; nontrivial := true; true
                      | _ -> failwith ("bad op " ^ opt)
                    in
                    if !bad = None then begin
                      let ea = state_text m !a and eb = state_text m !b in
                      if ok_model <> okflag || ea <> sa || eb <> sb then
                        bad := Some (Printf.sprintf "MISMATCH %s || model=at op [%s]: %s A=%s B=%s" line opt (if ok_model then "K" else "E") ea eb)
                      else if not (inv m.msg_signals !a && inv m.msg_signals !b) then
                        bad := Some (Printf.sprintf "PFAIL %s || clause=raw value outside representable range after [%s]" line opt)
                    end
                | [ "NOFRESH" ] -> bad := Some (Printf.sprintf "PFAIL %s || clause=dispatcher did not return a message for its own ID" line)
                | _ -> failwith ("bad step " ^ stp)
              end) steps;
          note_case ~nontrivial:!nontrivial "H" line;
          (match !bad with
           | Some msg -> incr n_mismatch; if !n_mismatch <= 20 then print_endline msg
           | None -> ())
      | _ -> failwith ("bad H head " ^ hd))
  | [] -> ()


let handle_dsp (line : string) =
  match Str.split (Str.regexp " => ") line with
  | [ lhs; rhs ] -> (
      match split_ws lhs with
      | [ "D"; pkg; id; len; ext; rem; data ] ->
          let db = db_of pkg in
          let f = frame_of_toks id len ext rem data in
          let expected =
            match dispatch db f with
            | None -> "E"
            | Some (_, Inl _) -> "E"
            | Some (m, Inr st) -> Printf.sprintf "%s %s" (string_of_bytes m.msg_name) (state_text m st)
          in
          note_case ~nontrivial:(expected <> "E") "D" line;
          if expected <> rhs then mismatch line expected
      | _ -> failwith ("bad D " ^ line))
  | _ -> failwith ("bad D " ^ line)

(* ---- generated-code stage of C09 (harness/genrun/phys_c09.go): physical accessors of the generated types and
   the descriptor wiring they use, against the Flocq model (Descriptor/Physical.v through Gen/HistoryPhys.v:
   phys_set = the generated Set<Signal>(float64), phys_get = the generated <Signal>() float64) *)
let s_of_bytes (b : z list) : string =
  "s:" ^ String.concat "" (List.map (fun c -> Printf.sprintf "%02x" (int_of_z c)) b)
let b01 b = if b then 1 else 0
let fhex x = hex_of_z (bits_of_f64 x)
let msg_sig pkg mi si =
  let db = db_of pkg in
  let m = List.nth db.db_messages (int_of_string ("0x" ^ mi)) in
  let i = int_of_string ("0x" ^ si) in
  (m, i, List.nth m.msg_signals i)
let phys_text m st i =
  match phys_get m st (z_to_nat_int i) with Some r -> fhex r | None -> "none"

(* at most 12 reported mismatches per kind of observation, so that every kind that disagrees is shown *)
let pm_shown : (string, int) Hashtbl.t = Hashtbl.create 8
let pmismatch (line : string) (expected : string) =
  incr n_mismatch;
  let k = String.sub line 0 2 in
  let c = try Hashtbl.find pm_shown k with Not_found -> 0 in
  Hashtbl.replace pm_shown k (c + 1);
  if c < 12 then Printf.printf "MISMATCH %s || model=%s\n" line expected

let handle_phys (line : string) =
  match Str.split (Str.regexp " => ") line with
  | [ lhs; rhs ] -> (
      match split_ws lhs with
      | [ "PW"; pkg; mi; si ] ->
          let expected =
            try
              let _, _, s = msg_sig pkg mi si in
              Printf.sprintf "1 1 %s %s %s %d %d %d %d %d %s %s %s %s %s" (s_of_bytes s.s_name) (hex_of_z s.s_start)
                (hex_of_z s.s_length) (b01 s.s_big_endian) (b01 s.s_signed) (b01 s.s_float) (b01 s.s_multiplexer)
                (b01 s.s_multiplexed) (hex_of_z s.s_mux_value) (hex_of_z s.s_offset) (hex_of_z s.s_scale)
                (hex_of_z s.s_min) (hex_of_z s.s_max)
            with Failure _ | Invalid_argument _ -> "no such signal in the denoted database" in
          note_case "PW" line;
          if expected <> rhs then pmismatch line expected
      | [ "PA"; pkg; mi; si ] ->
          (* which signals get physical accessors: hasPhysicalRepresentation as modelled for C11 (Gen/Api.v has_physical:
             multi-bit and (factor not in {0,1} or offset <> 0 or a declared range narrower than the raw range)) *)
          let _, _, s = msg_sig pkg mi si in
          let expected = if has_physical s then "1" else "0" in
          note_case ~nontrivial:(expected = "1") "PA" line;
          if expected <> rhs then pmismatch line expected
      | [ "PR"; pkg; mi; si; arg ] ->
          let m, i, s = msg_sig pkg mi si in
          let v = raw_set_value s (field_of_text s arg) in
          let st = List.mapi (fun j x -> if j = i then v else x) (reset_state m) in
          let expected = Printf.sprintf "%s %s" (text_of_field s v) (phys_text m st i) in
          note_case ~nontrivial:(Z.eqb v (z_of_int 0) = false) "PR" line;
          if expected <> rhs then pmismatch line expected
      | [ "PS"; pkg; mi; si; x ] ->
          let m, i, s = msg_sig pkg mi si in
          let xb = z_of_hex x in
          if phys_okb s xb then begin
            let st0 = reset_state m in
            let st0 = if s.s_multiplexed then (match mux_index m with Some k -> raw_set m st0 k s.s_mux_value | None -> st0) else st0 in
            let st = phys_set m st0 (z_to_nat_int i) xb in
            let v = List.nth st i in
            let expected = Printf.sprintf "%s %s %s" (text_of_field s v) (phys_text m st i) (hex_of_data (frame_of m st).fr_data) in
            note_case ~nontrivial:(Z.eqb v (z_of_int 0) = false) "PS" line;
            if expected <> rhs then pmismatch line expected
          end else note_case ~nontrivial:false "PS-outside-class" line
      | [ "PG"; pkg; mi; data ] ->
          let db = db_of pkg in
          let m = List.nth db.db_messages (int_of_string ("0x" ^ mi)) in
          let f = { fr_id = m.msg_id; fr_length = m.msg_length; fr_data = data_of_hex data; fr_remote = false; fr_extended = m.msg_extended } in
          let ok, st = step m (reset_state m) (reset_state m) (OpUnmarshal f) in
          let idx = match split_ws rhs with
            | [ _; l ] -> List.map (fun t -> int_of_string ("0x" ^ List.hd (String.split_on_char ':' t))) (String.split_on_char ',' l)
            | _ -> [] in
          let expected = Printf.sprintf "%s %s" (if ok then "K" else "E")
              (String.concat "," (List.map (fun i ->
                   let s = List.nth m.msg_signals i in
                   Printf.sprintf "%x:%s:%s" i (text_of_field s (List.nth st i)) (phys_text m st i)) idx)) in
          note_case ~nontrivial:(data <> "0000000000000000") "PG" line;
          if expected <> rhs then pmismatch line expected
      | _ -> failwith ("bad physical-stage line " ^ line))
  | _ -> failwith ("bad physical-stage line " ^ line)

let handle line =
  if String.length line > 2 && String.sub line 0 2 = "H " then handle_hist line
  else if String.length line > 2 && String.sub line 0 2 = "D " then handle_dsp line
  else if String.length line > 3 && List.mem (String.sub line 0 3) [ "PW "; "PA "; "PR "; "PS "; "PG " ] then handle_phys line
  else if Genwire.handle_wire db_of line then ()
  else if String.length line > 4 && String.sub line 0 4 = "PKG " then ()
  else failwith ("unparsable line: " ^ line)

let () =
  (try
     while true do
       let l = input_line stdin in
       if l <> "" then handle l
     done
   with End_of_file -> ());
  let ks = Hashtbl.fold (fun k v acc -> Printf.sprintf "\"%s\":%d" k v :: acc) opkinds [] in
  Printf.printf "OPS {\"operations\":%d,\"physical_setter_ops\":%d,\"physical_setter_ops_exact\":%d,\"op_kinds\":{%s}}\n" !n_ops !n_phys !n_phys_exact (String.concat "," (List.sort compare ks));
  Printf.printf "CLASS {\"messages_satisfying_theorem_hypotheses\":%d,\"messages_outside\":%d,\"outside\":[%s]}\n"
    !n_msgs_in_class !n_msgs_out_class (String.concat "," (List.map (fun s -> "\"" ^ s ^ "\"") !out_of_class));
  Genwire.print_wire_stats db_of;
  print_stats ()
