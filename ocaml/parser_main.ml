(* deps: dbcdump.ml *)
(* Model driver of the `parser` family (C04, C12): reads the observations of harness/parser, runs the
   extracted Coq parser (Dbc/Scanner.v, Dbc/Parser.v, Dbc/DecFloat.v) on the same bytes and compares
   three ways: implementation vs expected (the property predicate), model vs implementation
   (correspondence), model vs expected (information).  The non-ASCII rune classes come from the
   UNI lines (Go's unicode tables as the scanner sees them). *)
open Model
open Common
open Dbcdump

(* ---- unicode classes >= 128 *)
let letters : (int * int) list ref = ref []
let digits : (int * int) list ref = ref []
let letters_a = ref [||]
let digits_a = ref [||]
let frozen = ref false

let freeze () =
  if not !frozen then begin
    letters_a := Array.of_list (List.rev !letters);
    digits_a := Array.of_list (List.rev !digits);
    frozen := true
  end

let in_ranges (a : (int * int) array) (r : int) : bool =
  let lo = ref 0 and hi = ref (Array.length a - 1) and found = ref false in
  while (not !found) && !lo <= !hi do
    let mid = (!lo + !hi) / 2 in
    let l, h = a.(mid) in
    if r < l then hi := mid - 1 else if r > h then lo := mid + 1 else found := true
  done;
  !found

let is_letter_hi (z : z) = in_ranges !letters_a (int_of_z z)
let is_digit_hi (z : z) = in_ranges !digits_a (int_of_z z)

(* ---- helpers *)
let bytes_of_hex (h : string) : z list =
  List.init (String.length h / 2) (fun i -> z_of_int ((hexval h.[2 * i] * 16) + hexval h.[(2 * i) + 1]))

let def_name = function
  | DVersion _ -> "version" | DNewSymbols _ -> "newsymbols" | DBitTiming _ -> "bittiming" | DNodes _ -> "nodes"
  | DValueTable _ -> "valuetable" | DMessage _ -> "message" | DSignal _ -> "signal" | DSignalValueType _ -> "sigvaltype"
  | DMessageTransmitters _ -> "msgtx" | DValueDescriptions _ -> "valdesc" | DEnvVar _ -> "envvar"
  | DEnvVarData _ -> "envvardata" | DComment _ -> "comment" | DAttribute _ -> "attr" | DAttributeDefault _ -> "attrdef"
  | DAttributeValue _ -> "attrval" | DUnknown _ -> "unknown"

let describe d = Printf.sprintf "%s@%s" (def_name d) (string_of_pos (def_pos d))

(* first difference between two definition lists *)
let diff_defs (a : def list) (b : def list) : string =
  let rec go i a b =
    match (a, b) with
    | [], [] -> "equal"
    | x :: a', y :: b' -> if x = y then go (i + 1) a' b' else Printf.sprintf "#%d:%s/%s" i (describe x) (describe y)
    | x :: _, [] -> Printf.sprintf "#%d:%s/none(len %d vs %d)" i (describe x) (i + List.length a) i
    | [], y :: _ -> Printf.sprintf "#%d:none/%s(len %d vs %d)" i (describe y) i (i + List.length b)
  in
  go 0 a b

type impl_out = IOk | IErr of position | IPanic | IHang

let string_of_impl = function
  | IOk -> "ok" | IErr p -> "err@" ^ string_of_pos p | IPanic -> "panic" | IHang -> "hang"

let string_of_model = function
  | Ok _ -> "ok" | Err (p, _, _) -> "err@" ^ string_of_pos p | Panic -> "panic" | OutOfFuel -> "outoffuel"

let model_defs = function Ok d -> d | Err (_, _, d) -> d | _ -> []

(* does the model reproduce the implementation's observable behaviour (kind, position, definitions)? *)
let model_agrees (m : outcome) (i : impl_out) (idefs : def list) : bool =
  match (m, i) with
  | Ok d, IOk -> d = idefs
  | Err (p, _, d), IErr q -> p = q && d = idefs
  | _ -> false

(* ---- current case *)
let cur_mode = ref ""
let cur_n = ref ""
let cur_text = ref ""
let cur_extra : string list ref = ref []
let xlines : string list ref = ref []
let alines : string list ref = ref []

let strip2 l = String.sub l 2 (String.length l - 2)

let finish_case (out : string list) =
  freeze ();
  let text = bytes_of_hex !cur_text in
  let len = String.length !cur_text / 2 in
  let impl, same_tok =
    match out with
    | [ "ok"; s ] -> (IOk, s)
    | [ "err"; p; s ] -> (IErr (pos_of p), s)
    | [ "panic"; s ] -> (IPanic, s)
    | [ "hang"; s ] -> (IHang, s)
    | _ -> failwith "bad OUT line"
  in
  let same = same_tok = "same" in
  (* what differed between the five parses of the same bytes: "diff" = outcome kind / position / Defs();
     "diff-error-text:<hex>:<hex>" = only the text of the error (Error() NUL Reason()) of two of the runs *)
  let differs =
    let printable h =
      String.concat "" (List.map (fun z -> let c = int_of_z z in
                                   if c = 0 then " | reason: " else if c >= 32 && c < 127 then String.make 1 (Char.chr c) else Printf.sprintf "\\x%02x" c)
                          (bytes_of_hex h)) in
    match String.split_on_char ':' same_tok with
    | [ "diff-error-text"; a; b ] ->
        Printf.sprintf "repeated parse of the same bytes differs in the error text: <%s> vs <%s>" (printable a) (printable b)
    | [ "diff-aliased-buffer" ] ->
        "Defs() changed when the caller's buffer, reused after the parse, was overwritten (0xFF bytes, then another text): the parsed definitions alias the input bytes"
    | _ -> "repeated parse of the same bytes differs (outcome kind, position or Defs())"
  in
  let idefs, undumpable = try (defs_of_lines (List.rev !alines), false) with Failure _ -> ([], true) in
  let xdefs = defs_of_lines (List.rev !xlines) in
  let m = parse_bytes is_letter_hi is_digit_hi text in
  let agrees = model_agrees m impl idefs in
  let obs = Printf.sprintf "%s case=%s%s text=%s" !cur_mode !cur_n
      (String.concat "" (List.map (fun s -> " " ^ s) !cur_extra)) !cur_text in
  let key = Printf.sprintf "%s case=%s%s len=%d md5=%s" !cur_mode !cur_n
      (String.concat "" (List.map (fun s -> " " ^ s) !cur_extra)) len (Digest.to_hex (Digest.string !cur_text)) in
  let model_info =
    Printf.sprintf "impl=%s model=%s impl-vs-model-defs=%s" (string_of_impl impl) (string_of_model m)
      (diff_defs idefs (model_defs m)) in
  let in_input p = let o = int_of_z p.p_offset in 0 <= o && o <= len in
  (match (if undumpable then "undumpable" else !cur_mode) with
   | "undumpable" ->
       note_case (!cur_mode ^ "-undumpable") key;
       Printf.printf "PFAIL %s || clause=Defs() holds a definition that no parseFrom completed (its dump is not a well-formed definition) ; impl=%s model=%s\n"
         obs (string_of_impl impl) (string_of_model m)
   | "c04" ->
       note_case ~nontrivial:(xdefs <> []) "c04-file" key;
       List.iter (fun d -> note_case ~nontrivial:false ("c04-def-" ^ def_name d) "") xdefs;
       let clause =
         if impl <> IOk then Some ("parse of a well-formed text did not succeed: " ^ string_of_impl impl)
         else if idefs <> xdefs then Some ("definitions differ from the source (impl/expected): " ^ diff_defs idefs xdefs)
         else if not same then Some differs
         else None
       in
       (match clause with
        | Some c ->
            Printf.printf "PFAIL %s || clause=%s ; %s model-vs-expected=%s\n" obs c model_info
              (match m with Ok d -> diff_defs d xdefs | _ -> string_of_model m)
        | None -> if not agrees then Printf.printf "DISAGREE %s || %s\n" obs model_info)
   | "c12a" ->
       let start = match !cur_extra with _ :: s :: _ -> int_of_z (z_of_hex s) | _ -> failwith "c12a extra" in
       let op = match !cur_extra with _ :: _ :: o :: _ -> o | _ -> "?" in
       let prev = match !cur_extra with _ :: _ :: _ :: pv :: _ -> pv | _ -> "prev=?" in
       note_case ("c12a-" ^ op ^ (if op = "illegal-first-byte" then "-" ^ prev else "")) key;
       let clause =
         match impl with
         | IPanic -> Some "parser panicked"
         | IHang -> Some "parser did not terminate within 2 s"
         | IOk -> Some "corrupted definition accepted (operator guarantees a failure of that definition)"
         | IErr p ->
             if not same then Some differs
             else if not (in_input p) then Some "error position outside the input"
             else if int_of_z p.p_offset < start then
               Some (Printf.sprintf "error position %s before the corrupted definition (offset %x)" (string_of_pos p) start)
             else if idefs <> xdefs then begin
               (* the preceding definitions followed by more: the corrupted definition itself was reported *)
               let rec is_prefix a b = match (a, b) with
                 | [], _ -> true | x :: a', y :: b' -> x = y && is_prefix a' b' | _ :: _, [] -> false in
               if List.length idefs > List.length xdefs && is_prefix xdefs idefs then
                 Some (Printf.sprintf "locality-corrupted-definition-reported: Defs() holds %d definition(s) after the preceding ones although parsing failed inside the first of them (impl/expected): %s"
                         (List.length idefs - List.length xdefs) (diff_defs idefs xdefs))
               else
                 Some ("locality-defs-so-far: definitions so far are not exactly the preceding ones (impl/expected): " ^ diff_defs idefs xdefs)
             end
             else None
       in
       (match clause with
        | Some c ->
            (* the name of the failed clause is part of the observation (known-finding matcher of checks/parser.py) *)
            let starts p = String.length c >= String.length p && String.sub c 0 (String.length p) = p in
            let failed = if starts "locality-defs-so-far" then "locality-defs-so-far"
              else if starts "locality-corrupted-definition-reported" then "locality-corrupted-definition-reported" else "other" in
            Printf.printf "PFAIL %s failed=%s expected-defs=%d observed-defs=%d || clause=%s ; %s\n" obs failed
              (List.length xdefs) (List.length idefs) c model_info
        | None -> if not agrees then Printf.printf "DISAGREE %s || %s\n" obs model_info)
   | "c12b" ->
       let kind = match !cur_extra with k :: _ -> k | _ -> "?" in
       note_case ~nontrivial:(match impl with IErr _ -> true | _ -> idefs <> []) ("c12b-" ^ kind ^ "-" ^
                                                                                   (match impl with IOk -> "ok" | IErr _ -> "err" | IPanic -> "panic" | IHang -> "hang")) key;
       let clause =
         match impl with
         | IPanic -> Some "parser panicked"
         | IHang -> Some "parser did not terminate within 2 s"
         | _ when not same -> Some differs
         | IErr p when not (in_input p) -> Some ("error position outside the input: " ^ string_of_pos p)
         | _ -> None
       in
       (* byte sweep: a valid rune >= 128 comes with its class as the harness computed it with
          unicode.IsLetter / IsDigit directly; the tables of the UNI lines (the model's oracle) must say the same *)
       let field p = List.find_map (fun s ->
           let n = String.length p in
           if String.length s > n && String.sub s 0 n = p then Some (String.sub s n (String.length s - n)) else None) !cur_extra in
       let table_ok =
         match (field "rune=", field "cls=") with
         | Some r, Some c ->
             let z = z_of_hex r in
             c = (if is_letter_hi z then "L" else if is_digit_hi z then "D" else "O")
         | _ -> true
       in
       (match clause with
        | Some c -> Printf.printf "PFAIL %s || clause=%s ; %s\n" obs c model_info
        | None ->
            if not agrees then Printf.printf "DISAGREE %s || %s\n" obs model_info
            else if not table_ok then Printf.printf "DISAGREE %s || the UNI tables given to the model classify the inserted rune differently from unicode.IsLetter/IsDigit\n" obs)
   | md -> failwith ("unknown mode " ^ md));
  xlines := [];
  alines := []

let opt_hex = function None -> "err" | Some z -> hex_of_z z

let handle line =
  if String.length line > 2 && line.[0] = 'X' && line.[1] = ' ' then xlines := strip2 line :: !xlines
  else if String.length line > 2 && line.[0] = 'A' && line.[1] = ' ' then alines := strip2 line :: !alines
  else
    match split_ws line with
    | [ "UNI"; "L"; lo; hi ] -> letters := (int_of_string ("0x" ^ lo), int_of_string ("0x" ^ hi)) :: !letters
    | [ "UNI"; "D"; lo; hi ] -> digits := (int_of_string ("0x" ^ lo), int_of_string ("0x" ^ hi)) :: !digits
    | "CASE" :: mode :: n :: t :: extra ->
        cur_mode := mode;
        cur_n := n;
        cur_text := String.sub t 2 (String.length t - 2);
        cur_extra := extra;
        xlines := [];
        alines := []
    | "OUT" :: out -> finish_case out
    | [ "COV"; kind ] -> note_case ~nontrivial:false kind ""
    | [ "HIST"; kind; "same" ] -> note_case ~nontrivial:false kind ""
    | "HIST" :: kind :: "diff" :: details ->
        note_case ~nontrivial:false kind "";
        Printf.printf "PFAIL %s %s || clause=a text that is parsed again later in the same process, after other (also failing) parses, does not give its first outcome again (kind, position, error text, Defs())\n"
          kind (String.concat " " details)
    | [ "NUM"; s; f; u; a; uk ] ->
        let b = bytes_of_s s in
        let mf = opt_hex (parse_float b) in
        let mu = opt_hex (parse_uint b) in
        let ma = match atoi b with None -> "err" | Some z -> i64hex_of_z z in
        (* the kind of ParseUint's failure (Parser.int after F12 saturates on ErrRange, where ParseUint
           returns MaxUint64, and takes the float64 path on ErrSyntax) *)
        let mk = match parse_uint_r b with UOk _ -> "ok" | URange -> "range:ffffffffffffffff" | USyntax -> "syntax" in
        note_case ~nontrivial:(mf <> "err" || mu <> "err") "num" line;
        if mf <> f || mu <> u || ma <> a || mk <> uk then
          Printf.printf "DISAGREE %s || strconv model: ParseFloat=%s ParseUint=%s Atoi=%s ParseUint-kind=%s\n" line mf mu ma mk
    | _ -> failwith ("unexpected line: " ^ String.sub line 0 (min 60 (String.length line)))

let () = iter_lines handle
