(* deps: gendb.ml *)
(* Model driver for the renderers (C19). Reads the observation lines of `verif_genrun render`
   (harness/genrun/render_c19.go), replays payload -> UnmarshalFrame -> Frame() through the descriptor
   interpreter (Gen/Message.v) over the database each program DENOTES (argv[1]/<pkg>.db), computes the
   segment lists of Gen/Render.v and prints, per observed byte string, one line

     SEG <tag> <observed hex | - | E> <segment>*        (or the single pseudo segment !E = "error")
        segment = L<hex> | G<bits> | F<bits> | J<hex> | D<ns>

   for the second pass (harness/render/main.go), which renders the G/F/J/D segments with
   strconv / encoding/json / time and compares bytes. Frame data, NOSTATE and json.Valid are judged
   here (MISMATCH / PFAIL lines).

   Call-pattern lines (see the header of render_c19.go):
     A / AP   retained results: PFAIL "a returned rendering changed after later calls" if the bytes the
              caller still holds differ from the copy taken when they were returned; the copy goes to the
              second pass against the model (A only; the AP body was already compared on its P line)
     AF       msg.Frame() before the first and after the last rendering = the model's frame
     AC       concurrent renderings: every distinct result goes to the second pass; PFAIL if one
              (message state, renderer) produced more than one byte string
     B / BF   Append* onto a caller's prefix: model = append_to [Lit prefix] call (Gen/Render.v);
              PFAIL if the caller's prefix bytes changed *)
open Model
open Common
open Gendb

let dbdir = Sys.argv.(1)
let dbs : (string, database) Hashtbl.t = Hashtbl.create 16
let db_of pkg = match Hashtbl.find_opt dbs pkg with Some d -> d | None -> let d = load_database dbdir pkg in Hashtbl.replace dbs pkg d; d

let hex_of_bytes (b : z list) : string =
  let buf = Buffer.create (2 * List.length b) in
  List.iter (fun x -> Buffer.add_string buf (Printf.sprintf "%02x" (int_of_z x))) b;
  Buffer.contents buf

let bytes_of_hex (h : string) : z list =
  if h = "-" then [] else List.init (String.length h / 2) (fun i -> z_of_int ((hexval h.[2 * i] * 16) + hexval h.[(2 * i) + 1]))

let seg_text (s : segment) : string =
  match s with
  | Lit b -> "L" ^ hex_of_bytes b
  | FloatG x -> "G" ^ hex_of_z x
  | FloatF x -> "F" ^ hex_of_z x
  | GoJSONString b -> "J" ^ hex_of_bytes b
  | GoDuration n -> "D" ^ hex_of_z n

let emit (tag : string) (obs : string) (segs : segment list option) =
  match segs with
  | None -> Printf.printf "SEG %s %s !E\n" tag obs
  | Some l -> Printf.printf "SEG %s %s %s\n" tag obs (String.concat " " (List.map seg_text l))

(* state reached by UnmarshalFrame(payload) on a fresh, reset instance *)
let reach (m : message) (payload : z list) : z list option =
  let f = { fr_id = m.msg_id; fr_length = m.msg_length; fr_data = payload; fr_remote = false; fr_extended = m.msg_extended } in
  match unmarshal m f (reset_state m) with Inr st -> Some st | Inl _ -> None

(* coverage of the value axis *)
let geom : (int * bool, unit) Hashtbl.t = Hashtbl.create 128
let n_sig = ref 0 and n_top = ref 0 and n_vd = ref 0 and n_unit = ref 0 and n_neg = ref 0 and n_u64top = ref 0
let two63 = z_of_hex "8000000000000000"

let cover (m : message) (d : z list) =
  List.iter (fun s ->
      incr n_sig;
      let l = int_of_z s.s_length in
      Hashtbl.replace geom (l, s.s_signed) ();
      if l > 1 then begin
        let u = unmarshal_unsigned s d in
        if (not s.s_signed) && Z.leb two63 u then incr n_u64top;
        if Z.leb (Z.pow (z_of_int 2) (z_of_int (l - 1))) u then
          (if s.s_signed then incr n_neg else incr n_top)
      end;
      if s.s_unit <> [] then incr n_unit;
      (match unmarshal_value_description s d with Some _ -> incr n_vd | None -> ())) m.msg_signals

let field (pref : string) (tok : string) : string =
  let n = String.length pref in
  if String.length tok >= n && String.sub tok 0 n = pref then String.sub tok n (String.length tok - n)
  else failwith ("expected " ^ pref ^ " in " ^ tok)

(* kind = R (fresh instance) or RR (instance rendered before in another state, then Reset + UnmarshalFrame) *)
let handle_r (line : string) =
  match split_ws line with
  | [ ("R" | "RR"); pkg; mi; payload; "NOSTATE" ] ->
      ignore (pkg, mi, payload);
      note_case (List.hd (split_ws line)) line;
      incr n_mismatch;
      Printf.printf "MISMATCH %s || model=the generated UnmarshalFrame accepts a frame with the message's own id, length and format\n" line
  | [ (("R" | "RR") as kind); pkg; mi; payload; fdata; t; c; s; g; j; v ] -> (
      let db = db_of pkg in
      let m = List.nth db.db_messages (int_of_string ("0x" ^ mi)) in
      let short = Printf.sprintf "%s:%s:%s" pkg mi payload in
      let r = kind ^ ":" in
      note_case ~nontrivial:(m.msg_signals <> []) kind (String.concat " " [ kind; pkg; mi; payload ]);
      match reach m (data_of_hex payload) with
      | None -> mismatch (String.concat " " [ kind; pkg; mi; payload ]) "model rejects the frame"
      | Some st ->
          let d = state_data m st in
          if hex_of_data d <> fdata then mismatch (String.concat " " [ kind; pkg; mi; payload; fdata ]) ("frame data " ^ hex_of_data d)
          else begin
            cover m d;
            emit (r ^ short ^ ":Marshal") (field "T=" t) (Some (text_multiline m st));
            emit (r ^ short ^ ":MarshalCompact") (field "C=" c) (Some (text_compact m st));
            emit (r ^ short ^ ":MessageString") (field "S=" s) (Some (text_compact m st));
            emit (r ^ short ^ ":String") (field "G=" g) (Some (text_compact m st));
            let jm = json_render m st in
            emit (r ^ short ^ ":canjson.Marshal") (field "J=" j) jm;
            if jm <> None && field "J=" j <> "E" && field "V=" v <> "1" then begin
              incr n_mismatch;
              Printf.printf "PFAIL %s || clause=json.Valid is false on the output of canjson.Marshal\n"
                (String.concat " " [ kind; pkg; mi; payload; j ])
            end
          end)
  | _ -> failwith ("bad R line: " ^ line)

let rec handle_p (line : string) =
  match split_ws line with
  | [ "PH"; pkg; step; path; ents; req; k; h; b; u ] ->
      (* a request of a history: the page is a function of the current entries only, whatever was requested
         before and whatever conditional headers the request carries *)
      note_case "PH-request-history" line;
      if field "U=" u <> "1" then begin
        incr n_mismatch;
        Printf.printf "PFAIL PH:%s:%s:%s:%s:slice step=%s request=%s || clause=serving a request modified the caller's message slice (a later request served from the same slice no longer shows the caller's messages)\n"
          pkg path ents req step req
      end;
      if field "K=" k <> "200" then begin
        incr n_mismatch;
        Printf.printf "PFAIL PH:%s:%s:%s:%s:status step=%s request=%s status=%s obs=%s || clause=every response must be the full current page (status 200); a repeated / conditional request was answered differently\n"
          pkg path ents req step req (field "K=" k) (field "B=" b)
      end;
      handle_p_body ("PH:" ^ pkg ^ ":" ^ path ^ ":" ^ ents ^ ":" ^ req ^ "@" ^ step) pkg path ents "K=200" h b
  | [ "P"; pkg; path; ents; k; h; b ] ->
      note_case "P" (String.concat " " [ "P"; pkg; path; ents ]);
      handle_p_body (Printf.sprintf "P:%s:%s:%s" pkg path ents) pkg path ents k h b
  | _ -> failwith ("bad P line: " ^ line)

and handle_p_body tag pkg path ents k h b =
  match [ "P"; pkg; path; ents; k; h; b ] with
  | [ "P"; pkg; path; ents; k; h; b ] ->
      let db = db_of pkg in
      let entries =
        List.map (fun e ->
            match String.split_on_char ':' e with
            | [ kind; mi; payload ] ->
                let m = List.nth db.db_messages (int_of_string ("0x" ^ mi)) in
                let w = (match kind with "p" -> WPlain | "r" | "rn" -> WRx | "t0" | "tn0" -> WTx false | "t1" | "tn1" -> WTx true | _ -> failwith "bad wrapper") in
                (match reach m (data_of_hex payload) with
                 | Some st -> debug_entry w m st
                 | None -> failwith "model rejects a page payload")
            | _ -> failwith ("bad entry " ^ e))
          (String.split_on_char ',' ents) in
      emit (tag ^ ":body") (field "B=" b) (Some (debug_page (bytes_of_hex path) entries));
      (* status 200 and the content type are constants of serveMessagesHTTP *)
      let ct = hex_of_bytes (List.map (fun c -> z_of_int (Char.code c)) (List.init 25 (String.get "text/plain; charset=utf-8"))) in
      if field "K=" k <> "200" || field "H=" h <> ct then mismatch (String.concat " " [ "P"; pkg; path; k; h ]) ("K=200 H=" ^ ct)
  | _ -> failwith ("bad P line: " ^ tag)


(* ---- call patterns: retained results, concurrency, prefixes ---------------------------------- *)

let strip_round (r : string) : string = match String.index_opt r '#' with Some i -> String.sub r 0 i | None -> r

let frame_of_fields id len ext rem data : frame =
  { fr_id = z_of_hex id; fr_length = z_of_hex len; fr_data = data_of_hex data; fr_remote = (rem = "1"); fr_extended = (ext = "1") }

(* the model's text for one entry point on state [st] of [m]; signal index "-" = none *)
let model_of (m : message) (st : z list) (si : string) (renderer : string) : segment list option =
  let d = state_data m st in
  let sg () = List.nth m.msg_signals (int_of_string si) in
  match renderer with
  | "Marshal" -> Some (text_multiline m st)
  | "MarshalCompact" | "MessageString" | "String" -> Some (text_compact m st)
  | "canjson.Marshal" -> json_render m st
  | "AppendSignal" -> append_text (CallSignal (sg (), d))
  | "AppendSignalCompact" -> append_text (CallSignalCompact (sg (), d))
  | "AppendID" -> append_text (CallID m)
  | "AppendSender" -> append_text (CallSender m)
  | "AppendSendType" -> append_text (CallSendType m)
  | "AppendCycleTime" -> append_text (CallCycleTime m)
  | "AppendDelayTime" -> append_text (CallDelayTime m)
  | "AppendFrame" -> append_text (CallFrame (frame_of m st))
  | r -> failwith ("unknown renderer " ^ r)

let call_of (m : message) (st : z list) (si : string) (fn : string) : append_call =
  let d = state_data m st in
  let sg () = List.nth m.msg_signals (int_of_string si) in
  match fn with
  | "AppendSignal" -> CallSignal (sg (), d)
  | "AppendSignalCompact" -> CallSignalCompact (sg (), d)
  | "AppendID" -> CallID m
  | "AppendSender" -> CallSender m
  | "AppendSendType" -> CallSendType m
  | "AppendCycleTime" -> CallCycleTime m
  | "AppendDelayTime" -> CallDelayTime m
  | "AppendFrame" -> CallFrame (frame_of m st)
  | r -> failwith ("unknown append function " ^ r)

let pfail (tag : string) (clause : string) =
  incr n_mismatch;
  Printf.printf "PFAIL %s || clause=%s\n" tag clause

let with_state pkg mi payload (k : message -> z list -> unit) =
  let db = db_of pkg in
  let m = List.nth db.db_messages (int_of_string ("0x" ^ mi)) in
  match reach m (data_of_hex payload) with
  | None -> mismatch (String.concat " " [ "A"; pkg; mi; payload ]) "model rejects the frame"
  | Some st -> k m st

let handle_a (line : string) =
  match split_ws line with
  | [ "A"; pkg; mi; payload; si; renderer; later; copy; now ] ->
      note_case "A-retained" (String.concat " " [ "A"; pkg; mi; payload; si; renderer ]);
      let tag = Printf.sprintf "A:%s:%s:%s:%s:%s" pkg mi payload si renderer in
      if now <> copy then
        pfail (Printf.sprintf "%s later=%s copy=%s now=%s" tag later copy now)
          "a returned rendering changed after later calls (the bytes the caller still holds are no longer the rendering it was given)";
      with_state pkg mi payload (fun m st -> emit tag copy (model_of m st si (strip_round renderer)))
  | _ -> failwith ("bad A line: " ^ line)

let handle_ap (line : string) =
  match split_ws line with
  | [ "AP"; pkg; path; ents; later; copy; now ] ->
      note_case "AP-body-retained" (String.concat " " [ "AP"; pkg; path; ents ]);
      if now <> copy then
        pfail (Printf.sprintf "AP:%s:%s:%s:body later=%s copy=%s now=%s" pkg path ents later copy now)
          "a returned rendering changed after later calls (HTTP response body)"
  | _ -> failwith ("bad AP line: " ^ line)

let handle_af (line : string) =
  match split_ws line with
  | [ "AF"; pkg; mi; payload; before; after ] ->
      note_case "AF-message-unchanged" line;
      with_state pkg mi payload (fun m st ->
          let f = frame_of m st in
          let b01 b = if b then "1" else "0" in
          let exp = String.concat "," [ hex_of_z f.fr_id; hex_of_z f.fr_length; b01 f.fr_extended; b01 f.fr_remote; hex_of_data f.fr_data ] in
          if before <> exp then mismatch line ("frame " ^ exp)
          else if after <> before then
            pfail (Printf.sprintf "AF:%s:%s:%s before=%s after=%s" pkg mi payload before after)
              "rendering changed the message: Frame() after the renderings differs from Frame() before them")
  | _ -> failwith ("bad AF line: " ^ line)

let handle_ac (line : string) =
  match split_ws line with
  | [ "AC"; pkg; mi; payload; renderer; calls; results ] ->
      note_case "AC-concurrent" (String.concat " " [ "AC"; pkg; mi; payload; renderer ]);
      let rs = String.split_on_char ',' results in
      let tag = Printf.sprintf "AC:%s:%s:%s:%s:%s" pkg mi payload (if renderer = "AppendSignal" then "0" else "-") renderer in
      if List.length rs > 1 then
        pfail (Printf.sprintf "%s calls=%s results=%s" tag calls results)
          "a returned rendering changed after later calls (concurrent): one message state gave different byte strings to goroutines rendering concurrently";
      with_state pkg mi payload (fun m st ->
          let segs = model_of m st "0" renderer in
          List.iter (fun r -> emit tag r segs) rs)
  | _ -> failwith ("bad AC line: " ^ line)

let prefix_case (tag : string) (spare : string) (prefix : string) (after : string) (result : string) (c : append_call) =
  if after <> prefix then
    pfail (Printf.sprintf "%s spare=%s prefix=%s prefix_after=%s obs=%s" tag spare prefix after result)
      "Append* must only append: the caller's prefix bytes were modified";
  emit tag result (append_to [ Lit (bytes_of_hex prefix) ] c)

let handle_b (line : string) =
  match split_ws line with
  | [ "B"; pkg; mi; payload; si; fn; spare; prefix; after; result ] ->
      note_case "B-append-prefix" line;
      with_state pkg mi payload (fun m st ->
          prefix_case (Printf.sprintf "B:%s:%s:%s:%s:%s" pkg mi payload si fn) spare prefix after result (call_of m st si fn))
  | [ "BF"; id; len; ext; rem; data; spare; prefix; after; result ] ->
      note_case "BF-append-frame" line;
      prefix_case (Printf.sprintf "BF:%s,%s,%s,%s,%s:%s:AppendFrame" id len ext rem data prefix) spare prefix after result
        (CallFrame (frame_of_fields id len ext rem data))
  | _ -> failwith ("bad B line: " ^ line)

let starts line p = String.length line > String.length p && String.sub line 0 (String.length p) = p

let handle line =
  if starts line "A " then handle_a line
  else if starts line "AP " then handle_ap line
  else if starts line "AF " then handle_af line
  else if starts line "AC " then handle_ac line
  else if starts line "B " || starts line "BF " then handle_b line
  else if starts line "R " || starts line "RR " then handle_r line
  else if starts line "P " || starts line "PH " then handle_p line
  else if String.length line > 4 && String.sub line 0 4 = "PKG " then ()
  else failwith ("unparsable line: " ^ line)

let () =
  (try
     while true do
       let l = input_line stdin in
       if l <> "" then handle l
     done
   with End_of_file -> ());
  let gs = Hashtbl.fold (fun (l, sg) () acc -> (l, sg) :: acc) geom [] in
  let widths sg = List.sort compare (List.filter_map (fun (l, s) -> if s = sg then Some l else None) gs) in
  let js l = "[" ^ String.concat "," (List.map string_of_int l) ^ "]" in
  Printf.printf
    "COV {\"signal_renderings\":%d,\"unsigned_widths\":%s,\"signed_widths\":%s,\"unsigned_top_bit_set\":%d,\"unsigned_raw_ge_2^63\":%d,\"signed_negative\":%d,\"value_description_shown\":%d,\"unit_defined\":%d}\n"
    !n_sig (js (widths false)) (js (widths true)) !n_top !n_u64top !n_neg !n_vd !n_unit;
  print_stats ()
