(* deps: gendb.ml *)
(* Model driver for the renderers (C19). Reads the observation lines of `verif_genrun render`
   (harness/genrun/render_c19.go), replays payload -> UnmarshalFrame -> Frame() through the descriptor
   interpreter (Gen/Message.v) over the database each program DENOTES (argv[1]/<pkg>.db), computes the
   segment lists of Gen/Render.v and prints, per observed byte string, one line

     SEG <tag> <observed hex | - | E> <segment>*        (or the single pseudo segment !E = "error")
        segment = L<hex> | G<bits> | F<bits> | J<hex> | D<ns>

   for the second pass (harness/render/main.go), which renders the G/F/J/D segments with
   strconv / encoding/json / time and compares bytes. Frame data, NOSTATE and json.Valid are judged
   here (MISMATCH / PFAIL lines). *)
open Model
open Common
open Gendb

let dbdir = Sys.argv.(1)
let dbs : (string, database) Hashtbl.t = Hashtbl.create 16
let db_of pkg = match Hashtbl.find_opt dbs pkg with Some d -> d | None -> let d = load_database dbdir pkg in Hashtbl.replace dbs pkg d; d

let hex_of_bytes (b : z list) : string =
  let buf = Buffer.create (2 * List.length b) in
  List.iter (fun x -> Buffer.add_string buf (Printf.sprintf "%02x" (int_of_z x))) b;
  Buffer.contents buf

let bytes_of_hex (h : string) : z list =
  if h = "-" then [] else List.init (String.length h / 2) (fun i -> z_of_int ((hexval h.[2 * i] * 16) + hexval h.[(2 * i) + 1]))

let seg_text (s : segment) : string =
  match s with
  | Lit b -> "L" ^ hex_of_bytes b
  | FloatG x -> "G" ^ hex_of_z x
  | FloatF x -> "F" ^ hex_of_z x
  | GoJSONString b -> "J" ^ hex_of_bytes b
  | GoDuration n -> "D" ^ hex_of_z n

let emit (tag : string) (obs : string) (segs : segment list option) =
  match segs with
  | None -> Printf.printf "SEG %s %s !E\n" tag obs
  | Some l -> Printf.printf "SEG %s %s %s\n" tag obs (String.concat " " (List.map seg_text l))

(* state reached by UnmarshalFrame(payload) on a fresh, reset instance *)
let reach (m : message) (payload : z list) : z list option =
  let f = { fr_id = m.msg_id; fr_length = m.msg_length; fr_data = payload; fr_remote = false; fr_extended = m.msg_extended } in
  match unmarshal m f (reset_state m) with Inr st -> Some st | Inl _ -> None

(* coverage of the value axis *)
let geom : (int * bool, unit) Hashtbl.t = Hashtbl.create 128
let n_sig = ref 0 and n_top = ref 0 and n_vd = ref 0 and n_unit = ref 0 and n_neg = ref 0 and n_u64top = ref 0
let two63 = z_of_hex "8000000000000000"

let cover (m : message) (d : z list) =
  List.iter (fun s ->
      incr n_sig;
      let l = int_of_z s.s_length in
      Hashtbl.replace geom (l, s.s_signed) ();
      if l > 1 then begin
        let u = unmarshal_unsigned s d in
        if (not s.s_signed) && Z.leb two63 u then incr n_u64top;
        if Z.leb (Z.pow (z_of_int 2) (z_of_int (l - 1))) u then
          (if s.s_signed then incr n_neg else incr n_top)
      end;
      if s.s_unit <> [] then incr n_unit;
      (match unmarshal_value_description s d with Some _ -> incr n_vd | None -> ())) m.msg_signals

let field (pref : string) (tok : string) : string =
  let n = String.length pref in
  if String.length tok >= n && String.sub tok 0 n = pref then String.sub tok n (String.length tok - n)
  else failwith ("expected " ^ pref ^ " in " ^ tok)

let handle_r (line : string) =
  match split_ws line with
  | [ "R"; pkg; mi; payload; "NOSTATE" ] ->
      ignore (pkg, mi, payload);
      note_case "R" line;
      incr n_mismatch;
      Printf.printf "MISMATCH %s || model=the generated UnmarshalFrame accepts a frame with the message's own id, length and format\n" line
  | [ "R"; pkg; mi; payload; fdata; t; c; s; g; j; v ] -> (
      let db = db_of pkg in
      let m = List.nth db.db_messages (int_of_string ("0x" ^ mi)) in
      let short = Printf.sprintf "%s:%s:%s" pkg mi payload in
      note_case ~nontrivial:(m.msg_signals <> []) "R" (String.concat " " [ "R"; pkg; mi; payload ]);
      match reach m (data_of_hex payload) with
      | None -> mismatch (String.concat " " [ "R"; pkg; mi; payload ]) "model rejects the frame"
      | Some st ->
          let d = state_data m st in
          if hex_of_data d <> fdata then mismatch (String.concat " " [ "R"; pkg; mi; payload; fdata ]) ("frame data " ^ hex_of_data d)
          else begin
            cover m d;
            emit ("R:" ^ short ^ ":Marshal") (field "T=" t) (Some (text_multiline m st));
            emit ("R:" ^ short ^ ":MarshalCompact") (field "C=" c) (Some (text_compact m st));
            emit ("R:" ^ short ^ ":MessageString") (field "S=" s) (Some (text_compact m st));
            emit ("R:" ^ short ^ ":String") (field "G=" g) (Some (text_compact m st));
            let jm = json_render m st in
            emit ("R:" ^ short ^ ":canjson.Marshal") (field "J=" j) jm;
            if jm <> None && field "J=" j <> "E" && field "V=" v <> "1" then begin
              incr n_mismatch;
              Printf.printf "PFAIL %s || clause=json.Valid is false on the output of canjson.Marshal\n"
                (String.concat " " [ "R"; pkg; mi; payload; j ])
            end
          end)
  | _ -> failwith ("bad R line: " ^ line)

let handle_p (line : string) =
  match split_ws line with
  | [ "P"; pkg; path; ents; k; h; b ] ->
      let db = db_of pkg in
      note_case "P" (String.concat " " [ "P"; pkg; path; ents ]);
      let entries =
        List.map (fun e ->
            match String.split_on_char ':' e with
            | [ kind; mi; payload ] ->
                let m = List.nth db.db_messages (int_of_string ("0x" ^ mi)) in
                let w = (match kind with "p" -> WPlain | "r" -> WRx | "t0" -> WTx false | "t1" -> WTx true | _ -> failwith "bad wrapper") in
                (match reach m (data_of_hex payload) with
                 | Some st -> debug_entry w m st
                 | None -> failwith "model rejects a page payload")
            | _ -> failwith ("bad entry " ^ e))
          (String.split_on_char ',' ents) in
      let tag = Printf.sprintf "P:%s:%s:%s" pkg path ents in
      emit (tag ^ ":body") (field "B=" b) (Some (debug_page (bytes_of_hex path) entries));
      (* status 200 and the content type are constants of serveMessagesHTTP *)
      let ct = hex_of_bytes (List.map (fun c -> z_of_int (Char.code c)) (List.init 25 (String.get "text/plain; charset=utf-8"))) in
      if field "K=" k <> "200" || field "H=" h <> ct then mismatch (String.concat " " [ "P"; pkg; path; k; h ]) ("K=200 H=" ^ ct)
  | _ -> failwith ("bad P line: " ^ line)

let handle line =
  if String.length line > 2 && String.sub line 0 2 = "R " then handle_r line
  else if String.length line > 2 && String.sub line 0 2 = "P " then handle_p line
  else if String.length line > 4 && String.sub line 0 4 = "PKG " then ()
  else failwith ("unparsable line: " ^ line)

let () =
  (try
     while true do
       let l = input_line stdin in
       if l <> "" then handle l
     done
   with End_of_file -> ());
  let gs = Hashtbl.fold (fun (l, sg) () acc -> (l, sg) :: acc) geom [] in
  let widths sg = List.sort compare (List.filter_map (fun (l, s) -> if s = sg then Some l else None) gs) in
  let js l = "[" ^ String.concat "," (List.map string_of_int l) ^ "]" in
  Printf.printf
    "COV {\"signal_renderings\":%d,\"unsigned_widths\":%s,\"signed_widths\":%s,\"unsigned_top_bit_set\":%d,\"unsigned_raw_ge_2^63\":%d,\"signed_negative\":%d,\"value_description_shown\":%d,\"unit_defined\":%d}\n"
    !n_sig (js (widths false)) (js (widths true)) !n_top !n_u64top !n_neg !n_vd !n_unit;
  print_stats ()
