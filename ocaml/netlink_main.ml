(* Model driver for C20 (netlink link-info codec): reads the observations printed by
   harness/netlink/main.go, recomputes each with the Coq model extracted from
   Netlink/Layout.v, Netlink/Attr.v and the C layouts of Netlink/LayoutSpec.v, and reports
     MISMATCH  implementation <> model (model = specification is a theorem, Properties/C20.v)
     PFAIL     a clause of the property is false of what the implementation returned. *)
open Model
open Common

let bytes_of_hex s = if s = "-" then [] else data_of_hex s
let hex_of_bytes = function [] -> "-" | l -> hex_of_data l
let hz = hex_of_z
let two31 = z_of_hex "80000000"
let two32 = z_of_hex "100000000"
let i32_of_hex s = let u = z_of_hex s in if Z.ltb u two31 then u else Z.sub u two32
let hex_of_i32 v = hz (Z.modulo v two32)
let commas = String.concat ","

let show_outcome (f : 'a -> string) (o : 'a outcome) : string =
  match o with Ok x -> "ok:" ^ f x | Error -> "err" | OutOfBounds -> "panic"

(* ---- state printers: same canonical text as the Go harness *)
let s_ifi (x : ifinfomsg) =
  commas [ hz x.ifi_family; hz x.ifi_type; hex_of_i32 x.ifi_index; hz x.ifi_flags; hz x.ifi_change ]

let s_bt (x : bittiming) =
  commas [ hz x.bt_bitrate; hz x.bt_sample_point; hz x.bt_tq; hz x.bt_prop_seg; hz x.bt_phase_seg1;
           hz x.bt_phase_seg2; hz x.bt_sjw; hz x.bt_brp ]

let s_btc (x : bittiming_const) =
  commas [ hex_of_bytes x.btc_name; hz x.btc_tseg1_min; hz x.btc_tseg1_max; hz x.btc_tseg2_min;
           hz x.btc_tseg2_max; hz x.btc_sjw_max; hz x.btc_brp_min; hz x.btc_brp_max; hz x.btc_brp_inc ]

let s_cm (x : ctrlmode) = commas [ hz x.cm_mask; hz x.cm_flags ]
let s_bec (x : berr_counters) = commas [ hz x.bec_txerr; hz x.bec_rxerr ]

let s_st (x : stats) =
  commas [ hz x.st_bus_error; hz x.st_error_warning; hz x.st_error_passive; hz x.st_bus_off;
           hz x.st_arbitration_lost; hz x.st_restarts ]

let s_li (l : linkinfo) =
  let i = l.li_info in
  "k=" ^ hex_of_bytes l.li_kind ^ ";bt=" ^ s_bt i.i_bittiming ^ ";btc=" ^ s_btc i.i_bittiming_const
  ^ ";clk=" ^ hz (clk_freq i.i_clock) ^ ";cm=" ^ s_cm i.i_ctrlmode ^ ";bec=" ^ s_bec i.i_berr
  ^ ";st=" ^ s_st l.li_stats ^ ";ty=" ^ hex_of_bytes i.i_type

let s_dev (d : device) = "n=" ^ hex_of_bytes d.dev_ifname ^ ";ifi=" ^ s_ifi d.dev_ifi ^ ";" ^ s_li d.dev_li

let short line = if String.length line > 600 then String.sub line 0 600 ^ "..." else line
let n_pfail = ref 0
let pfail line clause =
  incr n_mismatch; incr n_pfail;
  if !n_pfail <= 50 then Printf.printf "PFAIL %s || clause=%s\n" (short line) clause
let mism line expected = mismatch (short line) (short expected)

(* three-way layout comparison + round trip of the implementation's own image *)
let layout_case kind line ~impl ~abi ~rt ~(model : z list outcome) ~(spec : z list) ~(fields : string) =
  note_case kind (short line);
  let m = show_outcome hex_of_bytes model in
  let m = if String.length m > 3 && String.sub m 0 3 = "ok:" then String.sub m 3 (String.length m - 3) else m in
  if m <> impl then mism line m
  else if hex_of_bytes spec <> impl then pfail line "implementation-bytes-differ-from-C-struct-layout"
  else if abi <> impl then pfail line "implementation-bytes-differ-from-in-memory-image-of-x/sys/unix-struct"
  else if rt <> "ok:" ^ fields then pfail line "unmarshal-of-marshal-is-not-the-original"

let bt_of = function
  | [ a; b; c; d; e; f; g; h ] ->
      { bt_bitrate = z_of_hex a; bt_sample_point = z_of_hex b; bt_tq = z_of_hex c; bt_prop_seg = z_of_hex d;
        bt_phase_seg1 = z_of_hex e; bt_phase_seg2 = z_of_hex f; bt_sjw = z_of_hex g; bt_brp = z_of_hex h }
  | _ -> failwith "bt_of"

let li_of kind bt m f =
  let i = set_cm (set_bt info_zero (bt_of bt)) { cm_mask = z_of_hex m; cm_flags = z_of_hex f } in
  { li_kind = bytes_of_hex kind; li_info = i; li_stats = linkinfo_zero.li_stats }

let rec nat_to_int = function O -> 0 | S n -> 1 + nat_to_int n

let is_can k = bytes_eqb k kind_can || bytes_eqb k kind_vcan

let handle line =
  match split_ws line with
  | [ "SZ"; name; v ] ->
      note_case "SZ" line;
      let model_sz, abi_sz =
        match name with
        | "ifi" -> (sizeof_ifinfomsg, c_sizeof [ CU8; CU8; CU16; CI32; CU32; CU32 ])
        | "bt" -> (sizeof_bittiming, c_sizeof [ CU32; CU32; CU32; CU32; CU32; CU32; CU32; CU32 ])
        | "btc" -> (sizeof_bittiming_const, c_sizeof [ CChars (Z.to_nat (z_of_int 16)); CU32; CU32; CU32; CU32; CU32; CU32; CU32; CU32 ])
        | "clk" -> (sizeof_clock, c_sizeof [ CU32 ])
        | "cm" -> (sizeof_ctrlmode, c_sizeof [ CU32; CU32 ])
        | "bec" -> (sizeof_berr_counters, c_sizeof [ CU16; CU16 ])
        | "st" -> (sizeof_stats, c_sizeof [ CU32; CU32; CU32; CU32; CU32; CU32 ])
        | _ -> failwith "SZ"
      in
      let m = Printf.sprintf "%x" (nat_to_int model_sz) in
      if m <> v then mism line m
      else if nat_to_int abi_sz <> nat_to_int model_sz then pfail line "size-constant-differs-from-C-sizeof"
  | [ "MI"; f; t; i; fl; c; impl; abi; rt ] ->
      let x = { ifi_family = z_of_hex f; ifi_type = z_of_hex t; ifi_index = i32_of_hex i;
                ifi_flags = z_of_hex fl; ifi_change = z_of_hex c } in
      layout_case "MI" line ~impl ~abi ~rt ~model:(marshal_ifinfomsg x) ~spec:(spec_ifinfomsg x)
        ~fields:(commas [ f; t; i; fl; c ])
  | "MB" :: rest when List.length rest = 11 ->
      let fs = List.filteri (fun k _ -> k < 8) rest in
      let impl = List.nth rest 8 and abi = List.nth rest 9 and rt = List.nth rest 10 in
      let x = bt_of fs in
      layout_case "MB" line ~impl ~abi ~rt ~model:(marshal_bittiming x) ~spec:(spec_bittiming x) ~fields:(commas fs)
  | [ "MC"; m; f; impl; abi; rt ] ->
      let x = { cm_mask = z_of_hex m; cm_flags = z_of_hex f } in
      layout_case "MC" line ~impl ~abi ~rt ~model:(marshal_ctrlmode x) ~spec:(spec_ctrlmode x) ~fields:(commas [ m; f ])
  | [ "U"; name; hex; impl ] ->
      let b = bytes_of_hex hex in
      let m =
        match name with
        | "ifi" -> show_outcome s_ifi (unmarshal_ifinfomsg b)
        | "bt" -> show_outcome s_bt (unmarshal_bittiming b)
        | "btc" -> show_outcome s_btc (unmarshal_bittiming_const b)
        | "clk" -> show_outcome (fun c -> hz (clk_freq c)) (unmarshal_clock b)
        | "cm" -> show_outcome s_cm (unmarshal_ctrlmode b)
        | "bec" -> show_outcome s_bec (unmarshal_berr_counters b)
        | "st" -> show_outcome s_st (unmarshal_stats b)
        | _ -> failwith "U"
      in
      let ok = String.length m > 2 && m.[0] = 'o' in
      note_case ~nontrivial:true ("U-" ^ name ^ if ok then "-ok" else "-err") line;
      if impl = "panic" then pfail line "decoder-panicked-(read-out-of-bounds)"
      else if m <> impl then mism line m
      else if ok then begin
        (* decoding inverts the C layout: the spec image of the decoded value is the input
           (the pad byte of ifinfomsg is not represented in the value) *)
        let img =
          match name with
          | "ifi" -> (match unmarshal_ifinfomsg b with Ok x -> spec_ifinfomsg x | _ -> [])
          | "bt" -> (match unmarshal_bittiming b with Ok x -> spec_bittiming x | _ -> [])
          | "btc" -> (match unmarshal_bittiming_const b with Ok x -> spec_bittiming_const x | _ -> [])
          | "clk" -> (match unmarshal_clock b with Ok x -> spec_clock x | _ -> [])
          | "cm" -> (match unmarshal_ctrlmode b with Ok x -> spec_ctrlmode x | _ -> [])
          | "bec" -> (match unmarshal_berr_counters b with Ok x -> spec_berr_counters x | _ -> [])
          | _ -> (match unmarshal_stats b with Ok x -> spec_stats x | _ -> [])
        in
        let b' = if name = "ifi" then List.mapi (fun k v -> if k = 1 then Z0 else v) b else b in
        if hex_of_bytes img <> hex_of_bytes b' then pfail line "decoded-value-does-not-have-the-input-as-its-C-image"
      end
  | ("E" | "EM" | "R") :: kind :: rest when List.length rest = 11 ->
      let tag = List.hd (split_ws line) in
      let bt = List.filteri (fun k _ -> k < 8) rest in
      let m = List.nth rest 8 and f = List.nth rest 9 and impl = List.nth rest 10 in
      let li = li_of kind bt m f in
      let model =
        match tag with
        | "E" -> show_outcome hex_of_bytes (encode_linkinfo li)
        | "EM" -> show_outcome hex_of_bytes (encode_linkinfo_msg li)
        | _ -> (match encode_linkinfo li with
                | Ok b -> show_outcome s_li (decode_linkinfo b)
                | Error -> "err"
                | OutOfBounds -> "panic")
      in
      note_case ~nontrivial:(String.length model > 3) tag (short line);
      if impl = "panic" then pfail line "panic"
      else if model <> impl then mism line model
      else if tag = "R" && is_can li.li_kind then begin
        (* the property's own clause, evaluated on the implementation's output *)
        let want = "ok:k=" ^ kind ^ ";bt=" ^ commas bt ^ ";" in
        let cm = ";cm=" ^ m ^ "," ^ f ^ ";" in
        let has_sub s sub =
          let n = String.length s and k = String.length sub in
          let rec go i = i + k <= n && (String.sub s i k = sub || go (i + 1)) in
          go 0
        in
        if not (String.length impl >= String.length want && String.sub impl 0 (String.length want) = want && has_sub impl cm)
        then pfail line "decode-of-encode-lost-kind-bittiming-or-ctrlmode"
      end
  | [ ("D" | "DW") as tag; hex; impl ] ->
      let m = show_outcome s_li (decode_linkinfo (bytes_of_hex hex)) in
      note_case ~nontrivial:true (tag ^ if String.length m > 3 then "-ok" else "-err") line;
      if impl = "panic" then pfail line "decoder-panicked-(read-out-of-bounds)"
      else if tag = "DW" && impl <> "err" then pfail line "wrong-size-fixed-attribute-accepted"
      else if m <> impl then mism line m
  | [ "D2"; h1; h2; impl ] ->
      let m =
        match decode_linkinfo (bytes_of_hex h1) with
        | Ok li -> show_outcome s_li (decode_linkinfo_from li (bytes_of_hex h2))
        | Error -> "err"
        | OutOfBounds -> "panic"
      in
      note_case ~nontrivial:true ("D2" ^ if String.length m > 3 then "-ok" else "-err") line;
      if impl = "panic" then pfail line "decoder-panicked-(read-out-of-bounds)" else if m <> impl then mism line m
  | [ "V"; hex; impl ] ->
      let m = show_outcome s_dev (device_unmarshal device_zero (bytes_of_hex hex)) in
      note_case ~nontrivial:true ("V" ^ if String.length m > 5 then "-ok" else "-" ^ m) line;
      if m <> impl then mism line m
  | _ -> failwith ("unparsable line: " ^ short line)


(* ---------------------------------------------------------------- action-sequence tie (Netlink/Program.v), mode `wire` *)
let const_name (names : (int * string) list) (c : z) =
  try "unix." ^ List.assoc (int_of_z c) names with Not_found -> "?const" ^ hz c

let info_consts = [ (1, "IFLA_CAN_BITTIMING"); (2, "IFLA_CAN_BITTIMING_CONST"); (3, "IFLA_CAN_CLOCK"); (5, "IFLA_CAN_CTRLMODE"); (8, "IFLA_CAN_BERR_COUNTER") ]
let linkinfo_consts = [ (1, "IFLA_INFO_KIND"); (2, "IFLA_INFO_DATA"); (3, "IFLA_INFO_XSTATS") ]
let device_consts = [ (3, "IFLA_IFNAME"); (18, "IFLA_LINKINFO") ]

(* the statements of a case body, relative depth 0 *)
let act_body = function
  | AUnmarshalBitTiming -> [ (0, "err = i.BitTiming.unmarshalBinary(nad.Bytes())") ]
  | AUnmarshalBitTimingConst -> [ (0, "err = i.BitTimingConst.unmarshalBinary(nad.Bytes())") ]
  | AUnmarshalClock -> [ (0, "err = i.Clock.unmarshalBinary(nad.Bytes())") ]
  | AUnmarshalCtrlMode -> [ (0, "err = i.CtrlMode.unmarshalBinary(nad.Bytes())") ]
  | AUnmarshalBerr -> [ (0, "err = i.BusErrorCounters.unmarshalBinary(nad.Bytes())") ]
  | AKindCheck ->
      [ (0, "li.linkType = nad.String()"); (0, "if (li.linkType != CanLinkType) && (li.linkType != VcanLinkType)");
        (1, "return fmt.Errorf(\"not a CAN interface\")") ]
  | ANestedInfo -> [ (0, "nad.Nested(li.info.decode)") ]
  | AUnmarshalStats -> [ (0, "err = li.stats.unmarshalBinary(nad.Bytes())") ]
  | AIfname -> [ (0, "d.ifname = ad.String()") ]
  | ANestedLinkinfo -> [ (0, "ad.Nested(d.li.decode)"); (0, "d.li.info.Type = d.li.linkType") ]

(* for <ad>.Next() { switch <ad>.Type() { cases; default: } [if err != nil { return err }] } at depth d *)
let loop_nodes d ad names (w : (z * act) list) errcheck =
  [ (d, "for " ^ ad ^ ".Next()"); (d + 1, "switch " ^ ad ^ ".Type()") ]
  @ List.concat_map
      (fun (c, a) -> (d + 2, "case " ^ const_name names c ^ ":") :: List.map (fun (k, t) -> (d + 3 + k, t)) (act_body a))
      w
  @ [ (d + 2, "default:") ]
  @ if errcheck then [ (d + 1, "if err != nil"); (d + 2, "return err") ] else []

let eact_text names (c, a) =
  match a with
  | EBytesBitTiming -> "nae.Bytes(" ^ const_name names c ^ ", i.BitTiming.marshalBinary())"
  | EBytesCtrlMode -> "nae.Bytes(" ^ const_name names c ^ ", i.CtrlMode.marshalBinary())"
  | EStringKind -> "nae.String(" ^ const_name names c ^ ", li.linkType)"
  | ENestedInfo -> "nae.Nested(" ^ const_name names c ^ ", li.info.encode)"

let wire_refs : (string * (int * string) list) list =
  [ ("Info.decode",
     [ (0, "func(nad *netlink.AttributeDecoder) error"); (1, "var err error") ]
     @ loop_nodes 1 "nad" info_consts info_walk true @ [ (1, "return nil") ]);
    ("linkInfoMsg.decode",
     [ (0, "func(nad *netlink.AttributeDecoder) error"); (1, "var err error") ]
     @ loop_nodes 1 "nad" linkinfo_consts linkinfo_walk true @ [ (1, "return nil") ]);
    ("Device.unmarshalBinary",
     [ (0, "func(data []byte) error"); (1, "if err := d.ifi.unmarshalBinary(data[:unix.SizeofIfInfomsg]); err != nil");
       (2, "return fmt.Errorf(\"couldn't unmarshal ifInfoMsg: %w\", err)");
       (1, "ad, err := netlink.NewAttributeDecoder(data[unix.SizeofIfInfomsg:])"); (1, "if err != nil"); (2, "return err");
       (1, "if d.ifi.Type != unix.ARPHRD_CAN"); (2, "return fmt.Errorf(\"not a CAN interface\")") ]
     @ loop_nodes 1 "ad" device_consts device_walk false
     @ [ (1, "if err := ad.Err(); err != nil"); (2, "return fmt.Errorf(\"couldn't decode link: %w\", err)"); (1, "return nil") ]);
    ("Info.encode",
     ((0, "func(nae *netlink.AttributeEncoder) error") :: List.map (fun x -> (1, eact_text info_consts x)) info_encode_prog)
     @ [ (1, "return nil") ]);
    ("linkInfoMsg.encode",
     ((0, "func(nae *netlink.AttributeEncoder) error") :: List.map (fun x -> (1, eact_text linkinfo_consts x)) linkinfo_encode_prog)
     @ [ (1, "return nil") ]) ]

let rec wire_first_diff i p q =
  match (p, q) with
  | [], [] -> None
  | x :: p', y :: q' -> if x = y then wire_first_diff (i + 1) p' q' else Some i
  | _, _ -> Some i

let wire_main () =
  let fns : (string, (int * string) list ref) Hashtbl.t = Hashtbl.create 16 in
  let order = ref [] and whereis = Hashtbl.create 16 in
  let errors = ref 0 and bad = ref 0 and ended = ref false in
  (try
     while true do
       let l = input_line stdin in
       match split_ws l with
       | "NWFUNC" :: fn :: wh :: _ -> Hashtbl.replace fns fn (ref []); Hashtbl.replace whereis fn wh; order := !order @ [ fn ]
       | "NW" :: fn :: d :: rest -> let r = Hashtbl.find fns fn in r := !r @ [ (int_of_string d, String.concat " " rest) ]
       | "NWERR" :: _ -> incr errors; print_endline l
       | [ "NWEND" ] -> ended := true
       | _ -> ()
     done
   with End_of_file -> ());
  let total = ref 0 and equal = ref 0 in
  List.iter
    (fun fn ->
      let p = !(Hashtbl.find fns fn) in
      total := !total + List.length p;
      match List.assoc_opt fn wire_refs with
      | None -> incr bad; Printf.printf "NWUNKNOWN %s %s || function has no reference program\n" fn (Hashtbl.find whereis fn)
      | Some q -> (
          match wire_first_diff 0 p q with
          | None -> incr equal
          | Some i ->
              incr bad;
              let show l = match List.nth_opt l i with Some (d, t) -> Printf.sprintf "depth %d: %s" d t | None -> "(program ends)" in
              Printf.printf "NWDIFF %s node=%d %s || expected: %s || found: %s\n" fn i (Hashtbl.find whereis fn) (show q) (show p)))
    !order;
  List.iter
    (fun (fn, _) ->
      if not (Hashtbl.mem fns fn) then begin incr bad; Printf.printf "NWMISSING %s - || function of the reference not found in the source\n" fn end)
    wire_refs;
  if not !ended then begin incr errors; print_endline "NWERR ?:0 extractor output ends without NWEND" end;
  Printf.printf "NWSTAT {\"functions\": %d, \"nodes\": %d, \"functions_equal_to_reference\": %d, \"extractor_errors\": %d, \"bad\": %d}\n"
    (List.length !order) !total !equal !errors !bad

let () = if Array.length Sys.argv > 1 && Sys.argv.(1) = "wire" then wire_main () else iter_lines handle
