(* Action-sequence tie of the runner (DESIGN.md 9.6): reads the lines of the strict extractor harness/runwire
   (RW f / RW n / RWERR / RWEND), builds the Coq value [prog] of Runner/Program.v for every extracted function and
   (1) compares it with the reference program of the same name by the extracted [first_diff] (decidable equality,
   first differing node reported), (2) evaluates the extracted checker [prog_lock_ok] (runner functions) /
   [gen_prog_passive] (generated message methods other than Transmit).  This file only tokenises; every decision is
   extracted Coq code.  Output: RWERR (echoed), RWDIFF / RWLOCK / RWMISSING / RWUNKNOWN lines, one RWSTAT json line. *)
open Model
open Common

let rec nat_of_int n = if n <= 0 then O else S (nat_of_int (n - 1))
let rec int_of_nat = function O -> 0 | S n -> 1 + int_of_nat n
let bytes_of_string (s : string) : z list = List.init (String.length s) (fun i -> z_of_int (Char.code s.[i]))
let string_of_bytes (b : z list) : string = String.concat "" (List.map (fun c -> String.make 1 (Char.chr (int_of_z c))) b)

let cls_of = function
  | "lock" -> CLock | "unlock" -> CUnlock | "msg" -> CMsg | "get" -> CGet | "hook" -> CHook | "block" -> CBlock
  | "callfn" -> CCallFn | "go" -> CGo | "call" -> CCall | "test" -> CTest | "assign" -> CAssign | "ret" -> CRet
  | "select" -> CSelect | "trysel" -> CTrySel
  | c -> failwith ("unknown node class " ^ c)
let cls_str = function
  | CLock -> "lock" | CUnlock -> "unlock" | CMsg -> "msg" | CGet -> "get" | CHook -> "hook" | CBlock -> "block"
  | CCallFn -> "callfn" | CGo -> "go" | CCall -> "call" | CTest -> "test" | CAssign -> "assign" | CRet -> "ret"
  | CSelect -> "select" | CTrySel -> "trysel"

let node_str (n : node) =
  Printf.sprintf "%s `%s` -> [%s]" (cls_str n.n_cls) (string_of_bytes n.n_text)
    (String.concat "," (List.map (fun s -> string_of_int (int_of_nat s)) n.n_succ))

type fnrec = { name : string; inst : string; where : string; mutable nodes : (node * string) list }

let starts_with p s = String.length s >= String.length p && String.sub s 0 (String.length p) = p

let run () =
  let fns : fnrec list ref = ref [] in
  let errors = ref 0 and bad = ref 0 in
  let ended = ref false in
  let handle line =
    if starts_with "RWERR " line then begin incr errors; print_endline line end
    else if starts_with "RWEND " line then ended := true
    else if starts_with "RW f " line then begin
      match String.split_on_char ' ' line with
      | _ :: _ :: name :: inst :: where :: _ -> fns := { name; inst; where; nodes = [] } :: !fns
      | _ -> incr errors; print_endline ("RWERR ?:0: malformed line " ^ line)
    end
    else if starts_with "RW n " line then begin
      try
        let bar = Str.search_forward (Str.regexp_string " | ") line 0 in
        let head = String.sub line 0 bar and text = String.sub line (bar + 3) (String.length line - bar - 3) in
        match String.split_on_char ' ' head with
        | [ _; _; name; inst; _idx; cls; "->"; succ; at ] ->
            let succs = if succ = "" then [] else List.map (fun s -> nat_of_int (int_of_string s)) (String.split_on_char ',' succ) in
            let n = { n_cls = cls_of cls; n_text = bytes_of_string text; n_succ = succs } in
            (match !fns with
             | f :: _ when f.name = name && f.inst = inst -> f.nodes <- (n, at) :: f.nodes
             | _ -> failwith "node line outside its function")
        | _ -> failwith "malformed node line"
      with e -> incr errors; print_endline ("RWERR ?:0: " ^ Printexc.to_string e ^ ": " ^ line)
    end
  in
  iter_lines handle;
  let fns = List.rev_map (fun f -> f.nodes <- List.rev f.nodes; f) !fns in
  let total_nodes = ref 0 and equal = ref 0 and lock_ok = ref 0 and lock_checked = ref 0 in
  let seen = Hashtbl.create 64 in
  List.iter (fun f ->
      let p = List.map fst f.nodes in
      total_nodes := !total_nodes + List.length p;
      Hashtbl.replace seen (f.name, f.inst) ();
      let at i = match List.nth_opt f.nodes i with Some (_, a) -> a | None -> "@end" in
      (match lookup_prog (bytes_of_string f.name) ref_progs with
       | None ->
           incr bad;
           Printf.printf "RWUNKNOWN %s %s %s || function has no reference program (an additional method / closure)\n" f.name f.inst f.where
       | Some q -> (
           match first_diff p q with
           | None -> incr equal
           | Some i ->
               incr bad;
               let i = int_of_nat i in
               let show l = match List.nth_opt l i with Some n -> node_str n | None -> "(no such node: program ends)" in
               Printf.printf "RWDIFF %s %s node=%d %s %s || expected: %s || found: %s\n" f.name f.inst i f.where (at i) (show q) (show p)));
      let is_gen = starts_with "gen." f.name in
      if not is_gen then begin
        incr lock_checked;
        if prog_lock_ok p then incr lock_ok
        else begin
          incr bad;
          let i = match first_lock_violation p with Some i -> int_of_nat i | None -> 0 in
          let n = match List.nth_opt p i with Some n -> node_str n | None -> "?" in
          Printf.printf "RWLOCK %s %s node=%d %s %s || %s\n" f.name f.inst i f.where (at i) n
        end
      end
      else if f.name <> "gen.Tx.Transmit" && f.name <> "gen.Node" then begin
        incr lock_checked;
        if gen_prog_passive p then incr lock_ok
        else begin
          incr bad;
          let rec find i = function [] -> (0, "?") | n :: tl -> if gen_node_passive n then find (i + 1) tl else (i, node_str n) in
          let i, n = find 0 p in
          Printf.printf "RWLOCK %s %s node=%d %s %s || generated message method locks / blocks / calls a hook: %s\n" f.name f.inst i f.where (at i) n
        end
      end)
    fns;
  (* completeness: every reference function extracted (runner functions once; generated ones for every message / node) *)
  let insts = List.sort_uniq compare (List.filter_map (fun f -> if f.inst = "-" then None else Some (f.name, f.inst)) fns) in
  let kinds = List.sort_uniq compare (List.map (fun (n, i) ->
      ((if starts_with "gen.Tx." n then "gen.Tx." else if starts_with "gen.Rx." n then "gen.Rx." else "gen.Node"), i)) insts) in
  List.iter (fun (rname, _) ->
      let rn = string_of_bytes rname in
      if not (starts_with "gen." rn) then begin
        if not (Hashtbl.mem seen (rn, "-")) then begin incr bad; Printf.printf "RWMISSING %s - || function of the reference not found in the source\n" rn end
      end
      else
        List.iter (fun (k, i) ->
            if starts_with k rn && not (Hashtbl.mem seen (rn, i)) then begin
              incr bad; Printf.printf "RWMISSING %s %s || method of the reference not found in the generated code\n" rn i end) kinds)
    ref_progs;
  let n_tx = List.length (List.filter (fun (k, _) -> k = "gen.Tx.") kinds) and n_rx = List.length (List.filter (fun (k, _) -> k = "gen.Rx.") kinds) in
  if !ended && n_tx = 0 && List.exists (fun f -> starts_with "gen." f.name) fns then begin
    incr bad; print_endline "RWMISSING gen.Tx.* - || no transmitted message type found in the generated code" end;
  if not !ended then begin incr errors; print_endline "RWERR ?:0: extractor output ends without RWEND (extractor crashed?)" end;
  Printf.printf "RWSTAT {\"functions\": %d, \"nodes\": %d, \"functions_equal_to_reference\": %d, \"lock_checked\": %d, \"lock_ok\": %d, \"generated_tx_messages\": %d, \"generated_rx_messages\": %d, \"extractor_errors\": %d, \"bad\": %d}\n"
    (List.length fns) !total_nodes !equal !lock_checked !lock_ok n_tx n_rx !errors !bad
