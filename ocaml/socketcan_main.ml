(* Model driver for the socketcan family (C06, C07): reads the implementation's observations
   (harness/socketcan/main.go documents the line formats), recomputes each with the extracted Coq
   model AND the extracted Coq specification, reports disagreements.

   MISMATCH  implementation <> specification where the specification is a total function and
             model = specification is a theorem (C06 receive / valid transmit / validate)
   PFAIL     the property's right-hand side (spec_calls of ReceiverSpec.v, transmit of Transmitter.v)
             differs from what the implementation did (C07)
   DISAGREE  implementation <> model on an input the property does not constrain
             (transmitting a frame that does not pass validation) *)
open Model
open Common

let b01 b = if b then "1" else "0"
let bool_of s = s = "1"

let rec nat_of_int n = if n <= 0 then O else S (nat_of_int (n - 1))

(* OCaml's own list functions (Model shadows length/map/...) *)
let llen = List.length
let lmap = List.map

let frame_str (f : frame) =
  Printf.sprintf "%s.%s.%s.%s.%s" (hex_of_z f.fid) (hex_of_z f.flen) (hex_of_data f.fdata) (b01 f.fremote) (b01 f.fext)

let errframe_str (e : errframe) =
  Printf.sprintf "%s.%s.%s.%s.%s.%s.%s" (hex_of_z e.eclass) (hex_of_z e.elostarb) (hex_of_z e.ectrl)
    (hex_of_z e.eprot) (hex_of_z e.eprotloc) (hex_of_z e.etrx) (hex_of_data e.ecsi)

let frame_of_str (s : string) : frame =
  match String.split_on_char '.' s with
  | [ id; len; data; rem; ext ] ->
      { fid = z_of_hex id; flen = z_of_hex len; fdata = data_of_hex data; fremote = bool_of rem; fext = bool_of ext }
  | _ -> failwith ("bad frame: " ^ s)

let error_of_code (s : string) : error =
  match int_of_string ("0x" ^ s) with
  | 0 -> EOF
  | 1 -> ErrNoProgress
  | 2 -> ErrTooLong
  | 3 -> ErrNegativeAdvance
  | 4 -> ErrAdvanceTooFar
  | 5 -> ErrFinalToken
  | n -> EOther (z_of_int n)

let code_of_error (e : error) : string =
  match e with
  | EOF -> "0"
  | ErrNoProgress -> "1"
  | ErrTooLong -> "2"
  | ErrNegativeAdvance -> "3"
  | ErrAdvanceTooFar -> "4"
  | ErrFinalToken -> "5"
  | EOther c -> hex_of_z c

let opt_error_of_code s = if s = "-" then None else Some (error_of_code s)
let code_of_opt_error = function None -> "-" | Some e -> code_of_error e

(* PFAIL lines are collected PER CLAUSE (8 each) and printed at the end ROUND-ROBIN over the clauses: the
   report keeps only the first few violations, and a change that breaks many lines of one kind (e.g. every
   SF script when fileConn.Read drops its byte count) must not hide the clauses checked later in the
   stream (the FC/UD/DC glue lines) - each broken clause shows its own concrete input among the first *)
let clause_order : string list ref = ref []
let clause_lines : (string, string list) Hashtbl.t = Hashtbl.create 16

let pfail line clause expected =
  incr n_mismatch;
  let l = try Hashtbl.find clause_lines clause with Not_found -> (clause_order := !clause_order @ [ clause ]; []) in
  if List.length l < 8 then
    Hashtbl.replace clause_lines clause (l @ [ Printf.sprintf "PFAIL %s || clause=%s expected=%s" line clause expected ])

let flush_pfail () =
  (* the scanner clauses carry indices in their names (frame-0-of-1, frame-1-of-2, ...): the glue clauses
     (three fixed names) go first in every round so that they are not crowded out *)
  let glue, other = List.partition (fun c -> String.length c >= 5 && String.sub c 0 5 = "glue-") !clause_order in
  clause_order := glue @ other;
  for i = 0 to 7 do
    List.iter
      (fun c -> match List.nth_opt (Hashtbl.find clause_lines c) i with Some t -> print_endline t | None -> ())
      !clause_order
  done

(* DISAGREE lines have their own print budget: thousands of them (e.g. every T line with a length
   9..255 when decodeFrame changes) must not use up the budget of the MISMATCH / PFAIL lines that carry
   the concrete failing inputs; they are added to the mismatch count at the end *)
let n_disagree = ref 0

let disagree line expected =
  incr n_disagree;
  if !n_disagree <= 20 then Printf.printf "DISAGREE %s || model=%s\n" line expected

let clip s = if String.length s > 600 then String.sub s 0 600 ^ "..." else s
let clip_long s = if String.length s > 8000 then String.sub s 0 8000 ^ "..." else s

let rec int_of_nat = function O -> 0 | S n -> 1 + int_of_nat n

let split_first c s =
  match String.index_opt s c with
  | Some i -> (String.sub s 0 i, String.sub s (i + 1) (String.length s - i - 1))
  | None -> failwith ("missing '" ^ String.make 1 c ^ "' in " ^ s)

let has_prefix p s = String.length s >= String.length p && String.sub s 0 (String.length p) = p
let tail_from s i = String.sub s i (String.length s - i)

let rec first_diff i a b =
  match (a, b) with
  | x :: a', y :: b' -> if x = y then first_diff (i + 1) a' b' else (i, x, y)
  | [], y :: _ -> (i, "<nothing>", y)
  | x :: _, [] -> (i, x, "<nothing>")
  | [], [] -> (i, "", "")

(* ------------------------------------------------------------------ C06 *)

let rx_str (r : ((frame * bool) * errframe) option) =
  match r with
  | None -> "P"
  | Some ((f, ie), ef) -> Printf.sprintf "1 %s %s %s" (frame_str f) (b01 ie) (errframe_str ef)

let handle_validate line fr ok =
  let f = frame_of_str fr in
  let spec = b01 (s_validb f) in
  let model = b01 (validate f) in
  if spec <> model then failwith ("model and specification differ (validate): " ^ line);
  note_case "V" line;
  if ok <> spec then mismatch line spec

let handle_transmit line fr nw hx err rx =
  let f = frame_of_str fr in
  if not (wf_frameb f) then failwith ("frame out of the Go type ranges: " ^ line);
  let model_bytes = match transmit_bytes f with Some b -> b | None -> failwith "model: transmit_bytes = None" in
  let impl = String.concat " " [ nw; hx; err ] in
  let model_rx =
    match receive16 model_bytes with
    | Some ((g, ie), _) -> Printf.sprintf "1 %s %s" (frame_str g) (b01 ie)
    | None -> "P"
  in
  let impl_rx = String.concat " " rx in
  if s_validb f then begin
    (* the property constrains this case: bytes = struct can_frame, one write, round trip *)
    let spec_b = s_layout f in
    if hex_of_data spec_b <> hex_of_data model_bytes then failwith ("model and specification differ (layout): " ^ line);
    note_case "T-valid" line;
    let expected = "1 " ^ hex_of_data spec_b ^ " 0" in
    if impl <> expected then mismatch line expected
    else begin
      let expected_rx = Printf.sprintf "1 %s 0" (frame_str f) in
      if impl_rx <> expected_rx then mismatch line ("roundtrip " ^ expected_rx)
    end
  end
  else begin
    note_case "T-invalid" line;
    let expected = "1 " ^ hex_of_data model_bytes ^ " 0" in
    if impl <> expected then disagree line expected
    else if impl_rx <> model_rx then disagree line ("rx " ^ model_rx)
  end

let handle_block line blk rest =
  let b = data_of_hex blk in
  if not (block16b b) then failwith ("not a 16-byte block: " ^ line);
  let spec = rx_str (Some (s_decode b)) in
  let model = rx_str (receive16 b) in
  if spec <> model then failwith ("model and specification differ (receive): " ^ line);
  let ((f, ie), _) = s_decode b in
  note_case (if ie then "R-error" else if f.fext then "R-ext" else "R-std") line;
  let impl = String.concat " " rest in
  if impl <> spec then mismatch line spec

(* the blocks as one stream through one receiver, cut into reads at arbitrary offsets: the k-th
   Receive must yield what C06 says about the k-th block - the segmentation must not matter *)
let handle_split line toks =
  let split_bar' l =
    let rec go acc = function [] -> (List.rev acc, []) | "|" :: tl -> (List.rev acc, tl) | x :: tl -> go (x :: acc) tl in
    go [] l
  in
  let blocks_t, rest = split_bar' toks in
  let reads_t, rx_t = split_bar' rest in
  let stream = String.concat "" blocks_t in
  let logged =
    String.concat ""
      (lmap (fun t -> if t.[0] = 'd' then tail_from t 1 else if t = "z" then "" else failwith ("unexpected read in a Q line: " ^ line)) reads_t)
  in
  if not (has_prefix logged stream) then failwith ("the reader's log is not a prefix of the blocks: " ^ line);
  let expected =
    lmap
      (fun blk ->
        let b = data_of_hex blk in
        if not (block16b b) then failwith ("not a 16-byte block: " ^ line);
        if rx_str (Some (s_decode b)) <> rx_str (receive16 b) then failwith ("model and specification differ (receive): " ^ line);
        let ((f, ie), ef) = s_decode b in
        Printf.sprintf "1:%s:%s:%s" (frame_str f) (b01 ie) (errframe_str ef))
      blocks_t
  in
  let nreads = llen (List.filter (fun t -> t.[0] = 'd') reads_t) in
  note_case
    (Printf.sprintf "Q-%s-%s" (if llen blocks_t = 1 then "1blk" else "nblk") (if nreads <= 1 then "1read" else "split"))
    line;
  if rx_t <> expected then mismatch line (String.concat " " expected)

(* ------------------------------------------------------------------ C07 *)

let read_of_token (t : string) : read =
  let n = String.length t in
  match t.[0] with
  | 'z' -> REOF
  | 'd' -> RData (data_of_hex (String.sub t 1 (n - 1)))
  | 'e' -> RErr (error_of_code (String.sub t 1 (n - 1)))
  | 'x' -> (
      match String.index_opt t ':' with
      | Some i -> RDataErr (data_of_hex (String.sub t (i + 1) (n - i - 1)), error_of_code (String.sub t 1 (i - 1)))
      | None -> failwith ("bad read token " ^ t))
  | _ -> failwith ("bad read token " ^ t)

let icpt_str fs = String.concat "," (lmap frame_str fs)

let event_str (e : event) : string =
  match e with
  | EvFrame (ic, f, ie, ef) -> Printf.sprintf "T:%s:%s:%s:%s" (icpt_str ic) (frame_str f) (b01 ie) (errframe_str ef)
  | EvStop (ic, f, err) -> Printf.sprintf "F:%s:%s:%s" (icpt_str ic) (frame_str f) (code_of_opt_error err)
  | EvPanic -> "P"
  | EvHang -> "H"

let rec split_bar acc = function
  | [] -> (List.rev acc, [])
  | "|" :: tl -> (List.rev acc, tl)
  | x :: tl -> split_bar (x :: acc) tl

let read_kinds = Hashtbl.create 16

let handle_script ?(tag = "S") line n toks =
  let reads_t, events_t = split_bar [] toks in
  let rs = lmap read_of_token reads_t in
  let n = int_of_string n in
  let nn = nat_of_int n in
  let spec = lmap event_str (spec_calls nn rs) in
  let model = lmap event_str (receive_calls nn rs) in
  if spec <> model then failwith ("model and specification differ (receive_calls): " ^ clip line);
  (* classification for the coverage report *)
  let bs, e = delivered Z0 rs in
  let nframes = llen bs / 16 in
  let kind =
    (match e with None -> "eof" | Some ErrNoProgress -> "noprogress" | Some _ -> "error")
    ^ (if nframes = 0 then "/0f" else if nframes = 1 then "/1f" else "/nf")
    ^ if llen bs mod 16 <> 0 then "+tail" else ""
  in
  note_case ~nontrivial:(nframes > 0 || e <> None) (tag ^ "-" ^ kind) (clip line);
  let bump k = Hashtbl.replace read_kinds k (1 + try Hashtbl.find read_kinds k with Not_found -> 0) in
  bump (Printf.sprintf "reads<=%d" (let l = llen rs in if l <= 1 then 1 else if l <= 4 then 4 else if l <= 16 then 16 else if l <= 64 then 64 else 100000));
  (* the harness stops after the second false: the last two events must be stops *)
  if events_t <> spec then begin
    let rec first_diff i a b =
      match (a, b) with
      | x :: a', y :: b' -> if x = y then first_diff (i + 1) a' b' else (i, y)
      | [], y :: _ -> (i, y)
      | _ :: _, [] -> (i, "<nothing>")
      | [], [] -> (i, "")
    in
    let i, want = first_diff 0 events_t spec in
    let clause =
      if List.mem "P" events_t then "no-panic"
      else if List.mem "H" events_t then "termination"
      else if i < nframes then Printf.sprintf "frame-%d-of-%d" i nframes
      else "end-of-reception"
    in
    pfail (clip line) clause (Printf.sprintf "call#%d:%s" i (clip want))
  end

let handle_transmit_seq ?(tag = "X") line toks =
  let calls_t, events_t = split_bar [] toks in
  let calls =
    lmap
      (fun c ->
        match String.split_on_char ';' c with
        | [ fr; dl; da; wn; wa ] | [ fr; dl; da; wn; wa; "s" ] ->
            (* ";s": later Writes of the same call would succeed - the model makes one Write only *)
            ( ( bool_of dl,
                { ans_deadline = opt_error_of_code da; ans_write = opt_error_of_code wa; ans_write_n = z_of_hex wn } ),
              frame_of_str fr )
        | _ -> failwith ("bad call " ^ c))
      calls_t
  in
  let results = transmit_all calls in
  let ev_str = function
    | TxSetDeadline -> "D"
    | TxWrite bs -> "W" ^ hex_of_data bs
    | TxIntercept f -> "I" ^ frame_str f
  in
  let res_str = function TxOk -> "R-" | TxErr e -> "R" ^ code_of_error e | TxPanic -> "RP" in
  let expected = List.concat (lmap (fun (evs, r) -> lmap ev_str evs @ [ res_str r ]) results) in
  List.iter
    (fun (((dl, a), _), (_, r)) ->
      let real = function Some (EOther c) -> int_of_z c >= 64 | _ -> false in
      let k =
        if real a.ans_write || real a.ans_deadline then
          (* a real error kind (ENOBUFS, EAGAIN, a net.Error timeout, ...) *)
          Printf.sprintf "X-%s-realerr-%s%s" (if dl then "dl" else "nodl")
            (if real a.ans_deadline then "deadline"
             else match int_of_z a.ans_write_n with 0 -> "write-n0" | 16 -> "write-n16" | _ -> "write-partial")
            (match r with TxOk -> "-ok" | TxErr _ -> "-err" | TxPanic -> "-panic")
        else
        Printf.sprintf "X-%s%s-n%s%s%s" (if dl then "dl" else "nodl")
          (if dl && a.ans_deadline <> None then "-dlfail" else "")
          (hex_of_z a.ans_write_n) (if a.ans_write <> None then "e" else "")
          (match r with TxOk -> "-ok" | TxErr _ -> "-err" | TxPanic -> "-panic")
      in
      let k = if tag = "X" then k else tag ^ "-calls" in
      Hashtbl.replace kinds k (1 + try Hashtbl.find kinds k with Not_found -> 0))
    (List.combine calls results);
  note_case tag line;
  if events_t <> expected then begin
    let clause =
      let count p l = llen (List.filter p l) in
      let isw s = String.length s > 0 && s.[0] = 'W' and isi s = String.length s > 0 && s.[0] = 'I' in
      let res_nil l = List.filter (fun s -> String.length s > 0 && s.[0] = 'R') l in
      if count isw events_t <> count isw expected then "exactly-one-16-byte-write-per-call"
      else if res_nil events_t <> res_nil expected then "result-nil-iff-the-write-returned-nil"
      else if count isi events_t <> count isi expected then "interceptor-iff-write-succeeded"
      else "order-or-content"
    in
    pfail line clause (String.concat " " expected)
  end

(* K goroutines on one shared Transmitter: the multiset of blocks the connection was given must be
   the multiset of the frames' struct can_frame layouts *)
let handle_concurrent line toks =
  let frames_t, blocks_t = split_bar [] toks in
  let frames = lmap frame_of_str frames_t in
  List.iter (fun f -> if not (wf_frameb f && s_validb f) then failwith ("concurrent case with a non-valid frame: " ^ line)) frames;
  let expected = List.sort compare (lmap (fun f -> hex_of_data (s_layout f)) frames) in
  List.iter
    (fun f ->
      match transmit_bytes f with
      | Some b when hex_of_data b = hex_of_data (s_layout f) -> ()
      | _ -> failwith ("model and specification differ (layout): " ^ line))
    frames;
  note_case (Printf.sprintf "C-%d-goroutines" (llen frames)) line;
  let got = List.sort compare blocks_t in
  if got <> expected then pfail line "concurrent-transmit-blocks-differ" (String.concat " " expected)

(* ------------------------------------------------------------------ C07: several receivers / transmitters *)

let event_str_owner (i : int) (e : event) : string =
  let ic fs = String.concat "," (lmap (fun f -> Printf.sprintf "%d@%s" i (frame_str f)) fs) in
  match e with
  | EvFrame (c, f, ie, ef) -> Printf.sprintf "T:%s:%s:%s:%s" (ic c) (frame_str f) (b01 ie) (errframe_str ef)
  | EvStop (c, f, err) -> Printf.sprintf "F:%s:%s:%s" (ic c) (frame_str f) (code_of_opt_error err)
  | EvPanic -> "P"
  | EvHang -> "H"

let id_of t = int_of_string (tail_from t 1)

(* an observation token without its interceptor field *)
let without_icpt (t : string) : string =
  match String.split_on_char ':' t with
  | hd :: _ :: tl -> String.concat ":" (hd :: tl)
  | _ -> t

let handle_multi line toks =
  let ops_t, rest = split_bar [] toks in
  let logs_t, obs_t = split_bar [] rest in
  let logs = Hashtbl.create 8 in
  List.iter
    (fun t ->
      let k, v = split_first '=' t in
      let reads = if v = "" then [] else lmap read_of_token (String.split_on_char ',' v) in
      Hashtbl.replace logs (id_of k) reads)
    logs_t;
  let created = ref [] in
  let ops =
    lmap
      (fun t ->
        match t.[0] with
        | 'n' ->
            let a, b = split_first ':' (tail_from t 1) in
            let i = int_of_string a in
            if List.mem_assoc i !created then failwith ("receiver number used twice: " ^ clip line);
            created := (i, bool_of b) :: !created;
            (nat_of_int i, ONew (bool_of b, try Hashtbl.find logs i with Not_found -> failwith ("no read log: " ^ clip line)))
        | 'r' -> (nat_of_int (id_of t), OReceive)
        | 'c' -> (nat_of_int (id_of t), OClose)
        | _ -> failwith ("bad operation " ^ t))
      ops_t
  in
  let model = receivers_run ops in
  (* the independence theorem (C07_receiver_in_process), re-checked on this instance: receiver i of the
     process model shows what the single-receiver SPECIFICATION says about its own connection *)
  let any_frame = ref false in
  List.iter
    (fun (i, icpt) ->
      let n = llen (List.filter (fun (j, o) -> int_of_nat j = i && o = OReceive) ops) in
      let mine =
        List.concat (lmap (function ObEvent e -> [ event_str e ] | ObClosed -> []) (addressed_to (nat_of_int i) model))
      in
      let rs = Hashtbl.find logs i in
      let spec = lmap (fun e -> event_str (see icpt e)) (spec_calls (nat_of_int n) rs) in
      if mine <> spec then failwith (Printf.sprintf "process model and single-receiver specification differ (receiver %d): %s" i (clip line));
      if List.exists (fun t -> t.[0] = 'T') spec then any_frame := true)
    !created;
  let expected =
    lmap
      (fun (i, o) ->
        let i = int_of_nat i in
        match o with ObClosed -> Printf.sprintf "%d/C-" i | ObEvent e -> Printf.sprintf "%d/%s" i (event_str_owner i e))
      model
  in
  let nclose i = llen (List.filter (fun (j, o) -> int_of_nat j = i && o = OClose) ops) in
  let flags = lmap snd !created in
  let kind =
    Printf.sprintf "M-%drecv%s%s%s" (llen !created)
      (if List.mem true flags && List.mem false flags then "-mixed-icpt" else "")
      (if List.exists (fun (i, _) -> nclose i = 1) !created then "-close" else "")
      (if List.exists (fun (i, _) -> nclose i >= 2) !created then "-reclose" else "")
  in
  note_case ~nontrivial:!any_frame kind (clip_long line);
  if obs_t <> expected then begin
    let idx, got, want = first_diff 0 obs_t expected in
    let clause =
      if List.exists (fun t -> has_prefix "P" (snd (split_first '/' t))) obs_t then "no-panic"
      else if without_icpt got = without_icpt want then "interceptor-exactly-once-per-frame-of-its-own-receiver"
      else "every-receiver-delivers-the-frames-of-its-own-stream"
    in
    pfail (clip_long line) clause (Printf.sprintf "obs#%d:%s (got %s)" idx (clip want) (clip got))
  end

let handle_multi_tx line toks =
  let ops_t, events_t = split_bar [] toks in
  let created = ref [] in
  let ops =
    lmap
      (fun t ->
        let a, b = split_first ':' (tail_from t 1) in
        let i = int_of_string a in
        match t.[0] with
        | 'n' ->
            if List.mem_assoc i !created then failwith ("transmitter number used twice: " ^ line);
            created := (i, bool_of b) :: !created;
            (nat_of_int i, TNew (bool_of b))
        | 't' -> (
            match String.split_on_char ';' b with
            | [ fr; dl; da; wn; wa ] ->
                ( nat_of_int i,
                  TCall
                    ( bool_of dl,
                      { ans_deadline = opt_error_of_code da; ans_write = opt_error_of_code wa; ans_write_n = z_of_hex wn },
                      frame_of_str fr ) )
            | _ -> failwith ("bad call " ^ t))
        | _ -> failwith ("bad operation " ^ t))
      ops_t
  in
  let model = transmitters_run ops in
  (* C07_transmitter_in_process re-checked on this instance *)
  List.iter
    (fun (i, icpt) ->
      let calls =
        List.concat (lmap (fun (j, o) -> match o with TCall (dl, a, f) when int_of_nat j = i -> [ ((dl, a), f) ] | _ -> []) ops)
      in
      if addressed_to (nat_of_int i) model <> lmap (see_tx icpt) (transmit_all calls) then
        failwith (Printf.sprintf "process model and single-transmitter model differ (transmitter %d): %s" i line))
    !created;
  let expected =
    List.concat
      (lmap
         (fun (i, (evs, r)) ->
           let i = int_of_nat i in
           let tag s = Printf.sprintf "%d/%d.%s" i i s in
           lmap (function TxSetDeadline -> tag "D" | TxWrite bs -> tag ("W" ^ hex_of_data bs) | TxIntercept f -> tag ("I" ^ frame_str f)) evs
           @ [ tag (match r with TxOk -> "R-" | TxErr e -> "R" ^ code_of_error e | TxPanic -> "RP") ])
         model)
  in
  let flags = lmap snd !created in
  note_case
    (Printf.sprintf "N-%dtx%s" (llen !created) (if List.mem true flags && List.mem false flags then "-mixed-icpt" else ""))
    line;
  if events_t <> expected then begin
    let idx, got, want = first_diff 0 events_t expected in
    let is_i t = match String.index_opt t '.' with Some k -> k + 1 < String.length t && t.[k + 1] = 'I' | None -> false in
    let clause =
      if llen (List.filter is_i events_t) <> llen (List.filter is_i expected) || is_i got || is_i want then
        "interceptor-of-its-own-transmitter-iff-write-succeeded"
      else "every-transmitter-uses-its-own-connection"
    in
    pfail line clause (Printf.sprintf "event#%d:%s (got %s)" idx want got)
  end

(* ------------------------------------------------------------------ C07: Transmitter + Receiver on one connection *)

let tx_ev_str = function TxSetDeadline -> "D" | TxWrite bs -> "W" ^ hex_of_data bs | TxIntercept f -> "I" ^ frame_str f
let tx_res_str = function TxOk -> "R-" | TxErr e -> "R" ^ code_of_error e | TxPanic -> "RP"

let handle_shared line kind toks =
  let ops_t, rest = split_bar [] toks in
  let reads_t, obs_t = split_bar [] rest in
  let on_file = kind = "can" in
  (* expected observation of every transmit, and the frames that reached the connection *)
  let sent = ref [] in
  let tx_expected t =
    let c = tail_from t 1 in
    if on_file then
      match String.split_on_char ';' c with
      | [ fr; dl; da; wn; wa; "s" ] ->
          let a = { ans_deadline = opt_error_of_code da; ans_write = opt_error_of_code wa; ans_write_n = z_of_hex wn } in
          let evs, r = transmit (bool_of dl) a (frame_of_str fr) in
          String.concat "," (lmap tx_ev_str evs @ [ tx_res_str r ])
      | _ -> failwith ("bad call " ^ t)
    else
      match String.split_on_char ';' c with
      | [ fr; _ ] ->
          (* a real connection accepts every Write: the call succeeds, the 16 bytes are on the wire *)
          let f = frame_of_str fr in
          (match transmit_bytes f with Some b -> sent := RData b :: !sent | None -> failwith "model: transmit_bytes = None");
          "I" ^ frame_str f ^ ",R-"
      | _ -> failwith ("bad call " ^ t)
  in
  let tx_exp = lmap (fun t -> if t.[0] = 't' then Some (tx_expected t) else None) ops_t in
  let rs = if on_file then lmap read_of_token reads_t else List.rev !sent in
  let nrecv = llen (List.filter (fun t -> t = "r") ops_t) in
  let spec = lmap event_str (spec_calls (nat_of_int nrecv) rs) in
  if spec <> lmap event_str (receive_calls (nat_of_int nrecv) rs) then
    failwith ("model and specification differ (receive_calls): " ^ clip line);
  let rec weave exps spec =
    match exps with
    | [] -> []
    | Some e :: tl -> e :: weave tl spec
    | None :: tl -> ( match spec with s :: sp -> s :: weave tl sp | [] -> failwith "weave")
  in
  let expected = weave tx_exp spec in
  note_case ~nontrivial:(List.exists (fun t -> t.[0] = 'T') spec) ("U-" ^ kind) (clip_long line);
  if obs_t <> expected then begin
    let idx, got, want = first_diff 0 obs_t expected in
    let is_rx t = t <> "" && (t.[0] = 'T' || t.[0] = 'F' || t.[0] = 'H' || t.[0] = 'P') in
    let clause =
      if is_rx got || is_rx want then "reception-not-influenced-by-transmission-on-the-same-connection"
      else "transmission-not-influenced-by-reception-on-the-same-connection"
    in
    pfail (clip_long line) clause (Printf.sprintf "obs#%d:%s (got %s)" idx (clip want) (clip got))
  end

(* ------------------------------------------------------------------ C07: packet connections *)

let rec take k l = if k <= 0 then [] else match l with [] -> [] | x :: tl -> x :: take (k - 1) tl

(* The reader hands out datagram k in Read k and discards what does not fit len(p). The model
   (ScanBuffer.v) says how much room Scan offers to each Read; a Read that was offered less is a
   property failure (C07_scan_offers_room), and the frames are those of the datagrams cut to the
   room the MODEL offers. *)
let handle_packets line kind toks =
  let d_t, rest = split_bar [] toks in
  let reads_t, events_t = split_bar [] rest in
  let dgrams = lmap (fun t -> if t = "-" then [] else data_of_hex t) d_t in
  let g = ref geom0 in
  let short = ref None in
  let big = ref false and multi = ref false and frag = ref false in
  let rec walk k ds rs acc =
    match ds with
    | [] -> List.rev acc
    | d :: ds' ->
        let g' = match prepare !g with Some x -> x | None -> failwith ("model: the buffer cannot grow: " ^ clip line) in
        let off = int_of_z (offered g') in
        let len = llen d in
        if len > off then big := true;
        if len >= 32 then multi := true;
        if len mod 16 <> 0 then frag := true;
        let rs' =
          match rs with
          | r :: tl ->
              let lp, _ = split_first ':' r in
              let lenp = int_of_string ("0x" ^ lp) in
              (* less room than modelled is a failure only where it costs bytes of the datagram *)
              if lenp < off && lenp < len && !short = None then short := Some (k, lenp, off, len);
              tl
          | [] -> []
        in
        let n = min off len in
        g := after_read g' (z_of_int n);
        walk (k + 1) ds' rs' (RData (take n d) :: acc)
  in
  let rs = walk 0 dgrams reads_t [] @ if kind = "script" then [ REOF ] else [] in
  let n = llen events_t in
  let nn = nat_of_int n in
  let spec = lmap event_str (spec_calls nn rs) in
  if spec <> lmap event_str (receive_calls nn rs) then failwith ("model and specification differ (receive_calls): " ^ clip line);
  note_case
    (Printf.sprintf "G-%s%s%s%s" kind (if !multi then "-multiframe" else "") (if !frag then "-fragments" else "")
       (if !big then "-oversize" else ""))
    (clip_long line);
  match !short with
  | Some (k, lenp, off, len) ->
      pfail (clip_long line)
        "frames-lost-to-a-short-read-buffer"
        (Printf.sprintf "read#%d: at least %d bytes of room (C07_scan_offers_room), datagram of %d bytes; got len(p)=%d" k off len lenp)
  | None ->
      if events_t <> spec then begin
        let idx, got, want = first_diff 0 events_t spec in
        pfail (clip_long line)
          (if List.mem "P" events_t then "no-panic" else if List.mem "H" events_t then "termination" else "frames-of-the-datagram-stream")
          (Printf.sprintf "call#%d:%s (got %s)" idx (clip want) (clip got))
      end

(* Q with a fault in the read script and a client that keeps calling Receive: the blocks completed
   by the bytes delivered up to and including the first Read that reports an error decode per C06;
   every other call yields nothing (reception stays ended, nothing is decoded from a wrong offset) *)
let handle_split_fault line toks =
  let split_bar' l =
    let rec go acc = function [] -> (List.rev acc, []) | "|" :: tl -> (List.rev acc, tl) | x :: tl -> go (x :: acc) tl in
    go [] l
  in
  let blocks_t, rest = split_bar' toks in
  let reads_t, rx_t = split_bar' rest in
  let stream = String.concat "" blocks_t in
  (* bytes delivered: data of the reads up to and including the first one with an error / EOF *)
  let rec delivered_hex acc = function
    | [] -> acc
    | t :: tl -> (
        match t.[0] with
        | 'd' -> delivered_hex (acc ^ tail_from t 1) tl
        | 'x' -> acc ^ snd (split_first ':' t)
        | _ -> acc)
  in
  let got = delivered_hex "" reads_t in
  if not (has_prefix got stream) then failwith ("the reader's log is not a prefix of the blocks: " ^ line);
  let ncomplete = String.length got / 32 in
  let zero =
    let ((f, ie), ef) = s_decode (List.init 16 (fun _ -> Z0)) in
    Printf.sprintf "0:%s:%s:%s" (frame_str f) (b01 ie) (errframe_str ef)
  in
  let expected =
    List.mapi
      (fun i _ ->
        if i < ncomplete then begin
          let b = data_of_hex (List.nth blocks_t i) in
          if rx_str (Some (s_decode b)) <> rx_str (receive16 b) then failwith ("model and specification differ (receive): " ^ line);
          let ((f, ie), ef) = s_decode b in
          Printf.sprintf "1:%s:%s:%s" (frame_str f) (b01 ie) (errframe_str ef)
        end
        else zero)
      rx_t
  in
  let fault = List.exists (fun t -> t.[0] = 'x') reads_t in
  note_case (Printf.sprintf "QF-%s-%dof%d" (if fault then "data+error" else "error") ncomplete (llen blocks_t)) line;
  if rx_t <> expected then mismatch line (String.concat " " expected)

(* histories of calls by several transmitters on one conn: the model applies to every call *)
let handle_history line toks =
  let calls_t, events_t = split_bar [] toks in
  let expected =
    lmap
      (fun c ->
        let tx, rest = split_first ':' c in
        match String.split_on_char ';' rest with
        | [ fr; k; da; wn; wa ] ->
            let f = frame_of_str fr in
            let a = { ans_deadline = opt_error_of_code da; ans_write = opt_error_of_code wa; ans_write_n = z_of_hex wn } in
            let evs, r = transmit (k <> "0") a f in
            String.concat ","
              (lmap
                 (function
                   | TxSetDeadline -> "D" ^ k
                   | TxWrite bs -> "W" ^ hex_of_data bs
                   | TxIntercept g -> Printf.sprintf "I%s.%s" tx (frame_str g))
                 evs
              @ [ (match r with TxOk -> "R-" | TxErr e -> "R" ^ code_of_error e | TxPanic -> "RP") ])
        | _ -> failwith ("bad call " ^ c))
      calls_t
  in
  let ntx = llen (List.sort_uniq compare (lmap (fun c -> fst (split_first ':' c)) calls_t)) in
  note_case (Printf.sprintf "Y-%dtx" ntx) line;
  if events_t <> expected then begin
    let idx, got, want = first_diff 0 events_t expected in
    let has_d t = List.exists (fun e -> e <> "" && e.[0] = 'D') (String.split_on_char ',' t) in
    let clause =
      if has_d got <> has_d want || List.filter (fun e -> e <> "" && e.[0] = 'D') (String.split_on_char ',' got)
                                   <> List.filter (fun e -> e <> "" && e.[0] = 'D') (String.split_on_char ',' want)
      then "every-call-sets-the-deadline-of-its-own-context-before-writing"
      else "per-call-events"
    in
    pfail line clause (Printf.sprintf "call#%d:%s (got %s)" idx want got)
  end


(* ---------------------------------------------------------------- connection glue (Glue.v) *)
let label_of_code = function
  | "0" -> LRead | "1" -> LWrite | "2" -> LSetDeadline | "3" -> LSetReadDeadline | "4" -> LSetWriteDeadline
  | "5" -> LClose | s -> failwith ("bad label " ^ s)

let code_of_label = function
  | LRead -> "0" | LWrite -> "1" | LSetDeadline -> "2" | LSetReadDeadline -> "3" | LSetWriteDeadline -> "4" | LClose -> "5"

let gerr_of_str (s : string) : gerr =
  let rec go = function
    | [] -> failwith ("bad error " ^ s)
    | [ "n" ] -> GNil
    | [ t ] when t.[0] = 'l' -> GLeaf (z_of_hex (tail_from t 1))
    | w :: tl ->
        let wr =
          match w.[0] with
          | 'P' -> WPath
          | 'S' -> WSyscall
          | 'F' -> WFmt
          | 'O' ->
              let l, n = split_first '-' (tail_from w 1) in
              WOp (label_of_code l, z_of_hex n)
          | _ -> failwith ("bad wrapper " ^ w)
        in
        GWrap (wr, go tl)
  in
  go (String.split_on_char '.' s)

let rec str_of_gerr (e : gerr) : string =
  match e with
  | GNil -> "n"
  | GLeaf c -> "l" ^ hex_of_z c
  | GWrap (w, inner) ->
      (match w with
       | WPath -> "P"
       | WSyscall -> "S"
       | WFmt -> "F"
       | WOp (l, n) -> "O" ^ code_of_label l ^ "-" ^ hex_of_z n)
      ^ "." ^ str_of_gerr inner

let hex_or d = if d = [] then "-" else hex_of_data d
let data_or s = if s = "-" then [] else data_of_hex s

let gop_of_str (t : string) : gop =
  let arg = tail_from t 1 in
  match t.[0] with
  | 'R' -> OpRead (z_of_hex arg)
  | 'W' -> OpWrite (data_or arg)
  | 'D' -> OpSetDeadline (z_of_hex arg)
  | 'E' -> OpSetReadDeadline (z_of_hex arg)
  | 'F' -> OpSetWriteDeadline (z_of_hex arg)
  | 'C' -> OpClose
  | _ -> failwith ("bad op " ^ t)

let str_of_ucall = function
  | CRead n -> "R" ^ hex_of_z n
  | CWrite bs -> "W" ^ hex_or bs
  | CSetDeadline t -> "D" ^ hex_of_z t
  | CSetReadDeadline t -> "E" ^ hex_of_z t
  | CSetWriteDeadline t -> "F" ^ hex_of_z t
  | CClose -> "C"

let answer_of_str (t : string) : answer =
  match String.split_on_char ':' t with
  | [ n; d; e ] -> { an = z_of_hex n; adata = data_or d; aerr = gerr_of_str e }
  | _ -> failwith ("bad answer " ^ t)

let obs_str (calls : string list) (r : gresult) =
  Printf.sprintf "%s=%s:%s:%s" (if calls = [] then "-" else String.concat "," calls) (hex_of_z r.rn) (hex_or r.rdata)
    (str_of_gerr r.rerr)

let rec split_bars acc cur = function
  | [] -> List.rev (List.rev cur :: acc)
  | "|" :: tl -> split_bars (List.rev cur :: acc) [] tl
  | t :: tl -> split_bars acc (t :: cur) tl

let has_fault (answers : answer list) = List.exists (fun a -> a.aerr <> GNil) answers

let compare_obs line clause (expected : string list) (obs : string list) =
  if expected <> obs then begin
    let rec first i a b =
      match (a, b) with
      | x :: ta, y :: tb -> if x = y then first (i + 1) ta tb else (i, x, y)
      | x :: _, [] -> (i, x, "(missing)")
      | [], y :: _ -> (i, "(nothing)", y)
      | [], [] -> (i, "", "")
    in
    let i, want, got = first 0 expected obs in
    pfail (clip_long line) clause (Printf.sprintf "op#%d:%s (got %s)" i want got)
  end

let handle_fileconn line toks =
  match split_bars [] [] toks with
  | [ net :: ops_t; ans_t; obs ] ->
      let ops = lmap gop_of_str ops_t and script = lmap answer_of_str ans_t in
      let outs = fileconn_run (z_of_hex net) ops script in
      let expected = lmap (fun (calls, r) -> obs_str (lmap str_of_ucall calls) r) outs in
      note_case (if has_fault script then "FC-fault" else "FC") (clip_long line);
      compare_obs line "glue-fileconn-forwards-and-wraps" expected obs
  | _ -> failwith ("bad FC line: " ^ clip line)

let handle_udp line kind toks =
  match split_bars [] [] toks with
  | [ ops_t; rx_t; tx_t; obs ] ->
      let ops = lmap gop_of_str ops_t in
      let srx = lmap answer_of_str rx_t and stx = lmap answer_of_str tx_t in
      let outs = udp_run ops srx stx in
      let side_call (s, c) = (match s with Rx -> "r/" | Tx -> "t/") ^ str_of_ucall c in
      let expected = lmap (fun (calls, r) -> obs_str (lmap side_call calls) r) outs in
      note_case ("UD-" ^ kind ^ if has_fault (srx @ stx) then "-fault" else "") (clip_long line);
      compare_obs line "glue-udptxrx-forwards" expected obs
  | _ -> failwith ("bad UD line: " ^ clip line)

let handle_dial line scen ck connk perr rest =
  let p = { pconn = connk <> "0"; perr = (if perr = "1" then GLeaf (z_of_int 5) else GNil) } in
  let schedules =
    match scen with
    | "1" -> [ [ EProvider; ESelect false; ECtxDone ] ]
    | "2" | "4" -> [ [ ECtxDone; ESelect true; EProvider; ECleanup ] ]
    | "3" -> [ [ ECtxDone; EProvider; ESelect true; ECleanup ]; [ ECtxDone; EProvider; ESelect false; ECleanup ] ]
    | _ -> failwith ("bad scenario " ^ scen)
  in
  let show es =
    let s = dial_run p dial0 es in
    let rc, re =
      match s.d_ret with
      | DWaiting -> ("?", "waiting")
      | DResult (c, e) -> (b01 c, if e = GNil then "-" else "p")
      | DCtxErr -> ("0", ck)
    in
    Printf.sprintf "%s %s %s" rc re (hex_of_z s.d_closes)
  in
  let expected = lmap show schedules in
  let got = String.concat " " rest in
  note_case (Printf.sprintf "DC-scenario%s-conn%s" scen connk) line;
  if not (List.mem got expected) then pfail line "glue-dialctx-returns-or-closes-once" (String.concat " or " expected)

(* ---------------------------------------------------------------- the emulated bus (Emulator.v) *)
let handle_emulator line toks =
  match split_bars [] [] toks with
  | [ ops_t; obs ] ->
      let bad_err = ref None in
      let ops =
        lmap
          (fun t ->
            let arg = tail_from t 1 in
            match t.[0] with
            | 'r' | 'd' -> EConnect (z_of_int (int_of_string arg))
            | 'x' -> EDisconnect (z_of_int (int_of_string arg))
            | 't' -> (
                match String.split_on_char ':' arg with
                | [ who; fr; err ] ->
                    if who = "-" && err = "1" then bad_err := Some t;
                    ETransmit ((if who = "-" then None else Some (z_of_int (int_of_string who))), frame_of_str fr)
                | _ -> failwith ("bad transmit " ^ t))
            | _ -> failwith ("bad emulator op " ^ t))
          ops_t
      in
      let b = emu_run [] ops in
      let ntx = llen (List.filter (fun t -> t.[0] = 't') ops_t) in
      note_case ~nontrivial:(ntx > 0) (Printf.sprintf "E-%dtransmits" (min ntx 6)) line;
      (match !bad_err with
       | Some t -> pfail line "emulator-transmit-succeeds" ("no error for " ^ t)
       | None -> ());
      List.iter
        (fun o ->
          let id, got = split_first '=' o in
          let inbox = inbox_of (z_of_int (int_of_string id)) b in
          let want =
            lmap (fun (_, d) -> match receive16 d with Some ((f, _), _) -> frame_str f | None -> "undecodable") inbox
          in
          let want_s = if want = [] then "-" else String.concat "," want in
          if want_s <> got then
            pfail line "emulator-delivers-each-frame-once-to-every-connected-endpoint"
              (Printf.sprintf "endpoint %s: %s" id want_s))
        obs
  | _ -> failwith ("bad E line: " ^ clip line)

let handle line =
  match split_ws line with
  | "E" :: toks -> handle_emulator line toks
  | "FC" :: toks -> handle_fileconn line toks
  | "UD" :: kind :: toks -> handle_udp line kind toks
  | "DC" :: scen :: ck :: connk :: perr :: "|" :: rest -> handle_dial line scen ck connk perr rest
  | "C" :: toks -> handle_concurrent line toks
  | [ "V"; fr; ok ] -> handle_validate line fr ok
  | "T" :: fr :: "|" :: nw :: hx :: err :: "|" :: rx -> handle_transmit line fr nw hx err rx
  | "R" :: blk :: "|" :: rest -> handle_block line blk rest
  | "S" :: n :: toks -> handle_script line n toks
  | "X" :: toks -> handle_transmit_seq line toks
  | "SF" :: n :: toks -> handle_script ~tag:"SF" line n toks
  | "XF" :: toks -> handle_transmit_seq ~tag:"XF" line toks
  | "U" :: kind :: toks -> handle_shared line kind toks
  | "G" :: kind :: toks -> handle_packets line kind toks
  | "Q" :: toks -> handle_split line toks
  | "QF" :: toks -> handle_split_fault line toks
  | "Y" :: toks -> handle_history line toks
  | "M" :: toks -> handle_multi line toks
  | "N" :: toks -> handle_multi_tx line toks
  | _ -> failwith ("unparsable line: " ^ clip line)


(* ---------------------------------------------------------------- action-sequence tie (Program.v), mode `wire` *)
let act_text = function
  | RScan -> "ok := r.sc.Scan()"
  | RResetFrame -> "r.frame = frame{}"
  | RUnmarshalToken -> "r.frame.unmarshalBinary(r.sc.Bytes())"
  | RInterceptDecoded -> "r.opts.frameInterceptor(r.frame.decodeFrame())"
  | TDeclFrame -> "var scf frame"
  | TEncode -> "scf.encodeFrame(f)"
  | TMakeBuf -> "data := make([]byte, lengthOfFrame)"
  | TMarshal -> "scf.marshalBinary(data)"
  | TIntercept -> "t.opts.frameInterceptor(f)"

let node_text (recv : string) (n : node) : string =
  match n with
  | NAct a -> act_text a
  | NIf COk -> "if ok"
  | NIf CHasInterceptor -> "if " ^ recv ^ ".opts.frameInterceptor != nil"
  | NIf CCtxDeadline -> "if deadline, ok := ctx.Deadline(); ok"
  | NIfErr ESetWriteDeadline -> "if err := t.conn.SetWriteDeadline(deadline); err != nil"
  | NIfErr EWrite -> "if _, err := t.conn.Write(data); err != nil"
  | NReturn RetOk -> "return ok"
  | NReturn RetWrapErr -> "return fmt.Errorf(\"transmit frame: %w\", err)"
  | NReturn RetNil -> "return nil"

(* a reference function = its signature line + nodes (depth, text); the two proved programs come from the
   extracted Coq constants (bodies start at depth 1), the remaining small functions are reference texts *)
let of_prog recv sig_ (p : (nat * node) list) =
  (0, sig_) :: lmap (fun (d, n) -> (1 + int_of_nat d, node_text recv n)) p

let wire_refs : (string * (int * string) list) list =
  [ ("Receiver.Receive", of_prog "r" "func() bool" receive_prog);
    ("Transmitter.TransmitFrame", of_prog "t" "func(ctx context.Context, f can.Frame) error" transmit_prog);
    ("NewReceiver",
     [ (0, "func(rc io.ReadCloser, opt ...ReceiverOption) *Receiver"); (1, "opts := receiverOpts{}");
       (1, "for _, f := range opt"); (2, "f(&opts)"); (1, "sc := bufio.NewScanner(rc)"); (1, "sc.Split(scanFrames)");
       (1, "return &Receiver{ rc: rc, opts: opts, sc: sc, }") ]);
    ("scanFrames",
     [ (0, "func(data []byte, _ bool) (int, []byte, error)"); (1, "if len(data) < lengthOfFrame");
       (2, "return 0, nil, nil"); (1, "return lengthOfFrame, data[0:lengthOfFrame], nil") ]);
    ("Receiver.HasErrorFrame", [ (0, "func() bool"); (1, "return r.frame.isError()") ]);
    ("Receiver.Frame", [ (0, "func() can.Frame"); (1, "return r.frame.decodeFrame()") ]);
    ("Receiver.ErrorFrame", [ (0, "func() ErrorFrame"); (1, "return r.frame.decodeErrorFrame()") ]);
    ("Receiver.Err", [ (0, "func() error"); (1, "return r.sc.Err()") ]);
    ("Receiver.Close", [ (0, "func() error"); (1, "return r.rc.Close()") ]);
    ("ReceiverFrameInterceptor",
     [ (0, "func(i FrameInterceptor) ReceiverOption"); (1, "return func(o *receiverOpts) { o.frameInterceptor = i }") ]);
    ("NewTransmitter",
     [ (0, "func(conn net.Conn, opt ...TransmitterOption) *Transmitter"); (1, "opts := transmitterOpts{}");
       (1, "for _, f := range opt"); (2, "f(&opts)"); (1, "return &Transmitter{ conn: conn, opts: opts, }") ]);
    ("Transmitter.TransmitMessage",
     [ (0, "func(ctx context.Context, m can.Message) error"); (1, "f, err := m.MarshalFrame()"); (1, "if err != nil");
       (2, "return fmt.Errorf(\"transmit message: %w\", err)"); (1, "return t.TransmitFrame(ctx, f)") ]);
    ("Transmitter.Close", [ (0, "func() error"); (1, "return t.conn.Close()") ]);
    ("TransmitterFrameInterceptor",
     [ (0, "func(i FrameInterceptor) TransmitterOption"); (1, "return func(o *transmitterOpts) { o.frameInterceptor = i }") ]) ]

let wire_main () =
  let fns : (string, (int * string) list ref) Hashtbl.t = Hashtbl.create 16 in
  let order = ref [] and whereis = Hashtbl.create 16 in
  let errors = ref 0 and bad = ref 0 and ended = ref false in
  (try
     while true do
       let l = input_line stdin in
       match split_ws l with
       | "SWFUNC" :: fn :: wh :: _ ->
           Hashtbl.replace fns fn (ref []);
           Hashtbl.replace whereis fn wh;
           order := !order @ [ fn ]
       | "SW" :: fn :: d :: rest ->
           let r = Hashtbl.find fns fn in
           r := !r @ [ (int_of_string d, String.concat " " rest) ]
       | "SWERR" :: _ -> incr errors; print_endline l
       | [ "SWEND" ] -> ended := true
       | _ -> ()
     done
   with End_of_file -> ());
  let total = ref 0 and equal = ref 0 in
  let eqb (a : int * string) b = a = b in
  List.iter
    (fun fn ->
      let p = !(Hashtbl.find fns fn) in
      total := !total + llen p;
      match List.assoc_opt fn wire_refs with
      | None ->
          incr bad;
          Printf.printf "SWUNKNOWN %s %s || function has no reference program\n" fn (Hashtbl.find whereis fn)
      | Some q -> (
          match Model.first_diff eqb p q with
          | None -> incr equal
          | Some i ->
              incr bad;
              let i = int_of_nat i in
              let show l = match List.nth_opt l i with Some (d, t) -> Printf.sprintf "depth %d: %s" d t | None -> "(program ends)" in
              Printf.printf "SWDIFF %s node=%d %s || expected: %s || found: %s\n" fn i (Hashtbl.find whereis fn) (show q) (show p)))
    !order;
  List.iter
    (fun (fn, _) ->
      if not (Hashtbl.mem fns fn) then begin
        incr bad;
        Printf.printf "SWMISSING %s - || function of the reference not found in the source\n" fn
      end)
    wire_refs;
  if not !ended then begin incr errors; print_endline "SWERR ?:0 extractor output ends without SWEND" end;
  Printf.printf
    "SWSTAT {\"functions\": %d, \"nodes\": %d, \"functions_equal_to_reference\": %d, \"proved_programs\": 2, \"extractor_errors\": %d, \"bad\": %d}\n"
    (llen !order) !total !equal !errors !bad

let () =
  if Array.length Sys.argv > 1 && Sys.argv.(1) = "wire" then (wire_main (); exit 0);
  (try
     while true do
       let l = input_line stdin in
       if l <> "" then handle l
     done
   with End_of_file -> ());
  flush_pfail ();
  Hashtbl.iter (fun k v -> Hashtbl.replace kinds k v) read_kinds;
  n_mismatch := !n_mismatch + !n_disagree;
  print_stats ()
