(* Reader of the canonical database dump (checks/genprogs.py, harness/gencommon/dbdump.go)
   into the extracted Coq records of Descriptor/Types.v. *)
open Model
open Common

let bytes_of_s (tok : string) : z list =
  if String.length tok < 2 || String.sub tok 0 2 <> "s:" then failwith ("expected s:<hex>, got " ^ tok);
  let h = String.sub tok 2 (String.length tok - 2) in
  List.init (String.length h / 2) (fun i -> z_of_int ((hexval h.[2 * i] * 16) + hexval h.[(2 * i) + 1]))

let string_of_s tok =
  let h = String.sub tok 2 (String.length tok - 2) in
  String.init (String.length h / 2) (fun i -> Char.chr ((hexval h.[2 * i] * 16) + hexval h.[(2 * i) + 1]))

let string_of_bytes (b : z list) : string =
  String.init (List.length b) (fun i -> Char.chr (int_of_z (List.nth b i)))

type cur = { mutable toks : string list }
let next c = match c.toks with [] -> failwith "db line too short" | t :: tl -> c.toks <- tl; t
let nexti c = int_of_string ("0x" ^ next c)
let nextb c = next c = "1"

let signal_of_line (l : string) : signal =
  let c = { toks = split_ws l } in
  if next c <> "SIGD" then failwith "expected SIGD";
  let name = bytes_of_s (next c) in
  let start = z_of_hex (next c) in
  let len = z_of_hex (next c) in
  let be = nextb c in
  let sg = nextb c in
  let fl = nextb c in
  let mx = nextb c in
  let md = nextb c in
  let mv = z_of_hex (next c) in
  let off = z_of_hex (next c) in
  let sc = z_of_hex (next c) in
  let mn = z_of_hex (next c) in
  let mxx = z_of_hex (next c) in
  let u = bytes_of_s (next c) in
  let d = bytes_of_s (next c) in
  let def = z_of_i64hex (next c) in
  let nvd = nexti c in
  let vds = List.init nvd (fun _ -> ()) |> List.map (fun () ->
      let v = z_of_i64hex (next c) in
      let t = bytes_of_s (next c) in
      { vdesc_value = v; vdesc_text = t }) in
  let nr = nexti c in
  let rc = List.init nr (fun _ -> ()) |> List.map (fun () -> bytes_of_s (next c)) in
  { s_name = name; s_start = start; s_length = len; s_big_endian = be; s_signed = sg; s_float = fl;
    s_multiplexer = mx; s_multiplexed = md; s_mux_value = mv; s_offset = off; s_scale = sc; s_min = mn;
    s_max = mxx; s_unit = u; s_description = d; s_value_descriptions = vds; s_receivers = rc; s_default = def }

let database_of_lines (lines : string list) : database =
  match lines with
  | [] -> failwith "empty db dump"
  | hd :: rest ->
      let c = { toks = split_ws hd } in
      if next c <> "DB" then failwith "expected DB";
      let src = bytes_of_s (next c) in
      let ver = bytes_of_s (next c) in
      let _nm = nexti c in
      let _nn = nexti c in
      let nodes = ref [] and msgs = ref [] in
      let rec go = function
        | [] -> ()
        | l :: tl -> (
            let c = { toks = split_ws l } in
            match next c with
            | "NODE" ->
                let n = bytes_of_s (next c) in
                let d = bytes_of_s (next c) in
                nodes := { node_name = n; node_description = d } :: !nodes;
                go tl
            | "MSG" ->
                let name = bytes_of_s (next c) in
                let id = z_of_hex (next c) in
                let ext = nextb c in
                let len = z_of_hex (next c) in
                let st = (match next c with "1" -> SendCyclic | "2" -> SendEvent | _ -> SendNone) in
                let desc = bytes_of_s (next c) in
                let sender = bytes_of_s (next c) in
                let cyc = z_of_i64hex (next c) in
                let del = z_of_i64hex (next c) in
                let ns = nexti c in
                let rec take k acc rest = if k = 0 then (List.rev acc, rest) else
                    match rest with l :: tl -> take (k - 1) (signal_of_line l :: acc) tl | [] -> failwith "missing SIGD" in
                let sigs, rest = take ns [] tl in
                msgs := { msg_name = name; msg_id = id; msg_extended = ext; msg_length = len; msg_send_type = st;
                          msg_description = desc; msg_signals = sigs; msg_sender = sender; msg_cycle_time = cyc;
                          msg_delay_time = del } :: !msgs;
                go rest
            | t -> failwith ("unexpected db line " ^ t))
      in
      go rest;
      { db_source_file = src; db_version = ver; db_messages = List.rev !msgs; db_nodes = List.rev !nodes }

let read_lines (path : string) : string list =
  let ic = open_in path in
  let rec go acc = match input_line ic with l -> go (if l = "" then acc else l :: acc) | exception End_of_file -> close_in ic; List.rev acc in
  go []

let load_database (dir : string) (pkg : string) : database =
  database_of_lines (read_lines (Filename.concat dir (pkg ^ ".db")))
