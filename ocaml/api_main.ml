(* deps: gendb.ml *)
(* Model driver for the generator API (C11). Reads the observation lines of
     harness/api      (SRC  ...: exported declarations read from the generated source) and
     harness/genrun   (REFL ...: mode api, reflection on the built packages)
   and compares them with [api_decls (api_of_db db)] / [enum_string] of the database each program
   DENOTES (argv[1]/<pkg>.db written by the program generator). It also evaluates, per program,
   the class predicate [in_class43] and the typing judgement [db_convs_ok], and per signal the
   property's own predicates [prim_type_spec] / [has_physical_spec] on what was OBSERVED. *)
open Model
open Common
open Gendb

let dbdir = Sys.argv.(1)
let dbs : (string, database) Hashtbl.t = Hashtbl.create 16
let db_of pkg = match Hashtbl.find_opt dbs pkg with Some d -> d | None -> let d = load_database dbdir pkg in Hashtbl.replace dbs pkg d; d

let s_of = string_of_bytes
let dec z = s_of (itoa z)

let basic_text = function
  | BBool -> "bool" | BFloat32 -> "float32" | BFloat64 -> "float64"
  | BInt n -> "int" ^ dec n | BUint n -> "uint" ^ dec n
let gtype_text = function
  | GBasic b -> basic_text b | GNamed n -> s_of n | GPtr n -> "*" ^ s_of n | GExt t -> s_of t
let types_text ts = "(" ^ String.concat "," (List.map gtype_text ts) ^ ")"
let sig_text g = s_of g.g_name ^ types_text g.g_params ^ types_text g.g_results
let const_text = function CBool true -> "true" | CBool false -> "false" | CInt z -> dec z
let or_dash = function [] -> "-" | l -> String.concat ";" l
(* interface members are compared as a set: their order is not part of the API *)
let member_text = function IEmbed t -> "+" ^ gtype_text t | IMethod g -> sig_text g
let field_text = function SEmbed t -> "+" ^ gtype_text t | SField (n, t) -> s_of n ^ ":" ^ gtype_text t
let decl_text = function
  | DIface (n, ms) -> ("IFACE", "IFACE " ^ s_of n ^ " " ^ or_dash (List.sort compare (List.map member_text ms)))
  | DStruct (n, fs) -> ("STRUCT", "STRUCT " ^ s_of n ^ " " ^ or_dash (List.map field_text fs))
  | DNamed (n, b) -> ("NAMED", "NAMED " ^ s_of n ^ " " ^ basic_text b)
  | DFunc g -> ("FUNC", "FUNC " ^ sig_text g)
  | DMethod (r, g) -> ("METHOD", "METHOD " ^ gtype_text r ^ " " ^ sig_text g)
  | DConst (n, t, v) -> ("CONST", "CONST " ^ s_of n ^ " " ^ s_of t ^ " " ^ const_text v)

let normalise_observed (toks : string list) : string =
  match toks with
  | [ "IFACE"; n; ms ] ->
      "IFACE " ^ n ^ " " ^ (if ms = "-" then "-" else String.concat ";" (List.sort compare (String.split_on_char ';' ms)))
  | l -> String.concat " " l

(* per package: observed declaration lines of the source, observed reflected lines *)
let src : (string, string list ref) Hashtbl.t = Hashtbl.create 16
let refl : (string, string list ref) Hashtbl.t = Hashtbl.create 16
let push tbl pkg l = match Hashtbl.find_opt tbl pkg with Some r -> r := l :: !r | None -> Hashtbl.replace tbl pkg (ref [ l ])
let get tbl pkg = match Hashtbl.find_opt tbl pkg with Some r -> List.rev !r | None -> []

let n_programs = ref 0
let n_outside = ref 0
let cov : (string, int) Hashtbl.t = Hashtbl.create 64
let bump k = Hashtbl.replace cov k (1 + try Hashtbl.find cov k with Not_found -> 0)

let prim_text p = match p with PFloat32 -> "float32" | PBool -> "bool" | PInt n -> "int" ^ dec n | PUint n -> "uint" ^ dec n

(* expected vs observed sets of lines; one case per line *)
let compare_sets pkg tag (expected : (string * string) list) (observed : string list) =
  let obs = Hashtbl.create 64 in
  List.iter (fun l -> Hashtbl.replace obs l ()) observed;
  let exp = Hashtbl.create 64 in
  List.iter (fun (kind, l) ->
      Hashtbl.replace exp l ();
      let line = tag ^ " " ^ pkg ^ " " ^ l in
      note_case kind line;
      if not (Hashtbl.mem obs l) then mismatch (tag ^ " " ^ pkg ^ " MISSING") l) expected;
  List.iter (fun l ->
      if not (Hashtbl.mem exp l) then begin
        note_case "unexpected" (tag ^ " " ^ pkg ^ " " ^ l);
        (* name the model's declaration of the same kind and name, if any *)
        let key = match split_ws l with k :: n :: _ -> k ^ " " ^ (List.hd (String.split_on_char '(' n)) | _ -> l in
        let m = List.filter (fun (_, e) -> String.length e >= String.length key && String.sub e 0 (String.length key) = key) expected in
        mismatch (tag ^ " " ^ pkg ^ " " ^ l) (match m with (_, e) :: _ -> e | [] -> "(no such declaration)")
      end) observed

(* the property's own predicates on the OBSERVED accessor set / field type of every signal *)
let check_signals pkg (db : database) (observed : string list) =
  let obs = Hashtbl.create 64 in
  List.iter (fun l -> Hashtbl.replace obs l ()) observed;
  let structs = Hashtbl.create 16 and named = Hashtbl.create 16 in
  List.iter (fun l ->
      match split_ws l with
      | [ "STRUCT"; n; fs ] -> Hashtbl.replace structs n (if fs = "-" then [] else String.split_on_char ';' fs)
      | [ "NAMED"; n; u ] -> Hashtbl.replace named n u
      | _ -> ()) observed;
  List.iter (fun (m : message) ->
      let mn = s_of m.msg_name in
      let fields = try Hashtbl.find structs mn with Not_found -> [] in
      List.iter (fun (s : signal) ->
          let sn = s_of s.s_name in
          let line = Printf.sprintf "SIG %s %s.%s" pkg mn sn in
          let fld = List.find_opt (fun f -> match String.split_on_char ':' f with [ a; _ ] -> a = "xxx_" ^ sn | _ -> false) fields in
          let ftype = match fld with Some f -> List.nth (String.split_on_char ':' f) 1 | None -> "?" in
          let underlying = try Hashtbl.find named ftype with Not_found -> ftype in
          let is_enum = Hashtbl.mem named ftype in
          let has_raw = Hashtbl.mem obs (Printf.sprintf "METHOD *%s Raw%s()(%s)" mn sn ftype) in
          let has_phys_getter = Hashtbl.mem obs (Printf.sprintf "METHOD *%s %s()(float64)" mn sn) in
          let l = int_of_z s.s_length in
          let kind = Printf.sprintf "sig:%s%s%s%s" (prim_text (prim_type_spec s)) (if is_enum then ":enum" else "")
              (if has_raw then ":phys" else "") (if s.s_multiplexer then ":M" else if s.s_multiplexed then ":m" else "") in
          note_case kind line;
          bump (Printf.sprintf "w%d" l);
          bump (Printf.sprintf "%s|%s|%s|%s|%s" (if s.s_float then "float" else if s.s_signed then "signed" else "unsigned")
                  (if l = 1 then "1bit" else if List.mem l [ 2; 7; 8; 9; 15; 16; 17; 31; 32; 33; 63; 64 ] then "boundary" else "other")
                  (if is_enum then "enum" else "noenum") (if has_raw then "phys" else "nophys")
                  (if s.s_multiplexer then "M" else if s.s_multiplexed then "m" else "plain"));
          let fail clause = Printf.printf "PFAIL %s || clause=%s\n" line clause in
          if underlying <> prim_text (prim_type_spec s) then
            fail (Printf.sprintf "field-type: observed %s, the property requires %s (length %d)" underlying (prim_text (prim_type_spec s)) l);
          if is_enum <> (s.s_value_descriptions <> []) then fail "enum type exists iff value descriptions exist";
          if has_raw <> has_physical_spec s || (has_raw && not has_phys_getter) then
            fail (Printf.sprintf "physical accessors: observed %b, the property requires %b" has_raw (has_physical_spec s));
          if has_physical s <> has_physical_spec s then fail "model/spec disagree on has_physical (outside the class?)") m.msg_signals)
    db.db_messages

let finish_src pkg =
  let db = db_of pkg in
  incr n_programs;
  let a = api_of_db db in
  let expected = ("PACKAGE", "PACKAGE " ^ s_of a.api_package) :: List.map decl_text (api_decls a) in
  let observed = get src pkg in
  compare_sets pkg "SRC" expected observed;
  check_signals pkg db observed;
  (* class membership and conversion typing of the program *)
  let line = "PROG " ^ pkg in
  note_case "program" line;
  if not (in_class43 db) then begin incr n_outside; Printf.printf "OUTSIDE %s\n" pkg end;
  if not (db_convs_ok db) then begin
    let bad = List.filter (fun c -> not (conv_ok c)) (db_convs db) in
    Printf.printf "PFAIL %s || clause=conv_ok: %d emitted conversions do not type-check\n" line (List.length bad)
  end;
  bump (if a.api_nodes = None then "nodes:none" else "nodes:generated");
  (match a.api_nodes with
   | Some ns -> List.iter (fun na -> bump (Printf.sprintf "rx%d" (min 3 (List.length na.na_rx))); bump (Printf.sprintf "tx%d" (min 3 (List.length na.na_tx)))) ns
   | None -> ())

let finish_refl pkg =
  let db = db_of pkg in
  let a = api_of_db db in
  let observed = get refl pkg in
  let obs_methods = List.filter (fun l -> String.length l > 7 && String.sub l 0 7 = "METHOD ") observed in
  (* the method set of *<Msg>: every DMethod whose receiver is a pointer to a message *)
  let expected = List.filter_map (fun d ->
      match d with
      | DMethod (GPtr n, _) when List.exists (fun ma -> ma.ma_name = n) a.api_messages -> Some (decl_text d)
      | _ -> None) (api_decls a) in
  compare_sets pkg "REFL" expected obs_methods;
  (* enum types: kind of the underlying type, String() of declared and undeclared values *)
  let enums = Hashtbl.create 16 in
  List.iter (fun ma -> List.iter (fun sa -> match sa.sa_enum with Some tn -> Hashtbl.replace enums (s_of tn) sa | None -> ()) ma.ma_signals) a.api_messages;
  let seen = Hashtbl.create 16 in
  List.iter (fun l ->
      match split_ws l with
      | [ "ENUM"; tn; kind; entries ] -> (
          Hashtbl.replace seen tn ();
          let line = "REFL " ^ pkg ^ " " ^ l in
          note_case "enum-string" line;
          match Hashtbl.find_opt enums tn with
          | None -> mismatch line "(the model declares no such enum type)"
          | Some sa ->
              let exp_kind = prim_text sa.sa_prim in
              if kind <> exp_kind then mismatch line ("underlying " ^ exp_kind)
              else if sa.sa_prim = PFloat32 then ()
              else
                List.iter (fun e ->
                    let e = if String.length e > 0 && e.[0] = '?' then String.sub e 1 (String.length e - 1) else e in
                    match String.split_on_char '=' e with
                    | [ v; str ] ->
                        let z = (match sa.sa_prim with PInt _ -> z_of_i64hex v | _ -> z_of_hex v) in
                        let exp = enum_string sa z in
                        let exp_t = "s:" ^ String.concat "" (List.map (fun b -> Printf.sprintf "%02x" (int_of_z b)) exp) in
                        if str <> exp_t then mismatch line (Printf.sprintf "String(%s)=%s i.e. %S" v exp_t (s_of exp))
                    | _ -> mismatch line "bad entry") (String.split_on_char ';' entries))
      | "NOFRESH" :: _ -> mismatch ("REFL " ^ pkg ^ " " ^ l) "an instance of every message"
      | _ -> ()) observed;
  Hashtbl.iter (fun tn _ -> if not (Hashtbl.mem seen tn) then mismatch ("REFL " ^ pkg ^ " ENUM MISSING") tn) enums

let handle line =
  match split_ws line with
  | "SRC" :: pkg :: [ "END"; _ ] -> finish_src pkg
  | "SRC" :: pkg :: rest -> push src pkg (normalise_observed rest)
  | "REFL" :: pkg :: [ "END"; _ ] -> finish_refl pkg
  | "REFL" :: pkg :: rest -> push refl pkg (String.concat " " rest)
  | _ -> ()

let () =
  iter_lines handle;
  let ks = Hashtbl.fold (fun k v acc -> Printf.sprintf "\"%s\":%d" (json_escape k) v :: acc) cov [] in
  Printf.printf "COV {\"programs\":%d,\"outside_class\":%d,\"classes\":{%s}}\n" !n_programs !n_outside (String.concat "," (List.sort compare ks))
