(* Wiring stage of C03/C10: reads the lines of the wiring extractor (harness/genwire: a strict reading of the
   generated .dbc.go text), builds the Coq value [wiring] of Gen/Wiring.v for every message type and evaluates the
   extracted checker against the message's descriptor. Everything that decides (name resolution, demanded
   statements, comparison) is the extracted Coq code; this file only tokenises lines into constructor
   applications and, when the checker says false, looks for the first statement that differs (diagnostics). *)
open Model
open Common

let name_of_string (s : string) : z list = List.init (String.length s) (fun i -> z_of_int (Char.code s.[i]))

let z_of_dec (s : string) : z =
  let neg = String.length s > 0 && s.[0] = '-' in
  let digits = if neg then String.sub s 1 (String.length s - 1) else s in
  if digits = "" then failwith ("bad decimal " ^ s);
  let ten = z_of_int 10 in
  let v = ref (z_of_int 0) in
  String.iter (fun c ->
      if c < '0' || c > '9' then failwith ("bad decimal " ^ s);
      v := Z.add (Z.mul !v ten) (z_of_int (Char.code c - 48))) digits;
  if neg then Z.sub (z_of_int 0) !v else !v

exception Bad_line of string

let kv (toks : string list) (key : string) : string =
  let p = key ^ "=" in
  let n = String.length p in
  match List.find_opt (fun t -> String.length t >= n && String.sub t 0 n = p) toks with
  | Some t -> String.sub t n (String.length t - n)
  | None -> raise (Bad_line ("missing " ^ key))

let kind_of = function
  | "Float" -> StFloat | "Bool" -> StBool | "Signed" -> StSigned | "Unsigned" -> StUnsigned
  | k -> raise (Bad_line ("unknown Marshal/Unmarshal/SaturatedCast kind " ^ k))
let hdr_of = function
  | "ID" -> HId | "Length" -> HLen | "IsExtended" -> HExt
  | h -> raise (Bad_line ("frame/descriptor field " ^ h ^ " is not ID, Length or IsExtended"))
let guard_of (g : string) =
  if g = "none" then None
  else match Str.bounded_split (Str.regexp "==") g 2 with
    | [ f; c ] -> Some (name_of_string f, z_of_dec c)
    | _ -> raise (Bad_line ("bad guard " ^ g))

(* per message accumulation *)
type acc = {
  mutable a_fields : ((z list * z list) * string) list;
  mutable a_descmsg : z option;
  mutable a_descs : ((z list * (z * z)) * string) list;
  mutable a_init : (((hdr * hdr) * hdr) * string) option;
  mutable a_frame : (nstmt * string) list;
  mutable a_unm : (nustmt * string) list;
  mutable a_reset : ((z list * rconst) * string) list;
  mutable a_copy : bool; mutable a_mf : bool;
  mutable a_setters : (nsetter * string) list;
  mutable a_getters : (ngetter * string) list;
  mutable a_bad : string option;      (* first line that has no counterpart in the wiring language *)
  mutable a_n : int }

let fresh () = { a_fields = []; a_descmsg = None; a_descs = []; a_init = None; a_frame = []; a_unm = []; a_reset = [];
                 a_copy = false; a_mf = false; a_setters = []; a_getters = []; a_bad = None; a_n = 0 }

let cur_pkg = ref ""
let typedecls : (z list * z list) list ref = ref []
let cur : (string * acc) option ref = ref None
let n_messages = ref 0
let n_ok_c03 = ref 0
let n_ok_c10 = ref 0
let n_statements = ref 0
let n_extractor_errors = ref 0
let pkgs_seen : (string, int) Hashtbl.t = Hashtbl.create 16

let stmt_of toks = { n_kind = kind_of (kv toks "kind"); n_desc = name_of_string (kv toks "desc");
                     n_field = name_of_string (kv toks "field"); n_conv = name_of_string (kv toks "conv");
                     n_guard = guard_of (kv toks "guard") }

let rec take n l = if n = 0 then [] else match l with [] -> [] | x :: tl -> x :: take (n - 1) tl

(* first statement that is not the demanded one *)
let first_diff (resolve : 'a -> 'b option) (eqb : 'b -> 'b -> bool) (side : 'b -> bool) (given : ('a * string) list) (demanded : 'b list) : string =
  let rec go i g d =
    match g, d with
    | [], [] -> "statements agree one by one (checker rejected the declarations they resolve through)"
    | [], _ :: _ -> Printf.sprintf "statement %d demanded by the descriptor is missing (the method ends after %d statements)" (i + 1) i
    | (_, line) :: _, [] -> Printf.sprintf "extra statement %d: [%s]" (i + 1) line
    | (x, line) :: g', y :: d' -> (
        match resolve x with
        | None -> Printf.sprintf "statement %d does not resolve (unknown field, descriptor of another message, or type): [%s]" (i + 1) line
        | Some r ->
            if not (eqb r y) then Printf.sprintf "statement %d is not the one the descriptor demands at this position: [%s]" (i + 1) line
            else if not (side r) then Printf.sprintf "statement %d: kind, field type and conversion do not fit together: [%s]" (i + 1) line
            else go (i + 1) g' d')
  in
  go 0 given demanded

(* wirings of the current package, in source order *)
let pkg_msgs : (string * acc * wiring option) list ref = ref []
let pkg_nodes : ((z list * z) * string) list ref = ref []
let pkg_dispatch : (z list option * string) list ref = ref []
let pkg_failed = ref false
let n_enum_lines = ref 0
let n_pkg_lines = ref 0
let n_enums = ref 0
let n_nodegens = ref 0
let n_nodegen_lines = ref 0
let n_pkgs_nodes_ok = ref 0
let pkg_nodegens : (nodegen * string list) list ref = ref []
let cur_ng : (nodegen * string list) option ref = ref None
let nodegen_line (line : string) (toks : string list) =
  incr n_nodegen_lines;
  let nm = name_of_string in
  match toks with
  | "nodegen" :: n :: "struct" :: _ ->
      cur_ng := Some ({ ng_name = nm n; ng_desc = []; ng_rxfields = []; ng_txfields = []; ng_rxtypes = []; ng_txtypes = [];
                        ng_received = []; ng_received_default = false; ng_transmitted = []; ng_rxacc = []; ng_txacc = [] }, [ line ])
  | "nodegen" :: _ :: rest -> (
      match !cur_ng with
      | None -> failwith ("nodegen line before its struct line: " ^ line)
      | Some (g, ls) ->
          let g' = match rest with
            | d :: _ when String.length d > 11 && String.sub d 0 11 = "descriptor=" -> { g with ng_desc = nm (kv rest "descriptor") }
            | "rxfield" :: f :: r -> { g with ng_rxfields = g.ng_rxfields @ [ (nm f, nm (kv r "type")) ] }
            | "txfield" :: f :: r -> { g with ng_txfields = g.ng_txfields @ [ (nm f, nm (kv r "type")) ] }
            | "rxtype" :: t :: r -> { g with ng_rxtypes = g.ng_rxtypes @ [ (nm t, nm (kv r "embeds")) ] }
            | "txtype" :: t :: r -> { g with ng_txtypes = g.ng_txtypes @ [ (nm t, nm (kv r "embeds")) ] }
            | "received" :: "default" :: _ -> { g with ng_received_default = true }
            | "received" :: r -> { g with ng_received = g.ng_received @ [ (z_of_dec (kv r "case"), nm (kv r "field")) ] }
            | "transmitted" :: r -> { g with ng_transmitted = g.ng_transmitted @ [ nm (kv r "field") ] }
            | "rxaccessor" :: m :: r -> { g with ng_rxacc = g.ng_rxacc @ [ (nm m, nm (kv r "field")) ] }
            | "txaccessor" :: m :: r -> { g with ng_txacc = g.ng_txacc @ [ (nm m, nm (kv r "field")) ] }
            | _ -> failwith ("unexpected nodegen line: " ^ line) in
          cur_ng := Some (g', line :: ls))
  | _ -> failwith ("unexpected nodegen line: " ^ line)
let pkg_enums : (enum * string) list ref = ref []
let cur_enum : (enum * string) option ref = ref None
let bytes_of_hex (h : string) : z list =
  if String.length h mod 2 <> 0 then failwith ("bad hex " ^ h);
  List.init (String.length h / 2) (fun i -> z_of_int ((hexval h.[2 * i] * 16) + hexval h.[(2 * i) + 1]))
let rconst_of (v : string) : rconst = match v with "true" -> RBool true | "false" -> RBool false | v -> RInt (z_of_dec v)
let enum_line (line : string) (toks : string list) =
  incr n_enum_lines;
  match toks, !cur_enum with
  | "enum" :: t :: u :: _, _ when String.length u > 6 && String.sub u 0 6 = "under=" ->
      cur_enum := Some ({ e_name = name_of_string t; e_under = name_of_string (kv toks "under"); e_consts = []; e_on_bool = false;
                          e_cases = []; e_default = [] }, line)
  | "enum" :: _ :: "const" :: cn :: rest, Some (e, l) ->
      cur_enum := Some ({ e with e_consts = e.e_consts @ [ (name_of_string cn, rconst_of (kv rest "value")) ] }, l)
  | "enum" :: _ :: "switch" :: rest, Some (e, l) -> cur_enum := Some ({ e with e_on_bool = (kv rest "on" = "bool(v)") }, l)
  | "enum" :: _ :: "string" :: "default" :: rest, Some (e, l) -> cur_enum := Some ({ e with e_default = bytes_of_hex (kv rest "fmt") }, l)
  | "enum" :: _ :: "string" :: rest, Some (e, l) ->
      cur_enum := Some ({ e with e_cases = e.e_cases @ [ (rconst_of (kv rest "case"), bytes_of_hex (kv rest "text")) ] }, l)
  | _ -> failwith ("unexpected enum line: " ^ line)

let build_wiring (mname : string) (a : acc) : wiring option =
  match a.a_bad, a.a_init, a.a_descmsg with
  | None, Some (init, _), Some dm ->
      Some { w_name = name_of_string mname; w_fields = List.rev_map fst a.a_fields; w_types = !typedecls; w_msg_index = dm;
             w_descs = List.rev_map fst a.a_descs; w_init = init; w_frame = List.rev_map fst a.a_frame;
             w_unmarshal = List.rev_map fst a.a_unm; w_reset = List.rev_map fst a.a_reset;
             w_copy = a.a_copy && a.a_mf; w_setters = List.rev_map fst a.a_setters;
             w_getters = List.rev_map fst a.a_getters }
  | _ -> None

let finish (_ : string -> database) (mname : string) (a : acc) =
  incr n_messages;
  n_statements := !n_statements + a.a_n;
  pkg_msgs := (mname, a, build_wiring mname a) :: !pkg_msgs

(* DIAGNOSTICS ONLY (the verdict is package_wiring_ok_* / dispatch_ok below): which message, which statement *)
let diagnose (db : database) (pkg : string) (mname : string) (a : acc) : bool =
  let rec find i = function
    | [] -> None
    | m :: tl -> if Gendb.string_of_bytes m.msg_name = mname then Some (i, m) else find (i + 1) tl in
  let label = Printf.sprintf "%s %s" pkg mname in
  match find 0 db.db_messages with
  | None -> Printf.printf "WIREBAD %s part=decl || the generated package has a message type that the database does not declare\n" label; true
  | Some (mi, m) -> (
      match a.a_bad, a.a_init, a.a_descmsg with
      | Some line, _, _ ->
          Printf.printf "WIREBAD %s part=decl || statement outside the wiring language: [%s]\n" label line; true
      | None, None, _ | None, _, None ->
          Printf.printf "WIREBAD %s part=decl || frame header statement or md literal entry missing\n" label; true
      | None, Some (init, _), Some dm ->
          let w = match build_wiring mname a with Some w -> w | None -> assert false in
          let reported = ref false in
          let mnat = Z.to_nat (z_of_int mi) in
          if wiring_ok_c03 mnat m w then ()
          else begin
            reported := true;
            let detail =
              if not (decls_ok mnat m w) then begin
                let fl = List.rev a.a_fields and dl = List.rev a.a_descs in
                let nf = List.length fl and ns = List.length m.msg_signals in
                let rec firstbad n =
                  if n > imin nf ns then None
                  else if not (fields_ok w (take n m.msg_signals) (take n (List.map fst fl))) then Some (snd (List.nth fl (n - 1)))
                  else firstbad (n + 1)
                and imin a b = if a < b then a else b in
                match firstbad 1 with
                | Some line -> Printf.sprintf "struct field is not xxx_<signal> of the signal's primitive type, in descriptor order: [%s]" line
                | None ->
                    if nf <> ns then Printf.sprintf "struct declares %d fields for %d signals" nf ns
                    else begin
                      let rec firstd n =
                        if n > List.length dl then None
                        else if n > ns || not (descs_ok (z_of_int mi) (take n m.msg_signals) (z_of_int 0) (take n (List.map fst dl))) then Some (snd (List.nth dl (n - 1)))
                        else firstd (n + 1) in
                      match firstd 1 with
                      | Some line -> Printf.sprintf "md literal entry does not point at the signal of that name in this message: [%s]" line
                      | None -> Printf.sprintf "md literal: Message index %s / %d entries for message %d with %d signals" (hex_of_z dm) (List.length dl) mi ns
                    end
              end
              else if not (frame_wiring_ok m w) then
                "Frame(): " ^ (match init with
                    | ((HId, HExt), HLen) -> first_diff (resolve_stmt w) mstmt_eqb frame_side_ok (List.rev a.a_frame) (demanded_body super_conv m)
                    | _ -> "frame literal does not take ID, IsExtended, Length from the descriptor's ID, IsExtended, Length: [" ^ (match a.a_init with Some (_, l) -> l | None -> "") ^ "]")
              else
                "UnmarshalFrame(): " ^ first_diff (resolve_ustmt w) ustmt_eqb
                  (function UAssign x -> frame_side_ok x && guard_side_ok x | UReject _ -> true)
                  (List.rev a.a_unm) (demanded_unmarshal m)
            in
            Printf.printf "WIREBAD %s part=%s || %s\n" label (if decls_ok mnat m w then "c03" else "decl") detail
          end;
          if wiring_ok_c10 mnat m w then ()
          else if decls_ok mnat m w then begin
            reported := true;
            let z0 = Z.to_nat (z_of_int 0) in
            let detail =
              if not (reset_wiring_ok m w) then
                "Reset(): " ^ first_diff (resolve_reset w) rstmt_eqb (fun _ -> true) (List.rev a.a_reset) (demanded_reset m.msg_signals z0)
              else if not w.w_copy then "CopyFrom()/MarshalFrame(): bodies are not { f, _ := o.MarshalFrame(); _ = m.UnmarshalFrame(f); return m } / { return m.Frame(), nil }"
              else if not (setters_wiring_ok m w) then
                "setters: " ^ first_diff (resolve_setter w) rsetter_eqb setter_side_ok (List.rev a.a_setters) (demanded_setters m.msg_signals z0)
              else if getters_wiring_ok m w && not (enum_fields_ok m m.msg_signals w.w_fields) then
                "struct field of a signal with value descriptions is not declared with the enum type name <Msg>_<Sig>: [" ^
                String.concat " | " (List.rev_map snd a.a_fields) ^ "]"
              else
                "getters: " ^ first_diff (resolve_getter w) rgetter_eqb (fun _ -> true) (List.rev a.a_getters) (demanded_getters m.msg_signals z0)
            in
            Printf.printf "WIREBAD %s part=c10 || %s\n" label detail
          end;
          !reported)

let finish_pkg (db_of : string -> database) =
  let pkg = !cur_pkg in
  if pkg <> "" && not !pkg_failed then begin
    let db = db_of pkg in
    let msgs = List.rev !pkg_msgs in
    note_case "W" ("W " ^ pkg);
    let all_built = List.for_all (fun (_, _, w) -> w <> None) msgs in
    let p = { p_nodegens = List.rev_map fst !pkg_nodegens; p_enums = List.rev_map fst !pkg_enums; p_wirings = List.filter_map (fun (_, _, w) -> w) msgs; p_nodes = List.rev_map fst !pkg_nodes;
              p_dispatch = List.rev_map fst !pkg_dispatch } in
    let oke = enums_ok db p in
    (* C11: node types *)
    if nodes_wiring_ok db p then incr n_pkgs_nodes_ok
    else begin
      incr n_mismatch;
      let ngs = List.rev !pkg_nodegens in
      let detail =
        if not (has_send_type db) then "node types are generated although no message of the database has a send type"
        else if List.length ngs <> List.length db.db_nodes then
          Printf.sprintf "%d node types for the %d nodes of the database" (List.length ngs) (List.length db.db_nodes)
        else match List.find_opt (fun (n, (g, _)) -> not (nodegen_ok db n g)) (List.combine db.db_nodes ngs) with
          | Some (n, (_, ls)) -> Printf.sprintf "node type of %s: Rx/Tx containers, ReceivedMessage cases or TransmittedMessages list are not the ones the receivers/senders of the database demand: [%s]"
                                   (Gendb.string_of_bytes n.node_name) (String.concat " | " (List.rev ls))
          | None -> "checker refused the node types" in
      Printf.printf "WIREBAD %s (nodes) part=c11 || %s\n" pkg detail
    end;
    let ok3 = oke && all_built && package_wiring_ok_c03 db p && dispatch_ok db p in
    let ok10 = oke && all_built && package_wiring_ok_c10 db p in
    if ok3 then n_ok_c03 := !n_ok_c03 + List.length msgs;
    if ok10 then n_ok_c10 := !n_ok_c10 + List.length msgs;
    if not (ok3 && ok10) then begin
      incr n_mismatch;
      let any = List.fold_left (fun acc (mname, a, _) -> diagnose db pkg mname a || acc) false msgs in
      if not any then begin
        let label = pkg ^ " (package)" in
        let nm = List.length db.db_messages in
        if not oke then begin
          let bad = List.concat_map (fun m -> List.filter_map (fun sg ->
              if has_custom_type sg && not (signal_enum_ok p.p_enums m sg) then Some (Gendb.string_of_bytes (enum_type_name m sg)) else None) m.msg_signals) db.db_messages in
          match bad with
          | t :: _ -> Printf.printf "WIREBAD %s part=decl || enum type %s (type, constants, String() cases or default format) is not the one the value descriptions demand: [%s]\n" label t
                        (String.concat " | " (List.filter_map (fun (e, l) -> if Gendb.string_of_bytes e.e_name = t then Some l else None) !pkg_enums))
          | [] -> Printf.printf "WIREBAD %s part=decl || the package declares an enum type that no signal with value descriptions demands\n" label
        end
        else if List.length msgs <> nm || not (no_extra_types db p.p_wirings)
           || List.exists (fun m -> find_wiring m.msg_name p.p_wirings = None) db.db_messages then
          Printf.printf "WIREBAD %s part=decl || the package declares %d message types for the %d messages of the database, or not exactly one per message name\n" label (List.length msgs) nm
        else if not (nodes_ok db.db_nodes (z_of_int 0) p.p_nodes) then
          Printf.printf "WIREBAD %s part=c03 || nd literal does not index the nodes of the database in order: [%s]\n" label
            (String.concat " | " (List.rev_map snd !pkg_nodes))
        else if not (dispatch_ok db p) then
          Printf.printf "WIREBAD %s part=c03 || dispatcher MessagesDescriptor.UnmarshalFrame does not have one case per message in database order followed by default: [%s]\n" label
            (String.concat " | " (List.rev_map snd !pkg_dispatch))
        else Printf.printf "WIREBAD %s part=decl || package checker refused the package (no per-message difference found)\n" label
      end
    end
  end;
  pkg_msgs := []; pkg_nodes := []; pkg_dispatch := []; pkg_enums := []; cur_enum := None; pkg_nodegens := []; cur_ng := None; pkg_failed := false

(* returns true when the line belongs to the wiring stage *)
let handle_wire (db_of : string -> database) (line : string) : bool =
  let toks = split_ws line in
  let with_msg mname (f : acc -> unit) =
    match !cur with
    | Some (n, a) when n = mname -> (
        a.a_n <- a.a_n + 1;
        if a.a_bad = None then try f a with Bad_line why -> a.a_bad <- Some (line ^ " (" ^ why ^ ")") | Failure why -> a.a_bad <- Some (line ^ " (" ^ why ^ ")"))
    | _ -> failwith ("wiring line outside its message block: " ^ line) in
  match toks with
  | [ "PKG"; p ] -> finish_pkg db_of; cur_pkg := p; typedecls := []; cur := None; Hashtbl.replace pkgs_seen p 0; true
  | "WIREERR" :: _ -> pkg_failed := true; incr n_extractor_errors; incr n_mismatch; print_endline line; true
  | "node" :: n :: ni :: _ -> incr n_pkg_lines; pkg_nodes := ((name_of_string n, z_of_dec ni), line) :: !pkg_nodes; true
  | "dispatch" :: "case" :: m :: _ -> incr n_pkg_lines; pkg_dispatch := (Some (name_of_string m), line) :: !pkg_dispatch; true
  | "dispatch" :: "default" :: _ -> pkg_dispatch := (None, line) :: !pkg_dispatch; true
  | "nodegen" :: _ -> nodegen_line line toks; true
  | "end-nodegen" :: _ -> (match !cur_ng with Some g -> pkg_nodegens := g :: !pkg_nodegens; incr n_nodegens; cur_ng := None | None -> failwith "end-nodegen without nodegen"); true
  | "enum" :: _ -> enum_line line toks; true
  | "end-enum" :: _ -> (match !cur_enum with Some el -> pkg_enums := el :: !pkg_enums; incr n_enums; cur_enum := None | None -> failwith "end-enum without enum"); true
  | [ "typedecl"; t; u ] -> typedecls := !typedecls @ [ (name_of_string t, name_of_string u) ]; true
  | [ "msg"; m ] -> cur := Some (m, fresh ()); true
  | "field" :: m :: f :: t :: _ -> with_msg m (fun a -> a.a_fields <- ((name_of_string f, name_of_string t), line) :: a.a_fields); true
  | "descmsg" :: m :: mi :: _ -> with_msg m (fun a -> a.a_descmsg <- Some (z_of_dec mi)); true
  | "desc" :: m :: s :: mi :: si :: _ -> with_msg m (fun a -> a.a_descs <- ((name_of_string s, (z_of_dec mi, z_of_dec si)), line) :: a.a_descs); true
  | "frame" :: m :: "init" :: rest ->
      with_msg m (fun a -> a.a_init <- Some (((hdr_of (kv rest "id"), hdr_of (kv rest "ext")), hdr_of (kv rest "len")), line)); true
  | "frame" :: m :: "marshal" :: rest -> with_msg m (fun a -> a.a_frame <- (stmt_of rest, line) :: a.a_frame); true
  | "unmarshal" :: m :: "reject" :: rest ->
      with_msg m (fun a ->
          let c = match kv rest "cond" with
            | "ne" -> RcNe (hdr_of (kv rest "lhs"), hdr_of (kv rest "rhs"))
            | "remote" -> RcRemote
            | c -> raise (Bad_line ("unknown condition " ^ c)) in
          a.a_unm <- (NReject c, line) :: a.a_unm); true
  | "unmarshal" :: m :: "assign" :: rest -> with_msg m (fun a -> a.a_unm <- (NAssign (stmt_of rest), line) :: a.a_unm); true
  | "reset" :: m :: rest ->
      with_msg m (fun a ->
          let c = match kv rest "value" with "true" -> RBool true | "false" -> RBool false | v -> RInt (z_of_dec v) in
          a.a_reset <- ((name_of_string (kv rest "field"), c), line) :: a.a_reset); true
  | "copyfrom" :: m :: "ok" :: _ -> with_msg m (fun a -> a.a_copy <- true); true
  | "marshalframe" :: m :: "ok" :: _ -> with_msg m (fun a -> a.a_mf <- true); true
  | "setter" :: m :: meth :: rest ->
      with_msg m (fun a ->
          let body = match kv rest "body" with
            | "direct" -> SbDirect
            | "sat" -> SbSat (kind_of (kv rest "kind"), name_of_string (kv rest "desc"), name_of_string (kv rest "cin"), name_of_string (kv rest "cout"))
            | "phys" -> SbPhys (name_of_string (kv rest "desc"), name_of_string (kv rest "cout"))
            | b -> raise (Bad_line ("unknown setter body " ^ b)) in
          a.a_setters <- ({ st_method = name_of_string meth; st_field = name_of_string (kv rest "field");
                            st_param = name_of_string (kv rest "param"); st_body = body }, line) :: a.a_setters); true
  | "getter" :: m :: meth :: rest ->
      with_msg m (fun a ->
          let body = match kv rest "body" with
            | "field" -> GbField
            | "phys" -> GbPhys (name_of_string (kv rest "desc"), name_of_string (kv rest "cin"))
            | b -> raise (Bad_line ("unknown getter body " ^ b)) in
          a.a_getters <- ({ gt_method = name_of_string meth; gt_field = name_of_string (kv rest "field");
                            gt_result = name_of_string (kv rest "result"); gt_body = body }, line) :: a.a_getters); true
  | "end" :: m :: _ -> (
      match !cur with
      | Some (n, a) when n = m -> finish db_of m a; cur := None; true
      | _ -> failwith ("end without msg: " ^ line))
  | _ -> false

let print_wire_stats (db_of : string -> database) =
  finish_pkg db_of;
  if !n_messages > 0 || !n_extractor_errors > 0 then
    Printf.printf "WIRE {\"packages\":%d,\"messages\":%d,\"statements\":%d,\"messages_ok_c03\":%d,\"messages_ok_c10\":%d,\"extractor_errors\":%d,\"enum_types\":%d,\"package_lines\":%d,\"node_types\":%d,\"node_type_lines\":%d,\"packages_nodes_ok\":%d}\n"
      (Hashtbl.length pkgs_seen) !n_messages !n_statements !n_ok_c03 !n_ok_c10 !n_extractor_errors !n_enums (!n_enum_lines + !n_pkg_lines) !n_nodegens !n_nodegen_lines !n_pkgs_nodes_ok
