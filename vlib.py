"""Shared machinery for the /verif checks (see DESIGN.md section 2).

Every check does: proof stage (Coq build of the property's theorem file, axiom audit,
forbidden-token audit) -> build stage (Go harness compiled INTO /repo's working tree with
`go build -overlay`; OCaml model driver extracted from the same .v files the theorems are
about) -> run stage (implementation and model on the same inputs) -> compare stage
(evidence, VIOLATION / KNOWN-FINDING lines, exit status).
"""
import fcntl
import hashlib
import json
import os
import re
import shutil
import subprocess
import sys
import tempfile
import time

ROOT = os.path.dirname(os.path.abspath(__file__))
REPO = os.environ.get("VERIF_REPO", "/repo")
BUILD = os.path.join(ROOT, "build")
COQ = os.path.join(ROOT, "coq")

# axioms of the Coq standard library that a theorem may depend on (DESIGN.md section 3)
AXIOM_WHITELIST = {
    "ClassicalDedekindReals.sig_forall_dec",
    "ClassicalDedekindReals.sig_not_dec",
    "FunctionalExtensionality.functional_extensionality_dep",
    "functional_extensionality_dep",
    "sig_forall_dec",
    "sig_not_dec",
    "Classical_Prop.classic",
    "classic",
    "Eqdep.Eq_rect_eq.eq_rect_eq",
    "ProofIrrelevance.proof_irrelevance",
    "JMeq.JMeq_eq",
}

FORBIDDEN = re.compile(
    r"\b(Admitted|admit|Axiom|Axioms|Parameter|Parameters|Conjecture|Conjectures|Abort All|Admit Obligations)\b"
    r"|Unset\s+Guard|bypass_check|type-in-type|impredicative-set|Unset\s+Positivity|Unset\s+Universe"
)


def go_env():
    env = dict(os.environ)
    env.update(
        GOFLAGS="-mod=mod",
        GOPROXY="off",
        GOSUMDB="off",
        GOTOOLCHAIN="local",
        CGO_ENABLED=env.get("CGO_ENABLED", "1"),
    )
    return env


def sh(cmd, timeout=None, cwd=None, env=None, input=None, check=False):
    p = subprocess.run(
        cmd, shell=isinstance(cmd, str), cwd=cwd, env=env, input=input,
        stdout=subprocess.PIPE, stderr=subprocess.STDOUT, timeout=timeout, text=True,
    )
    if check and p.returncode != 0:
        raise RuntimeError("command failed (%d): %s\n%s" % (p.returncode, cmd, p.stdout[-4000:]))
    return p.returncode, p.stdout


class Lock:
    def __init__(self, name):
        os.makedirs(BUILD, exist_ok=True)
        self.path = os.path.join(BUILD, name)

    def __enter__(self):
        self.f = open(self.path, "w")
        fcntl.flock(self.f, fcntl.LOCK_EX)
        return self

    def __exit__(self, *a):
        fcntl.flock(self.f, fcntl.LOCK_UN)
        self.f.close()


# --------------------------------------------------------------------------- proof stage

def strip_coq_comments(src):
    out, depth, i, n = [], 0, 0, len(src)
    in_str = False
    while i < n:
        c = src[i]
        if depth == 0 and c == '"':
            in_str = not in_str
            out.append(c)
            i += 1
            continue
        if not in_str and src.startswith("(*", i):
            depth += 1
            i += 2
            continue
        if not in_str and depth > 0 and src.startswith("*)", i):
            depth -= 1
            i += 2
            continue
        if depth == 0:
            out.append(c)
        elif c == "\n":
            out.append(c)
        i += 1
    return "".join(out)


def forbidden_tokens():
    """Audit the whole Coq development (comments and string literals stripped)."""
    hits = []
    for base, _, files in os.walk(COQ):
        for fn in files:
            if not fn.endswith(".v"):
                continue
            p = os.path.join(base, fn)
            src = strip_coq_comments(open(p, encoding="utf-8").read())
            src = re.sub(r'"[^"]*"', '""', src)
            in_section = 0
            for ln, line in enumerate(src.split("\n"), 1):
                if re.match(r"\s*Section\b", line):
                    in_section += 1
                if re.match(r"\s*End\b", line) and in_section > 0:
                    in_section -= 1
                m = FORBIDDEN.search(line)
                if m:
                    hits.append("%s:%d: %s" % (os.path.relpath(p, ROOT), ln, m.group(0)))
                if in_section == 0 and re.match(r"\s*(Variable|Variables|Hypothesis|Hypotheses|Context)\b", line):
                    hits.append("%s:%d: %s outside a Section" % (os.path.relpath(p, ROOT), ln, line.strip()[:40]))
    return hits


def coq_stage(prop_id, extra_targets=()):
    """Build Properties/<id>.vo (and its dependencies), then re-run coqc on the property
    file to capture what Print Assumptions prints. Returns a dict."""
    t0 = time.time()
    res = {"ok": False, "theorems": [], "axioms": [], "closed": 0, "log": "", "failed_theorem": None}
    target = "theories/Properties/%s.vo" % prop_id
    rc, out = sh([os.path.join(ROOT, "tools", "coqmake.sh"), target] + list(extra_targets), timeout=3400)
    res["log"] = out[-6000:]
    pfile = os.path.join(COQ, "theories", "Properties", "%s.v" % prop_id)
    src = open(pfile, encoding="utf-8").read()
    code = strip_coq_comments(src)
    res["theorems"] = re.findall(r"^\s*(?:Theorem|Corollary|Lemma)\s+(\w+)", code, re.M)
    res["examples"] = re.findall(r"^\s*Example\s+(\w+)", code, re.M)
    n_print = len(re.findall(r"^\s*Print Assumptions", code, re.M))
    if rc != 0:
        m = re.search(r'File "([^"]+)", line (\d+)', out)
        res["failed_theorem"] = "coq build failed: " + (m.group(0) if m else "see log")
        res["wall_s"] = time.time() - t0
        return res
    with tempfile.TemporaryDirectory(prefix="verif-coq-") as td:
        rc2, out2 = sh(
            ["coqc", "-Q", "theories", "CanVerif", "-w", "-notation-overridden",
             "-o", os.path.join(td, "%s.vo" % prop_id), pfile],
            cwd=COQ, timeout=1800)
    res["assumptions_output"] = out2[-4000:]
    if rc2 != 0:
        res["failed_theorem"] = "coqc of Properties/%s.v failed" % prop_id
        res["log"] += out2[-3000:]
        res["wall_s"] = time.time() - t0
        return res
    closed = len(re.findall(r"Closed under the global context", out2))
    axioms = set()
    for block in re.findall(r"Axioms:\n((?:.+\n?)+?)(?=\n\S|\Z|Closed under|Axioms:)", out2):
        for m in re.finditer(r"^([A-Za-z_][\w.']*)\s*:", block, re.M):
            axioms.add(m.group(1))
    res["closed"] = closed
    res["axioms"] = sorted(axioms)
    bad = [a for a in axioms if a not in AXIOM_WHITELIST and a.split(".")[-1] not in AXIOM_WHITELIST]
    n_blocks = closed + len(re.findall(r"^Axioms:", out2, re.M))
    hits = forbidden_tokens()
    res["forbidden"] = hits
    if bad:
        res["failed_theorem"] = "non-whitelisted axioms: %s" % bad
    elif hits:
        res["failed_theorem"] = "forbidden tokens in the development: %s" % hits[:5]
    elif n_blocks != n_print:
        res["failed_theorem"] = "Print Assumptions count mismatch (%d printed, %d expected)" % (n_blocks, n_print)
    elif n_print < len(res["theorems"]) - len([t for t in res["theorems"] if t.endswith("_refuted")]):
        res["failed_theorem"] = "a property theorem lacks its Print Assumptions"
    else:
        res["ok"] = True
    res["wall_s"] = time.time() - t0
    return res


# --------------------------------------------------------------------------- build stage

def file_hash(paths):
    h = hashlib.sha256()
    for p in sorted(paths):
        h.update(p.encode())
        with open(p, "rb") as f:
            h.update(f.read())
    return h.hexdigest()[:16]


def build_driver(name):
    """Extract the executable model (coq/extract/<name>.v -> OCaml) and link it with
    ocaml/<name>_main.ml. Cached by the hash of every source involved."""
    ex_v = os.path.join(COQ, "extract", "%s.v" % name)
    main_ml = os.path.join(ROOT, "ocaml", "%s_main.ml" % name)
    common = os.path.join(ROOT, "ocaml", "common.ml")
    m = re.search(r"\(\*\s*deps:\s*([^*]*?)\s*\*\)", open(main_ml).read())
    extra_ml = m.group(1).split() if m else []
    srcs = [ex_v, main_ml, common] + [os.path.join(ROOT, "ocaml", d) for d in extra_ml]
    for base, _, files in os.walk(os.path.join(COQ, "theories")):
        if os.path.basename(base) == "Properties":
            continue
        srcs += [os.path.join(base, f) for f in files if f.endswith(".v")]
    key = file_hash(srcs)
    out_dir = os.path.join(BUILD, "ocaml", name)
    exe = os.path.join(out_dir, "driver.exe")
    stamp = os.path.join(out_dir, "stamp")
    with Lock(".driver-%s.lock" % name):
        if os.path.exists(exe) and os.path.exists(stamp) and open(stamp).read() == key:
            return exe
        # compile the theories the extraction file needs
        deps = re.findall(r"^\s*From CanVerif Require (?:Import|Export) (.+?)\.\s*$", open(ex_v).read(), re.M)
        targets = []
        for d in deps:
            for mod in d.split():
                targets.append("theories/" + mod.replace(".", "/") + ".vo")
        rc, out = sh([os.path.join(ROOT, "tools", "coqmake.sh")] + targets, timeout=3400)
        if rc != 0:
            raise RuntimeError("coq build for extraction failed:\n" + out[-3000:])
        shutil.rmtree(out_dir, ignore_errors=True)
        os.makedirs(out_dir)
        shutil.copy(ex_v, os.path.join(out_dir, "Extract_%s.v" % name))
        rc, out = sh(["coqc", "-Q", os.path.join(COQ, "theories"), "CanVerif", "Extract_%s.v" % name],
                     cwd=out_dir, timeout=1800)
        if rc != 0:
            raise RuntimeError("extraction failed:\n" + out[-3000:])
        shutil.copy(common, out_dir)
        shutil.copy(main_ml, os.path.join(out_dir, "main.ml"))
        for dep in extra_ml:
            shutil.copy(os.path.join(ROOT, "ocaml", dep), out_dir)
        mls = sorted(f for f in os.listdir(out_dir) if f.endswith(".ml") and f not in ["common.ml", "main.ml"] + extra_ml)
        # extracted module(s) first (mli before ml), then common, then main
        order = []
        for f in mls:
            if os.path.exists(os.path.join(out_dir, f + "i")):
                order.append(f + "i")
            order.append(f)
        cmd = ["ocamlfind", "ocamlopt", "-package", "str,unix", "-linkpkg", "-w", "-a", "-o", "driver.exe"] \
            + order + ["common.ml"] + extra_ml + ["main.ml"]
        rc, out = sh(cmd, cwd=out_dir, timeout=1800)
        if rc != 0:
            raise RuntimeError("ocaml build failed:\n" + out[-3000:])
        open(stamp, "w").write(key)
        return exe


# extra overlay entries per harness name ({"<path relative to repo>": "<absolute file>"}), set by a family's run()
# before it calls standard_run (e.g. the runner family replaces the checked-in generated example by a fresh one)
EXTRA_OVERLAYS = {}


def build_harness(name, scratch, extra_overlay=None, tags=None, goarch=None):
    """Compile harness/<name>/ into /repo's current working tree through an overlay:
    *.go files become package main at <repo>/cmd/verif_<name>/; entries of overlay.json
    ({"<path relative to repo>": "<file in the harness dir>"}) are added to other packages.
    goarch (e.g. "386"): cross-compile (CGO off); linux/386 binaries run on this amd64 kernel."""
    hdir = os.path.join(ROOT, "harness", name)
    ov = {}
    for f in sorted(os.listdir(hdir)):
        if f.endswith(".go"):
            ov[os.path.join(REPO, "cmd", "verif_" + name, f)] = os.path.join(hdir, f)
    extra = os.path.join(hdir, "overlay.json")
    if os.path.exists(extra):
        for rel, src in json.load(open(extra)).items():
            ov[os.path.join(REPO, rel)] = os.path.join(hdir, src)
            # files placed into other packages must not be part of package main
            if rel.startswith("cmd/verif_" + name + "/"):
                continue
            ov.pop(os.path.join(REPO, "cmd", "verif_" + name, os.path.basename(src)), None)
    for k, v in list(EXTRA_OVERLAYS.get(name, {}).items()) + list((extra_overlay or {}).items()):
        ov[os.path.join(REPO, k)] = v
    ovp = os.path.join(scratch, "overlay-%s.json" % name)
    json.dump({"Replace": ov}, open(ovp, "w"))
    exe = os.path.join(scratch, "harness-%s%s" % (name, "-" + goarch if goarch else ""))
    env = go_env()
    if goarch:
        env.update(GOARCH=goarch, CGO_ENABLED="0")
    rc, out = sh(["go", "build", "-overlay", ovp, "-o", exe, "./cmd/verif_" + name],
                 cwd=REPO, env=env, timeout=900)
    return (exe if rc == 0 else None), out


# --------------------------------------------------------------------------- results

def load_known():
    p = os.path.join(ROOT, "known_findings.json")
    if not os.path.exists(p):
        return {"known": [], "fixed": []}
    return json.load(open(p))


class Result:
    """Accumulates what a check did; writes evidence; prints the verdict lines."""

    def __init__(self, prop_id, tier, seed):
        self.id, self.tier, self.seed = prop_id, tier, seed
        self.t0 = time.time()
        self.violations = []      # (what, replay dict)
        self.known_hits = []      # strings
        self.cov = {}
        self.assumptions = []
        self.coq = None
        self.corr_obligations = []  # names of correspondence obligations checked this run

    def violation(self, what, replay, no_input=False):
        self.violations.append((what, replay, no_input))

    def finish(self, level="proof"):
        # runs against a patched scratch tree (tools/try_patch.sh) must not overwrite the evidence of /repo
        ev_dir = os.environ.get("VERIF_EVIDENCE_DIR") or (
            os.path.join(BUILD, "evidence-scratch") if os.environ.get("VERIF_REPO") else os.path.join(ROOT, "evidence"))
        os.makedirs(ev_dir, exist_ok=True)
        os.makedirs(os.path.join(ROOT, "replays"), exist_ok=True)
        coq = self.coq or {}
        thms = coq.get("theorems", [])
        obligations = len(thms) + len(self.corr_obligations)
        discharged = (len(thms) if coq.get("ok") else 0) + \
            (len(self.corr_obligations) if not self.violations else 0)
        cov = dict(self.cov)
        cov.setdefault("evaluations", 0)
        cov.setdefault("distinct_nontrivial", 0)
        cov.setdefault("rule", "")
        cov.setdefault("samples", [])
        cov.update({
            "obligations": obligations,
            "discharged": discharged,
            "theorems": thms,
            "examples": coq.get("examples", []),
            "correspondence_obligations": self.corr_obligations,
            "axioms_reported_by_print_assumptions": coq.get("axioms", []),
            "closed_under_global_context": coq.get("closed", 0),
            "checker_cmd": "tools/coqmake.sh theories/Properties/%s.vo && coqc -Q theories CanVerif theories/Properties/%s.v (Coq 8.16.1 kernel; full .vo build)" % (self.id, self.id),
            "trusted_base": [
                "Coq 8.16.1 kernel (coqc, incl. its VM for vm_compute; no native_compute)",
                "Coq extraction (ExtrOcamlBasic only) + OCaml 4.13.1 for the executable model",
                "hand-written Gallina model of the Go code, tied to /repo by the correspondence run of this check",
                "unverified glue: Go harness, OCaml driver I/O, check.py comparison",
            ],
        })
        ev = {
            "property_id": self.id,
            "tier": self.tier,
            "seed": self.seed,
            "level": level,
            "coverage": cov,
            "assumptions": self.assumptions,
            "wall_s": round(time.time() - self.t0, 2),
            "violations": len(self.violations),
            "known_findings_hit": self.known_hits,
        }
        with open(os.path.join(ev_dir, "%s.json" % self.id), "w") as f:
            json.dump(ev, f, indent=1, sort_keys=True)
        for k in self.known_hits:
            print("KNOWN-FINDING: property=%s %s" % (self.id, k))
        if not self.violations:
            print("OK property=%s tier=%s evaluations=%s wall=%.1fs" % (
                self.id, self.tier, cov.get("evaluations"), time.time() - self.t0))
            return 0
        # up to five violations that carry a concrete failing input, then up to three broken proof / tie obligations
        # for which no failing input was found (so that the obligation that no longer checks is always named, also
        # when the sampled run fills the first five places)
        concrete = [v for v in self.violations if not v[2]][:5]
        broken = [v for v in self.violations if v[2]][:3]
        shown = (concrete + broken) if concrete else self.violations[:5]
        for n, (what, replay, no_input) in enumerate(shown):
            rp = os.path.join("replays", "%s-%d-%d.json" % (self.id, self.seed, n))
            with open(os.path.join(ROOT, rp), "w") as f:
                json.dump({"property": self.id, "what": what, "replay": replay,
                           "tier": self.tier, "seed": self.seed}, f, indent=1, default=str)
            line = "VIOLATION property=%s replay=%s" % (self.id, rp)
            if no_input:
                line += " no-failing-input-found"
            print(line)
        print("# %s" % shown[0][0], file=sys.stderr)
        for what, _, no_input in shown[1:]:
            if no_input:
                print("# also: %s" % what, file=sys.stderr)
        return 1


def coqchk_stage(prop_id):
    """Thorough tier: re-check the compiled property module and everything it depends on with the
    independent checker coqchk; result cached by the hash of the property's .vo closure."""
    vos = []
    for base, _, files in os.walk(os.path.join(COQ, "theories")):
        vos += [os.path.join(base, f) for f in files if f.endswith(".vo")]
    dep = os.path.join(COQ, "theories", "Properties", "%s.vo" % prop_id)
    key = file_hash([dep]) + "-" + file_hash([v for v in vos if "/Properties/" not in v])
    cache = os.path.join(BUILD, "coqchk", "%s-%s.json" % (prop_id, key))
    if os.path.exists(cache):
        return json.load(open(cache))
    rc, out = sh("ulimit -v 24000000; timeout 3000 coqchk -silent -o -Q theories CanVerif CanVerif.Properties.%s" % prop_id,
                 cwd=COQ)
    axioms = []
    m = re.search(r"\* Axioms:(.*?)\n\s*\n\* Constants", out, re.S)
    if m:
        axioms = [a.strip() for a in m.group(1).strip().splitlines() if a.strip() and a.strip() != "<none>"]
    bad_flags = [k for k in ("type-in-type", "unsafe (co)fixpoints", "positivity is assumed")
                 if not re.search(re.escape(k) + r":\s*<none>", out)]
    result = {"ok": rc == 0 and not bad_flags, "rc": rc, "axioms": axioms, "weakened_checks": bad_flags if rc == 0 else [],
              "tail": out[-600:]}
    bad = [a for a in axioms if a not in AXIOM_WHITELIST and a.split(".")[-1] not in AXIOM_WHITELIST
           and not a.startswith("Coq.")]
    if bad:
        result["ok"] = False
        result["non_stdlib_axioms"] = bad
    os.makedirs(os.path.dirname(cache), exist_ok=True)
    json.dump(result, open(cache, "w"))
    return result


def proof_stage(res):
    """Run the proof stage for res.id and record failures by the protocol of DESIGN.md 2.3."""
    coq = coq_stage(res.id)
    res.coq = coq
    if coq["ok"] and res.tier == "thorough" and os.environ.get("VERIF_COQCHK", "1") != "0":
        chk = coqchk_stage(res.id)
        res.cov["coqchk"] = {k: chk[k] for k in ("ok", "rc", "axioms", "weakened_checks") if k in chk}
        if not chk["ok"]:
            coq["ok"] = False
            coq["failed_theorem"] = "coqchk rejected CanVerif.Properties.%s: %s" % (res.id, chk.get("tail", "")[-300:])
    if not coq["ok"]:
        res.violation("proof obligation no longer checks: %s" % coq["failed_theorem"],
                      {"theorem_file": "coq/theories/Properties/%s.v" % res.id,
                       "obligation": coq["failed_theorem"], "log_tail": coq["log"][-1500:]},
                      no_input=True)
    return coq["ok"]


def scratch_dir():
    base = os.environ.get("TMPDIR", "/tmp")
    return tempfile.mkdtemp(prefix="verif-run-", dir=base)


def run_pipe(harness_exe, harness_args, driver_exe, driver_args, timeout=1500, mem_kb=8000000):
    """harness | driver ; returns (rc_harness, rc_driver, driver stdout lines)."""
    pre = "ulimit -v %d; " % mem_kb
    cmd = "%sset -o pipefail; timeout %d %s %s | timeout %d %s %s" % (
        pre, timeout, harness_exe, " ".join(harness_args), timeout, driver_exe, " ".join(driver_args))
    p = subprocess.run(["bash", "-c", cmd], stdout=subprocess.PIPE, stderr=subprocess.PIPE, text=True)
    return p.returncode, p.stdout, p.stderr


# --------------------------------------------------------------------------- standard pipeline

def standard_run(res, harness, harness_args, driver, rule, assumptions,
                 driver_args=(), exhaustive=False, corr_name=None, timeout=1500, known_matcher=None,
                 also_goarch=None, goarch_args=None):
    """The common shape of a correspondence check.

    The Go harness (harness/<harness>/, compiled into /repo's tree) prints one observation per
    line; the OCaml driver (coq/extract/<driver>.v + ocaml/<driver>_main.ml) recomputes each
    observation with the extracted Coq model and prints
        MISMATCH <obs> || model=<m>    implementation != model, and the spec is a total function
                                       (model = spec is a theorem), so this IS a violation;
        PFAIL <obs> || clause=<c>      the property predicate is false on the implementation's output;
        DISAGREE <obs> || model=<m>    implementation != model but the property predicate holds
                                       (reported as `no-failing-input-found` if no PFAIL/MISMATCH);
        STATS {json}                   final line (Common.print_stats).
    known_matcher(obs) -> description or None marks an observation as a listed known finding.
    also_goarch ("386"): the same harness is ALSO cross-compiled for that architecture (32-bit int/uint/uintptr)
    and run with goarch_args (default: harness_args) against the same architecture-independent model; its
    MISMATCH/PFAIL/DISAGREE lines are reported with the prefix [GOARCH=<arch>] (the property does not
    depend on the platform's int size; the model fixes every width explicitly).
    """
    res.corr_obligations = [corr_name or "impl = extracted model on every generated case (%s | %s)" % (harness, driver)]
    if res.tier == "quick":
        # a quick run takes 10-90 s; code under test that no longer terminates must not keep the check waiting for long
        timeout = min(timeout, 600)
    scratch = scratch_dir()
    try:
        exe, log = build_harness(harness, scratch)
        if exe is None:
            res.violation("harness no longer builds against /repo's working tree (broken tie)",
                          {"correspondence": res.corr_obligations[0], "build_log": log[-3000:]}, no_input=True)
            return None
        drv = build_driver(driver)
        rc, out, err = run_pipe(exe, [str(a) for a in harness_args], drv, [str(a) for a in driver_args], timeout=timeout)
        stats, mism, pfail, disag = None, [], [], []
        for line in out.splitlines():
            if line.startswith("STATS "):
                stats = json.loads(line[6:])
            elif line.startswith("MISMATCH "):
                mism.append(line[9:])
            elif line.startswith("PFAIL "):
                pfail.append(line[6:])
            elif line.startswith("DISAGREE "):
                disag.append(line[9:])
        if rc != 0 or stats is None:
            res.violation("implementation harness or model driver failed (rc=%s): the correspondence could not be established" % rc,
                          {"correspondence": res.corr_obligations[0], "stderr": err[-3000:], "stdout_tail": out[-1500:]}, no_input=True)
            return None
        res.cov.update({
            "evaluations": stats["cases"],
            "distinct_nontrivial": stats["distinct_nontrivial"],
            "rule": rule,
            "samples": stats["samples"],
            "kinds": stats["kinds"],
            "exhaustive": bool(exhaustive),
            "mismatches": stats["mismatches"],
        })
        for k, v in stats.items():
            if k not in ("cases", "distinct_nontrivial", "samples", "kinds", "mismatches"):
                res.cov[k] = v
        res.assumptions = list(assumptions)
        if also_goarch:
            tag = "[GOARCH=%s] " % also_goarch
            exe2, log2 = build_harness(harness, scratch, goarch=also_goarch)
            if exe2 is None:
                res.violation("harness no longer builds for GOARCH=%s against /repo's working tree (broken tie)" % also_goarch,
                              {"correspondence": res.corr_obligations[0], "build_log": log2[-3000:]}, no_input=True)
            else:
                a2 = [str(a) for a in (goarch_args if goarch_args is not None else harness_args)]
                rc2, out2, err2 = run_pipe(exe2, a2, drv, [str(a) for a in driver_args], timeout=timeout)
                stats2 = None
                for line in out2.splitlines():
                    if line.startswith("STATS "):
                        stats2 = json.loads(line[6:])
                    elif line.startswith("MISMATCH "):
                        mism.append(tag + line[9:])
                    elif line.startswith("PFAIL "):
                        pfail.append(tag + line[6:])
                    elif line.startswith("DISAGREE "):
                        disag.append(tag + line[9:])
                if rc2 != 0 or stats2 is None:
                    res.violation("implementation harness (GOARCH=%s) or model driver failed (rc=%s)" % (also_goarch, rc2),
                                  {"correspondence": res.corr_obligations[0], "stderr": err2[-3000:], "stdout_tail": out2[-1500:]}, no_input=True)
                else:
                    res.cov["second_architecture"] = {
                        "goarch": also_goarch, "harness_args": a2, "evaluations": stats2["cases"],
                        "distinct_nontrivial": stats2["distinct_nontrivial"], "mismatches": stats2["mismatches"],
                        "note": "same harness cross-compiled (int/uint are 32 bit), same extracted model"}
                    res.corr_obligations.append("the same for the harness cross-compiled with GOARCH=%s (32-bit int/uint)" % also_goarch)
        found = False
        for kind, items in (("property predicate fails on the implementation's output", pfail),
                            ("implementation disagrees with the specification (model = spec is a theorem)", mism)):
            for m in items:
                obs, _, rest = m.partition(" || ")
                kd = known_matcher(obs) if known_matcher else None
                if kd:
                    if kd not in res.known_hits:
                        res.known_hits.append(kd)
                    continue
                found = True
                res.violation("%s: %s ; %s" % (kind, obs, rest), {"observation": obs, "detail": rest,
                              "harness": "harness/%s/main.go %s" % (harness, " ".join(map(str, harness_args)))})
        if not found and disag:
            res.violation("model and implementation disagree on inputs where the property predicate still holds; "
                          "correspondence broken: " + disag[0],
                          {"correspondence": res.corr_obligations[0], "disagreements": disag[:10]}, no_input=True)
        return stats
    finally:
        shutil.rmtree(scratch, ignore_errors=True)
