// verif_render: second pass of the C19 correspondence. Reads the lines ocaml/render_main.ml printed.
//
//	SEG <tag> <observed hex | - | E> <segment>*       (or the single pseudo segment !E: the model
//	                                                   says the call returns an error; observed E)
//
// Each segment of the MODEL's rendering (coq/theories/Gen/Render.v) is turned into bytes:
//
//	L<hex>    literal bytes (integers were already printed by the Coq printers)
//	G<bits>   strconv.AppendFloat(nil, math.Float64frombits(bits), 'g', -1, 64)   (cantext)
//	F<bits>   strconv.FormatFloat(math.Float64frombits(bits), 'f', -1, 64)        (canjson.floatToJSON)
//	J<hex>    encoding/json.Marshal(string(bytes))                                (struct string fields)
//	D<ns>     time.Duration(ns).String()                                          (CycleTime/DelayTime)
//
// These four calls are exactly what the model does NOT model (DESIGN.md section 3, oracles). The
// concatenation is compared with the bytes the implementation produced; a difference is printed as
//
//	MISMATCH <tag> obs=<hex> || model=<hex>
//
// The two hypotheses of theorem C19_json_valid are checked on every rendered value:
//
//	every F rendering matches the RFC 8259 number grammar, every J rendering is a JSON string
//	(PFAIL <tag> || clause=...). All other input lines are passed through unchanged.
//
// Final line: RSTATS {json}.
package main

import (
	"bufio"
	"bytes"
	"encoding/hex"
	"encoding/json"
	"fmt"
	"math"
	"os"
	"regexp"
	"strconv"
	"strings"
	"time"
)

var jsonNumber = regexp.MustCompile(`^-?(0|[1-9][0-9]*)(\.[0-9]+)?([eE][+-]?[0-9]+)?$`)

func unhex(s string) []byte {
	if s == "-" || s == "" {
		return nil
	}
	b, err := hex.DecodeString(s)
	if err != nil {
		fmt.Fprintln(os.Stderr, "bad hex:", s)
		os.Exit(3)
	}
	return b
}

func main() {
	in := bufio.NewScanner(os.Stdin)
	in.Buffer(make([]byte, 1<<20), 1<<28)
	out := bufio.NewWriterSize(os.Stdout, 1<<20)
	defer out.Flush()
	var compared, mism, nL, nG, nF, nJ, nD, hypF, hypJ, errs int
	kinds := map[string]int{}
	for in.Scan() {
		line := in.Text()
		if !strings.HasPrefix(line, "SEG ") {
			fmt.Fprintln(out, line)
			continue
		}
		toks := strings.Split(line, " ")
		if len(toks) < 3 {
			fmt.Fprintln(os.Stderr, "bad SEG line")
			os.Exit(3)
		}
		tag, obs := toks[1], toks[2]
		compared++
		kinds[tag[strings.LastIndex(tag, ":")+1:]]++
		if len(toks) == 4 && toks[3] == "!E" {
			errs++
			if obs != "E" {
				mism++
				if mism <= 40 {
					fmt.Fprintf(out, "MISMATCH %s obs=%s || model=error\n", tag, obs)
				}
			}
			continue
		}
		var buf []byte
		for _, sg := range toks[3:] {
			if sg == "" {
				continue
			}
			arg := sg[1:]
			switch sg[0] {
			case 'L':
				nL++
				buf = append(buf, unhex(arg)...)
			case 'G':
				nG++
				bits, _ := strconv.ParseUint(arg, 16, 64)
				buf = strconv.AppendFloat(buf, math.Float64frombits(bits), 'g', -1, 64)
			case 'F':
				nF++
				bits, _ := strconv.ParseUint(arg, 16, 64)
				s := strconv.FormatFloat(math.Float64frombits(bits), 'f', -1, 64)
				if !jsonNumber.MatchString(s) {
					hypF++
					fmt.Fprintf(out, "PFAIL %s || clause=hypothesis: FormatFloat(%s,'f',-1,64) = %q is not a JSON number\n", tag, arg, s)
				}
				buf = append(buf, s...)
			case 'J':
				nJ++
				js, err := json.Marshal(string(unhex(arg)))
				if err != nil || len(js) < 2 || js[0] != '"' || js[len(js)-1] != '"' || !json.Valid(js) ||
					bytes.ContainsAny(js[1:len(js)-1], "\x00\x01\x02\x03\x04\x05\x06\x07\x08\x09\x0a\x0b\x0c\x0d\x0e\x0f\x10\x11\x12\x13\x14\x15\x16\x17\x18\x19\x1a\x1b\x1c\x1d\x1e\x1f") {
					hypJ++
					fmt.Fprintf(out, "PFAIL %s || clause=hypothesis: json.Marshal(string %s) = %q is not a JSON string\n", tag, arg, js)
				}
				buf = append(buf, js...)
			case 'D':
				nD++
				ns, _ := strconv.ParseUint(arg, 16, 64)
				buf = append(buf, time.Duration(int64(ns)).String()...)
			default:
				fmt.Fprintln(os.Stderr, "bad segment:", sg)
				os.Exit(3)
			}
		}
		if obs == "E" || !bytes.Equal(buf, unhex(obs)) {
			mism++
			if mism <= 40 {
				m := hex.EncodeToString(buf)
				if m == "" {
					m = "-"
				}
				fmt.Fprintf(out, "MISMATCH %s obs=%s || model=%s\n", tag, obs, m)
			}
		}
	}
	ks, _ := json.Marshal(kinds)
	fmt.Fprintf(out, "RSTATS {\"renderings_compared\":%d,\"rendering_mismatches\":%d,\"model_errors\":%d,\"segments\":{\"Lit\":%d,\"FloatG\":%d,\"FloatF\":%d,\"GoJSONString\":%d,\"GoDuration\":%d},\"hypothesis_failures\":{\"FloatF_is_json_number\":%d,\"GoJSONString_is_json_string\":%d},\"by_renderer\":%s}\n",
		compared, mism, errs, nL, nG, nF, nJ, nD, hypF, hypJ, ks)
}
