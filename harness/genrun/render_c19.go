// Mode "render" of verif_genrun (property C19): what the renderers print for generated messages.
//
//	verif_genrun render <seed> <states per message> [<pages per package> [<retained states per message>]]
//
// For every message of every registered package a set of states is reached with
// UnmarshalFrame(payload) on a fresh, Reset() instance: all-zero, all-one, for every signal the
// payloads that put its raw extremes (all ones, only the top bit, all but the top bit) on a zero and
// on a random background, and <states per message> payloads of randPayload (zero / ones / one-hot /
// one-cold / random). Payload choice uses descriptor.Signal.MarshalUnsigned only to place bits; the
// payload itself is printed and the model starts from it.
//
// Observation lines (read by ocaml/render_main.ml; all byte strings in hex, "-" = empty):
//
//	R <pkg> <msg index> <payload> <frame data> T=<cantext.Marshal> C=<cantext.MarshalCompact>
//	    S=<cantext.MessageString> G=<msg.String()> J=<canjson.Marshal | E on error> V=<json.Valid 0|1>
//	PH <pkg> <history>.<step> <url path> <entries> <request> K=<status> H=<Content-Type> B=<body> U=<0|1>
//	    HISTORIES of requests: ONE []generated.Message slice (entries as for P; additionally rn / tn0 / tn1 =
//	    wrappers whose ReceiveTime / TransmitTime is a real, recent time) is handed to
//	    candebug.ServeMessagesHTTP for a sequence of requests: every message by name (every position of the
//	    slice), the overview, single ones again; between requests the state of a message is changed (Reset +
//	    UnmarshalFrame, its time set to now: a new frame arrived). <request> = the conditional headers sent,
//	    the ones a browser / poller sends on a repeated request: ims (If-Modified-Since = Last-Modified of
//	    the previous response, else the current time as its Date), inm (If-None-Match = the previous ETag, if
//	    any), range (Range: bytes=0-10), ifrange; "-" = none. <entries> = what the caller put in the slice,
//	    with the CURRENT payloads. U = 1 iff the caller's slice still holds the same values in the same order
//	    after the request. The time-dependent text "<duration> ago (<clock>)" of rn/tn entries is checked by
//	    the harness (clock = the entry's time, 0 <= duration <= time since) and replaced by "never" before the
//	    body is printed (if the check fails the text is left as it is and differs from the model).
//	RR ...  the same as R, but on a message INSTANCE that was rendered before in another state and was then
//	    taken to this state by Reset() + UnmarshalFrame(payload) (a renderer must not remember an instance)
//	P <pkg> <url path> <entries> K=<status code> H=<Content-Type> B=<response body>
//	    entries = comma separated <wrapper>:<msg index>:<payload>; wrapper p = the generated message
//	    type itself, r = with ReceiveTime() (zero time), t0/t1 = with TransmitTime() (zero time) and
//	    IsCyclicTransmissionEnabled() false/true: the optional interfaces candebug looks for, as the
//	    generated <Node>_Rx_/<Node>_Tx_ message types provide them. Only zero times are used, so the
//	    page carries no time-dependent text ("Received: never").
//	    The body is what candebug.ServeMessagesHTTP wrote to an httptest.ResponseRecorder for
//	    httptest.NewRequest(GET, <url path>[?query]); a query (never part of URL.Path) is added to some.
//
// Call patterns beyond "render once, compare at once" (facts about Go memory and about how callers
// use the API; per package, after the R lines, <retained states per message> random states per message,
// the (message, state) items in shuffled order so that consecutive calls render different messages):
//
//	A <pkg> <msg index> <payload> <signal index | -> <renderer> <later> <copy> <now>
//	    RETAINED results. Every value returned by cantext.Marshal, MarshalCompact, MessageString,
//	    msg.String(), canjson.Marshal and by AppendSignal / AppendSignalCompact (every signal) / AppendID /
//	    AppendSender / AppendSendType / AppendCycleTime / AppendDelayTime / AppendFrame called with a nil
//	    buffer is kept (the []byte / string itself) together with a copy taken when it was returned, while
//	    all other items of the package are rendered, the B and AC phases run, every item is rendered a
//	    second time from the SAME message value (renderer "<name>#2") and the debug pages are served.
//	    At the end of the package <now> = the bytes the kept value holds then; <later> = number of
//	    results obtained after it.
//	AP <pkg> <url path> <entries> <later> <copy> <now>     the same for the HTTP response bodies
//	AF <pkg> <msg index> <payload> <frame before> <frame after>
//	    msg.Frame() before the first and after the last rendering of an item (rendering must not change
//	    the message)
//	AC <pkg> <msg index> <payload> <renderer> <calls> <distinct results, comma separated, at most 4>
//	    CONCURRENT: 4 goroutines, each with its own message values (items dealt round-robin), render
//	    Marshal, MarshalCompact, MessageString, canjson.Marshal and AppendSignal(nil, first signal) of
//	    their items, yield, and keep every result until all goroutines are done; then the distinct byte
//	    strings each (item, renderer) produced are listed.
//	B <pkg> <msg index> <payload> <signal index | -> <function> <spare> <prefix> <prefix after> <result | E>
//	    Append* called with buf = a random non-empty-or-empty PREFIX of len n in a backing array of capacity
//	    n+<spare> (spare capacity pre-filled with 0xAA): <prefix after> = the first n bytes of the caller's
//	    backing array after the call, <result> = the returned slice (E = the call panicked).
//	BF <id> <len> <ext> <rem> <data> <spare> <prefix> <prefix after> <result | E>
//	    cantext.AppendFrame on arbitrary frames (remote, extended, Length up to 15: Frame.String panics
//	    on data frames longer than 8).
package main

import (
	"bytes"
	"encoding/hex"
	"encoding/json"
	"fmt"
	"math/rand"
	"net/http"
	"net/http/httptest"
	"regexp"
	"runtime"
	"sort"
	"strconv"
	"strings"
	"sync"
	"time"

	"go.einride.tech/can"
	"go.einride.tech/can/pkg/candebug"
	"go.einride.tech/can/pkg/canjson"
	"go.einride.tech/can/pkg/cantext"
	"go.einride.tech/can/pkg/descriptor"
	"go.einride.tech/can/pkg/generated"
)

func init() { extraModes["render"] = c19RenderMode }

type c19RxWrap struct{ generated.Message }

func (c19RxWrap) ReceiveTime() time.Time { return time.Time{} }

type c19TxWrap struct {
	generated.Message
	enabled bool
}

func (c19TxWrap) TransmitTime() time.Time             { return time.Time{} }
func (t c19TxWrap) IsCyclicTransmissionEnabled() bool { return t.enabled }

// wrappers with a real time; pointers, so that the time can move while the caller's slice keeps the value
type c19RxTime struct {
	generated.Message
	at time.Time
}

func (w *c19RxTime) ReceiveTime() time.Time { return w.at }

type c19TxTime struct {
	generated.Message
	at      time.Time
	enabled bool
}

func (w *c19TxTime) TransmitTime() time.Time           { return w.at }
func (w *c19TxTime) IsCyclicTransmissionEnabled() bool { return w.enabled }

var c19AgoLine = regexp.MustCompile(`(?m)^(Received|Transmitted): (\S+) ago \((\S+)\)$`)

// replaces "<duration> ago (<clock>)" by "never" where clock is the clock text of one of the times in
// use and the duration lies between 0 and the time since the OLDEST of them
func c19NormaliseTimes(body []byte, times []time.Time) []byte {
	return c19AgoLine.ReplaceAllFunc(body, func(l []byte) []byte {
		m := c19AgoLine.FindSubmatch(l)
		d, err := time.ParseDuration(string(m[2]))
		if err != nil || d < 0 {
			return l
		}
		for _, t := range times {
			if string(m[3]) == t.Format("15:04:05.000000000") && d <= time.Since(t) {
				return []byte(string(m[1]) + ": never")
			}
		}
		return l
	})
}

type c19HistEntry struct {
	kind    string
	mi      int
	md      *descriptor.Message
	payload can.Data
	inner   generated.Message
}

func c19History(rng *rand.Rand, pn string, d dispatcher, db *descriptor.Database, hid int) {
	// the caller's slice: every message once, in random order for odd histories
	order := rng.Perm(len(db.Messages))
	if hid%2 == 0 {
		for i := range order {
			order[i] = i
		}
	}
	var msgs []generated.Message
	var ents []*c19HistEntry
	var times []time.Time
	for _, mi := range order {
		md := db.Messages[mi]
		p := randPayload(rng)
		msg := c19Reach(d, md, p)
		if msg == nil {
			continue
		}
		kind := []string{"p", "r", "t0", "t1", "rn", "rn", "tn0", "tn1"}[rng.Intn(8)]
		at := time.Now().Add(-time.Duration(rng.Intn(3000)) * time.Millisecond)
		var w generated.Message
		switch kind {
		case "p":
			w = msg
		case "r":
			w = c19RxWrap{msg}
		case "t0":
			w = c19TxWrap{msg, false}
		case "t1":
			w = c19TxWrap{msg, true}
		case "rn":
			w = &c19RxTime{msg, at}
			times = append(times, at)
		case "tn0":
			w = &c19TxTime{msg, at, false}
			times = append(times, at)
		default:
			w = &c19TxTime{msg, at, true}
			times = append(times, at)
		}
		msgs = append(msgs, w)
		ents = append(ents, &c19HistEntry{kind, mi, md, p, msg})
	}
	if len(msgs) == 0 {
		return
	}
	orig := append([]generated.Message(nil), msgs...)
	// the paths: every position by name, the overview, two more single ones, the overview
	var paths []string
	for _, e := range ents {
		paths = append(paths, "/debug/"+e.md.Name)
	}
	paths = append(paths, "/debug/", "/"+ents[rng.Intn(len(ents))].md.Name, "/"+ents[len(ents)-1].md.Name, "/")
	var lastModified, etag string
	for step, path := range paths {
		// a new frame arrives for one message (not before the first request)
		if step > 0 && rng.Intn(3) != 0 {
			k := rng.Intn(len(ents))
			e := ents[k]
			p := randPayload(rng)
			e.inner.Reset()
			if err := e.inner.UnmarshalFrame(can.Frame{ID: e.md.ID, Length: e.md.Length, IsExtended: e.md.IsExtended, Data: p}); err == nil {
				e.payload = p
			} else {
				e.payload = e.inner.Frame().Data
			}
			now := time.Now()
			switch w := orig[k].(type) {
			case *c19RxTime:
				w.at = now
				times = append(times, now)
			case *c19TxTime:
				w.at = now
				times = append(times, now)
			}
		}
		req := httptest.NewRequest(http.MethodGet, path, nil)
		var hs []string
		if step > 0 {
			switch rng.Intn(5) {
			case 0:
			case 1, 2:
				hs = append(hs, "ims")
			case 3:
				hs = append(hs, "range")
			default:
				hs = append(hs, "ims", "range", "ifrange")
			}
		}
		for _, h := range hs {
			switch h {
			case "ims":
				v := lastModified
				if v == "" {
					v = time.Now().UTC().Format(http.TimeFormat)
				}
				req.Header.Set("If-Modified-Since", v)
				if etag != "" {
					req.Header.Set("If-None-Match", etag)
				}
			case "range":
				req.Header.Set("Range", "bytes=0-10")
			case "ifrange":
				if lastModified != "" {
					req.Header.Set("If-Range", lastModified)
				}
			}
		}
		if etag != "" && len(hs) > 0 && hs[0] == "ims" {
			hs = append(hs, "inm")
		}
		rec := httptest.NewRecorder()
		if step%2 == 1 && len(ents) > 0 {
			// overlapping requests: while this response is being written (on entry to its first WriteHeader/Write,
			// before a byte is copied) two other requests are served completely - what a slow client next to a fast
			// one amounts to, made deterministic by running the other requests inside the writer
			other := []string{"/verif/", "/verif/" + ents[rng.Intn(len(ents))].md.Name}
			candebug.ServeMessagesHTTP(&c19ReentrantWriter{ResponseRecorder: rec, intrude: func() {
				for _, op := range other {
					candebug.ServeMessagesHTTP(httptest.NewRecorder(), httptest.NewRequest(http.MethodGet, op, nil), msgs)
				}
			}}, req, msgs)
			c19Overlapped++
		} else {
			candebug.ServeMessagesHTTP(rec, req, msgs)
		}
		if v := rec.Header().Get("Last-Modified"); v != "" {
			lastModified = v
		}
		if v := rec.Header().Get("ETag"); v != "" {
			etag = v
		}
		unchanged := 1
		if len(msgs) != len(orig) {
			unchanged = 0
		}
		for i := range orig {
			if i < len(msgs) && msgs[i] != orig[i] {
				unchanged = 0
			}
		}
		var es []string
		for _, e := range ents {
			es = append(es, fmt.Sprintf("%s:%x:%s", e.kind, e.mi, hexData(e.payload)))
		}
		hd := "-"
		if len(hs) > 0 {
			hd = strings.Join(hs, "+")
		}
		fmt.Fprintf(out, "PH %s %d.%d %s %s %s K=%d H=%s B=%s U=%d\n", pn, hid, step, c19Hex([]byte(req.URL.Path)), strings.Join(es, ","), hd,
			rec.Code, c19Hex([]byte(rec.Header().Get("Content-Type"))), c19Hex(c19NormaliseTimes(rec.Body.Bytes(), times)), unchanged)
	}
}

// c19ReentrantWriter: a ResponseWriter during whose first WriteHeader/Write call other requests are served to
// completion before the bytes handed over are looked at (seeded change C19-w10-m2: the page buffer went back to a
// sync.Pool before the write, so a request rendered meanwhile reused and overwrote it).
type c19ReentrantWriter struct {
	*httptest.ResponseRecorder
	intrude func()
	done    bool
}

var c19Overlapped int

func (w *c19ReentrantWriter) once() {
	if !w.done {
		w.done = true
		w.intrude()
	}
}

func (w *c19ReentrantWriter) WriteHeader(code int) {
	w.once()
	w.ResponseRecorder.WriteHeader(code)
}

func (w *c19ReentrantWriter) Write(b []byte) (int, error) {
	w.once()
	return w.ResponseRecorder.Write(b)
}

func c19Hex(b []byte) string {
	if len(b) == 0 {
		return "-"
	}
	return hex.EncodeToString(b)
}

// payloads that exercise the raw extremes of every signal of md
func c19ExtremePayloads(rng *rand.Rand, md *descriptor.Message) []can.Data {
	ps := []can.Data{dataOf(0), dataOf(^uint64(0))}
	for _, s := range md.Signals {
		L := uint(s.Length)
		if L == 0 || L > 64 {
			continue
		}
		max := ^uint64(0)
		if L < 64 {
			max = uint64(1)<<L - 1
		}
		top := uint64(1) << (L - 1)
		for _, v := range []uint64{max, top, max ^ top} {
			for _, bg := range []can.Data{dataOf(0), dataOf(rng.Uint64())} {
				d := bg
				s.MarshalUnsigned(&d, v)
				// the multiplexer must select a multiplexed signal for it to be read at all
				if s.IsMultiplexed {
					if mux, ok := md.MultiplexerSignal(); ok {
						mux.MarshalUnsigned(&d, uint64(s.MultiplexerValue))
					}
				}
				ps = append(ps, d)
			}
		}
	}
	return ps
}

func c19Reach(d dispatcher, md *descriptor.Message, payload can.Data) generated.Message {
	msg := fresh(d, md)
	if msg == nil {
		return nil
	}
	if err := msg.UnmarshalFrame(can.Frame{ID: md.ID, Length: md.Length, IsExtended: md.IsExtended, Data: payload}); err != nil {
		return nil
	}
	return msg
}

func c19RenderLine(pn string, mi int, payload can.Data, msg generated.Message) {
	c19RenderLineKind("R", pn, mi, payload, msg)
}

func c19RenderLineKind(kind, pn string, mi int, payload can.Data, msg generated.Message) {
	j, err := canjson.Marshal(msg)
	js := c19Hex(j)
	if err != nil {
		js = "E"
	}
	valid := 0
	if err == nil && json.Valid(j) {
		valid = 1
	}
	g := "?"
	if st, ok := msg.(fmt.Stringer); ok {
		g = c19Hex([]byte(st.String()))
	}
	fmt.Fprintf(out, "%s %s %x %s %s T=%s C=%s S=%s G=%s J=%s V=%d\n", kind, pn, mi, hexData(payload), hexData(msg.Frame().Data),
		c19Hex(cantext.Marshal(msg)), c19Hex(cantext.MarshalCompact(msg)), c19Hex([]byte(cantext.MessageString(msg))), g, js, valid)
}

// ---- retained results ------------------------------------------------------------------------

type c19Kept struct {
	head string  // "A <pkg> <mi> <payload> <si> <renderer>" or "AP <pkg> <path> <ents>"
	b    []byte  // the returned slice itself (nil when the result was a string)
	s    *string // the returned string itself
	copy []byte  // copy taken when it was returned
}

type c19Keeper struct{ kept []c19Kept }

func (k *c19Keeper) bytes(head string, b []byte) {
	k.kept = append(k.kept, c19Kept{head: head, b: b, copy: append([]byte(nil), b...)})
}

func (k *c19Keeper) str(head string, s string) {
	k.kept = append(k.kept, c19Kept{head: head, s: &s, copy: []byte(strings.Clone(s))})
}

func (k *c19Keeper) flush() {
	n := len(k.kept)
	for i, e := range k.kept {
		now := e.b
		if e.s != nil {
			now = []byte(*e.s)
		}
		fmt.Fprintf(out, "%s %d %s %s\n", e.head, n-1-i, c19Hex(e.copy), c19Hex(now))
	}
	k.kept = nil
}

type c19Item struct {
	mi      int
	md      *descriptor.Message
	payload can.Data
	msg     generated.Message
	before  can.Frame
}

func c19Head(pn string, it *c19Item, si int, renderer string) string {
	sx := "-"
	if si >= 0 {
		sx = strconv.Itoa(si)
	}
	return fmt.Sprintf("A %s %x %s %s %s", pn, it.mi, hexData(it.payload), sx, renderer)
}

// every bytes/string returning entry point on one item; suffix "" or "#2"
func c19RenderKeep(k *c19Keeper, pn string, it *c19Item, suffix string, appends bool) {
	msg := it.msg
	k.bytes(c19Head(pn, it, -1, "Marshal"+suffix), cantext.Marshal(msg))
	k.bytes(c19Head(pn, it, -1, "MarshalCompact"+suffix), cantext.MarshalCompact(msg))
	k.str(c19Head(pn, it, -1, "MessageString"+suffix), cantext.MessageString(msg))
	if st, ok := msg.(fmt.Stringer); ok {
		k.str(c19Head(pn, it, -1, "String"+suffix), st.String())
	}
	if j, err := canjson.Marshal(msg); err == nil {
		k.bytes(c19Head(pn, it, -1, "canjson.Marshal"+suffix), j)
	}
	if !appends {
		return
	}
	d := msg.Frame().Data
	md := msg.Descriptor()
	for si, sg := range md.Signals {
		k.bytes(c19Head(pn, it, si, "AppendSignal"+suffix), cantext.AppendSignal(nil, sg, d))
		k.bytes(c19Head(pn, it, si, "AppendSignalCompact"+suffix), cantext.AppendSignalCompact(nil, sg, d))
	}
	for _, fn := range c19MsgAppends {
		k.bytes(c19Head(pn, it, -1, fn.name+suffix), fn.f(nil, md))
	}
	k.bytes(c19Head(pn, it, -1, "AppendFrame"+suffix), cantext.AppendFrame(nil, msg.Frame()))
}

var c19MsgAppends = []struct {
	name string
	f    func([]byte, *descriptor.Message) []byte
}{
	{"AppendID", cantext.AppendID},
	{"AppendSender", cantext.AppendSender},
	{"AppendSendType", cantext.AppendSendType},
	{"AppendCycleTime", cantext.AppendCycleTime},
	{"AppendDelayTime", cantext.AppendDelayTime},
}

// ---- Append* onto a caller's prefix ----------------------------------------------------------

// returns prefix, the first len(prefix) bytes of the caller's array after the call, the result
func c19WithPrefix(rng *rand.Rand, call func(buf []byte) []byte) (spare int, prefix, after, res []byte, panicked bool) {
	n := []int{0, 1, 2, 5, 13, 40}[rng.Intn(6)]
	spare = []int{0, 1, 3, 16, 64, 600}[rng.Intn(6)]
	// half of the prefixes are random bytes, half are what callers really have in the buffer: text
	// ending in a separator
	var text []byte
	if rng.Intn(2) == 0 {
		text = []byte([]string{" ", "\n", "{", "x: ", "a: 1, ", "Name\n\t", "a=b;  ", "0x", "1.5", "\x00"}[rng.Intn(10)])
		n = len(text)
	}
	arr := make([]byte, n+spare)
	for i := range arr {
		if i < n {
			arr[i] = byte(rng.Intn(256))
		} else {
			arr[i] = 0xAA
		}
	}
	copy(arr, text)
	prefix = append([]byte(nil), arr[:n]...)
	func() {
		defer func() {
			if r := recover(); r != nil {
				panicked = true
			}
		}()
		res = call(arr[:n:len(arr)])
	}()
	after = append([]byte(nil), arr[:n]...)
	return
}

func c19ResHex(res []byte, panicked bool) string {
	if panicked {
		return "E"
	}
	return c19Hex(res)
}

func c19PrefixLines(rng *rand.Rand, pn string, it *c19Item) {
	msg := it.msg
	d := msg.Frame().Data
	md := msg.Descriptor()
	line := func(si int, fn string, call func(buf []byte) []byte) {
		spare, prefix, after, res, pan := c19WithPrefix(rng, call)
		sx := "-"
		if si >= 0 {
			sx = strconv.Itoa(si)
		}
		fmt.Fprintf(out, "B %s %x %s %s %s %d %s %s %s\n", pn, it.mi, hexData(it.payload), sx, fn, spare,
			c19Hex(prefix), c19Hex(after), c19ResHex(res, pan))
	}
	for si, sg := range md.Signals {
		sg := sg
		line(si, "AppendSignal", func(buf []byte) []byte { return cantext.AppendSignal(buf, sg, d) })
		line(si, "AppendSignalCompact", func(buf []byte) []byte { return cantext.AppendSignalCompact(buf, sg, d) })
	}
	for _, fn := range c19MsgAppends {
		fn := fn
		line(-1, fn.name, func(buf []byte) []byte { return fn.f(buf, md) })
	}
	f := msg.Frame()
	line(-1, "AppendFrame", func(buf []byte) []byte { return cantext.AppendFrame(buf, f) })
}

func c19FrameLines(rng *rand.Rand, n int) {
	for i := 0; i < n; i++ {
		f := can.Frame{ID: rng.Uint32() & 0x1fffffff, Length: uint8(rng.Intn(9)), Data: randPayload(rng)}
		switch rng.Intn(6) {
		case 0:
			f.IsRemote = true
		case 1:
			f.IsExtended = true
		case 2:
			f.Length = uint8(9 + rng.Intn(7))
		case 3:
			f.Length, f.IsRemote = uint8(9+rng.Intn(7)), true
		}
		if !f.IsExtended {
			f.ID &= 0x7ff
		}
		spare, prefix, after, res, pan := c19WithPrefix(rng, func(buf []byte) []byte { return cantext.AppendFrame(buf, f) })
		fmt.Fprintf(out, "BF %s %d %s %s %s\n", frameStr(f), spare, c19Hex(prefix), c19Hex(after), c19ResHex(res, pan))
	}
}

// ---- concurrent rendering --------------------------------------------------------------------

type c19Pending struct {
	item     int
	renderer string
	b        []byte
	s        *string
}

func c19Concurrent(pn string, d dispatcher, items []*c19Item, rounds int) (lines []string) {
	const workers = 4
	if len(items) == 0 {
		return nil
	}
	pend := make([][]c19Pending, workers)
	var wg sync.WaitGroup
	for w := 0; w < workers; w++ {
		// each goroutine renders its own message values
		var mine []int
		var msgs []generated.Message
		for i := w; i < len(items); i += workers {
			if m := c19Reach(d, items[i].md, items[i].payload); m != nil {
				mine = append(mine, i)
				msgs = append(msgs, m)
			}
		}
		wg.Add(1)
		go func(w int) {
			defer wg.Done()
			for r := 0; r < rounds; r++ {
				for x, i := range mine {
					msg := msgs[x]
					p := &pend[w]
					*p = append(*p, c19Pending{item: i, renderer: "Marshal", b: cantext.Marshal(msg)})
					*p = append(*p, c19Pending{item: i, renderer: "MarshalCompact", b: cantext.MarshalCompact(msg)})
					runtime.Gosched()
					s := cantext.MessageString(msg)
					*p = append(*p, c19Pending{item: i, renderer: "MessageString", s: &s})
					if j, err := canjson.Marshal(msg); err == nil {
						*p = append(*p, c19Pending{item: i, renderer: "canjson.Marshal", b: j})
					}
					if sg := msg.Descriptor().Signals; len(sg) > 0 {
						*p = append(*p, c19Pending{item: i, renderer: "AppendSignal", b: cantext.AppendSignal(nil, sg[0], msg.Frame().Data)})
					}
					first := len(*p) - 5
					if first < 0 {
						first = 0
					}
					var copies [][]byte
					for _, e := range (*p)[first:] {
						copies = append(copies, append([]byte(nil), e.b...))
					}
					runtime.Gosched()
					// look at the results of this step again while the other goroutines keep rendering
					// (a value that is written by someone else in between shows up here, and as a data
					// race under the race detector)
					for x, e := range (*p)[first:] {
						if e.b != nil && !bytes.Equal(e.b, copies[x]) {
							*p = append(*p, c19Pending{item: e.item, renderer: e.renderer, b: append([]byte(nil), e.b...)})
						}
					}
				}
			}
		}(w)
	}
	wg.Wait()
	type key struct {
		item     int
		renderer string
	}
	seen := map[key]map[string]bool{}
	calls := map[key]int{}
	var keys []key
	for w := 0; w < workers; w++ {
		for _, e := range pend[w] {
			k := key{e.item, e.renderer}
			if seen[k] == nil {
				seen[k] = map[string]bool{}
				keys = append(keys, k)
			}
			calls[k]++
			if e.s != nil {
				seen[k][*e.s] = true
			} else {
				seen[k][string(e.b)] = true
			}
		}
	}
	sort.Slice(keys, func(a, b int) bool {
		if keys[a].item != keys[b].item {
			return keys[a].item < keys[b].item
		}
		return keys[a].renderer < keys[b].renderer
	})
	for _, k := range keys {
		var rs []string
		for r := range seen[k] {
			rs = append(rs, c19Hex([]byte(r)))
		}
		sort.Strings(rs)
		if len(rs) > 4 {
			rs = rs[:4]
		}
		it := items[k.item]
		lines = append(lines, fmt.Sprintf("AC %s %x %s %s %d %s", pn, it.mi, hexData(it.payload), k.renderer, calls[k], strings.Join(rs, ",")))
	}
	return lines
}

func c19RenderMode(args []string) {
	num := func(i int, def int64) int64 {
		if len(args) > i {
			if v, err := strconv.ParseInt(args[i], 10, 64); err == nil {
				return v
			}
		}
		return def
	}
	seed, perMsg, pages, keepPer := num(0, 1), int(num(1, 8)), int(num(2, 24)), int(num(3, 4))
	rng := rand.New(rand.NewSource(seed))
	c19FrameLines(rng, 40)
	for _, pn := range pkgNames() {
		d := registry[pn]
		fmt.Fprintf(out, "PKG %s\n", pn)
		db := d.Database()
		for mi, md := range db.Messages {
			ps := c19ExtremePayloads(rng, md)
			for i := 0; i < perMsg; i++ {
				ps = append(ps, randPayload(rng))
			}
			for _, p := range ps {
				msg := c19Reach(d, md, p)
				if msg == nil {
					fmt.Fprintf(out, "R %s %x %s NOSTATE\n", pn, mi, hexData(p))
					continue
				}
				c19RenderLine(pn, mi, p, msg)
			}
		}
		if len(db.Messages) == 0 {
			continue
		}
		// retained results, prefixes, concurrency (see the header)
		keeper := &c19Keeper{}
		var items []*c19Item
		for mi, md := range db.Messages {
			for i := 0; i < keepPer; i++ {
				p := randPayload(rng)
				if i == 0 {
					if ex := c19ExtremePayloads(rng, md); len(ex) > 0 {
						p = ex[rng.Intn(len(ex))]
					}
				}
				if msg := c19Reach(d, md, p); msg != nil {
					items = append(items, &c19Item{mi: mi, md: md, payload: p, msg: msg, before: msg.Frame()})
				}
			}
		}
		rng.Shuffle(len(items), func(a, b int) { items[a], items[b] = items[b], items[a] })
		for _, it := range items {
			c19RenderKeep(keeper, pn, it, "", true)
		}
		for i, it := range items {
			if i%2 == 0 || keepPer > 8 {
				c19PrefixLines(rng, pn, it)
			}
		}
		acLines := c19Concurrent(pn, d, items, 3)
		for _, it := range items {
			c19RenderKeep(keeper, pn, it, "#2", false)
			fmt.Fprintf(out, "AF %s %x %s %s %s\n", pn, it.mi, hexData(it.payload), strings.ReplaceAll(frameStr(it.before), " ", ","),
				strings.ReplaceAll(frameStr(it.msg.Frame()), " ", ","))
		}
		// the SAME message instances taken to a new state (Reset + UnmarshalFrame) and rendered again:
		// a rendering must report the state the message has now
		for _, it := range items {
			p := randPayload(rng)
			it.msg.Reset()
			if err := it.msg.UnmarshalFrame(can.Frame{ID: it.md.ID, Length: it.md.Length, IsExtended: it.md.IsExtended, Data: p}); err != nil {
				fmt.Fprintf(out, "RR %s %x %s NOSTATE\n", pn, it.mi, hexData(p))
				continue
			}
			c19RenderLineKind("RR", pn, it.mi, p, it.msg)
		}
		// debug pages
		for pg := 0; pg < pages; pg++ {
			// the served list: all messages of the package in database order, sometimes rotated
			// or with a message listed twice (the first match must win)
			idx := make([]int, len(db.Messages))
			for i := range idx {
				idx[i] = i
			}
			switch rng.Intn(5) {
			case 0:
				rng.Shuffle(len(idx), func(a, b int) { idx[a], idx[b] = idx[b], idx[a] })
			case 1:
				idx = append(idx, idx[rng.Intn(len(idx))])
			}
			var msgs []generated.Message
			var ents []string
			for _, mi := range idx {
				md := db.Messages[mi]
				p := randPayload(rng)
				msg := c19Reach(d, md, p)
				if msg == nil {
					continue
				}
				kind := []string{"p", "r", "t0", "t1"}[rng.Intn(4)]
				var w generated.Message
				switch kind {
				case "p":
					w = msg
				case "r":
					w = c19RxWrap{msg}
				case "t0":
					w = c19TxWrap{msg, false}
				default:
					w = c19TxWrap{msg, true}
				}
				msgs = append(msgs, w)
				ents = append(ents, fmt.Sprintf("%s:%x:%s", kind, mi, hexData(p)))
			}
			if len(msgs) == 0 {
				continue
			}
			name := db.Messages[idx[rng.Intn(len(idx))]].Name
			var path string
			switch rng.Intn(14) {
			case 0:
				path = "/"
			case 1:
				path = "/debug/rx"
			case 2, 3, 4:
				path = "/" + name
			case 5:
				path = "/debug/" + name
			case 6:
				path = "/debug/" + name + "/"
			case 7:
				path = "/" + name + "x"
			case 8:
				path = "/x" + name
			case 9:
				path = "/" + strings.ToLower(name)
			case 10:
				path = "/" + name + "/other"
			case 11:
				path = "//" + name + "//"
			case 12:
				path = "/" + name[:len(name)-1]
			default:
				path = "/debug/" + name[1:]
			}
			rec := httptest.NewRecorder()
			target := path
			if rng.Intn(4) == 0 {
				// a query is not part of URL.Path: it must not influence the selection
				target = path + "?m=/" + db.Messages[rng.Intn(len(db.Messages))].Name
			}
			req := httptest.NewRequest(http.MethodGet, target, nil)
			candebug.ServeMessagesHTTP(rec, req, msgs)
			fmt.Fprintf(out, "P %s %s %s K=%d H=%s B=%s\n", pn, c19Hex([]byte(req.URL.Path)), strings.Join(ents, ","),
				rec.Code, c19Hex([]byte(rec.Header().Get("Content-Type"))), c19Hex(rec.Body.Bytes()))
			keeper.bytes(fmt.Sprintf("AP %s %s %s", pn, c19Hex([]byte(req.URL.Path)), strings.Join(ents, ",")), rec.Body.Bytes())
		}
		for h := 0; h < (pages+7)/8; h++ {
			c19History(rng, pn, d, db, h)
		}
		keeper.flush()
		for _, l := range acLines {
			fmt.Fprintln(out, l)
		}
	}
}
