// Mode "render" of verif_genrun (property C19): what the renderers print for generated messages.
//
//	verif_genrun render <seed> <states per message> [<pages per package>]
//
// For every message of every registered package a set of states is reached with
// UnmarshalFrame(payload) on a fresh, Reset() instance: all-zero, all-one, for every signal the
// payloads that put its raw extremes (all ones, only the top bit, all but the top bit) on a zero and
// on a random background, and <states per message> payloads of randPayload (zero / ones / one-hot /
// one-cold / random). Payload choice uses descriptor.Signal.MarshalUnsigned only to place bits; the
// payload itself is printed and the model starts from it.
//
// Observation lines (read by ocaml/render_main.ml; all byte strings in hex, "-" = empty):
//
//	R <pkg> <msg index> <payload> <frame data> T=<cantext.Marshal> C=<cantext.MarshalCompact>
//	    S=<cantext.MessageString> G=<msg.String()> J=<canjson.Marshal | E on error> V=<json.Valid 0|1>
//	P <pkg> <url path> <entries> K=<status code> H=<Content-Type> B=<response body>
//	    entries = comma separated <wrapper>:<msg index>:<payload>; wrapper p = the generated message
//	    type itself, r = with ReceiveTime() (zero time), t0/t1 = with TransmitTime() (zero time) and
//	    IsCyclicTransmissionEnabled() false/true: the optional interfaces candebug looks for, as the
//	    generated <Node>_Rx_/<Node>_Tx_ message types provide them. Only zero times are used, so the
//	    page carries no time-dependent text ("Received: never").
//	    The body is what candebug.ServeMessagesHTTP wrote to an httptest.ResponseRecorder for
//	    httptest.NewRequest(GET, <url path>).
package main

import (
	"encoding/hex"
	"encoding/json"
	"fmt"
	"math/rand"
	"net/http"
	"net/http/httptest"
	"strconv"
	"strings"
	"time"

	"go.einride.tech/can"
	"go.einride.tech/can/pkg/candebug"
	"go.einride.tech/can/pkg/canjson"
	"go.einride.tech/can/pkg/cantext"
	"go.einride.tech/can/pkg/descriptor"
	"go.einride.tech/can/pkg/generated"
)

func init() { extraModes["render"] = c19RenderMode }

type c19RxWrap struct{ generated.Message }

func (c19RxWrap) ReceiveTime() time.Time { return time.Time{} }

type c19TxWrap struct {
	generated.Message
	enabled bool
}

func (c19TxWrap) TransmitTime() time.Time             { return time.Time{} }
func (t c19TxWrap) IsCyclicTransmissionEnabled() bool { return t.enabled }

func c19Hex(b []byte) string {
	if len(b) == 0 {
		return "-"
	}
	return hex.EncodeToString(b)
}

// payloads that exercise the raw extremes of every signal of md
func c19ExtremePayloads(rng *rand.Rand, md *descriptor.Message) []can.Data {
	ps := []can.Data{dataOf(0), dataOf(^uint64(0))}
	for _, s := range md.Signals {
		L := uint(s.Length)
		if L == 0 || L > 64 {
			continue
		}
		max := ^uint64(0)
		if L < 64 {
			max = uint64(1)<<L - 1
		}
		top := uint64(1) << (L - 1)
		for _, v := range []uint64{max, top, max ^ top} {
			for _, bg := range []can.Data{dataOf(0), dataOf(rng.Uint64())} {
				d := bg
				s.MarshalUnsigned(&d, v)
				// the multiplexer must select a multiplexed signal for it to be read at all
				if s.IsMultiplexed {
					if mux, ok := md.MultiplexerSignal(); ok {
						mux.MarshalUnsigned(&d, uint64(s.MultiplexerValue))
					}
				}
				ps = append(ps, d)
			}
		}
	}
	return ps
}

func c19Reach(d dispatcher, md *descriptor.Message, payload can.Data) generated.Message {
	msg := fresh(d, md)
	if msg == nil {
		return nil
	}
	if err := msg.UnmarshalFrame(can.Frame{ID: md.ID, Length: md.Length, IsExtended: md.IsExtended, Data: payload}); err != nil {
		return nil
	}
	return msg
}

func c19RenderLine(pn string, mi int, payload can.Data, msg generated.Message) {
	j, err := canjson.Marshal(msg)
	js := c19Hex(j)
	if err != nil {
		js = "E"
	}
	valid := 0
	if err == nil && json.Valid(j) {
		valid = 1
	}
	g := "?"
	if st, ok := msg.(fmt.Stringer); ok {
		g = c19Hex([]byte(st.String()))
	}
	fmt.Fprintf(out, "R %s %x %s %s T=%s C=%s S=%s G=%s J=%s V=%d\n", pn, mi, hexData(payload), hexData(msg.Frame().Data),
		c19Hex(cantext.Marshal(msg)), c19Hex(cantext.MarshalCompact(msg)), c19Hex([]byte(cantext.MessageString(msg))), g, js, valid)
}

func c19RenderMode(args []string) {
	num := func(i int, def int64) int64 {
		if len(args) > i {
			if v, err := strconv.ParseInt(args[i], 10, 64); err == nil {
				return v
			}
		}
		return def
	}
	seed, perMsg, pages := num(0, 1), int(num(1, 8)), int(num(2, 24))
	rng := rand.New(rand.NewSource(seed))
	for _, pn := range pkgNames() {
		d := registry[pn]
		fmt.Fprintf(out, "PKG %s\n", pn)
		db := d.Database()
		for mi, md := range db.Messages {
			ps := c19ExtremePayloads(rng, md)
			for i := 0; i < perMsg; i++ {
				ps = append(ps, randPayload(rng))
			}
			for _, p := range ps {
				msg := c19Reach(d, md, p)
				if msg == nil {
					fmt.Fprintf(out, "R %s %x %s NOSTATE\n", pn, mi, hexData(p))
					continue
				}
				c19RenderLine(pn, mi, p, msg)
			}
		}
		if len(db.Messages) == 0 {
			continue
		}
		// debug pages
		for pg := 0; pg < pages; pg++ {
			// the served list: all messages of the package in database order, sometimes rotated
			// or with a message listed twice (the first match must win)
			idx := make([]int, len(db.Messages))
			for i := range idx {
				idx[i] = i
			}
			switch rng.Intn(5) {
			case 0:
				rng.Shuffle(len(idx), func(a, b int) { idx[a], idx[b] = idx[b], idx[a] })
			case 1:
				idx = append(idx, idx[rng.Intn(len(idx))])
			}
			var msgs []generated.Message
			var ents []string
			for _, mi := range idx {
				md := db.Messages[mi]
				p := randPayload(rng)
				msg := c19Reach(d, md, p)
				if msg == nil {
					continue
				}
				kind := []string{"p", "r", "t0", "t1"}[rng.Intn(4)]
				var w generated.Message
				switch kind {
				case "p":
					w = msg
				case "r":
					w = c19RxWrap{msg}
				case "t0":
					w = c19TxWrap{msg, false}
				default:
					w = c19TxWrap{msg, true}
				}
				msgs = append(msgs, w)
				ents = append(ents, fmt.Sprintf("%s:%x:%s", kind, mi, hexData(p)))
			}
			if len(msgs) == 0 {
				continue
			}
			name := db.Messages[idx[rng.Intn(len(idx))]].Name
			var path string
			switch rng.Intn(14) {
			case 0:
				path = "/"
			case 1:
				path = "/debug/rx"
			case 2, 3, 4:
				path = "/" + name
			case 5:
				path = "/debug/" + name
			case 6:
				path = "/debug/" + name + "/"
			case 7:
				path = "/" + name + "x"
			case 8:
				path = "/x" + name
			case 9:
				path = "/" + strings.ToLower(name)
			case 10:
				path = "/" + name + "/other"
			case 11:
				path = "//" + name + "//"
			case 12:
				path = "/" + name[:len(name)-1]
			default:
				path = "/debug/" + name[1:]
			}
			rec := httptest.NewRecorder()
			req := httptest.NewRequest(http.MethodGet, path, nil)
			candebug.ServeMessagesHTTP(rec, req, msgs)
			fmt.Fprintf(out, "P %s %s %s K=%d H=%s B=%s\n", pn, c19Hex([]byte(req.URL.Path)), strings.Join(ents, ","),
				rec.Code, c19Hex([]byte(rec.Header().Get("Content-Type"))), c19Hex(rec.Body.Bytes()))
		}
	}
}
