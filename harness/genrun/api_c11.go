package main

// Mode "api" (family api, property C11): what REFLECTION on the built generated packages shows of
// their API. For every registered package, in pkgNames() order:
//
//   REFL <pkg> METHOD *<Msg> <Name>(<params>)(<results>)     one line per method of the method set of
//                                                            *<Msg> (reflect.Type.Method, receiver dropped)
//   REFL <pkg> ENUM <Type> <kind> <value>=<s:hex of String()>;...;?<value>=<...>
//        for every signal with value descriptions: the named type of its raw getter, the kind of
//        its underlying type, String() of every declared value (descriptor order) and of up to
//        three undeclared values (prefix '?'); values as hex of the uint64 reinterpretation, bool 0/1
//   REFL <pkg> NOFRESH <Msg>     the dispatcher did not return an instance of the message
//   REFL <pkg> END <messages>
//
// Types are printed as reflect prints them, blanks removed and the generated package's own
// qualifier stripped, i.e. in the notation harness/api uses for the source text.
// Interface types (<Msg>Reader/<Msg>Writer, node interfaces), package-level functions and
// constants are not reachable by reflection from values: harness/api reads them from the
// generated source that this binary was compiled from.

import (
	"encoding/hex"
	"fmt"
	"reflect"
	"strings"

	"go.einride.tech/can/pkg/descriptor"
)

func init() { extraModes["api"] = apiMode }

func apiTypeText(t reflect.Type, own string) string {
	s := strings.ReplaceAll(t.String(), " ", "")
	return strings.ReplaceAll(s, own+".", "")
}

func apiTypes(n int, at func(int) reflect.Type, own string) string {
	var ts []string
	for i := 0; i < n; i++ {
		ts = append(ts, apiTypeText(at(i), own))
	}
	return "(" + strings.Join(ts, ",") + ")"
}

func apiSetValue(v reflect.Value, x int64) bool {
	switch v.Kind() {
	case reflect.Bool:
		v.SetBool(x != 0)
	case reflect.Int8, reflect.Int16, reflect.Int32, reflect.Int64:
		v.SetInt(x)
	case reflect.Uint8, reflect.Uint16, reflect.Uint32, reflect.Uint64:
		v.SetUint(uint64(x))
	case reflect.Float32, reflect.Float64:
		v.SetFloat(float64(x))
	default:
		return false
	}
	return true
}

func apiEnumEntry(t reflect.Type, x int64) string {
	v := reflect.New(t).Elem()
	if !apiSetValue(v, x) {
		return "unsettable"
	}
	str := v.MethodByName("String")
	if !str.IsValid() {
		return valStr(v) + "=nostring"
	}
	res := str.Call(nil)[0].String()
	return valStr(v) + "=s:" + hex.EncodeToString([]byte(res))
}

func apiUndeclared(t reflect.Type, s *descriptor.Signal) []int64 {
	declared := map[int64]bool{}
	for _, vd := range s.ValueDescriptions {
		declared[int64(vd.Value)] = true
	}
	var out []int64
	add := func(x int64) {
		if !declared[x] {
			declared[x] = true
			out = append(out, x)
		}
	}
	switch t.Kind() {
	case reflect.Bool:
		add(0)
		add(1)
	case reflect.Int8, reflect.Int16, reflect.Int32, reflect.Int64:
		for x := int64(0); x < 300 && len(out) == 0; x++ {
			add(x)
		}
		bits := uint(t.Bits())
		add(int64(-1) << (bits - 1))
		add(int64(1)<<(bits-1) - 1)
	case reflect.Uint8, reflect.Uint16, reflect.Uint32:
		for x := int64(0); x < 300 && len(out) == 0; x++ {
			add(x)
		}
		add(int64(1)<<uint(t.Bits()) - 1)
	case reflect.Uint64:
		for x := int64(0); x < 300 && len(out) == 0; x++ {
			add(x)
		}
		add(-1) // 2^64-1
	}
	if len(out) > 3 {
		out = out[:3]
	}
	return out
}

func apiMode(_ []string) {
	for _, pn := range pkgNames() {
		d := registry[pn]
		db := d.Database()
		for _, md := range db.Messages {
			msg := fresh(d, md)
			if msg == nil {
				fmt.Fprintf(out, "REFL %s NOFRESH %s\n", pn, md.Name)
				continue
			}
			pt := reflect.TypeOf(msg) // *<Msg>
			own := strings.SplitN(pt.Elem().String(), ".", 2)[0]
			recv := apiTypeText(pt, own)
			for i := 0; i < pt.NumMethod(); i++ {
				m := pt.Method(i)
				ft := m.Type
				params := apiTypes(ft.NumIn()-1, func(k int) reflect.Type { return ft.In(k + 1) }, own)
				results := apiTypes(ft.NumOut(), ft.Out, own)
				fmt.Fprintf(out, "REFL %s METHOD %s %s%s%s\n", pn, recv, m.Name, params, results)
			}
			mv := reflect.ValueOf(msg)
			for _, s := range md.Signals {
				if len(s.ValueDescriptions) == 0 {
					continue
				}
				g := rawGetter(mv, s)
				if !g.IsValid() {
					fmt.Fprintf(out, "REFL %s ENUM ?%s nogetter -\n", pn, s.Name)
					continue
				}
				t := g.Type().Out(0)
				var es []string
				for _, vd := range s.ValueDescriptions {
					es = append(es, apiEnumEntry(t, int64(vd.Value)))
				}
				for _, x := range apiUndeclared(t, s) {
					es = append(es, "?"+apiEnumEntry(t, x))
				}
				fmt.Fprintf(out, "REFL %s ENUM %s %s %s\n", pn, apiTypeText(t, own), t.Kind().String(), strings.Join(es, ";"))
			}
		}
		fmt.Fprintf(out, "REFL %s END %x\n", pn, len(db.Messages))
	}
}
