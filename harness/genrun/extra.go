package main

// extraMode dispatches additional observation modes (C11 api reflection, C19 renderings).
func extraMode(args []string) bool {
	switch args[0] {
	default:
		return false
	}
}
