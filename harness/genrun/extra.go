package main

// extraModes: additional observation modes, registered from init() functions of other files of
// this harness (api_c11.go: "api"; render_c19.go: "render"), so that each family owns its file.
var extraModes = map[string]func(args []string){}

func extraMode(args []string) bool {
	if f, ok := extraModes[args[0]]; ok {
		f(args[1:])
		return true
	}
	return false
}
