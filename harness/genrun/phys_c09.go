package main

// Mode "phys" (generated-code stage of C09, checks/descriptor.py): the physical accessors of the
// GENERATED message types and the descriptor wiring they go through, for every registered package:
//
//   PW <pkg> <msg index> <signal index> => <m> <p> <s:name> <start> <length> <be> <signed> <float> <mux> <muxed> <muxval> <offset> <scale> <min> <max>
//        Messages().<Msg>.<Sig> as the generated code sees it (reflection on the MessagesDescriptor value:
//        field <Msg>, then field <Sig> where <Sig> is the name of signal <signal index> of
//        Database().Messages[<msg index>]); m = 1 iff Messages().<Msg>.Message is Database().Messages[i],
//        p = 1 iff the wired pointer is Database().Messages[i].Signals[j]
//   PA <pkg> <mi> <si> => <0|1>
//        1 iff the generated type has physical accessors for the signal: Raw<Sig>/SetRaw<Sig> exist, <Sig>() returns
//        float64 and Set<Sig> takes a float64 (every signal of every message)
//   PR <pkg> <mi> <si> <raw argument> => <raw> <physical>
//        fresh message; SetRaw<Sig>(argument); Raw<Sig>(); <Sig>()      (physical: float64 bits)
//   PS <pkg> <mi> <si> <float64 bits> => <raw> <physical> <frame data>
//        fresh message; for a multiplexed signal the multiplexer field is first set to the selector;
//        Set<Sig>(x); Raw<Sig>(); <Sig>(); Frame().Data
//   PG <pkg> <mi> <data> => <K|E> <si>:<raw>:<physical>,...
//        fresh message; UnmarshalFrame({ID, Length, IsExtended of the message, data}); Raw<Sig>() and
//        <Sig>() of every signal with physical accessors
//
// Numbers as everywhere in this harness (hex; ints as the uint64 reinterpretation; floats as bit patterns).

import (
	"fmt"
	"math"
	"math/rand"
	"reflect"
	"strconv"
	"strings"

	"go.einride.tech/can"
	"go.einride.tech/can/pkg/descriptor"
)

func init() { extraModes["phys"] = physMode }

func physWiring(pn string, d dispatcher) {
	db := d.Database()
	root := reflect.ValueOf(d)
	if root.Kind() == reflect.Ptr {
		root = root.Elem()
	}
	for mi, md := range db.Messages {
		mf := root.FieldByName(md.Name)
		if !mf.IsValid() || mf.Kind() != reflect.Ptr || mf.IsNil() {
			fmt.Fprintf(out, "PW %s %x 0 => NOMESSAGE\n", pn, mi)
			continue
		}
		ms := mf.Elem()
		sameMsg := 0
		if p, ok := ms.FieldByName("Message").Interface().(*descriptor.Message); ok && p == md {
			sameMsg = 1
		}
		for si, s := range md.Signals {
			sf := ms.FieldByName(s.Name)
			w, ok := (*descriptor.Signal)(nil), false
			if sf.IsValid() {
				w, ok = sf.Interface().(*descriptor.Signal)
			}
			if !ok || w == nil {
				fmt.Fprintf(out, "PW %s %x %x => NOSIGNAL\n", pn, mi, si)
				continue
			}
			fmt.Fprintf(out, "PW %s %x %x => %d %d %s %x %x %d %d %d %d %d %x %s %s %s %s\n", pn, mi, si, sameMsg, gB(w == s),
				gS(w.Name), w.Start, w.Length, gB(w.IsBigEndian), gB(w.IsSigned), gB(w.IsFloat), gB(w.IsMultiplexer),
				gB(w.IsMultiplexed), w.MultiplexerValue, gF(w.Offset), gF(w.Scale), gF(w.Min), gF(w.Max))
		}
	}
}

// physical arguments around the places where the conversion changes behaviour: range edges, the physical
// values of the raw extremes, steps and half steps (each +-1ulp), zeros, subnormals, huge magnitudes, +-Inf
func physArgs(rng *rand.Rand, s *descriptor.Signal, nrand int) []float64 {
	lo, hi := 0.0, math.Ldexp(1, int(s.Length))-1
	if s.IsSigned {
		lo, hi = -math.Ldexp(1, int(s.Length)-1), math.Ldexp(1, int(s.Length)-1)-1
	}
	a, b := lo*s.Scale+s.Offset, hi*s.Scale+s.Offset
	ulp := func(x float64) []float64 {
		return []float64{math.Nextafter(x, math.Inf(-1)), x, math.Nextafter(x, math.Inf(1))}
	}
	vs := []float64{0, math.Copysign(0, -1), 1, -1, 5e-324, -5e-324, 1e-310, 1e300, -1e300, math.MaxFloat64, -math.MaxFloat64,
		math.Inf(1), math.Inf(-1), a - math.Abs(s.Scale), b + math.Abs(s.Scale), s.Offset}
	for _, x := range []float64{a, b, s.Min, s.Max} {
		vs = append(vs, ulp(x)...)
	}
	for i := 0; i < nrand; i++ {
		k := math.Floor(lo + (hi-lo)*rng.Float64())
		switch rng.Intn(4) {
		case 0:
			vs = append(vs, ulp(k*s.Scale+s.Offset)...)
		case 1:
			vs = append(vs, ulp((k+0.5)*s.Scale+s.Offset)...)
		case 2:
			vs = append(vs, a+(b-a)*rng.Float64())
		default:
			vs = append(vs, physArg(rng, s))
		}
	}
	return vs
}

// putBits writes v into the payload at the signal's layout (the harness's own bit walk: little-endian from
// the start bit upwards; big-endian from the start bit = most significant bit downwards within a byte, then
// on to bit 7 of the next byte)
func putBits(d *can.Data, s *descriptor.Signal, v uint64) {
	pos := int(s.Start)
	for i := 0; i < int(s.Length); i++ {
		bit := (v >> uint(i)) & 1
		if s.IsBigEndian {
			bit = (v >> uint(int(s.Length)-1-i)) & 1
		}
		if pos >= 0 && pos < 64 {
			d[pos/8] = d[pos/8]&^(1<<uint(pos%8)) | byte(bit)<<uint(pos%8)
		}
		if !s.IsBigEndian {
			pos++
		} else if pos%8 == 0 {
			pos += 15
		} else {
			pos--
		}
	}
}

func physMode(args []string) {
	argi := func(i int, def int64) int64 {
		if len(args) > i {
			if v, err := strconv.ParseInt(args[i], 10, 64); err == nil {
				return v
			}
		}
		return def
	}
	seed, nraw, nphys, nframes := argi(0, 1), int(argi(1, 6)), int(argi(2, 8)), int(argi(3, 12))
	rng := rand.New(rand.NewSource(seed))
	for _, pn := range pkgNames() {
		d := registry[pn]
		fmt.Fprintf(out, "PKG %s\n", pn)
		physWiring(pn, d)
		db := d.Database()
		for mi, md := range db.Messages {
			probe := fresh(d, md)
			if probe == nil {
				fmt.Fprintf(out, "PG %s %x 0000000000000000 => NOFRESH\n", pn, mi)
				continue
			}
			var phys []int
			for si, s := range md.Signals {
				pv := reflect.ValueOf(probe)
				if hasPhysical(pv, s) && !s.IsFloat {
					phys = append(phys, si)
				}
				g, st := pv.MethodByName(s.Name), pv.MethodByName("Set"+s.Name)
				full := hasPhysical(pv, s) && pv.MethodByName("SetRaw"+s.Name).IsValid() && g.IsValid() && st.IsValid() &&
					g.Type().NumOut() == 1 && g.Type().Out(0).Kind() == reflect.Float64 &&
					st.Type().NumIn() == 1 && st.Type().In(0).Kind() == reflect.Float64
				fmt.Fprintf(out, "PA %s %x %x => %d\n", pn, mi, si, gB(full))
			}
			muxIdx := -1
			for si, s := range md.Signals {
				if s.IsMultiplexer {
					muxIdx = si
					break
				}
			}
			for _, si := range phys {
				s := md.Signals[si]
				// raw setter -> physical getter
				for k := 0; k < nraw+9; k++ {
					m := fresh(d, md)
					mv := reflect.ValueOf(m)
					set := rawSetter(mv, s)
					arg := argFor(rng, set.Type().In(0), s)
					set.Call([]reflect.Value{arg})
					fmt.Fprintf(out, "PR %s %x %x %s => %s %s\n", pn, mi, si, valStr(arg),
						valStr(rawGetter(mv, s).Call(nil)[0]), valStr(mv.MethodByName(s.Name).Call(nil)[0]))
				}
				// physical setter -> raw, physical getter, frame
				for _, x := range physArgs(rng, s, nphys) {
					if math.IsNaN(x) {
						continue
					}
					m := fresh(d, md)
					mv := reflect.ValueOf(m)
					if s.IsMultiplexed && muxIdx >= 0 {
						mux := md.Signals[muxIdx]
						set := rawSetter(mv, mux)
						sel := reflect.New(set.Type().In(0)).Elem()
						if sel.Kind() == reflect.Bool {
							sel.SetBool(s.MultiplexerValue != 0)
						} else {
							sel.SetUint(uint64(s.MultiplexerValue))
						}
						set.Call([]reflect.Value{sel})
					}
					mv.MethodByName("Set" + s.Name).Call([]reflect.Value{reflect.ValueOf(x)})
					fmt.Fprintf(out, "PS %s %x %x %x => %s %s %s\n", pn, mi, si, math.Float64bits(x),
						valStr(rawGetter(mv, s).Call(nil)[0]), valStr(mv.MethodByName(s.Name).Call(nil)[0]), hexData(m.Frame().Data))
				}
			}
			if len(phys) == 0 {
				continue
			}
			for k := 0; k < nframes; k++ {
				m := fresh(d, md)
				mv := reflect.ValueOf(m)
				f := can.Frame{ID: md.ID, Length: md.Length, IsExtended: md.IsExtended, Data: randPayload(rng)}
				if muxIdx >= 0 && k%2 == 0 {
					// make a multiplexed signal with physical accessors active
					var sels []uint
					for _, si := range phys {
						if md.Signals[si].IsMultiplexed {
							sels = append(sels, md.Signals[si].MultiplexerValue)
						}
					}
					if len(sels) > 0 {
						putBits(&f.Data, md.Signals[muxIdx], uint64(sels[rng.Intn(len(sels))]))
					}
				}
				err := m.UnmarshalFrame(f)
				k0 := "K"
				if err != nil {
					k0 = "E"
				}
				var vs []string
				for _, si := range phys {
					s := md.Signals[si]
					vs = append(vs, fmt.Sprintf("%x:%s:%s", si, valStr(rawGetter(mv, s).Call(nil)[0]), valStr(mv.MethodByName(s.Name).Call(nil)[0])))
				}
				fmt.Fprintf(out, "PG %s %x %s => %s %s\n", pn, mi, hexData(f.Data), k0, strings.Join(vs, ","))
			}
		}
	}
}
