// Strict action-sequence extractor for pkg/socketcan/receiver.go and transmitter.go (DESIGN.md 9.6
// "Action-sequence tie for the socketcan family"). Reads the CURRENT source text with go/parser and prints,
// for every function declaration of the two files, one line per statement:
//
//	SW <function> <depth> <canonical text of the statement (an if: its header)>
//	SWFUNC <function> <file:line>
//	SWERR <file:line> <message>      a statement shape outside the accepted set (for / switch / select / go /
//	                                 defer / else / labels / goto / inc-dec / send ...): a loud error
//	SWEND
//
// Accepted: expression statements, assignments, var declarations, return, if (with optional init, no else),
// for-range (header + body). The driver (ocaml/socketcan_main.ml, mode `wire`) compares the node list of
// every function with the reference programs of Socketcan/Program.v.
//
// usage: verif_sockwire <receiver.go> <transmitter.go>
package main

import (
	"bytes"
	"fmt"
	"go/ast"
	"go/parser"
	"go/printer"
	"go/token"
	"os"
	"strings"
)

var fset = token.NewFileSet()

func text(n ast.Node) string {
	var b bytes.Buffer
	_ = printer.Fprint(&b, fset, n)
	return strings.Join(strings.Fields(b.String()), " ")
}

func walk(fn string, depth int, stmts []ast.Stmt) {
	for _, s := range stmts {
		switch st := s.(type) {
		case *ast.ExprStmt, *ast.AssignStmt, *ast.DeclStmt, *ast.ReturnStmt:
			fmt.Printf("SW %s %d %s\n", fn, depth, text(st))
		case *ast.IfStmt:
			if st.Else != nil {
				fmt.Printf("SWERR %s else branch in %s\n", fset.Position(st.Else.Pos()), fn)
			}
			h := "if "
			if st.Init != nil {
				h += text(st.Init) + "; "
			}
			fmt.Printf("SW %s %d %s\n", fn, depth, h+text(st.Cond))
			walk(fn, depth+1, st.Body.List)
		case *ast.RangeStmt:
			h := "for "
			if st.Key != nil {
				h += text(st.Key)
				if st.Value != nil {
					h += ", " + text(st.Value)
				}
				h += " " + st.Tok.String() + " "
			}
			fmt.Printf("SW %s %d %srange %s\n", fn, depth, h, text(st.X))
			walk(fn, depth+1, st.Body.List)
		default:
			fmt.Printf("SWERR %s statement shape %T in %s is outside the extractor's set\n", fset.Position(s.Pos()), s, fn)
		}
	}
}

func main() {
	if len(os.Args) < 2 {
		fmt.Fprintln(os.Stderr, "usage: verif_sockwire <file.go>...")
		os.Exit(2)
	}
	for _, path := range os.Args[1:] {
		f, err := parser.ParseFile(fset, path, nil, 0)
		if err != nil {
			fmt.Printf("SWERR %s:0 cannot parse: %v\n", path, err)
			continue
		}
		for _, d := range f.Decls {
			fd, ok := d.(*ast.FuncDecl)
			if !ok || fd.Body == nil {
				continue
			}
			name := fd.Name.Name
			if fd.Recv != nil && len(fd.Recv.List) == 1 {
				name = strings.TrimPrefix(text(fd.Recv.List[0].Type), "*") + "." + name
			}
			fmt.Printf("SWFUNC %s %s\n", name, fset.Position(fd.Pos()))
			// the signature is part of the program: a changed receiver / parameter name changes every text below
			fmt.Printf("SW %s 0 func%s\n", name, strings.TrimPrefix(text(fd.Type), "func"))
			walk(name, 1, fd.Body.List)
		}
	}
	fmt.Println("SWEND")
}
