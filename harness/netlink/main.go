//go:build linux && go1.18

// Harness for C20 (netlink link-info codec of pkg/candevice/device_linux.go).
// Compiled into /repo's working tree with `go build -overlay` as cmd/verif_netlink; the
// unexported helpers are reached through harness/netlink/export_candevice.go, overlaid into
// package candevice. Prints one observation per line for ocaml/netlink_main.ml.
// No socket is opened: everything works on byte slices.
//
//	usage: verif_netlink <seed> <scale>
//
// Line formats (numbers lower-case hex, byte strings hex or "-" when empty):
//
//	MI fam typ idx flags change <impl> <abi> <rt>   marshal ifInfoMsg, ABI image of unix.IfInfomsg, unmarshal(impl)
//	MB v0..v7 <impl> <abi> <rt>                     BitTiming / unix.CANBitTiming
//	MC mask flags <impl> <abi> <rt>                 CtrlMode / unix.CANCtrlMode
//	U <struct> <bytes> <outcome>                    unmarshalBinary on an arbitrary slice (cap = len)
//	E <kind> v0..v7 mask flags <outcome>            li.encode through a real AttributeEncoder
//	EM <kind> v0..v7 mask flags <outcome>           ae.Nested(IFLA_LINKINFO, li.encode)
//	R <kind> v0..v7 mask flags <outcome>            decode(encode(li)) through real encoder and decoder
//	D <bytes> <outcome>                             li.decode through a real AttributeDecoder (zero receiver)
//	DW <bytes> <outcome>                            same; the generator put a wrong-size fixed attribute inside
//	D2 <bytes1> <bytes2> <outcome>                  two decodes on the same receiver
//	V <bytes> <outcome>                             Device.unmarshalBinary on a zero Device
//
// outcome = ok:<state> | err | panic
package main

import (
	"bufio"
	"encoding/binary"
	"encoding/hex"
	"fmt"
	"math/rand"
	"os"
	"strconv"
	"strings"
	"unsafe"

	"github.com/mdlayher/netlink"
	"go.einride.tech/can/pkg/candevice"
	"golang.org/x/sys/unix"
)

var out = bufio.NewWriterSize(os.Stdout, 1<<20)
var rng *rand.Rand

func hexb(b []byte) string {
	if len(b) == 0 {
		return "-"
	}
	return hex.EncodeToString(b)
}

// exact returns a copy of b whose capacity equals its length, so that an out-of-range
// slice expression in the code under test panics instead of reading spare capacity.
func exact(b []byte) []byte {
	c := make([]byte, len(b))
	copy(c, b)
	return c[:len(c):len(c)]
}

func guard(f func() string) (s string) {
	defer func() {
		if r := recover(); r != nil {
			s = "panic"
		}
	}()
	return f()
}

// ---------------------------------------------------------------- state printers

func fmtIfi(m unix.IfInfomsg) string {
	return fmt.Sprintf("%x,%x,%x,%x,%x", m.Family, m.Type, uint32(m.Index), m.Flags, m.Change)
}

func fmtBT(b unix.CANBitTiming) string {
	return fmt.Sprintf("%x,%x,%x,%x,%x,%x,%x,%x", b.Bitrate, b.Sample_point, b.Tq, b.Prop_seg,
		b.Phase_seg1, b.Phase_seg2, b.Sjw, b.Brp)
}

func fmtBTC(b unix.CANBitTimingConst) string {
	return fmt.Sprintf("%s,%x,%x,%x,%x,%x,%x,%x,%x", hexb(b.Name[:]), b.Tseg1_min, b.Tseg1_max, b.Tseg2_min,
		b.Tseg2_max, b.Sjw_max, b.Brp_min, b.Brp_max, b.Brp_inc)
}

func fmtCM(c unix.CANCtrlMode) string { return fmt.Sprintf("%x,%x", c.Mask, c.Flags) }

func fmtBEC(c unix.CANBusErrorCounters) string { return fmt.Sprintf("%x,%x", c.Txerr, c.Rxerr) }

func fmtStats(s unix.CANDeviceStats) string {
	return fmt.Sprintf("%x,%x,%x,%x,%x,%x", s.Bus_error, s.Error_warning, s.Error_passive, s.Bus_off,
		s.Arbitration_lost, s.Restarts)
}

func fmtLI(s candevice.VerifLinkInfo) string {
	return "k=" + hexb([]byte(s.Kind)) +
		";bt=" + fmtBT(s.Info.BitTiming.CANBitTiming) +
		";btc=" + fmtBTC(s.Info.BitTimingConst.CANBitTimingConst) +
		";clk=" + fmt.Sprintf("%x", s.Info.Clock.Freq) +
		";cm=" + fmtCM(s.Info.CtrlMode.CANCtrlMode) +
		";bec=" + fmtBEC(s.Info.BusErrorCounters.CANBusErrorCounters) +
		";st=" + fmtStats(s.Stats.CANDeviceStats) +
		";ty=" + hexb([]byte(s.Info.Type))
}

// ---------------------------------------------------------------- value generators

func words(bits uint, nrand int) []uint32 {
	max := uint32(1)<<bits - 1
	if bits == 32 {
		max = ^uint32(0)
	}
	vs := []uint32{0, 1, 2, max, max - 1, max >> 1, max>>1 + 1, 0xff & max, 0x100 & max, 0xffff & max, 0x10000 & max,
		0x01020304 & max, 0xa1b2c3d4 & max}
	for i := uint(0); i < bits; i++ {
		vs = append(vs, uint32(1)<<i, max&^(uint32(1)<<i))
	}
	for i := 0; i < nrand; i++ {
		vs = append(vs, rng.Uint32()&max)
	}
	return vs
}

func randBytes(n int) []byte {
	b := make([]byte, n)
	for i := range b {
		b[i] = byte(rng.Intn(256))
	}
	return b
}

// ---------------------------------------------------------------- layout (M*) lines

func imageOf(p unsafe.Pointer, n uintptr) []byte {
	b := make([]byte, n)
	for i := uintptr(0); i < n; i++ {
		b[i] = *(*byte)(unsafe.Add(p, i))
	}
	return b
}

// Marshalled images are values: the slice a marshalBinary call returned must still hold that image after any
// number of later calls (a caller may hold the current and the requested configuration side by side; seeded
// change C20-w9-m2 returned slices of one package-level scratch array). Every returned slice is retained as
// returned (not copied); checkRetained re-reads them after later calls and prints, for each one whose bytes
// changed, the ordinary M* line again with the bytes the holder now sees - the driver reports it like any
// other image that differs from the layout model.
type retainedImage struct {
	kind, fields, was, abi, rt string
	img                        []byte
}

var retained []retainedImage

func retain(kind, fields string, img []byte, was, abi, rt string) {
	if was == "panic" || len(retained) >= 4096 {
		return
	}
	retained = append(retained, retainedImage{kind, fields, was, abi, rt, img})
}

func checkRetained() {
	for _, r := range retained {
		if now := hexb(r.img); now != r.was {
			fmt.Fprintf(out, "%s %s %s %s %s\n", r.kind, r.fields, now, r.abi, r.rt)
		}
	}
	retained = retained[:0]
}

func emitMI(m unix.IfInfomsg) {
	var impl []byte
	is := guard(func() string { impl = candevice.VerifMarshalIfInfoMsg(m); return hexb(impl) })
	abi := imageOf(unsafe.Pointer(&m), unsafe.Sizeof(m))
	rt := "-"
	if is != "panic" {
		rt = guard(func() string {
			x, err := candevice.VerifUnmarshalIfInfoMsg(exact(impl))
			if err != nil {
				return "err"
			}
			return "ok:" + fmtIfi(x)
		})
	}
	fmt.Fprintf(out, "MI %s %s %s %s\n", strings.ReplaceAll(fmtIfi(m), ",", " "), is, hexb(abi), rt)
	retain("MI", strings.ReplaceAll(fmtIfi(m), ",", " "), impl, is, hexb(abi), rt)
}

func emitMB(v unix.CANBitTiming) {
	var impl []byte
	is := guard(func() string {
		impl = candevice.VerifMarshalBitTiming(candevice.BitTiming{CANBitTiming: v})
		return hexb(impl)
	})
	abi := imageOf(unsafe.Pointer(&v), unsafe.Sizeof(v))
	rt := "-"
	if is != "panic" {
		rt = guard(func() string {
			x, err := candevice.VerifUnmarshalBitTiming(exact(impl))
			if err != nil {
				return "err"
			}
			return "ok:" + fmtBT(x.CANBitTiming)
		})
	}
	fmt.Fprintf(out, "MB %s %s %s %s\n", strings.ReplaceAll(fmtBT(v), ",", " "), is, hexb(abi), rt)
	retain("MB", strings.ReplaceAll(fmtBT(v), ",", " "), impl, is, hexb(abi), rt)
}

func emitMC(v unix.CANCtrlMode) {
	var impl []byte
	is := guard(func() string {
		impl = candevice.VerifMarshalCtrlMode(candevice.CtrlMode{CANCtrlMode: v})
		return hexb(impl)
	})
	abi := imageOf(unsafe.Pointer(&v), unsafe.Sizeof(v))
	rt := "-"
	if is != "panic" {
		rt = guard(func() string {
			x, err := candevice.VerifUnmarshalCtrlMode(exact(impl))
			if err != nil {
				return "err"
			}
			return "ok:" + fmtCM(x.CANCtrlMode)
		})
	}
	fmt.Fprintf(out, "MC %s %s %s %s\n", strings.ReplaceAll(fmtCM(v), ",", " "), is, hexb(abi), rt)
	retain("MC", strings.ReplaceAll(fmtCM(v), ",", " "), impl, is, hexb(abi), rt)
}

func setBT(b *unix.CANBitTiming, f int, v uint32) {
	*[]*uint32{&b.Bitrate, &b.Sample_point, &b.Tq, &b.Prop_seg, &b.Phase_seg1, &b.Phase_seg2, &b.Sjw, &b.Brp}[f] = v
}

func randBT() unix.CANBitTiming {
	var b unix.CANBitTiming
	for f := 0; f < 8; f++ {
		setBT(&b, f, rng.Uint32())
	}
	return b
}

func randIfi() unix.IfInfomsg {
	return unix.IfInfomsg{Family: uint8(rng.Intn(256)), Type: uint16(rng.Intn(65536)), Index: int32(rng.Uint32()),
		Flags: rng.Uint32(), Change: rng.Uint32()}
}

func layout(nrand int) {
	// per field: boundary / one-hot / random values, the other fields zero or random
	for _, base := range []int{0, 1} {
		for f := 0; f < 8; f++ {
			for _, v := range words(32, nrand) {
				var b unix.CANBitTiming
				if base == 1 {
					b = randBT()
				}
				setBT(&b, f, v)
				emitMB(b)
			}
		}
		for f := 0; f < 2; f++ {
			for _, v := range words(32, nrand) {
				var c unix.CANCtrlMode
				if base == 1 {
					c = unix.CANCtrlMode{Mask: rng.Uint32(), Flags: rng.Uint32()}
				}
				if f == 0 {
					c.Mask = v
				} else {
					c.Flags = v
				}
				emitMC(c)
			}
		}
		for f := 0; f < 5; f++ {
			bits := []uint{8, 16, 32, 32, 32}[f]
			for _, v := range words(bits, nrand) {
				var m unix.IfInfomsg
				if base == 1 {
					m = randIfi()
				}
				switch f {
				case 0:
					m.Family = uint8(v)
				case 1:
					m.Type = uint16(v)
				case 2:
					m.Index = int32(v)
				case 3:
					m.Flags = v
				case 4:
					m.Change = v
				}
				emitMI(m)
			}
		}
	}
	for i := 0; i < 20*nrand; i++ {
		emitMB(randBT())
		emitMC(unix.CANCtrlMode{Mask: rng.Uint32(), Flags: rng.Uint32()})
		emitMI(randIfi())
	}
}

// ---------------------------------------------------------------- decoders (U lines)

func unmarshalAny(name string, b []byte) string {
	return guard(func() string {
		switch name {
		case "ifi":
			x, err := candevice.VerifUnmarshalIfInfoMsg(b)
			if err != nil {
				return "err"
			}
			return "ok:" + fmtIfi(x)
		case "bt":
			x, err := candevice.VerifUnmarshalBitTiming(b)
			if err != nil {
				return "err"
			}
			return "ok:" + fmtBT(x.CANBitTiming)
		case "btc":
			x, err := candevice.VerifUnmarshalBitTimingConst(b)
			if err != nil {
				return "err"
			}
			return "ok:" + fmtBTC(x.CANBitTimingConst)
		case "clk":
			x, err := candevice.VerifUnmarshalClock(b)
			if err != nil {
				return "err"
			}
			return "ok:" + fmt.Sprintf("%x", x.Freq)
		case "cm":
			x, err := candevice.VerifUnmarshalCtrlMode(b)
			if err != nil {
				return "err"
			}
			return "ok:" + fmtCM(x.CANCtrlMode)
		case "bec":
			x, err := candevice.VerifUnmarshalBusErrorCounters(b)
			if err != nil {
				return "err"
			}
			return "ok:" + fmtBEC(x.CANBusErrorCounters)
		case "st":
			x, err := candevice.VerifUnmarshalStats(b)
			if err != nil {
				return "err"
			}
			return "ok:" + fmtStats(x.CANDeviceStats)
		}
		panic("unknown struct " + name)
	})
}

// sizes from the kernel headers (NOT from the code under test)
var abiSize = []struct {
	name string
	size int
}{{"ifi", 16}, {"bt", 32}, {"btc", 48}, {"clk", 4}, {"cm", 8}, {"bec", 4}, {"st", 24}}

func decoders(nrand int) {
	for _, s := range abiSize {
		for n := 0; n <= 2*s.size; n++ {
			var contents [][]byte
			zero := make([]byte, n)
			ff := make([]byte, n)
			cnt := make([]byte, n)
			for i := range ff {
				ff[i] = 0xff
				cnt[i] = byte(i + 1)
			}
			contents = append(contents, zero, ff, cnt)
			k := nrand
			if n == s.size {
				k = 8 * nrand
			}
			for i := 0; i < k; i++ {
				contents = append(contents, randBytes(n))
			}
			for _, c := range contents {
				b := exact(c)
				fmt.Fprintf(out, "U %s %s %s\n", s.name, hexb(c), unmarshalAny(s.name, b))
			}
		}
	}
}

// ---------------------------------------------------------------- link info through the real TLV codec

type liCase struct {
	kind string
	bt   unix.CANBitTiming
	cm   unix.CANCtrlMode
}

func (c liCase) fields() string {
	return hexb([]byte(c.kind)) + " " + strings.ReplaceAll(fmtBT(c.bt), ",", " ") + " " + strings.ReplaceAll(fmtCM(c.cm), ",", " ")
}

func (c liCase) msg() *candevice.VerifLinkInfoMsg {
	return candevice.NewVerifLinkInfoMsg(c.kind, candevice.Info{
		BitTiming: candevice.BitTiming{CANBitTiming: c.bt},
		CtrlMode:  candevice.CtrlMode{CANCtrlMode: c.cm},
	})
}

func encodeLI(c liCase, top bool) (b []byte, s string) {
	s = guard(func() string {
		ae := netlink.NewAttributeEncoder()
		if top {
			ae.Nested(unix.IFLA_LINKINFO, c.msg().Encode)
		} else if err := c.msg().Encode(ae); err != nil {
			return "err"
		}
		var err error
		b, err = ae.Encode()
		if err != nil {
			b = nil
			return "err"
		}
		return "ok:" + hexb(b)
	})
	return
}

// decodeOn runs li.decode over b exactly like netlink's AttributeDecoder.Nested does:
// NewAttributeDecoder, the callback, then Err().
func decodeOn(v *candevice.VerifLinkInfoMsg, b []byte) (ok bool, s string) {
	s = guard(func() string {
		ad, err := netlink.NewAttributeDecoder(exact(b))
		if err != nil {
			return "err"
		}
		if err := v.Decode(ad); err != nil {
			return "err"
		}
		if err := ad.Err(); err != nil {
			return "err"
		}
		ok = true
		return "ok:" + fmtLI(v.State())
	})
	return
}

func decodeLI(b []byte) string {
	_, s := decodeOn(candevice.NewVerifLinkInfoMsg("", candevice.Info{}), b)
	return s
}

func randKind() string {
	switch rng.Intn(12) {
	case 0, 1, 2, 3:
		return "can"
	case 4, 5, 6:
		return "vcan"
	case 7:
		return []string{"", "c", "ca", "vca", "vxcan", "can0", "CAN", "cant", "vcan1", "dummy"}[rng.Intn(10)]
	case 8:
		return []string{"can\x00", "vcan\x00\x00", "\x00can", "ca\x00n", "\x00", "\x00\x00\x00"}[rng.Intn(6)]
	default:
		return string(randBytes(rng.Intn(20)))
	}
}

func randLI() liCase {
	c := liCase{kind: randKind(), bt: randBT(), cm: unix.CANCtrlMode{Mask: rng.Uint32(), Flags: rng.Uint32()}}
	if rng.Intn(4) == 0 {
		ws := words(32, 1)
		for f := 0; f < 8; f++ {
			if rng.Intn(2) == 0 {
				setBT(&c.bt, f, ws[rng.Intn(len(ws))])
			}
		}
		c.cm.Mask = ws[rng.Intn(len(ws))]
		c.cm.Flags = ws[rng.Intn(len(ws))]
	}
	return c
}

func linkinfo(n int) [][]byte {
	var encoded [][]byte
	emit := func(c liCase) {
		b, s := encodeLI(c, false)
		fmt.Fprintf(out, "E %s %s\n", c.fields(), s)
		_, st := encodeLI(c, true)
		fmt.Fprintf(out, "EM %s %s\n", c.fields(), st)
		if b != nil {
			fmt.Fprintf(out, "R %s %s\n", c.fields(), decodeLI(b))
			if len(b) < 4096 {
				encoded = append(encoded, b)
			}
		} else {
			fmt.Fprintf(out, "R %s %s\n", c.fields(), s)
		}
	}
	for _, k := range []string{"can", "vcan"} {
		emit(liCase{kind: k})
		emit(liCase{kind: k, bt: unix.CANBitTiming{Bitrate: 500000}, cm: unix.CANCtrlMode{Mask: unix.CAN_CTRLMODE_LISTENONLY, Flags: unix.CAN_CTRLMODE_LISTENONLY}})
		for f := 0; f < 8; f++ {
			for _, v := range words(32, 1) {
				c := liCase{kind: k}
				setBT(&c.bt, f, v)
				c.cm.Mask, c.cm.Flags = v, ^v
				emit(c)
			}
		}
	}
	for i := 0; i < n; i++ {
		emit(randLI())
	}
	// the encoder's size limit (payload of at most 65531 bytes)
	for _, l := range []int{65526, 65527, 65530, 65531, 65532, 70000} {
		emit(liCase{kind: strings.Repeat("k", l), bt: randBT()})
	}
	return encoded
}

// ---------------------------------------------------------------- hand-built TLV streams

func tlvLen(typ uint16, payload []byte, length int) []byte {
	b := make([]byte, 4, 4+len(payload)+3)
	binary.LittleEndian.PutUint16(b[0:2], uint16(length))
	binary.LittleEndian.PutUint16(b[2:4], typ)
	b = append(b, payload...)
	for len(b)%4 != 0 {
		b = append(b, 0)
	}
	return b
}

func tlv(typ uint16, payload []byte) []byte { return tlvLen(typ, payload, 4+len(payload)) }

type fixedAttr struct {
	typ  uint16
	size int
}

var canAttrs = []fixedAttr{{1, 32}, {2, 48}, {3, 4}, {5, 8}, {8, 4}}

func wrongSize(size int) int {
	for {
		var n int
		switch rng.Intn(8) {
		case 0:
			n = 0
		case 1:
			n = size - 1
		case 2:
			n = size + 1
		case 3:
			n = size - 4
		case 4:
			n = size + 4
		case 5:
			n = 2 * size
		case 6:
			n = size / 2
		default:
			n = rng.Intn(100)
		}
		if n >= 0 && n != size {
			return n
		}
	}
}

// buildLI makes a link-info attribute stream; wrong >= 0 selects which fixed-size attribute
// (0..4: IFLA_CAN_*, 5: IFLA_INFO_XSTATS) gets a wrong payload size.
func buildLI(wrong int) []byte {
	var data []byte
	perm := rng.Perm(len(canAttrs))
	hit := false
	for _, i := range perm {
		a := canAttrs[i]
		if i != wrong && rng.Intn(3) == 0 {
			continue
		}
		size := a.size
		if i == wrong {
			size = wrongSize(a.size)
			hit = true
		}
		typ := a.typ
		if rng.Intn(8) == 0 {
			typ |= []uint16{0x8000, 0x4000, 0xc000}[rng.Intn(3)] // flag bits are masked off by Type()
		}
		data = append(data, tlv(typ, randBytes(size))...)
		if rng.Intn(4) == 0 { // attributes the decoder ignores: IFLA_CAN_STATE, RESTART_MS, unknown
			data = append(data, tlv([]uint16{4, 6, 7, 9, 0, 77, 0x3fff}[rng.Intn(7)], randBytes(rng.Intn(12)))...)
		}
	}
	_ = hit
	kind := []string{"can", "vcan"}[rng.Intn(2)]
	var parts [][]byte
	parts = append(parts, tlv(1, append([]byte(kind), make([]byte, 1+rng.Intn(2))...)))
	dtyp := uint16(2)
	if rng.Intn(4) != 0 {
		dtyp |= 0x8000
	}
	parts = append(parts, tlv(dtyp, data))
	if wrong == 5 {
		parts = append(parts, tlv(3, randBytes(wrongSize(24))))
	} else if rng.Intn(2) == 0 {
		parts = append(parts, tlv(3, randBytes(24)))
	}
	if rng.Intn(4) == 0 {
		parts = append(parts, tlv([]uint16{0, 4, 5, 99}[rng.Intn(4)], randBytes(rng.Intn(9))))
	}
	// the kind comes first in what the kernel sends, but any order must decode
	if rng.Intn(3) == 0 {
		rng.Shuffle(len(parts), func(i, j int) { parts[i], parts[j] = parts[j], parts[i] })
	}
	var b []byte
	for _, p := range parts {
		b = append(b, p...)
	}
	return b
}

func corrupt(b []byte) []byte {
	c := append([]byte(nil), b...)
	switch rng.Intn(7) {
	case 0: // flip one byte
		if len(c) > 0 {
			c[rng.Intn(len(c))] ^= byte(1 << uint(rng.Intn(8)))
		}
	case 1: // truncate
		c = c[:rng.Intn(len(c)+1)]
	case 2: // extend
		c = append(c, randBytes(1+rng.Intn(8))...)
	case 3: // overwrite a length field candidate (4-aligned offset)
		if len(c) >= 4 {
			o := 4 * rng.Intn(len(c)/4)
			binary.LittleEndian.PutUint16(c[o:o+2], []uint16{0, 1, 2, 3, 4, 5, uint16(len(c)), uint16(len(c) + 1), 0xffff, uint16(rng.Intn(80))}[rng.Intn(10)])
		}
	case 4: // overwrite a type field candidate
		if len(c) >= 4 {
			o := 4 * rng.Intn(len(c)/4)
			binary.LittleEndian.PutUint16(c[o+2:o+4], uint16(rng.Intn(12))|[]uint16{0, 0, 0x8000, 0x4000}[rng.Intn(4)])
		}
	case 5: // random overwrite of a few bytes
		for i := 0; i < 3 && len(c) > 0; i++ {
			c[rng.Intn(len(c))] = byte(rng.Intn(256))
		}
	default: // drop 1..4 bytes somewhere
		if len(c) > 4 {
			o := rng.Intn(len(c) - 4)
			c = append(c[:o], c[o+1+rng.Intn(4):]...)
		}
	}
	return c
}

func streams(n int, encoded [][]byte) {
	for i := 0; i < n; i++ {
		b := buildLI(-1)
		fmt.Fprintf(out, "D %s %s\n", hexb(b), decodeLI(b))
		w := buildLI(rng.Intn(6))
		fmt.Fprintf(out, "DW %s %s\n", hexb(w), decodeLI(w))
		c := corrupt(b)
		fmt.Fprintf(out, "D %s %s\n", hexb(c), decodeLI(c))
		if len(encoded) > 0 {
			e := corrupt(encoded[rng.Intn(len(encoded))])
			fmt.Fprintf(out, "D %s %s\n", hexb(e), decodeLI(e))
		}
		g := randBytes(rng.Intn(80))
		fmt.Fprintf(out, "D %s %s\n", hexb(g), decodeLI(g))
		// two messages on one receiver: fields of absent attributes keep their values
		b2 := buildLI(-1)
		if rng.Intn(4) == 0 {
			b2 = buildLI(rng.Intn(6))
		}
		v := candevice.NewVerifLinkInfoMsg("", candevice.Info{})
		ok, s := decodeOn(v, b)
		if ok {
			_, s = decodeOn(v, b2)
		}
		fmt.Fprintf(out, "D2 %s %s %s\n", hexb(b), hexb(b2), s)
	}
	// the corrupted-size sweep on the encoder's own output: every payload size 0..2x for the
	// two attributes the package itself encodes
	for _, a := range []fixedAttr{{1, 32}, {5, 8}} {
		for sz := 0; sz <= 2*a.size; sz++ {
			var data []byte
			if a.typ == 1 {
				data = append(tlv(1, randBytes(sz)), tlv(5, randBytes(8))...)
			} else {
				data = append(tlv(1, randBytes(32)), tlv(5, randBytes(sz))...)
			}
			b := append(tlv(1, []byte("can\x00")), tlv(0x8002, data)...)
			tag := "DW"
			if sz == a.size {
				tag = "D"
			}
			fmt.Fprintf(out, "%s %s %s\n", tag, hexb(b), decodeLI(b))
		}
	}
}

// ---------------------------------------------------------------- Device.unmarshalBinary

func fmtDev(d candevice.VerifDevice) string {
	return "n=" + hexb([]byte(d.Ifname)) + ";ifi=" + fmtIfi(d.Ifi) + ";" + fmtLI(d.Li)
}

func deviceMsg(b []byte) string {
	return guard(func() string {
		d, err := candevice.VerifDeviceUnmarshal(exact(b))
		if err != nil {
			return "err"
		}
		return "ok:" + fmtDev(d)
	})
}

func ifiBytes(m unix.IfInfomsg) []byte {
	return imageOf(unsafe.Pointer(&m), unsafe.Sizeof(m))
}

func devices(n int) {
	for l := 0; l <= 40; l++ {
		b := randBytes(l)
		fmt.Fprintf(out, "V %s %s\n", hexb(b), deviceMsg(b))
		if l >= 4 {
			binary.LittleEndian.PutUint16(b[2:4], unix.ARPHRD_CAN)
			fmt.Fprintf(out, "V %s %s\n", hexb(b), deviceMsg(b))
		}
	}
	for i := 0; i < n; i++ {
		m := randIfi()
		if rng.Intn(8) != 0 {
			m.Type = unix.ARPHRD_CAN
		}
		b := ifiBytes(m)
		var parts [][]byte
		parts = append(parts, tlv(unix.IFLA_IFNAME, append([]byte([]string{"can0", "vcan12", "c", ""}[rng.Intn(4)]), 0)))
		li := buildLI(-1)
		if rng.Intn(4) == 0 {
			li = buildLI(rng.Intn(6))
		}
		ltyp := uint16(unix.IFLA_LINKINFO)
		if rng.Intn(2) == 0 {
			ltyp |= 0x8000
		}
		parts = append(parts, tlv(ltyp, li))
		parts = append(parts, tlv(unix.IFLA_MTU, randBytes(4)), tlv(unix.IFLA_TXQLEN, randBytes(4)))
		rng.Shuffle(len(parts), func(i, j int) { parts[i], parts[j] = parts[j], parts[i] })
		for _, p := range parts {
			if rng.Intn(6) != 0 {
				b = append(b, p...)
			}
		}
		fmt.Fprintf(out, "V %s %s\n", hexb(b), deviceMsg(b))
		c := corrupt(b)
		fmt.Fprintf(out, "V %s %s\n", hexb(c), deviceMsg(c))
	}
}

func main() {
	if len(os.Args) < 3 {
		fmt.Fprintln(os.Stderr, "usage: verif_netlink <seed> <scale>")
		os.Exit(2)
	}
	seed, _ := strconv.ParseInt(os.Args[1], 10, 64)
	scale, _ := strconv.Atoi(os.Args[2])
	if scale < 1 {
		scale = 1
	}
	rng = rand.New(rand.NewSource(seed))
	defer out.Flush()
	// the size constants the package computed, against the kernel header sizes
	sz := candevice.VerifSizes()
	for _, s := range abiSize {
		fmt.Fprintf(out, "SZ %s %x\n", s.name, sz[s.name])
	}
	layout(4 * scale)
	checkRetained() // images returned during the layout block, after all of its later marshal calls
	layout(1) // a second block: what the first calls returned is re-read once more after these
	decoders(6 * scale)
	enc := linkinfo(300 * scale)
	streams(400*scale, enc)
	devices(200 * scale)
	checkRetained()
}
