//go:build linux && go1.18

// Overlaid INTO package candevice by the C20 check (harness/netlink/overlay.json); never part
// of /repo. It only forwards to the unexported helpers of device_linux.go so that the
// harness (package main) can call them. No logic of its own.
package candevice

import (
	"github.com/mdlayher/netlink"
	"golang.org/x/sys/unix"
)

func VerifSizes() map[string]int {
	return map[string]int{
		"ifi": unix.SizeofIfInfomsg,
		"bt":  sizeOfBitTiming,
		"btc": sizeOfBitTimingConst,
		"clk": sizeOfClock,
		"cm":  sizeOfCtrlMode,
		"bec": sizeOfBusErrorCounters,
		"st":  sizeOfStats,
	}
}

func VerifMarshalIfInfoMsg(m unix.IfInfomsg) []byte {
	x := ifInfoMsg{m}
	return x.marshalBinary()
}

func VerifUnmarshalIfInfoMsg(b []byte) (unix.IfInfomsg, error) {
	var x ifInfoMsg
	err := x.unmarshalBinary(b)
	return x.IfInfomsg, err
}

func VerifMarshalBitTiming(x BitTiming) []byte { return x.marshalBinary() }
func VerifMarshalCtrlMode(x CtrlMode) []byte   { return x.marshalBinary() }

func VerifUnmarshalBitTiming(b []byte) (x BitTiming, err error) {
	err = x.unmarshalBinary(b)
	return
}

func VerifUnmarshalBitTimingConst(b []byte) (x BitTimingConst, err error) {
	err = x.unmarshalBinary(b)
	return
}

func VerifUnmarshalClock(b []byte) (x Clock, err error) {
	err = x.unmarshalBinary(b)
	return
}

func VerifUnmarshalCtrlMode(b []byte) (x CtrlMode, err error) {
	err = x.unmarshalBinary(b)
	return
}

func VerifUnmarshalBusErrorCounters(b []byte) (x BusErrorCounters, err error) {
	err = x.unmarshalBinary(b)
	return
}

func VerifUnmarshalStats(b []byte) (x Stats, err error) {
	err = x.unmarshalBinary(b)
	return
}

// VerifLinkInfo is the observable state of a linkInfoMsg.
type VerifLinkInfo struct {
	Kind  string
	Info  Info
	Stats Stats
}

// VerifLinkInfoMsg wraps a linkInfoMsg receiver that lives across several decodes.
type VerifLinkInfoMsg struct{ li linkInfoMsg }

func NewVerifLinkInfoMsg(kind string, info Info) *VerifLinkInfoMsg {
	return &VerifLinkInfoMsg{li: linkInfoMsg{linkType: kind, info: info}}
}

func (v *VerifLinkInfoMsg) Encode(nae *netlink.AttributeEncoder) error { return v.li.encode(nae) }
func (v *VerifLinkInfoMsg) Decode(nad *netlink.AttributeDecoder) error { return v.li.decode(nad) }
func (v *VerifLinkInfoMsg) State() VerifLinkInfo {
	return VerifLinkInfo{Kind: v.li.linkType, Info: v.li.info, Stats: v.li.stats}
}

// VerifDevice is the observable state of a Device after unmarshalBinary.
type VerifDevice struct {
	Ifname string
	Ifi    unix.IfInfomsg
	Li     VerifLinkInfo
}

func VerifDeviceUnmarshal(b []byte) (VerifDevice, error) {
	var d Device
	err := d.unmarshalBinary(b)
	return VerifDevice{
		Ifname: d.ifname,
		Ifi:    d.ifi.IfInfomsg,
		Li:     VerifLinkInfo{Kind: d.li.linkType, Info: d.li.info, Stats: d.li.stats},
	}, err
}
