// Overlaid INTO package socketcan by the C06/C07 check (harness/socketcan/overlay.json); never part
// of /repo. It only forwards to the unexported fileConn of fileconn.go (the net.Conn behind
// Dial("can", ...)) so that the harness (package main) can put it on a scripted file. No logic of
// its own.
package socketcan

import (
	"context"
	"net"
	"time"

	"golang.org/x/net/ipv4"
)

// VerifFile is the unexported interface `file` of fileconn.go.
type VerifFile interface {
	Read([]byte) (int, error)
	Write([]byte) (int, error)
	SetDeadline(time.Time) error
	SetReadDeadline(time.Time) error
	SetWriteDeadline(time.Time) error
	Close() error
}

// VerifFileConn builds the connection Dial("can", ...) returns, on the given file.
func VerifFileConn(f VerifFile, network string, la, ra net.Addr) net.Conn {
	return &fileConn{f: f, net: network, la: la, ra: ra}
}

// VerifUDPTxRx builds the connection Dial("udp", ...) returns, on the given packet conns.
func VerifUDPTxRx(rx, tx *ipv4.PacketConn, group *net.UDPAddr) net.Conn {
	return &udpTxRx{rx: rx, tx: tx, groupAddr: group}
}

// VerifDialCtx is dialCtx of dial.go.
func VerifDialCtx(ctx context.Context, provider func() (net.Conn, error)) (net.Conn, error) {
	return dialCtx(ctx, provider)
}
