// The real Emulator (emulator.go) against the bus model Socketcan/Emulator.v.
//
//	E <op>* | <endpoint>=<frame,frame,..|->*      one history on one Emulator (own multicast group port)
//	   op: r<i> endpoint i = Emulator.Receiver()      d<i> endpoint i = Dial("udp", emu.Addr()) with a
//	       Receiver and a Transmitter on it           x<i> endpoint i closed
//	       t-:<frame>:<err01> Emulator.TransmitFrame  t<j>:<frame>:<err01> TransmitFrame on endpoint j
//	   after '|': what the Receiver of every endpoint returned, in order, over the whole history
//
// Synchronisation: every Receiver runs in its own goroutine and hands its frames to a channel; after a
// transmission that returned nil the harness waits (bounded) for one frame at every endpoint it has not
// closed, then a short settle time collects anything that should not have arrived.
package main

import (
	"context"
	"fmt"
	"math/rand"
	"net"
	"os"
	"strings"
	"time"

	"go.einride.tech/can"
	"go.einride.tech/can/pkg/socketcan"
)

type emuEndpoint struct {
	id   int
	rec  *socketcan.Receiver
	conn net.Conn
	tx   *socketcan.Transmitter
	ch   chan can.Frame
	open bool
	got  []string
}

func (e *emuEndpoint) pump() {
	go func() {
		for e.rec.Receive() {
			e.ch <- e.rec.Frame()
		}
	}()
}

func (e *emuEndpoint) sweep() {
	for {
		select {
		case f := <-e.ch:
			e.got = append(e.got, frameStr(f))
		default:
			return
		}
	}
}

func emitEmulatorHistory(rng *rand.Rand) bool {
	emu, err := socketcan.NewEmulator(socketcan.NoLogger)
	if err != nil {
		fmt.Fprintln(os.Stderr, "emulator: cannot start, E lines skipped:", err)
		return false
	}
	ctx, cancel := context.WithCancel(context.Background())
	runDone := make(chan struct{})
	go func() { _ = emu.Run(ctx); close(runDone) }()
	var eps []*emuEndpoint
	var ops []string
	settle := func() {
		time.Sleep(1500 * time.Microsecond)
		for _, e := range eps {
			e.sweep()
		}
	}
	nops := 4 + rng.Intn(8)
	for k := 0; k < nops; k++ {
		r := rng.Intn(10)
		switch {
		case (r < 3 || len(eps) == 0) && len(eps) < 4:
			e := &emuEndpoint{id: len(eps) + 1, ch: make(chan can.Frame, 64), open: true}
			if rng.Intn(2) == 0 {
				rec, err := emu.Receiver()
				if err != nil {
					fmt.Fprintln(os.Stderr, "emulator: Receiver():", err)
					cancel()
					return false
				}
				e.rec = rec
				ops = append(ops, fmt.Sprintf("r%d", e.id))
			} else {
				conn, err := socketcan.Dial("udp", emu.Addr().String())
				if err != nil {
					fmt.Fprintln(os.Stderr, "emulator: Dial:", err)
					cancel()
					return false
				}
				e.conn, e.rec, e.tx = conn, socketcan.NewReceiver(conn), socketcan.NewTransmitter(conn)
				ops = append(ops, fmt.Sprintf("d%d", e.id))
			}
			e.pump()
			eps = append(eps, e)
		case r < 4:
			e := eps[rng.Intn(len(eps))]
			_ = e.rec.Close()
			e.open = false
			ops = append(ops, fmt.Sprintf("x%d", e.id))
			settle()
		default:
			f := validFrame(rng)
			var terr error
			who := "-"
			var cand []*emuEndpoint
			for _, e := range eps {
				if e.tx != nil {
					cand = append(cand, e)
				}
			}
			if len(cand) > 0 && rng.Intn(2) == 0 {
				e := cand[rng.Intn(len(cand))]
				who = fmt.Sprint(e.id)
				tctx, c := context.WithTimeout(context.Background(), time.Second)
				terr = e.tx.TransmitFrame(tctx, f)
				c()
			} else {
				tctx, c := context.WithTimeout(context.Background(), time.Second)
				terr = emu.TransmitFrame(tctx, f)
				c()
			}
			ops = append(ops, fmt.Sprintf("t%s:%s:%s", who, frameStr(f), b01(terr != nil)))
			if terr == nil {
				for _, e := range eps {
					if !e.open {
						continue
					}
					select {
					case g := <-e.ch:
						e.got = append(e.got, frameStr(g))
					case <-time.After(300 * time.Millisecond):
					}
				}
			}
			settle()
		}
	}
	settle()
	for _, e := range eps {
		if e.conn != nil && e.open {
			_ = e.conn.Close()
		}
	}
	cancel()
	select {
	case <-runDone:
	case <-time.After(2 * time.Second):
		fmt.Fprintln(os.Stderr, "emulator: Run did not return")
	}
	var obs []string
	for _, e := range eps {
		g := "-"
		if len(e.got) > 0 {
			g = strings.Join(e.got, ",")
		}
		obs = append(obs, fmt.Sprintf("%d=%s", e.id, g))
	}
	fmt.Fprintf(out, "E %s | %s\n", strings.Join(ops, " "), strings.Join(obs, " "))
	return true
}

func c07emulator(rng *rand.Rand, thorough bool) {
	n := 80
	if thorough {
		n = 1000
	}
	for i := 0; i < n; i++ {
		if !emitEmulatorHistory(rng) {
			return
		}
	}
}
