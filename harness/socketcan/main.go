// Harness for the socketcan family (C06, C07). PUBLIC API only:
//   - can.Frame.Validate
//   - socketcan.NewTransmitter(fake net.Conn, interceptor).TransmitFrame: the fake records every call
//   - socketcan.NewReceiver(scripted io.ReadCloser, interceptor): Receive/Frame/HasErrorFrame/ErrorFrame/Err
//
// It generates the cases (seeded; generators do not use the code under test), runs the real
// code and prints one observation per line for the model driver (ocaml/socketcan_main.ml).
// Compiled into /repo's working tree with `go build -overlay` as cmd/verif_socketcan.
//
// usage: verif_socketcan c06|c07 <seed> quick|thorough
//
// Line formats (numbers lower-case hex, fields separated by single spaces):
//
//	frame    = id.len.data16hex.remote01.extended01
//	errframe = class.lostarb.ctrl.prot.protloc.trx.csi6hex
//	V <frame> <ok01>                                     Frame.Validate() == nil
//	T <frame> | <nwrites> <hex of all written bytes|-> <err01> | <rxok01> <frame> <iserr01>
//	                                                     TransmitFrame on a fake conn, then the
//	                                                     written bytes fed to a Receiver
//	R <block32hex> | <ok01> <frame> <iserr01> <errframe> one 16-byte block through a Receiver
//	S <ncalls> <read>* | <event>*                        a scripted connection; <read>* is the LOG
//	                                                     of what the reader actually returned:
//	     d<hex> (n,nil)   x<code>:<hex> (n,err)   e<code> (0,err)   z (0,io.EOF)
//	     T:<icpt frames joined by ,>:<frame>:<iserr01>:<errframe>   Receive() = true
//	     F:<icpt frames>:<frame>:<err code|->                        Receive() = false
//	     P  Receive panicked      H  the harness gave up (too many calls)
//	X <call>* | <event>*                                 calls on one Transmitter
//	     call = <frame>;<deadline01>;<deadline answer code|->;<write answer n>;<write answer code|->
//	            (every Write of the call answers (min(n, len(b)), error); with a 6th field ";s" only the
//	            FIRST Write of the call does, every later Write of the same call answers (len(b), nil))
//	     D SetWriteDeadline(ctx deadline)  D! (other time)  W<hex> Write  I<frame> interceptor
//	     U<name> any other method of the conn   R<code|-> result of the call (errors.Is cause)
//	C <frame>* | <block32hex|E>*                         K goroutines transmit one frame each on ONE shared
//	                                                     Transmitter; the conn holds every Write until all K
//	                                                     are inside Write, then records the bytes it was given
//	                                                     (E = a TransmitFrame call returned an error)
//	error codes (hex): 0 io.EOF, 1 io.ErrNoProgress, 2..5 bufio.ErrTooLong/NegativeAdvance/AdvanceTooFar/
//	     FinalToken, 6 io.ErrUnexpectedEOF, 10+k injected error number k, ? anything else
package main

import (
	"bufio"
	"context"
	"encoding/hex"
	"errors"
	"fmt"
	"io"
	"math/rand"
	"net"
	"os"
	"strconv"
	"strings"
	"sync"
	"syscall"
	"time"

	"go.einride.tech/can"
	"go.einride.tech/can/pkg/socketcan"
)

var out = bufio.NewWriterSize(os.Stdout, 1<<20)

func b01(b bool) string {
	if b {
		return "1"
	}
	return "0"
}

func frameStr(f can.Frame) string {
	return fmt.Sprintf("%x.%x.%s.%s.%s", f.ID, f.Length, hex.EncodeToString(f.Data[:]), b01(f.IsRemote), b01(f.IsExtended))
}

func errFrameStr(e socketcan.ErrorFrame) string {
	return fmt.Sprintf("%x.%x.%x.%x.%x.%x.%s", uint32(e.ErrorClass), e.LostArbitrationBit, uint8(e.ControllerError),
		uint8(e.ProtocolError), uint8(e.ProtocolViolationErrorLocation), uint8(e.TransceiverError),
		hex.EncodeToString(e.ControllerSpecificInformation[:]))
}

// ---------------------------------------------------------------- errors

type injErr struct{ k int }

func (e *injErr) Error() string { return "injected error " + strconv.Itoa(e.k) }

var injected = map[int]*injErr{}

func inj(k int) error {
	if e, ok := injected[k]; ok {
		return e
	}
	e := &injErr{k}
	injected[k] = e
	return e
}

// error values a maintainer might special-case ("transient", "retry"): the property says one Write
// per call and the error returned, whatever the error is. Wrappers come AFTER what they wrap
// (causeCode looks for the most specific one first).
type timeoutErr struct{}

func (timeoutErr) Error() string   { return "i/o timeout" }
func (timeoutErr) Timeout() bool   { return true }
func (timeoutErr) Temporary() bool { return true }

var _ net.Error = timeoutErr{}

var realErrs = []error{
	syscall.ENOBUFS, syscall.EAGAIN, syscall.EINTR, syscall.EPIPE, syscall.ECONNRESET, timeoutErr{},
	io.ErrShortWrite, os.ErrDeadlineExceeded, context.DeadlineExceeded,
	os.NewSyscallError("write", syscall.ENOBUFS),
	&net.OpError{Op: "write", Net: "can", Err: os.NewSyscallError("write", syscall.ENOBUFS)},
	&net.OpError{Op: "write", Net: "tcp", Err: os.NewSyscallError("write", syscall.EAGAIN)},
	&net.OpError{Op: "write", Net: "tcp", Err: syscall.EINTR},
	&net.OpError{Op: "write", Net: "tcp", Err: timeoutErr{}},
	&net.OpError{Op: "write", Net: "udp", Err: os.ErrDeadlineExceeded},
}

func errCode(err error) string {
	if err != nil {
		for k, e := range realErrs {
			if e == err {
				return fmt.Sprintf("%x", 64+k)
			}
		}
	}
	switch err {
	case nil:
		return "-"
	case io.EOF:
		return "0"
	case io.ErrNoProgress:
		return "1"
	case bufio.ErrTooLong:
		return "2"
	case bufio.ErrNegativeAdvance:
		return "3"
	case bufio.ErrAdvanceTooFar:
		return "4"
	case bufio.ErrFinalToken:
		return "5"
	case io.ErrUnexpectedEOF:
		return "6"
	}
	if e, ok := err.(*injErr); ok {
		return fmt.Sprintf("%x", 16+e.k)
	}
	return "?"
}

// cause of a (possibly wrapped) error
func causeCode(err error) string {
	if err == nil {
		return "-"
	}
	var ie *injErr
	if errors.As(err, &ie) {
		return fmt.Sprintf("%x", 16+ie.k)
	}
	for k := len(realErrs) - 1; k >= 0; k-- {
		if errors.Is(err, realErrs[k]) {
			return fmt.Sprintf("%x", 64+k)
		}
	}
	for _, known := range []error{io.EOF, io.ErrNoProgress, io.ErrUnexpectedEOF} {
		if errors.Is(err, known) {
			return errCode(known)
		}
	}
	return "?"
}

// ---------------------------------------------------------------- scripted reader

type entry struct {
	data []byte
	err  error
}

type scriptReader struct {
	script  []entry
	pos     int
	off     int
	log     []string
	viaFile bool     // the reader is the FILE under a fileConn: log the errors as fileConn must hand them on
	misc    []string // calls other than Read (only when used as a file)
}

func (s *scriptReader) code(err error) string {
	if s.viaFile {
		return fileErrCode("read", err)
	}
	return errCode(err)
}

func (s *scriptReader) Read(p []byte) (int, error) {
	if s.pos >= len(s.script) {
		if s.viaFile {
			s.log = append(s.log, "e"+s.code(io.EOF))
		} else {
			s.log = append(s.log, "z")
		}
		return 0, io.EOF
	}
	e := s.script[s.pos]
	n := copy(p, e.data[s.off:])
	if s.off+n < len(e.data) {
		// the caller's buffer is smaller than the scripted read: serve what fits, keep the rest
		s.off += n
		s.log = append(s.log, "d"+hex.EncodeToString(p[:n]))
		return n, nil
	}
	s.pos++
	s.off = 0
	switch {
	case e.err == nil:
		s.log = append(s.log, "d"+hex.EncodeToString(p[:n]))
	case n == 0 && e.err == io.EOF && !s.viaFile:
		s.log = append(s.log, "z")
	case n == 0:
		s.log = append(s.log, "e"+s.code(e.err))
	default:
		s.log = append(s.log, "x"+s.code(e.err)+":"+hex.EncodeToString(p[:n]))
	}
	return n, e.err
}

func (s *scriptReader) Close() error { return nil }

// the rest of the `file` interface of fileconn.go
func (s *scriptReader) Write(b []byte) (int, error) {
	s.misc = append(s.misc, "Write")
	return len(b), nil
}
func (s *scriptReader) SetDeadline(time.Time) error {
	s.misc = append(s.misc, "SetDeadline")
	return nil
}
func (s *scriptReader) SetReadDeadline(time.Time) error {
	s.misc = append(s.misc, "SetReadDeadline")
	return nil
}
func (s *scriptReader) SetWriteDeadline(time.Time) error {
	s.misc = append(s.misc, "SetWriteDeadline")
	return nil
}

// ---------------------------------------------------------------- fileConn (the connection behind Dial("can"))

var opBase = map[string]int{"read": 0x100, "write": 0x200, "set write deadline": 0x300, "set read deadline": 0x400,
	"set deadline": 0x500, "close": 0x600}

func plainCode(err error) int {
	c, e := strconv.ParseInt(errCode(err), 16, 32)
	if e != nil {
		return -1
	}
	return int(c)
}

// what a transparent fileConn returns for operation op when its file returned fileErr: a *net.OpError
// for that operation around the file's error, one *os.PathError level removed
func fileErrCode(op string, fileErr error) string {
	if fileErr == nil {
		return "-"
	}
	inner := fileErr
	if pe, ok := fileErr.(*os.PathError); ok {
		inner = pe.Err
	}
	c := plainCode(inner)
	if c < 0 {
		panic("harness: scripted file error without a code")
	}
	return fmt.Sprintf("%x", opBase[op]+c)
}

// the code of an error that came out of the code under test on a fileConn of the given network:
// kinds are compared, not texts
func connErrCode(err error, network string) string {
	if err == nil {
		return "-"
	}
	var oe *net.OpError
	if !errors.As(err, &oe) {
		return "?"
	}
	base, ok := opBase[oe.Op]
	c := plainCode(oe.Err)
	if !ok || oe.Net != network || c < 0 {
		return "?"
	}
	return fmt.Sprintf("%x", base+c)
}

// Receiver.Err() on a fileConn: the scanner's own errors are not wrapped
func viaErrCode(err error) string {
	switch c := errCode(err); c {
	case "-", "1", "2", "3", "4", "5":
		return c
	}
	return connErrCode(err, "can")
}

// every second scripted error comes as an *os.PathError, the way os.File reports it
func withPathErrors(script []entry) []entry {
	s := append([]entry(nil), script...)
	k := 0
	for i := range s {
		if s[i].err != nil {
			if k++; k%2 == 0 {
				s[i].err = &os.PathError{Op: "read", Path: "/dev/can0", Err: s[i].err}
			}
		}
	}
	return s
}

func safeReceive(r *socketcan.Receiver) (ok bool, panicked bool) {
	defer func() {
		if recover() != nil {
			panicked = true
		}
	}()
	return r.Receive(), false
}

func icptStr(fs []can.Frame) string {
	ss := make([]string, len(fs))
	for i, f := range fs {
		ss[i] = frameStr(f)
	}
	return strings.Join(ss, ",")
}

// runs the idiomatic client loop until Receive has returned false twice (the second call shows
// that reception stays ended); returns the read log and the events
func runScript(script []entry, viaFile bool, maxStops int) ([]string, []string) {
	total := 0
	for _, e := range script {
		total += len(e.data)
	}
	rd := &scriptReader{script: script, viaFile: viaFile}
	var rc io.ReadCloser = rd
	code := errCode
	if viaFile {
		rc = socketcan.VerifFileConn(rd, "can", nil, nil)
		code = viaErrCode
	}
	var icpt []can.Frame
	r := socketcan.NewReceiver(rc, socketcan.ReceiverFrameInterceptor(func(f can.Frame) { icpt = append(icpt, f) }))
	var events []string
	stops := 0
	limit := total/16 + 2 + maxStops
	for calls := 0; ; calls++ {
		if calls >= limit {
			events = append(events, "H")
			break
		}
		icpt = icpt[:0]
		ok, panicked := safeReceive(r)
		if panicked {
			events = append(events, "P")
			break
		}
		if ok {
			events = append(events, "T:"+icptStr(icpt)+":"+frameStr(r.Frame())+":"+b01(r.HasErrorFrame())+":"+errFrameStr(r.ErrorFrame()))
		} else {
			events = append(events, "F:"+icptStr(icpt)+":"+frameStr(r.Frame())+":"+code(r.Err()))
			stops++
			if stops == maxStops {
				break
			}
		}
	}
	for _, m := range rd.misc { // the Receiver must only Read
		events = append(events, "!"+m)
	}
	return rd.log, events
}

// every script runs on a Receiver reading the scripted connection directly; every viaEvery-th
// (every one while viaAll is set) ALSO on a Receiver on the real fileConn over the scripted file
var (
	nScripts int
	viaEvery = 4
	viaAll   bool
)

func emitScript(script []entry) {
	// the client normally stops after the second false; every second fault script is POLLED on: Receive
	// is called until it has returned false four times while the scripted stream continues after the fault
	maxStops := 2
	if viaAll && nScripts%2 == 0 {
		maxStops = 4
	}
	log, events := runScript(script, false, maxStops)
	n := len(events)
	fmt.Fprintf(out, "S %d %s | %s\n", n, strings.Join(log, " "), strings.Join(events, " "))
	if nScripts++; viaAll || nScripts%viaEvery == 0 {
		log, events = runScript(withPathErrors(script), true, maxStops)
		fmt.Fprintf(out, "SF %d %s | %s\n", len(events), strings.Join(log, " "), strings.Join(events, " "))
	}
}

// ---------------------------------------------------------------- fake connection

type fakeConn struct {
	events      []string
	deadlineAns error
	writeAns    error
	writeN      int // byte count answered by Write (capped at len(b))
	want        time.Time
	writes      [][]byte
	laterOK     bool // only the first Write of a call gets the scripted answer, later ones succeed
	nw          int  // Writes so far in the current call
}

func (c *fakeConn) Write(b []byte) (int, error) {
	cp := append([]byte(nil), b...)
	c.writes = append(c.writes, cp)
	c.events = append(c.events, "W"+hex.EncodeToString(cp))
	c.nw++
	if c.laterOK && c.nw > 1 {
		return len(b), nil
	}
	n := c.writeN
	if n > len(b) {
		n = len(b)
	}
	return n, c.writeAns
}

func (c *fakeConn) SetWriteDeadline(t time.Time) error {
	if t.Equal(c.want) {
		c.events = append(c.events, "D")
	} else {
		c.events = append(c.events, "D!")
	}
	return c.deadlineAns
}
func (c *fakeConn) Read(b []byte) (int, error) {
	c.events = append(c.events, "URead")
	return 0, io.EOF
}
func (c *fakeConn) Close() error         { c.events = append(c.events, "UClose"); return nil }
func (c *fakeConn) LocalAddr() net.Addr  { c.events = append(c.events, "ULocalAddr"); return nil }
func (c *fakeConn) RemoteAddr() net.Addr { c.events = append(c.events, "URemoteAddr"); return nil }
func (c *fakeConn) SetDeadline(t time.Time) error {
	c.events = append(c.events, "USetDeadline")
	return nil
}
func (c *fakeConn) SetReadDeadline(t time.Time) error {
	c.events = append(c.events, "USetReadDeadline")
	return nil
}

// ---------------------------------------------------------------- C06

func dataOf(u uint64) can.Data {
	var d can.Data
	for i := 0; i < 8; i++ {
		d[i] = byte(u >> (8 * uint(i)))
	}
	return d
}

var (
	c06conn *fakeConn
	c06tx   *socketcan.Transmitter
)

func emitFrame(f can.Frame) {
	fmt.Fprintf(out, "V %s %s\n", frameStr(f), b01(f.Validate() == nil))
	c06conn.events = c06conn.events[:0]
	c06conn.writes = c06conn.writes[:0]
	err := c06tx.TransmitFrame(context.Background(), f)
	var all []byte
	for _, w := range c06conn.writes {
		all = append(all, w...)
	}
	hx := "-"
	if len(all) > 0 {
		hx = hex.EncodeToString(all)
	}
	// feed what was written to a receiver
	rd := &scriptReader{script: []entry{{data: all}}}
	r := socketcan.NewReceiver(rd)
	ok, panicked := safeReceive(r)
	rx := "P"
	if !panicked {
		rx = fmt.Sprintf("%s %s %s", b01(ok), frameStr(r.Frame()), b01(r.HasErrorFrame()))
	}
	fmt.Fprintf(out, "T %s | %d %s %s | %s\n", frameStr(f), len(c06conn.writes), hx, b01(err != nil), rx)
}

func emitBlock(b [16]byte) {
	rd := &scriptReader{script: []entry{{data: b[:]}}}
	r := socketcan.NewReceiver(rd)
	ok, panicked := safeReceive(r)
	if panicked {
		fmt.Fprintf(out, "R %s | P\n", hex.EncodeToString(b[:]))
		return
	}
	fmt.Fprintf(out, "R %s | %s %s %s %s\n", hex.EncodeToString(b[:]), b01(ok), frameStr(r.Frame()), b01(r.HasErrorFrame()), errFrameStr(r.ErrorFrame()))
}

// the blocks as one byte stream through ONE receiver, cut into reads at arbitrary offsets (or all
// blocks in one read): one Receive per block must yield the block's frame, exactly as for an aligned
// 16-byte read
func emitSplit(rng *rand.Rand, blocks [][16]byte) {
	var all []byte
	var hx []string
	for _, b := range blocks {
		all = append(all, b[:]...)
		hx = append(hx, hex.EncodeToString(b[:]))
	}
	var script []entry
	style := rng.Intn(5)
	if style == 4 && len(blocks) == 1 {
		style = rng.Intn(4)
	}
	switch style {
	case 0: // one cut at an arbitrary offset
		c := 1 + rng.Intn(len(all)-1)
		script = []entry{{data: all[:c]}, {data: all[c:]}}
	case 1: // constant read size that is not the block size
		cs := 1 + rng.Intn(40)
		if cs%16 == 0 {
			cs += 1 + rng.Intn(15)
		}
		script = constChunks(all, cs)
	case 2:
		script = randomPartition(rng, all, 0.12, 0)
	case 3: // one cut inside every block
		start := 0
		for i := range blocks {
			c := 16*i + 1 + rng.Intn(15)
			script = append(script, entry{data: all[start:c]})
			start = c
		}
		script = append(script, entry{data: all[start:]})
	case 4: // several blocks per read
		script = []entry{{data: all}}
	}
	rd := &scriptReader{script: script}
	r := socketcan.NewReceiver(rd)
	var rx []string
	for range blocks {
		ok, panicked := safeReceive(r)
		if panicked {
			rx = append(rx, "P")
			break
		}
		rx = append(rx, fmt.Sprintf("%s:%s:%s:%s", b01(ok), frameStr(r.Frame()), b01(r.HasErrorFrame()), errFrameStr(r.ErrorFrame())))
	}
	fmt.Fprintf(out, "Q %s | %s | %s\n", strings.Join(hx, " "), strings.Join(rd.log, " "), strings.Join(rx, " "))
}

// a block sequence through a read script WITH a fault after which the stream continues; the client
// keeps calling Receive. Every block completed by the bytes delivered up to and including the
// faulting Read must decode per C06; after that nothing is decoded any more (reception stays ended).
func emitSplitFault(rng *rand.Rand, blocks [][16]byte) {
	var all []byte
	var hx []string
	for _, b := range blocks {
		all = append(all, b[:]...)
		hx = append(hx, hex.EncodeToString(b[:]))
	}
	var script []entry
	switch rng.Intn(4) {
	case 0:
		script = []entry{{data: all}}
	case 1:
		script = constChunks(all, 1+rng.Intn(40))
	case 2:
		script = randomPartition(rng, all, 0.12, 0)
	case 3:
		c := 1 + rng.Intn(len(all)-1)
		script = []entry{{data: all[:c]}, {data: all[c:]}}
	}
	var fault error
	switch rng.Intn(4) {
	case 0:
		fault = io.EOF
	case 1:
		fault = inj(1 + rng.Intn(6))
	default:
		fault = realErrs[rng.Intn(len(realErrs))]
	}
	at := rng.Intn(len(script) + 1)
	if at < len(script) && rng.Intn(2) == 0 {
		script[at].err = fault // the error comes together with data
	} else {
		script = cat(script[:at], []entry{{err: fault}}, script[at:])
	}
	rd := &scriptReader{script: script}
	r := socketcan.NewReceiver(rd)
	var rx []string
	for k := 0; k < len(blocks)+3; k++ {
		ok, panicked := safeReceive(r)
		if panicked {
			rx = append(rx, "P")
			break
		}
		rx = append(rx, fmt.Sprintf("%s:%s:%s:%s", b01(ok), frameStr(r.Frame()), b01(r.HasErrorFrame()), errFrameStr(r.ErrorFrame())))
	}
	fmt.Fprintf(out, "QF %s | %s | %s\n", strings.Join(hx, " "), strings.Join(rd.log, " "), strings.Join(rx, " "))
}

// a share of the R blocks is ALSO delivered unaligned: collected into batches of 1..4 blocks
var (
	splitBatch    [][16]byte
	splitWant     = 1
	nSplitBatches int
)

func alsoSplit(rng *rand.Rand, b [16]byte) {
	splitBatch = append(splitBatch, b)
	if len(splitBatch) >= splitWant {
		emitSplit(rng, splitBatch)
		if nSplitBatches++; nSplitBatches%3 == 0 { // a third of the batches again with a fault in the read script
			emitSplitFault(rng, splitBatch)
		}
		splitBatch = splitBatch[:0]
		splitWant = 1 + rng.Intn(4)
	}
}

func mkBlock(w uint32, dlc byte, pad [3]byte, d can.Data) [16]byte {
	var b [16]byte
	b[0], b[1], b[2], b[3] = byte(w), byte(w>>8), byte(w>>16), byte(w>>24)
	b[4] = dlc
	b[5], b[6], b[7] = pad[0], pad[1], pad[2]
	copy(b[8:], d[:])
	return b
}

func c06(seed int64, thorough bool) {
	rng := rand.New(rand.NewSource(seed))
	c06conn = &fakeConn{writeN: 16}
	c06tx = socketcan.NewTransmitter(c06conn)
	basis := []can.Data{dataOf(0), dataOf(^uint64(0)), dataOf(0x0807060504030201), dataOf(0xf0e0d0c0b0a09080)}
	for i := 0; i < 64; i++ {
		basis = append(basis, dataOf(1<<uint(i)), dataOf(^(uint64(1) << uint(i))))
	}
	nb := 0
	payload := func() can.Data {
		nb++
		if nb%7 == 0 {
			return basis[(nb/7)%len(basis)]
		}
		return dataOf(rng.Uint64())
	}
	flags := []bool{false, true}
	// (a) every standard ID x flags x lengths 0..8
	reps := 1
	if thorough {
		reps = 8
	}
	for rep := 0; rep < reps; rep++ {
		for id := uint32(0); id <= 0x7ff; id++ {
			for _, ext := range flags {
				for _, rem := range flags {
					for l := 0; l <= 8; l++ {
						emitFrame(can.Frame{ID: id, Length: uint8(l), Data: payload(), IsRemote: rem, IsExtended: ext})
					}
				}
			}
		}
	}
	// (b) extended / out-of-range IDs: boundaries, one-hot, one-cold, random
	ids := []uint32{0, 1, 0x7fe, 0x7ff, 0x800, 0x801, 0xfff, 0x1ffffffe, 0x1fffffff, 0x20000000, 0x20000001, 0x200007ff,
		0x3fffffff, 0x40000000, 0x400007ff, 0x5fffffff, 0x7fffffff, 0x80000000, 0x80000001, 0x800007ff, 0x9fffffff,
		0xc0000000, 0xdfffffff, 0xe0000000, 0xfffffffe, 0xffffffff}
	for k := 0; k < 32; k++ {
		ids = append(ids, 1<<uint(k))
	}
	for k := 0; k < 29; k++ {
		ids = append(ids, 0x1fffffff^(1<<uint(k)))
	}
	nrand := 1800
	if thorough {
		nrand = 60000
	}
	for i := 0; i < nrand; i++ {
		v := rng.Uint32()
		switch i % 4 {
		case 0, 1:
			v &= 0x1fffffff
		case 2:
			v >>= uint(rng.Intn(32))
		}
		ids = append(ids, v)
	}
	for _, id := range ids {
		for _, ext := range flags {
			for _, rem := range flags {
				for l := 0; l <= 8; l++ {
					emitFrame(can.Frame{ID: id, Length: uint8(l), Data: payload(), IsRemote: rem, IsExtended: ext})
				}
			}
		}
	}
	// (c) invalid lengths 9..255
	for l := 9; l <= 255; l++ {
		for _, id := range []uint32{0, 0x123, 0x7ff, 0x800, 0x1fffffff, 0x20000000, rng.Uint32() & 0x1fffffff} {
			for _, ext := range flags {
				for _, rem := range flags {
					emitFrame(can.Frame{ID: id, Length: uint8(l), Data: payload(), IsRemote: rem, IsExtended: ext})
				}
			}
		}
	}
	// (d) payload basis on a few frames
	for _, d := range basis {
		emitFrame(can.Frame{ID: 0x555, Length: 8, Data: d})
		emitFrame(can.Frame{ID: 0x15555555, Length: 8, Data: d, IsExtended: true})
	}
	// blocks: every flag combination x ID patterns x dlc x payloads (x padding)
	pats := []uint32{0, 1, 0x7fe, 0x7ff, 0x800, 0x801, 0xfff, 0x1ffff800, 0x1ffffffe, 0x1fffffff, 0x15555555, 0x0aaaaaaa,
		0x2, 0x4, 0x8, 0x10, 0x20, 0x40, 0x80, 0x100} // incl. the error classes of error.h
	for k := 0; k < 29; k++ {
		pats = append(pats, 1<<uint(k), 0x1fffffff^(1<<uint(k)))
	}
	npr := 8
	if thorough {
		npr = 200
	}
	for i := 0; i < npr; i++ {
		pats = append(pats, rng.Uint32()&0x1fffffff)
	}
	dlcs := []byte{0, 1, 2, 3, 4, 5, 6, 7, 8, 9, 15, 16, 255}
	nsplit := 0
	for fl := uint32(0); fl < 8; fl++ {
		for _, p := range pats {
			w := fl<<29 | p
			for _, dlc := range dlcs {
				pls := []can.Data{dataOf(0), dataOf(^uint64(0)), dataOf(0x0807060504030201), dataOf(rng.Uint64()), dataOf(rng.Uint64())}
				for i, d := range pls {
					var pad [3]byte
					if i%2 == 1 {
						pad = [3]byte{byte(rng.Intn(256)), byte(rng.Intn(256)), byte(rng.Intn(256))}
					}
					blk := mkBlock(w, dlc, pad, d)
					emitBlock(blk)
					if nsplit++; nsplit%3 == 0 {
						alsoSplit(rng, blk)
					}
				}
			}
		}
		for _, d := range basis {
			emitBlock(mkBlock(fl<<29|0x4, 8, [3]byte{}, d))
			emitBlock(mkBlock(fl<<29|0x1abcdef5, 8, [3]byte{0xff, 0xff, 0xff}, d))
			alsoSplit(rng, mkBlock(fl<<29|0x1abcdef5, 8, [3]byte{0xff, 0xff, 0xff}, d))
		}
	}
	// every value of the length byte x flag combinations x a few IDs
	for dlc := 0; dlc <= 255; dlc++ {
		for fl := uint32(0); fl < 8; fl++ {
			for _, p := range []uint32{0, 0x7ff, 0x1fffffff, rng.Uint32() & 0x1fffffff} {
				blk := mkBlock(fl<<29|p, byte(dlc), [3]byte{}, dataOf(rng.Uint64()))
				emitBlock(blk)
				if nsplit++; nsplit%3 == 0 {
					alsoSplit(rng, blk)
				}
			}
		}
	}
	nblk := 100000
	if thorough {
		nblk = 2000000
	}
	for i := 0; i < nblk; i++ {
		var b [16]byte
		rng.Read(b[:])
		if i%3 == 0 && b[4] > 8 {
			b[4] %= 9
		}
		emitBlock(b)
		if i%4 == 0 {
			alsoSplit(rng, b)
		}
	}
	if len(splitBatch) > 0 {
		emitSplit(rng, splitBatch)
		splitBatch = splitBatch[:0]
	}
	// goroutines sharing one Transmitter (canrunner runs one transmit goroutine per message on one
	// transmitter): the multiset of written blocks must be the frames' layouts
	rounds := 10
	if thorough {
		rounds = 100
	}
	for r := 0; r < rounds; r++ {
		for k := 2; k <= 8; k++ {
			emitConcurrent(rng, k)
		}
	}
	// valid frames on connections whose Write fails: still exactly one Write of the frame's 16 bytes
	emitTransmitFaults(rng, validFrame, thorough)
	// the transmit side of the connection glue against its model (Glue.v; glue.go)
	c06glue(rand.New(rand.NewSource(seed+14)), thorough)
}

func validFrame(rng *rand.Rand) can.Frame {
	f := can.Frame{Length: uint8(rng.Intn(9)), Data: dataOf(rng.Uint64()), IsRemote: rng.Intn(4) == 0}
	if rng.Intn(2) == 0 {
		f.ID = rng.Uint32() & 0x7ff
	} else {
		f.ID = rng.Uint32() & 0x1fffffff
		f.IsExtended = true
	}
	return f
}

// ---------------------------------------------------------------- C06: one Transmitter shared by goroutines

// barrierConn holds every Write until `want` goroutines are inside Write (or a bounded wait has
// passed), and only then looks at the bytes it was given - like a connection that copies the
// caller's buffer some time after the call started.
type barrierConn struct {
	fakeConn
	mu       sync.Mutex
	need     int
	arrived  int
	release  chan struct{}
	released bool
	blocks   []string
}

func (c *barrierConn) open() {
	if !c.released {
		c.released = true
		close(c.release)
	}
}

func (c *barrierConn) Write(b []byte) (int, error) {
	c.mu.Lock()
	c.arrived++
	if c.arrived >= c.need {
		c.open()
	}
	c.mu.Unlock()
	select {
	case <-c.release:
	case <-time.After(3 * time.Second): // somebody never reached Write: let everybody go
		c.mu.Lock()
		c.open()
		c.mu.Unlock()
	}
	c.mu.Lock()
	c.blocks = append(c.blocks, hex.EncodeToString(b))
	c.mu.Unlock()
	return len(b), nil
}

func emitConcurrent(rng *rand.Rand, k int) {
	conn := &barrierConn{need: k, release: make(chan struct{})}
	tx := socketcan.NewTransmitter(conn)
	frames := make([]can.Frame, k)
	strs := make([]string, k)
	for i := range frames {
		f := can.Frame{Length: uint8(rng.Intn(9)), Data: dataOf(rng.Uint64()), IsRemote: rng.Intn(4) == 0}
		if rng.Intn(2) == 0 {
			f.ID = (rng.Uint32()&0x7f)<<4 | uint32(i) // distinct per goroutine
		} else {
			f.ID = (rng.Uint32()&0x1ffffff)<<4 | uint32(i)
			f.IsExtended = true
		}
		frames[i] = f
		strs[i] = frameStr(f)
	}
	var wg sync.WaitGroup
	errs := make([]bool, k)
	for i := range frames {
		wg.Add(1)
		go func(i int) {
			defer wg.Done()
			errs[i] = tx.TransmitFrame(context.Background(), frames[i]) != nil
		}(i)
	}
	wg.Wait()
	blocks := conn.blocks
	for _, e := range errs {
		if e {
			blocks = append(blocks, "E")
		}
	}
	fmt.Fprintf(out, "C %s | %s\n", strings.Join(strs, " "), strings.Join(blocks, " "))
}

// ---------------------------------------------------------------- C07

func randFrameBytes(rng *rand.Rand) []byte {
	b := make([]byte, 16)
	if rng.Intn(3) == 0 {
		rng.Read(b)
		return b
	}
	var w uint32
	if rng.Intn(2) == 0 {
		w = rng.Uint32() & 0x7ff
	} else {
		w = rng.Uint32()&0x1fffffff | 0x80000000
	}
	if rng.Intn(4) == 0 {
		w |= 0x40000000
	}
	if rng.Intn(6) == 0 {
		w |= 0x20000000
	}
	b[0], b[1], b[2], b[3] = byte(w), byte(w>>8), byte(w>>16), byte(w>>24)
	b[4] = byte(rng.Intn(9))
	if rng.Intn(8) == 0 { // a length byte no classic CAN frame has: still a block, still one frame
		b[4] = byte(9 + rng.Intn(247))
	}
	rng.Read(b[8:])
	return b
}

func stream(rng *rand.Rand, nf, tr int) []byte {
	var bs []byte
	for i := 0; i < nf; i++ {
		bs = append(bs, randFrameBytes(rng)...)
	}
	t := make([]byte, tr)
	rng.Read(t)
	return append(bs, t...)
}

func constChunks(bs []byte, cs int) []entry {
	var s []entry
	for i := 0; i < len(bs); i += cs {
		j := i + cs
		if j > len(bs) {
			j = len(bs)
		}
		s = append(s, entry{data: bs[i:j]})
	}
	return s
}

// cut set as a bit mask: bit i set = cut between byte i and byte i+1
func cutChunks(bs []byte, mask uint32) []entry {
	var s []entry
	start := 0
	for i := 0; i+1 < len(bs); i++ {
		if mask&(1<<uint(i)) != 0 {
			s = append(s, entry{data: bs[start : i+1]})
			start = i + 1
		}
	}
	if len(bs) > 0 {
		s = append(s, entry{data: bs[start:]})
	}
	return s
}

func randomPartition(rng *rand.Rand, bs []byte, p float64, pEmpty float64) []entry {
	var s []entry
	start := 0
	maybeEmpty := func() {
		if rng.Float64() < pEmpty {
			for k := rng.Intn(3) + 1; k > 0; k-- {
				s = append(s, entry{})
			}
		}
	}
	maybeEmpty()
	for i := 0; i+1 < len(bs); i++ {
		if rng.Float64() < p {
			s = append(s, entry{data: bs[start : i+1]})
			start = i + 1
			maybeEmpty()
		}
	}
	if len(bs) > 0 {
		s = append(s, entry{data: bs[start:]})
		maybeEmpty()
	}
	return s
}

func withEOF(s []entry) []entry { return append(append([]entry(nil), s...), entry{err: io.EOF}) }

func empties(n int) []entry { return make([]entry, n) }

func cat(parts ...[]entry) []entry {
	var s []entry
	for _, p := range parts {
		s = append(s, p...)
	}
	return s
}

func c07(seed int64, thorough bool) {
	rng := rand.New(rand.NewSource(seed))
	// 1. every constant chunk size 1..64 for streams of 0..6 frames + 0..15 trailing bytes
	for nf := 0; nf <= 6; nf++ {
		for tr := 0; tr <= 15; tr++ {
			bs := stream(rng, nf, tr)
			for cs := 1; cs <= 64; cs++ {
				s := constChunks(bs, cs)
				if cs%2 == 0 {
					s = withEOF(s) // explicit (0, io.EOF) entry; otherwise the exhausted script answers EOF
				}
				emitScript(s)
			}
		}
	}
	// 2. ALL 2^(n-1) cut sets for short streams
	maxn := 17
	if thorough {
		maxn = 20
	}
	for n := 0; n <= maxn; n++ {
		bs := stream(rng, n/16, n%16)
		if n == 0 {
			emitScript(nil)
			continue
		}
		for mask := uint32(0); mask < 1<<uint(n-1); mask++ {
			emitScript(cutChunks(bs, mask))
		}
	}
	// 3. seeded random partitions, with empty reads sprinkled in
	k := 24
	if thorough {
		k = 600
	}
	for nf := 0; nf <= 6; nf++ {
		for tr := 0; tr <= 15; tr++ {
			for i := 0; i < k; i++ {
				bs := stream(rng, nf, tr)
				p := []float64{0.03, 0.1, 0.3, 0.6}[i%4]
				emitScript(randomPartition(rng, bs, p, []float64{0, 0.15}[i/4%2]))
			}
		}
	}
	// 4. an error (without / with data) at every read index (all of them also through fileConn)
	viaAll = true
	errs := []error{inj(1), io.EOF, inj(2), io.ErrNoProgress, io.ErrUnexpectedEOF}
	ne := 0
	nextErr := func() error {
		ne++
		if ne%5 == 0 {
			return errs[1+(ne/5)%(len(errs)-1)]
		}
		if ne%3 == 0 { // real error kinds, among them read-deadline (Timeout) errors a client may poll through
			return realErrs[(ne/3)%len(realErrs)]
		}
		return inj(ne % 7)
	}
	trs := []int{0, 5, 15}
	css := []int{1, 7, 16, 17, 40}
	if thorough {
		trs = []int{0, 1, 5, 8, 15}
		css = []int{1, 2, 3, 7, 15, 16, 17, 31, 32, 33, 40, 64}
	}
	for nf := 0; nf <= 6; nf++ {
		for _, tr := range trs {
			bs := stream(rng, nf, tr)
			var bases [][]entry
			for _, cs := range css {
				bases = append(bases, constChunks(bs, cs))
			}
			bases = append(bases, randomPartition(rng, bs, 0.2, 0), randomPartition(rng, bs, 0.1, 0.2))
			for _, base := range bases {
				for idx := 0; idx <= len(base); idx++ {
					// without data: an error-only read inserted before read idx
					e := nextErr()
					emitScript(cat(base[:idx], []entry{{err: e}}, base[idx:]))
					// with data: read idx itself reports the error
					if idx < len(base) {
						e = nextErr()
						s := append([]entry(nil), base...)
						s[idx] = entry{data: base[idx].data, err: e}
						emitScript(s)
					}
				}
			}
		}
	}
	viaAll = false
	// 5. runs of empty reads: 1, 99, 100 (tolerated), 101, 150 (io.ErrNoProgress)
	for _, run := range []int{1, 2, 50, 99, 100, 101, 102, 150} {
		for nf := 0; nf <= 3; nf++ {
			for _, tr := range []int{0, 7} {
				bs := stream(rng, nf, tr)
				for _, at := range []int{0, 5, 16, 17, 32, len(bs)} {
					if at > len(bs) {
						continue
					}
					emitScript(cat([]entry{{data: bs[:at]}}, empties(run), []entry{{data: bs[at:]}}))
					emitScript(cat(constChunks(bs[:at], 3), empties(run), constChunks(bs[at:], 5), []entry{{err: io.EOF}}))
					// the counter restarts after a non-empty read
					if at < len(bs) {
						emitScript(cat([]entry{{data: bs[:at]}}, empties(run), []entry{{data: bs[at : at+1]}}, empties(run), []entry{{data: bs[at+1:]}}))
					}
					// an error right after the run
					emitScript(cat([]entry{{data: bs[:at]}}, empties(run), []entry{{data: bs[at:], err: inj(3)}}))
				}
			}
		}
	}
	// 6. long streams: reads larger than the scanner's buffer (the reader honours len(p))
	bigs := []int{300, 4200}
	for _, nf := range bigs {
		bs := stream(rng, nf, 9)
		emitScript([]entry{{data: bs}})
		for _, cs := range []int{4096, 4097, 5000, 1000, 4095} {
			emitScript(constChunks(bs, cs))
		}
		emitScript([]entry{{data: bs[:len(bs)-30]}, {data: bs[len(bs)-30:], err: inj(4)}})
	}
	// 7. transmitter: every combination of answers
	//    ctx with/without deadline x SetWriteDeadline ok/failed x Write answers (n, err) with
	//    n in {0,1,8,15,16} x err in {nil, error}: exhaustively as single calls and as first call of a
	//    sequence, then random sequences
	nfr := 6
	if thorough {
		nfr = 200
	}
	for i := 0; i < nfr; i++ {
		for combo := 0; combo < 40; combo++ {
			emitTransmit(rng, 1, combo)
			emitTransmit(rng, 2+rng.Intn(3), combo)
		}
	}
	ncalls := 400
	if thorough {
		ncalls = 20000
	}
	for i := 0; i < ncalls; i++ {
		emitTransmit(rng, 1+rng.Intn(5), rng.Intn(40))
	}
	// 8. several receivers / transmitters alive in one process, operations interleaved
	c07process(rng, thorough)
	// 9. Write failing with real error kinds x every byte count 0..16, later Writes of the call succeed
	emitTransmitFaults(rng, randFrame, thorough)
	// 13. histories of calls by several Transmitters on one conn with repeated contexts
	c07histories(rng, thorough)
	// 14. the connection glue against its own model (Glue.v): fileConn, udpTxRx, dialCtx (glue.go)
	c07glue(rand.New(rand.NewSource(seed+14)), thorough)
	// 15. the real Emulator against the bus model (Emulator.v): connect / disconnect / transmit histories (emulator.go)
	c07emulator(rand.New(rand.NewSource(seed+15)), thorough)
	// 12. packet connections: one datagram per Read, what does not fit the offered buffer is discarded
	c07packets(rng, thorough)
	// 11. a Transmitter and a Receiver on one shared connection of every kind Dial returns
	c07shared(rng, thorough)
	// 10. goroutines sharing one Transmitter: each pending Write must carry its own frame
	rounds := 10
	if thorough {
		rounds = 100
	}
	for r := 0; r < rounds; r++ {
		for k := 2; k <= 8; k++ {
			emitConcurrent(rng, k)
		}
	}
}

// ---------------------------------------------------------------- C07: several receivers in one process

// what a closed connection answers to Read when failAfterClose is set (like a net.Conn)
var errClosed = inj(8)

type closeReader struct {
	scriptReader
	failAfterClose bool
	closed         int
}

func (s *closeReader) Read(p []byte) (int, error) {
	if s.closed > 0 && s.failAfterClose {
		s.log = append(s.log, "e"+errCode(errClosed))
		return 0, errClosed
	}
	return s.scriptReader.Read(p)
}

func (s *closeReader) Close() error { s.closed++; return nil }

type mrecv struct {
	rd    *closeReader
	r     *socketcan.Receiver
	total int
	calls int
	stops int
	dead  bool
}

// one process: receivers are created, read from and closed in an interleaved schedule
type mproc struct {
	recvs []*mrecv
	ops   []string
	obs   []string
	icpt  []string // interceptor calls (of ANY receiver) during the current operation
}

func (p *mproc) create(script []entry, icpt bool, failAfterClose bool) int {
	id := len(p.recvs)
	total := 0
	for _, e := range script {
		total += len(e.data)
	}
	rd := &closeReader{scriptReader: scriptReader{script: script}, failAfterClose: failAfterClose}
	var r *socketcan.Receiver
	if icpt {
		r = socketcan.NewReceiver(rd, socketcan.ReceiverFrameInterceptor(func(f can.Frame) {
			p.icpt = append(p.icpt, fmt.Sprintf("%d@%s", id, frameStr(f)))
		}))
	} else {
		r = socketcan.NewReceiver(rd)
	}
	p.recvs = append(p.recvs, &mrecv{rd: rd, r: r, total: total})
	p.ops = append(p.ops, fmt.Sprintf("n%d:%s", id, b01(icpt)))
	return id
}

func (p *mproc) finished(id int) bool {
	m := p.recvs[id]
	return m.dead || m.stops >= 2 || m.calls >= m.total/16+4
}

func (p *mproc) receive(id int) {
	m := p.recvs[id]
	if m.dead {
		return
	}
	p.ops = append(p.ops, fmt.Sprintf("r%d", id))
	p.icpt = p.icpt[:0]
	m.calls++
	ok, panicked := safeReceive(m.r)
	ic := strings.Join(p.icpt, ",")
	switch {
	case panicked:
		m.dead = true
		p.obs = append(p.obs, fmt.Sprintf("%d/P", id))
	case ok:
		p.obs = append(p.obs, fmt.Sprintf("%d/T:%s:%s:%s:%s", id, ic, frameStr(m.r.Frame()), b01(m.r.HasErrorFrame()), errFrameStr(m.r.ErrorFrame())))
	default:
		m.stops++
		p.obs = append(p.obs, fmt.Sprintf("%d/F:%s:%s:%s", id, ic, frameStr(m.r.Frame()), errCode(m.r.Err())))
	}
}

func (p *mproc) close(id int) {
	m := p.recvs[id]
	if m.dead {
		return
	}
	p.ops = append(p.ops, fmt.Sprintf("c%d", id))
	err := m.r.Close()
	p.obs = append(p.obs, fmt.Sprintf("%d/C%s", id, errCode(err)))
}

// Receive on the given receivers in random order until each has reported the end twice
func (p *mproc) drain(rng *rand.Rand, ids ...int) {
	for {
		var open []int
		for _, id := range ids {
			if !p.finished(id) {
				open = append(open, id)
			}
		}
		if len(open) == 0 {
			return
		}
		p.receive(open[rng.Intn(len(open))])
	}
}

func (p *mproc) emit() {
	logs := make([]string, len(p.recvs))
	for i, m := range p.recvs {
		logs[i] = fmt.Sprintf("L%d=%s", i, strings.Join(m.rd.log, ","))
	}
	fmt.Fprintf(out, "M %s | %s | %s\n", strings.Join(p.ops, " "), strings.Join(logs, " "), strings.Join(p.obs, " "))
}

// a connection: a stream of minFrames..6 frames + trailing bytes, cut into reads in one of several ways
func mscript(rng *rand.Rand, minFrames int) []entry {
	nf := minFrames + rng.Intn(7-minFrames)
	bs := stream(rng, nf, []int{0, 0, 3, 9, 15}[rng.Intn(5)])
	var s []entry
	switch rng.Intn(6) {
	case 0, 1: // everything in one read: many frames per read
		s = []entry{{data: bs}}
	case 2:
		s = constChunks(bs, 1+rng.Intn(64))
	case 3:
		s = randomPartition(rng, bs, 0.03, 0.1)
	case 4:
		s = randomPartition(rng, bs, 0.2, 0)
	case 5: // reads of one and a half / two and a half frames
		s = constChunks(bs, []int{24, 40}[rng.Intn(2)])
	}
	switch rng.Intn(8) {
	case 0:
		s = append(s, entry{err: inj(1 + rng.Intn(6))})
	case 1:
		if len(s) > 0 {
			s[len(s)-1].err = inj(1 + rng.Intn(6))
		}
	case 2:
		s = withEOF(s)
	}
	return s
}

// random schedule: create / Receive / Close (closed receivers stay in use, may be closed again)
func emitMultiRandom(rng *rand.Rand) {
	p := &mproc{}
	maxK := 2 + rng.Intn(4)
	nops := 8 + rng.Intn(40)
	pClose := []int{5, 15, 30}[rng.Intn(3)]
	p.create(mscript(rng, 0), rng.Intn(2) == 0, rng.Intn(2) == 0)
	for i := 0; i < nops; i++ {
		x := rng.Intn(100)
		switch {
		case x < 15 && len(p.recvs) < maxK:
			p.create(mscript(rng, 0), rng.Intn(2) == 0, rng.Intn(2) == 0)
		case x < 15+pClose:
			p.close(rng.Intn(len(p.recvs)))
		default:
			id := rng.Intn(len(p.recvs))
			if !p.finished(id) {
				p.receive(id)
			}
		}
	}
	all := make([]int, len(p.recvs))
	for i := range all {
		all[i] = i
	}
	p.drain(rng, all...)
	p.emit()
}

// life cycle: a receiver is used a little, closed (once / twice / three times, possibly with frames
// still buffered); further receivers are created afterwards and all are read interleaved
func emitMultiLifecycle(rng *rand.Rand) {
	p := &mproc{}
	var ids []int
	nfirst := 1 + rng.Intn(2)
	for i := 0; i < nfirst; i++ {
		ids = append(ids, p.create(mscript(rng, 2), rng.Intn(2) == 0, rng.Intn(2) == 0))
	}
	for _, id := range ids {
		for k := rng.Intn(3); k > 0; k-- {
			p.receive(id)
		}
	}
	for _, id := range ids {
		for k := 1 + rng.Intn(3); k > 0; k-- {
			p.close(id)
		}
	}
	for k := 1 + rng.Intn(3); k > 0; k-- {
		ids = append(ids, p.create(mscript(rng, 2), rng.Intn(2) == 0, rng.Intn(2) == 0))
		if rng.Intn(3) == 0 {
			p.receive(ids[len(ids)-1])
		}
	}
	p.drain(rng, ids...)
	p.emit()
}

// every assignment of "with / without interceptor" to 1..3 receivers, created up front or one after
// the other between reads
func emitMultiInterceptors(rng *rand.Rand, k int, mask int, upFront bool) {
	p := &mproc{}
	var ids []int
	for i := 0; i < k; i++ {
		ids = append(ids, p.create(mscript(rng, 1), mask&(1<<uint(i)) != 0, false))
		if !upFront {
			for n := 1 + rng.Intn(2); n > 0; n-- {
				p.receive(ids[rng.Intn(len(ids))])
			}
		}
	}
	p.drain(rng, ids...)
	p.emit()
}

// ---------------------------------------------------------------- C07: several transmitters in one process

type tconn struct {
	id          int
	log         *[]string
	deadlineAns error
	writeAns    error
	writeN      int
	want        time.Time
}

func (c *tconn) ev(s string) { *c.log = append(*c.log, fmt.Sprintf("%d.%s", c.id, s)) }

func (c *tconn) Write(b []byte) (int, error) {
	c.ev("W" + hex.EncodeToString(b))
	n := c.writeN
	if n > len(b) {
		n = len(b)
	}
	return n, c.writeAns
}

func (c *tconn) SetWriteDeadline(t time.Time) error {
	if t.Equal(c.want) {
		c.ev("D")
	} else {
		c.ev("D!")
	}
	return c.deadlineAns
}
func (c *tconn) Read(b []byte) (int, error)        { c.ev("URead"); return 0, io.EOF }
func (c *tconn) Close() error                      { c.ev("UClose"); return nil }
func (c *tconn) LocalAddr() net.Addr               { c.ev("ULocalAddr"); return nil }
func (c *tconn) RemoteAddr() net.Addr              { c.ev("URemoteAddr"); return nil }
func (c *tconn) SetDeadline(t time.Time) error     { c.ev("USetDeadline"); return nil }
func (c *tconn) SetReadDeadline(t time.Time) error { c.ev("USetReadDeadline"); return nil }

// flags[i] = transmitter i has an interceptor; upFront = all created before the first call
func emitMultiTransmit(rng *rand.Rand, flags []bool, upFront bool, ncalls int) {
	var log, ops, events []string
	var conns []*tconn
	var txs []*socketcan.Transmitter
	create := func() {
		id := len(txs)
		conn := &tconn{id: id, log: &log}
		var tx *socketcan.Transmitter
		if flags[id] {
			tx = socketcan.NewTransmitter(conn, socketcan.TransmitterFrameInterceptor(func(f can.Frame) {
				log = append(log, fmt.Sprintf("%d.I%s", id, frameStr(f)))
			}))
		} else {
			tx = socketcan.NewTransmitter(conn)
		}
		conns = append(conns, conn)
		txs = append(txs, tx)
		ops = append(ops, fmt.Sprintf("n%d:%s", id, b01(flags[id])))
	}
	call := func(i int) {
		conn := conns[i]
		f := randFrame(rng)
		combo := rng.Intn(40)
		if rng.Intn(2) == 0 {
			combo &^= 6 // both answers nil: the call succeeds
		}
		dl := combo&1 != 0
		conn.deadlineAns, conn.writeAns = nil, nil
		if combo&2 != 0 {
			conn.deadlineAns = inj(5)
		}
		if combo&4 != 0 {
			conn.writeAns = inj(6)
		}
		conn.writeN = []int{0, 1, 8, 15, 16}[combo/8]
		ctx := context.Background()
		cancel := func() {}
		if dl {
			conn.want = time.Now().Add(time.Duration(1+rng.Intn(1000)) * time.Hour)
			ctx, cancel = context.WithDeadline(ctx, conn.want)
		}
		ops = append(ops, fmt.Sprintf("t%d:%s;%s;%s;%x;%s", i, frameStr(f), b01(dl), errCode(conn.deadlineAns), conn.writeN, errCode(conn.writeAns)))
		start := len(log)
		err := txs[i].TransmitFrame(ctx, f)
		cancel()
		for _, e := range log[start:] {
			events = append(events, fmt.Sprintf("%d/%s", i, e))
		}
		events = append(events, fmt.Sprintf("%d/%d.R%s", i, i, causeCode(err)))
	}
	if upFront {
		for range flags {
			create()
		}
	} else {
		create()
	}
	for n := 0; n < ncalls; n++ {
		if len(txs) < len(flags) && rng.Intn(3) == 0 {
			create()
		}
		call(rng.Intn(len(txs)))
	}
	for len(txs) < len(flags) {
		create()
		call(rng.Intn(len(txs)))
	}
	fmt.Fprintf(out, "N %s | %s\n", strings.Join(ops, " "), strings.Join(events, " "))
}

func c07process(rng *rand.Rand, thorough bool) {
	scale := 1
	if thorough {
		scale = 20
	}
	for rep := 0; rep < 12*scale; rep++ {
		for k := 1; k <= 3; k++ {
			for mask := 0; mask < 1<<uint(k); mask++ {
				emitMultiInterceptors(rng, k, mask, rep%2 == 0)
			}
		}
	}
	for i := 0; i < 500*scale; i++ {
		emitMultiLifecycle(rng)
	}
	for i := 0; i < 1500*scale; i++ {
		emitMultiRandom(rng)
	}
	for rep := 0; rep < 12*scale; rep++ {
		for k := 1; k <= 3; k++ {
			for mask := 0; mask < 1<<uint(k); mask++ {
				flags := make([]bool, k)
				for i := range flags {
					flags[i] = mask&(1<<uint(i)) != 0
				}
				emitMultiTransmit(rng, flags, rep%2 == 0, 2*k+rng.Intn(6))
			}
		}
	}
	for i := 0; i < 400*scale; i++ {
		flags := make([]bool, 2+rng.Intn(4))
		for j := range flags {
			flags[j] = rng.Intn(2) == 0
		}
		emitMultiTransmit(rng, flags, rng.Intn(2) == 0, 4+rng.Intn(12))
	}
}

// ---------------------------------------------------------------- C07: a Transmitter and a Receiver on ONE connection

// the file under a fileConn used in both directions: reads are scripted, everything else is the fake conn
type duplexFile struct {
	*fakeConn
	rd *scriptReader
}

func (d *duplexFile) Read(p []byte) (int, error) { return d.rd.Read(p) }

func randAnswers(rng *rand.Rand) txAnswers {
	if rng.Intn(2) == 0 {
		return txAnswers{dl: rng.Intn(2) == 0, writeN: 16}
	}
	a := comboAnswers(rng.Intn(40))
	if rng.Intn(3) == 0 && a.writeAns != nil {
		a.writeAns = realErrs[rng.Intn(len(realErrs))]
	}
	if rng.Intn(3) == 0 && a.deadlineAns != nil {
		a.deadlineAns = realErrs[rng.Intn(len(realErrs))]
	}
	return a
}

// kind can: fileConn on a fake file; transmit faults must not end reception, read faults must not
// disturb transmission, and a transmit deadline must reach SetWriteDeadline of the file only
func emitSharedFile(rng *rand.Rand) {
	fc := &fakeConn{}
	rd := &scriptReader{script: withPathErrors(mscript(rng, 1)), viaFile: true}
	conn := socketcan.VerifFileConn(&duplexFile{fakeConn: fc, rd: rd}, "can", nil, nil)
	tx := socketcan.NewTransmitter(conn, socketcan.TransmitterFrameInterceptor(func(f can.Frame) {
		fc.events = append(fc.events, "I"+frameStr(f))
	}))
	var icpt []can.Frame
	rx := socketcan.NewReceiver(conn, socketcan.ReceiverFrameInterceptor(func(f can.Frame) { icpt = append(icpt, f) }))
	var ops, obs []string
	stops, ntx := 0, 0
	for n := 0; n < 60 && (stops < 2 || ntx < 2); n++ {
		fc.events = fc.events[:0]
		if stops >= 2 || rng.Intn(2) == 0 {
			a := randAnswers(rng)
			f := randFrame(rng)
			fc.deadlineAns, fc.writeAns, fc.writeN, fc.laterOK, fc.nw = a.deadlineAns, a.writeAns, a.writeN, true, 0
			ctx := context.Background()
			cancel := func() {}
			if a.dl {
				fc.want = time.Now().Add(time.Duration(1+rng.Intn(1000)) * time.Hour)
				ctx, cancel = context.WithDeadline(ctx, fc.want)
			}
			ops = append(ops, fmt.Sprintf("t%s;%s;%s;%x;%s;s", frameStr(f), b01(a.dl), fileErrCode("set write deadline", fc.deadlineAns),
				fc.writeN, fileErrCode("write", fc.writeAns)))
			err := tx.TransmitFrame(ctx, f)
			cancel()
			obs = append(obs, strings.Join(append(append([]string(nil), fc.events...), "R"+connErrCode(err, "can")), ","))
			ntx++
			continue
		}
		ops = append(ops, "r")
		icpt = icpt[:0]
		ok, panicked := safeReceive(rx)
		var o string
		switch {
		case panicked:
			o = "P"
			stops = 2
		case ok:
			o = "T:" + icptStr(icpt) + ":" + frameStr(rx.Frame()) + ":" + b01(rx.HasErrorFrame()) + ":" + errFrameStr(rx.ErrorFrame())
		default:
			o = "F:" + icptStr(icpt) + ":" + frameStr(rx.Frame()) + ":" + viaErrCode(rx.Err())
			stops++
		}
		for _, e := range fc.events { // calls the file saw during Receive, other than Read
			o += ",!" + e
		}
		obs = append(obs, o)
	}
	fmt.Fprintf(out, "U can %s | %s | %s\n", strings.Join(ops, " "), strings.Join(rd.log, " "), strings.Join(obs, " "))
}

var sharedSkipped = map[string]int{}

// the real connections Dial returns. udp: the multicast transceiver receives what it sends; tcp/unix:
// a loopback peer echoes every byte. Returns nil if the sandbox does not offer that kind.
func dialShared(rng *rand.Rand, kind string) (conn net.Conn, cleanup func()) {
	cleanup = func() {}
	switch kind {
	case "udp":
		c, err := socketcan.Dial("udp", fmt.Sprintf("239.%d.%d.%d:0", 64+rng.Intn(64), rng.Intn(256), 1+rng.Intn(254)))
		if err != nil {
			return nil, cleanup
		}
		return c, func() { _ = c.Close() }
	case "tcp", "unix":
		addr := "127.0.0.1:0"
		dir := ""
		if kind == "unix" {
			d, err := os.MkdirTemp("", "verif-sock-")
			if err != nil {
				return nil, cleanup
			}
			dir = d
			addr = dir + "/s"
		}
		rm := func() {
			if dir != "" {
				_ = os.RemoveAll(dir)
			}
		}
		ln, err := net.Listen(kind, addr)
		if err != nil {
			rm()
			return nil, cleanup
		}
		go func() {
			peer, err := ln.Accept()
			if err != nil {
				return
			}
			_, _ = io.Copy(peer, peer)
			_ = peer.Close()
		}()
		c, err := socketcan.Dial(kind, ln.Addr().String())
		if err != nil {
			_ = ln.Close()
			rm()
			return nil, cleanup
		}
		return c, func() { _ = c.Close(); _ = ln.Close(); rm() }
	}
	return nil, cleanup
}

// One connection, a Transmitter (contexts with and without deadline) and a Receiver: every frame sent
// comes back; a transmit deadline that has passed must not end reception. Once a deadline was used
// every later call carries one (TransmitFrame never clears the connection's write deadline).
func emitSharedReal(rng *rand.Rand, kind string) {
	conn, cleanup := dialShared(rng, kind)
	if conn == nil {
		sharedSkipped[kind]++
		return
	}
	defer cleanup()
	var txi []string
	tx := socketcan.NewTransmitter(conn, socketcan.TransmitterFrameInterceptor(func(f can.Frame) { txi = append(txi, "I"+frameStr(f)) }))
	var icpt []can.Frame
	rx := socketcan.NewReceiver(conn, socketcan.ReceiverFrameInterceptor(func(f can.Frame) { icpt = append(icpt, f) }))
	var ops, obs []string
	sent, got := 0, 0
	usedDeadline := false
	receive := func() bool {
		ops = append(ops, "r")
		icpt = icpt[:0]
		type res struct{ ok, panicked bool }
		done := make(chan res, 1)
		go func() {
			ok, p := safeReceive(rx)
			done <- res{ok, p}
		}()
		select {
		case r := <-done:
			got++
			switch {
			case r.panicked:
				obs = append(obs, "P")
				return false
			case r.ok:
				obs = append(obs, "T:"+icptStr(icpt)+":"+frameStr(rx.Frame())+":"+b01(rx.HasErrorFrame())+":"+errFrameStr(rx.ErrorFrame()))
				return true
			default:
				c := causeCode(rx.Err())
				var ne net.Error
				if errors.As(rx.Err(), &ne) && ne.Timeout() {
					c = "timeout"
				}
				obs = append(obs, "F:"+icptStr(icpt)+":"+frameStr(rx.Frame())+":"+c)
				return false
			}
		case <-time.After(5 * time.Second):
			obs = append(obs, "H")
			return false
		}
	}
	phases := 1 + rng.Intn(3)
	for ph := 0; ph < phases; ph++ {
		n := 1 + rng.Intn(4)
		short := rng.Intn(3) != 0
		for i := 0; i < n; i++ {
			mode := 0
			if usedDeadline || rng.Intn(2) == 0 {
				mode = 1
			}
			if short && i == n-1 {
				mode = 2
			}
			f := randFrame(rng)
			ctx := context.Background()
			cancel := func() {}
			var deadline time.Time
			switch mode {
			case 1:
				deadline = time.Now().Add(time.Hour)
			case 2:
				deadline = time.Now().Add(40 * time.Millisecond)
			}
			if mode != 0 {
				usedDeadline = true
				ctx, cancel = context.WithDeadline(ctx, deadline)
			}
			txi = txi[:0]
			err := tx.TransmitFrame(ctx, f)
			cancel()
			if err != nil && mode == 2 && time.Now().After(deadline) {
				sharedSkipped[kind+"-stalled"]++ // the process stalled past the short deadline: no verdict
				return
			}
			ops = append(ops, fmt.Sprintf("t%s;%d", frameStr(f), mode))
			obs = append(obs, strings.Join(append(append([]string(nil), txi...), "R"+causeCode(err)), ","))
			if err != nil {
				fmt.Fprintf(out, "U %s %s | | %s\n", kind, strings.Join(ops, " "), strings.Join(obs, " "))
				return
			}
			sent++
			if mode == 2 {
				time.Sleep(time.Until(deadline) + 10*time.Millisecond)
			} else if got < sent && rng.Intn(3) == 0 {
				if !receive() {
					fmt.Fprintf(out, "U %s %s | | %s\n", kind, strings.Join(ops, " "), strings.Join(obs, " "))
					return
				}
			}
		}
		for got < sent {
			if !receive() {
				fmt.Fprintf(out, "U %s %s | | %s\n", kind, strings.Join(ops, " "), strings.Join(obs, " "))
				return
			}
		}
	}
	fmt.Fprintf(out, "U %s %s | | %s\n", kind, strings.Join(ops, " "), strings.Join(obs, " "))
}

func c07shared(rng *rand.Rand, thorough bool) {
	nfile, nreal := 600, 10
	if thorough {
		nfile, nreal = 12000, 60
	}
	for i := 0; i < nfile; i++ {
		emitSharedFile(rng)
	}
	for i := 0; i < nreal; i++ {
		for _, kind := range []string{"udp", "tcp", "unix"} {
			emitSharedReal(rng, kind)
		}
	}
	for k, n := range sharedSkipped {
		fmt.Fprintf(os.Stderr, "verif_socketcan: %d shared-connection scenarios skipped: %s\n", n, k)
	}
}

// ---------------------------------------------------------------- C07: packet (datagram) connections

type packetReader struct {
	dgrams [][]byte
	pos    int
	log    []string
}

func (s *packetReader) Read(p []byte) (int, error) {
	if s.pos >= len(s.dgrams) {
		s.log = append(s.log, fmt.Sprintf("%x:z", len(p)))
		return 0, io.EOF
	}
	d := s.dgrams[s.pos]
	s.pos++
	n := copy(p, d) // what does not fit is lost, as with recvfrom on a datagram socket
	s.log = append(s.log, fmt.Sprintf("%x:%s", len(p), hex.EncodeToString(p[:n])))
	return n, nil
}

func (s *packetReader) Close() error { return nil }

// logs len(p) and the data of every Read of a real connection
type readLogConn struct {
	net.Conn
	log []string
}

func (c *readLogConn) Read(p []byte) (int, error) {
	n, err := c.Conn.Read(p)
	if err == nil {
		c.log = append(c.log, fmt.Sprintf("%x:%s", len(p), hex.EncodeToString(p[:n])))
	}
	return n, err
}

func dgramStrs(dgrams [][]byte) string {
	ss := make([]string, len(dgrams))
	for i, d := range dgrams {
		ss[i] = "-"
		if len(d) > 0 {
			ss[i] = hex.EncodeToString(d)
		}
	}
	return strings.Join(ss, " ")
}

func emitPackets(dgrams [][]byte) {
	total := 0
	for _, d := range dgrams {
		total += len(d)
	}
	rd := &packetReader{dgrams: dgrams}
	var icpt []can.Frame
	r := socketcan.NewReceiver(rd, socketcan.ReceiverFrameInterceptor(func(f can.Frame) { icpt = append(icpt, f) }))
	var events []string
	stops := 0
	for calls := 0; stops < 2; calls++ {
		if calls >= total/16+4 {
			events = append(events, "H")
			break
		}
		icpt = icpt[:0]
		ok, panicked := safeReceive(r)
		if panicked {
			events = append(events, "P")
			break
		}
		if ok {
			events = append(events, "T:"+icptStr(icpt)+":"+frameStr(r.Frame())+":"+b01(r.HasErrorFrame())+":"+errFrameStr(r.ErrorFrame()))
		} else {
			events = append(events, "F:"+icptStr(icpt)+":"+frameStr(r.Frame())+":"+errCode(r.Err()))
			stops++
		}
	}
	fmt.Fprintf(out, "G script %s | %s | %s\n", dgramStrs(dgrams), strings.Join(rd.log, " "), strings.Join(events, " "))
}

// the same on the real UDP transceiver: the datagrams are written to the connection (which receives
// its own multicast), then floor(total/16) frames are received
func emitPacketsUDP(rng *rand.Rand, dgrams [][]byte) {
	conn, cleanup := dialShared(rng, "udp")
	if conn == nil {
		sharedSkipped["udp-datagrams"]++
		return
	}
	defer cleanup()
	total := 0
	for _, d := range dgrams {
		if _, err := conn.Write(d); err != nil {
			sharedSkipped["udp-datagrams-write"]++
			return
		}
		total += len(d)
	}
	lc := &readLogConn{Conn: conn}
	var icpt []can.Frame
	r := socketcan.NewReceiver(lc, socketcan.ReceiverFrameInterceptor(func(f can.Frame) { icpt = append(icpt, f) }))
	var events []string
	for k := 0; k < total/16; k++ {
		icpt = icpt[:0]
		type res struct{ ok, panicked bool }
		done := make(chan res, 1)
		go func() {
			ok, p := safeReceive(r)
			done <- res{ok, p}
		}()
		var x res
		select {
		case x = <-done:
		case <-time.After(3 * time.Second):
			events = append(events, "H")
			k = total // give up: the receiver waits for bytes that were discarded
			continue
		}
		if x.panicked {
			events = append(events, "P")
			break
		}
		if !x.ok {
			events = append(events, "F:"+icptStr(icpt)+":"+frameStr(r.Frame())+":"+causeCode(r.Err()))
			break
		}
		events = append(events, "T:"+icptStr(icpt)+":"+frameStr(r.Frame())+":"+b01(r.HasErrorFrame())+":"+errFrameStr(r.ErrorFrame()))
	}
	fmt.Fprintf(out, "G udp %s | %s | %s\n", dgramStrs(dgrams), strings.Join(lc.log, " "), strings.Join(events, " "))
}

func c07packets(rng *rand.Rand, thorough bool) {
	frames := func(k int) []byte { return stream(rng, k, 0) }
	// one datagram of 1..64 frames; the same after an 8-byte fragment and before a trailing fragment
	for k := 1; k <= 64; k++ {
		emitPackets([][]byte{frames(k)})
		bs := stream(rng, k+1, 0)
		emitPackets([][]byte{bs[:8], bs[8 : 8+16*k], bs[8+16*k:]})
		emitPackets([][]byte{frames(k), frames(1), frames(k)})
	}
	// odd sizes: a stream cut into datagrams of arbitrary sizes
	n := 300
	if thorough {
		n = 6000
	}
	for i := 0; i < n; i++ {
		bs := stream(rng, rng.Intn(40), rng.Intn(16))
		var ds [][]byte
		for len(bs) > 0 {
			k := 1 + rng.Intn([]int{8, 24, 100, 700}[rng.Intn(4)])
			if k > len(bs) {
				k = len(bs)
			}
			ds = append(ds, bs[:k])
			bs = bs[k:]
			if rng.Intn(20) == 0 {
				ds = append(ds, nil) // an empty datagram
			}
		}
		emitPackets(ds)
	}
	// datagrams around the room a Read is offered (2033..4096 bytes), after 0..200 single frames that move
	// the scanner's read position through its buffer
	for _, size := range []int{2032, 2033, 2034, 2048, 2049, 4080, 4081, 4096, 5000} {
		for _, pre := range []int{0, 1, 100, 127, 128, 129, 200} {
			var ds [][]byte
			for i := 0; i < pre; i++ {
				ds = append(ds, frames(1))
			}
			big := make([]byte, size)
			rng.Read(big)
			ds = append(ds, big, frames(2))
			emitPackets(ds)
		}
	}
	// the real UDP transceiver
	for _, ks := range [][]int{{1}, {2}, {3, 1}, {64}, {1, 17, 2}, {5, 5, 5, 5}} {
		var ds [][]byte
		for _, k := range ks {
			ds = append(ds, frames(k))
		}
		emitPacketsUDP(rng, ds)
	}
	for i := 0; i < 6; i++ {
		bs := stream(rng, 2+rng.Intn(30), 0)
		cuts := [][]byte{bs[:8]}
		bs = bs[8:]
		for len(bs) > 0 {
			k := 1 + rng.Intn(300)
			if k > len(bs) {
				k = len(bs)
			}
			cuts = append(cuts, bs[:k])
			bs = bs[k:]
		}
		emitPacketsUDP(rng, cuts)
	}
}

// ---------------------------------------------------------------- C07: transmit histories on one shared conn

// records which of the known deadlines SetWriteDeadline was given
type histConn struct {
	fakeConn
	deadlines []time.Time // deadlines[k-1] = deadline of context k
}

func (c *histConn) SetWriteDeadline(t time.Time) error {
	ev := "D!"
	for k, d := range c.deadlines {
		if t.Equal(d) {
			ev = fmt.Sprintf("D%d", k+1)
		}
	}
	c.events = append(c.events, ev)
	return c.deadlineAns
}

// 1..3 Transmitters on ONE conn, contexts 0 (no deadline), 1, 2 reused along the history (the same one
// twice in a row, alternating, ...), SetWriteDeadline / Write faults at random steps: C07_transmit_cases
// holds for EVERY call - a call whose context has a deadline sets ITS deadline on the conn before it writes
func emitTransmitHistory(rng *rand.Rand, ntx int, ncalls int, pattern int) {
	base := time.Now().Add(time.Duration(1+rng.Intn(1000)) * time.Hour)
	conn := &histConn{deadlines: []time.Time{base, base.Add(time.Duration(1+rng.Intn(100)) * time.Second)}}
	ctxs := []context.Context{context.Background()}
	for _, d := range conn.deadlines {
		ctx, cancel := context.WithDeadline(context.Background(), d)
		defer cancel()
		ctxs = append(ctxs, ctx)
	}
	txs := make([]*socketcan.Transmitter, ntx)
	for i := range txs {
		i := i
		txs[i] = socketcan.NewTransmitter(conn, socketcan.TransmitterFrameInterceptor(func(f can.Frame) {
			conn.events = append(conn.events, fmt.Sprintf("I%d.%s", i, frameStr(f)))
		}))
	}
	var calls, events []string
	k := 1 + rng.Intn(2)
	for n := 0; n < ncalls; n++ {
		switch pattern {
		case 0: // the same context again and again, now and then another one
			if rng.Intn(4) == 0 {
				k = rng.Intn(3)
			}
		case 1: // alternating deadlines
			k = 1 + n%2
		case 2:
			k = rng.Intn(3)
		}
		i := rng.Intn(ntx)
		if pattern == 1 {
			i = n % ntx
		}
		a := txAnswers{writeN: 16}
		switch rng.Intn(8) {
		case 0:
			a.deadlineAns = inj(5)
		case 1:
			a.deadlineAns = realErrs[rng.Intn(len(realErrs))]
		case 2:
			a.writeAns, a.writeN = inj(6), rng.Intn(17)
		}
		f := randFrame(rng)
		conn.deadlineAns, conn.writeAns, conn.writeN, conn.laterOK, conn.nw = a.deadlineAns, a.writeAns, a.writeN, true, 0
		conn.events = conn.events[:0]
		calls = append(calls, fmt.Sprintf("%d:%s;%d;%s;%x;%s", i, frameStr(f), k, errCode(a.deadlineAns), a.writeN, errCode(a.writeAns)))
		err := txs[i].TransmitFrame(ctxs[k], f)
		events = append(events, strings.Join(append(append([]string(nil), conn.events...), "R"+causeCode(err)), ","))
	}
	fmt.Fprintf(out, "Y %s | %s\n", strings.Join(calls, " "), strings.Join(events, " "))
}

func c07histories(rng *rand.Rand, thorough bool) {
	n := 150
	if thorough {
		n = 3000
	}
	for i := 0; i < n; i++ {
		for ntx := 1; ntx <= 3; ntx++ {
			for pattern := 0; pattern < 3; pattern++ {
				emitTransmitHistory(rng, ntx, 3+rng.Intn(10), pattern)
			}
		}
	}
}

func randFrame(rng *rand.Rand) can.Frame {
	f := can.Frame{Length: uint8(rng.Intn(9)), Data: dataOf(rng.Uint64()), IsRemote: rng.Intn(4) == 0}
	if rng.Intn(2) == 0 {
		f.ID = rng.Uint32() & 0x7ff
	} else {
		f.ID = rng.Uint32() & 0x1fffffff
		f.IsExtended = true
	}
	if rng.Intn(10) == 0 { // not valid
		f.ID = rng.Uint32()
		f.Length = uint8(rng.Intn(256))
	}
	return f
}

// what the connection answers during one TransmitFrame call
type txAnswers struct {
	dl          bool  // the context has a deadline
	deadlineAns error // SetWriteDeadline
	writeN      int   // Write: byte count ...
	writeAns    error // ... and error
	laterOK     bool  // only the first Write of the call gets (writeN, writeAns); later ones (len(b), nil)
}

func comboAnswers(combo int) txAnswers {
	a := txAnswers{dl: combo&1 != 0, writeN: []int{0, 1, 8, 15, 16}[combo/8]}
	if combo&2 != 0 {
		a.deadlineAns = inj(5)
	}
	if combo&4 != 0 {
		a.writeAns = inj(6)
	}
	return a
}

func emitTransmit(rng *rand.Rand, n int, first int) {
	answers := []txAnswers{comboAnswers(first)}
	for i := 1; i < n; i++ {
		answers = append(answers, comboAnswers(rng.Intn(40)))
	}
	emitTransmitCalls(rng, randFrame, answers)
}

func emitTransmitCalls(rng *rand.Rand, gen func(*rand.Rand) can.Frame, answers []txAnswers) {
	emitTransmitCallsOn(rng, gen, answers, false)
	if nTxSeqs++; nTxSeqs%3 == 0 {
		emitTransmitCallsOn(rng, gen, answers, true)
	}
}

var nTxSeqs int

// viaFile: the Transmitter sits on the real fileConn and the fake conn is the FILE under it (every
// second error answer as an *os.PathError); the connection's answers and the result are then given
// by the codes a transparent fileConn produces
func emitTransmitCallsOn(rng *rand.Rand, gen func(*rand.Rand) can.Frame, answers []txAnswers, viaFile bool) {
	fc := &fakeConn{}
	var conn net.Conn = fc
	tag := "X"
	if viaFile {
		conn = socketcan.VerifFileConn(fc, "can", nil, nil)
		tag = "XF"
	}
	tx := socketcan.NewTransmitter(conn, socketcan.TransmitterFrameInterceptor(func(f can.Frame) {
		fc.events = append(fc.events, "I"+frameStr(f))
	}))
	var calls []string
	for i, a := range answers {
		f := gen(rng)
		fc.deadlineAns, fc.writeAns, fc.writeN, fc.laterOK, fc.nw = a.deadlineAns, a.writeAns, a.writeN, a.laterOK, 0
		da, wa := errCode(fc.deadlineAns), errCode(fc.writeAns)
		if viaFile {
			if i%2 == 1 {
				if fc.deadlineAns != nil {
					fc.deadlineAns = &os.PathError{Op: "setdeadline", Path: "/dev/can0", Err: fc.deadlineAns}
				}
				if fc.writeAns != nil {
					fc.writeAns = &os.PathError{Op: "write", Path: "/dev/can0", Err: fc.writeAns}
				}
			}
			da, wa = fileErrCode("set write deadline", fc.deadlineAns), fileErrCode("write", fc.writeAns)
		}
		ctx := context.Background()
		cancel := func() {}
		if a.dl {
			fc.want = time.Now().Add(time.Duration(1+rng.Intn(1000)) * time.Hour)
			ctx, cancel = context.WithDeadline(ctx, fc.want)
		}
		call := fmt.Sprintf("%s;%s;%s;%x;%s", frameStr(f), b01(a.dl), da, fc.writeN, wa)
		if a.laterOK {
			call += ";s"
		}
		calls = append(calls, call)
		err := tx.TransmitFrame(ctx, f)
		cancel()
		if viaFile {
			fc.events = append(fc.events, "R"+connErrCode(err, "can"))
		} else {
			fc.events = append(fc.events, "R"+causeCode(err))
		}
	}
	fmt.Fprintf(out, "%s %s | %s\n", tag, strings.Join(calls, " "), strings.Join(fc.events, " "))
}

// every real error kind x every byte count 0..16 x with/without deadline as the answer to the FIRST
// Write of a call (later Writes of the same call, if the code makes any, succeed): as a single call,
// and inside a sequence of calls on the same transmitter
func emitTransmitFaults(rng *rand.Rand, gen func(*rand.Rand) can.Frame, thorough bool) {
	reps := 1
	if thorough {
		reps = 10
	}
	for rep := 0; rep < reps; rep++ {
		for _, kind := range realErrs {
			for n := 0; n <= 16; n++ {
				for _, dl := range []bool{false, true} {
					a := txAnswers{dl: dl, writeN: n, writeAns: kind, laterOK: true}
					emitTransmitCalls(rng, gen, []txAnswers{a})
					ok := txAnswers{dl: rng.Intn(2) == 0, writeN: 16, laterOK: true}
					b := txAnswers{dl: rng.Intn(2) == 0, writeN: rng.Intn(17), writeAns: realErrs[rng.Intn(len(realErrs))], laterOK: true}
					emitTransmitCalls(rng, gen, []txAnswers{ok, a, ok, b, ok})
				}
			}
		}
		// the deadline call failing with a real error kind: no Write at all
		for _, kind := range realErrs {
			emitTransmitCalls(rng, gen, []txAnswers{{dl: true, deadlineAns: kind, writeN: 16, laterOK: true}})
		}
	}
}

func main() {
	if len(os.Args) < 4 {
		fmt.Fprintln(os.Stderr, "usage: verif_socketcan c06|c07 <seed> quick|thorough")
		os.Exit(2)
	}
	seed, err := strconv.ParseInt(os.Args[2], 10, 64)
	if err != nil {
		fmt.Fprintln(os.Stderr, "bad seed")
		os.Exit(2)
	}
	thorough := os.Args[3] == "thorough"
	switch os.Args[1] {
	case "c06":
		c06(seed, thorough)
	case "c07":
		c07(seed, thorough)
	default:
		fmt.Fprintln(os.Stderr, "unknown mode")
		os.Exit(2)
	}
	out.Flush()
}
