// Connection glue (fileconn.go, udp.go, dial.go) against the model Socketcan/Glue.v.
//
// Line formats (numbers lower-case hex):
//
//	FC <net> <op>* | <answer>* | <obs>*        one history on a REAL fileConn over a scripted file;
//	                                           <answer>* = the file's script, one entry per operation
//	UD fake <op>* | <rx answer>* | <tx answer>* | <obs>*
//	                                           one history on a REAL udpTxRx whose two ipv4.PacketConn
//	                                           forward to scripted packet conns (deadlines and Close;
//	                                           ipv4.PacketConn does not hand ReadFrom/WriteTo to a fake)
//	UD real <op>* | <rx answer>* | <tx answer>* | <obs>*
//	                                           Read / Write on a REAL udpTxRx over loopback UDP sockets: the
//	                                           rx answers are the datagrams a feeder sent (cut to the buffer),
//	                                           the tx calls are what the sink socket received
//	   op     = R<len(b)>  W<hex|->  D<t> SetDeadline  E<t> SetReadDeadline  F<t> SetWriteDeadline  C Close
//	            (t = 0: the zero time.Time, else seconds after a fixed instant)
//	   answer = <n>:<hex|->:<err>
//	   err    = n (nil) | the Unwrap chain from the outside in, joined by '.':
//	            P *os.PathError  S *os.SyscallError  O<label>-<net> *net.OpError  F fmt.Errorf %w,
//	            ending in l<code> (a leaf error value) or n (a wrapper around nil)
//	            label: 0 read 1 write 2 set deadline 3 set read deadline 4 set write deadline 5 close
//	   obs    = <calls seen by the underlying objects, joined by ','|->=<n>:<hex|->:<err>
//	            call = an op token (file), r/<op token> or t/<op token> (packet conns)
//	DC <scenario> <ctx c|d> <conn 0 nil|1 a conn|2 typed nil pointer> <provider err 01> | <ret conn 01> <ret err -|p|c|d|?> <closes>
//	   scenario 1: provider returns before the call's select, ctx never done
//	            2: ctx done before the call, the provider returns only after dialCtx returned
//	            3: ctx done AND provider result ready before the call (either branch may win)
//	            4: ctx cancelled while dialCtx waits, the provider returns after dialCtx returned
//	   closes = Close calls on the provider's conn after everything settled
package main

import (
	"context"
	"encoding/hex"
	"fmt"
	"io"
	"math/rand"
	"net"
	"os"
	"reflect"
	"strings"
	"sync/atomic"
	"syscall"
	"time"
	"unsafe"

	"go.einride.tech/can/pkg/socketcan"
	"golang.org/x/net/ipv4"
)

var glueLeaves = []error{io.EOF, syscall.ENOBUFS, syscall.EAGAIN, syscall.EINTR, syscall.EPIPE, syscall.ECONNRESET,
	timeoutErr{}, io.ErrShortWrite, os.ErrDeadlineExceeded, context.DeadlineExceeded, inj(1), inj(2), inj(3),
	net.ErrClosed, os.ErrClosed}

var glueLabels = []string{"read", "write", "set deadline", "set read deadline", "set write deadline", "close"}
var glueNets = []string{"can", "udp", "tcp", "unix", "vcan"}

func indexOf(l []string, s string) string {
	for i, x := range l {
		if x == s {
			return fmt.Sprintf("%x", i)
		}
	}
	return "?"
}

func leafCode(err error) string {
	if reflect.TypeOf(err).Comparable() {
		for i, e := range glueLeaves {
			if e == err {
				return fmt.Sprintf("%x", i)
			}
		}
	}
	return "?"
}

// the structure of an error value (never calls Error(): wrappers around nil would panic)
func chainStr(err error) string {
	var parts []string
	for depth := 0; depth < 32; depth++ {
		if err == nil {
			parts = append(parts, "n")
			break
		}
		switch e := err.(type) {
		case *os.PathError:
			parts = append(parts, "P")
			err = e.Err
			continue
		case *os.SyscallError:
			parts = append(parts, "S")
			err = e.Err
			continue
		case *net.OpError:
			parts = append(parts, "O"+indexOf(glueLabels, e.Op)+"-"+indexOf(glueNets, e.Net))
			err = e.Err
			continue
		}
		if c := leafCode(err); c != "?" {
			parts = append(parts, "l"+c)
			break
		}
		if u, ok := err.(interface{ Unwrap() error }); ok {
			parts = append(parts, "F")
			err = u.Unwrap()
			continue
		}
		parts = append(parts, "l?")
		break
	}
	return strings.Join(parts, ".")
}

// a random error value: 0..3 wrappers around a leaf or (under at least one wrapper) around nil
func genErr(rng *rand.Rand) error {
	var err error
	nw := 0
	switch r := rng.Intn(10); {
	case r < 3:
		nw = 0
	case r < 7:
		nw = 1
	case r < 9:
		nw = 2
	default:
		nw = 3
	}
	if nw == 0 || rng.Intn(6) != 0 {
		err = glueLeaves[rng.Intn(len(glueLeaves))]
	}
	for i := 0; i < nw; i++ {
		k := rng.Intn(7)
		if err == nil && k >= 5 {
			k = 0 // fmt.Errorf("%w", nil) does not wrap
		}
		switch {
		case k < 3:
			err = &os.PathError{Op: "read", Path: "/dev/can0", Err: err}
		case k == 3:
			err = &os.SyscallError{Syscall: "read", Err: err}
		case k == 4:
			err = &net.OpError{Op: glueLabels[rng.Intn(len(glueLabels))], Net: glueNets[rng.Intn(len(glueNets))], Err: err}
		default:
			err = fmt.Errorf("wrapped: %w", err)
		}
	}
	return err
}

type gans struct {
	n    int
	data []byte
	err  error
}

func hexOr(b []byte) string {
	if len(b) == 0 {
		return "-"
	}
	return hex.EncodeToString(b)
}

func (a gans) String() string { return fmt.Sprintf("%x:%s:%s", a.n, hexOr(a.data), chainStr(a.err)) }

var glueT0 = time.Unix(1700000000, 0)

func glueTime(t int) time.Time {
	if t == 0 {
		return time.Time{}
	}
	return glueT0.Add(time.Duration(t) * time.Second)
}

func timeTok(t time.Time) string {
	if t.IsZero() {
		return "0"
	}
	return fmt.Sprintf("%x", int64(t.Sub(glueT0)/time.Second))
}

type gop struct {
	kind byte // R W D E F C
	n    int  // R: len(b); D E F: t
	data []byte
}

func (o gop) String() string {
	switch o.kind {
	case 'R':
		return fmt.Sprintf("R%x", o.n)
	case 'W':
		return "W" + hexOr(o.data)
	case 'C':
		return "C"
	}
	return fmt.Sprintf("%c%x", o.kind, o.n)
}

// a scripted underlying object: the `file` of a fileConn, or (prefix r/ t/) a net.PacketConn
type scripted struct {
	prefix string
	script []gans
	pos    int
	log    *[]string
}

func (s *scripted) answer(call string) gans {
	*s.log = append(*s.log, s.prefix+call)
	if s.pos >= len(s.script) {
		return gans{}
	}
	a := s.script[s.pos]
	s.pos++
	return a
}
func (s *scripted) Read(p []byte) (int, error) {
	a := s.answer(fmt.Sprintf("R%x", len(p)))
	copy(p, a.data)
	return a.n, a.err
}
func (s *scripted) Write(p []byte) (int, error) {
	a := s.answer("W" + hexOr(p))
	return a.n, a.err
}
func (s *scripted) SetDeadline(t time.Time) error      { return s.answer("D" + timeTok(t)).err }
func (s *scripted) SetReadDeadline(t time.Time) error  { return s.answer("E" + timeTok(t)).err }
func (s *scripted) SetWriteDeadline(t time.Time) error { return s.answer("F" + timeTok(t)).err }
func (s *scripted) Close() error                       { return s.answer("C").err }

// net.PacketConn
func (s *scripted) ReadFrom(p []byte) (int, net.Addr, error) {
	n, err := s.Read(p)
	return n, nil, err
}
func (s *scripted) WriteTo(p []byte, _ net.Addr) (int, error) { return s.Write(p) }
func (s *scripted) LocalAddr() net.Addr                       { return &net.UDPAddr{IP: net.IPv4(127, 0, 0, 1), Port: 1} }

func genOp(rng *rand.Rand, kinds string) gop {
	o := gop{kind: kinds[rng.Intn(len(kinds))]}
	switch o.kind {
	case 'R':
		o.n = []int{0, 1, 8, 15, 16, 17, 32, 64}[rng.Intn(8)]
	case 'W':
		if rng.Intn(3) > 0 {
			o.data = randFrameBytes(rng)
		} else {
			o.data = make([]byte, rng.Intn(40))
			rng.Read(o.data)
		}
	case 'D', 'E', 'F':
		o.n = rng.Intn(6)
	}
	return o
}

// what a scripted object answers to o: mostly success; faults with every error shape, also (n > 0, err)
func genAnswer(rng *rand.Rand, o gop) gans {
	var a gans
	fail := rng.Intn(5) < 2
	if fail {
		a.err = genErr(rng)
	}
	switch o.kind {
	case 'R':
		k := o.n
		if rng.Intn(3) == 0 || fail {
			k = rng.Intn(o.n + 1)
		}
		if fail && rng.Intn(2) == 0 {
			k = 0
		}
		a.data = make([]byte, k)
		rng.Read(a.data)
		a.n = k
	case 'W':
		a.n = len(o.data)
		if fail || rng.Intn(8) == 0 {
			a.n = rng.Intn(len(o.data) + 1)
		}
	}
	return a
}

func doOp(conn net.Conn, o gop) (int, []byte, error) {
	switch o.kind {
	case 'R':
		p := make([]byte, o.n)
		for i := range p {
			p[i] = 0xee
		}
		n, err := conn.Read(p)
		if n < 0 || n > len(p) {
			return n, []byte("?"), err
		}
		return n, p[:n], err
	case 'W':
		n, err := conn.Write(append([]byte(nil), o.data...))
		return n, nil, err
	case 'D':
		return 0, nil, conn.SetDeadline(glueTime(o.n))
	case 'E':
		return 0, nil, conn.SetReadDeadline(glueTime(o.n))
	case 'F':
		return 0, nil, conn.SetWriteDeadline(glueTime(o.n))
	}
	return 0, nil, conn.Close()
}

func joinStr[T fmt.Stringer](l []T) string {
	s := make([]string, len(l))
	for i, x := range l {
		s[i] = x.String()
	}
	return strings.Join(s, " ")
}

func obsStr(calls []string, n int, data []byte, err error) string {
	c := "-"
	if len(calls) > 0 {
		c = strings.Join(calls, ",")
	}
	return fmt.Sprintf("%s=%x:%s:%s", c, n, hexOr(data), chainStr(err))
}

// one history on a real fileConn; kinds = the operation kinds to draw from
func emitFileConnHistory(rng *rand.Rand, kinds string, nops int) {
	network := glueNets[rng.Intn(len(glueNets))]
	var log []string
	f := &scripted{log: &log}
	ops := make([]gop, nops)
	for i := range ops {
		ops[i] = genOp(rng, kinds)
		f.script = append(f.script, genAnswer(rng, ops[i]))
	}
	conn := socketcan.VerifFileConn(f, network, nil, nil)
	var obs []string
	for _, o := range ops {
		log = log[:0]
		n, data, err := doOp(conn, o)
		obs = append(obs, obsStr(log, n, data, err))
	}
	fmt.Fprintf(out, "FC %s %s | %s | %s\n", indexOf(glueNets, network), joinStr(ops), joinStr(f.script), strings.Join(obs, " "))
}

// ---------------------------------------------------------------- udpTxRx

var glueUDP *net.UDPConn // a real socket: ipv4.NewPacketConn needs one to come up valid

// an ipv4.PacketConn whose embedded net.PacketConn (the object Close and the deadline setters are
// forwarded to) is replaced by pc
func packetConnOn(pc net.PacketConn) *ipv4.PacketConn {
	p := ipv4.NewPacketConn(glueUDP)
	v := reflect.ValueOf(p).Elem().FieldByName("payloadHandler").FieldByName("PacketConn")
	*(*net.PacketConn)(unsafe.Pointer(v.UnsafeAddr())) = pc
	return p
}

func emitUDPFakeHistory(rng *rand.Rand, nops int) {
	var log []string
	rx := &scripted{prefix: "r/", log: &log}
	tx := &scripted{prefix: "t/", log: &log}
	ops := make([]gop, nops)
	for i := range ops {
		ops[i] = genOp(rng, "DDEFCC")
		rx.script = append(rx.script, genAnswer(rng, ops[i]))
		tx.script = append(tx.script, genAnswer(rng, ops[i]))
	}
	conn := socketcan.VerifUDPTxRx(packetConnOn(rx), packetConnOn(tx), &net.UDPAddr{})
	var obs []string
	for _, o := range ops {
		log = log[:0]
		n, data, err := doOp(conn, o)
		obs = append(obs, obsStr(log, n, data, err))
	}
	fmt.Fprintf(out, "UD fake %s | %s | %s | %s\n", joinStr(ops), joinStr(rx.script), joinStr(tx.script), strings.Join(obs, " "))
}

type udpRig struct {
	rxc, sink, txc, feeder *net.UDPConn
	conn                   net.Conn
}

func newUDPRig() (*udpRig, error) {
	lo := &net.UDPAddr{IP: net.IPv4(127, 0, 0, 1)}
	r := &udpRig{}
	var err error
	if r.rxc, err = net.ListenUDP("udp4", lo); err != nil {
		return nil, err
	}
	if r.sink, err = net.ListenUDP("udp4", lo); err != nil {
		return nil, err
	}
	if r.txc, err = net.DialUDP("udp4", nil, r.sink.LocalAddr().(*net.UDPAddr)); err != nil {
		return nil, err
	}
	if r.feeder, err = net.DialUDP("udp4", nil, r.rxc.LocalAddr().(*net.UDPAddr)); err != nil {
		return nil, err
	}
	r.conn = socketcan.VerifUDPTxRx(ipv4.NewPacketConn(r.rxc), ipv4.NewPacketConn(r.txc), &net.UDPAddr{})
	return r, nil
}

// Read / Write of a real udpTxRx on loopback sockets: what the feeder sent is what Read must hand
// out (cut to the buffer), what Write was given is what the sink must receive - and nothing else
func emitUDPRealHistory(rng *rand.Rand, r *udpRig, nops int) {
	var ops []gop
	var rxs, txs []gans
	var obs []string
	for i := 0; i < nops; i++ {
		o := genOp(rng, "RW")
		if o.kind == 'R' {
			if o.n == 0 {
				o.n = 16
			}
			dg := make([]byte, 1+rng.Intn(48))
			rng.Read(dg)
			if _, err := r.feeder.Write(dg); err != nil {
				fmt.Fprintln(os.Stderr, "glue: feeder:", err)
				return
			}
			_ = r.rxc.SetReadDeadline(time.Now().Add(2 * time.Second))
			k := len(dg)
			if k > o.n {
				k = o.n
			}
			rxs = append(rxs, gans{n: k, data: dg[:k]})
			n, data, err := doOp(r.conn, o)
			obs = append(obs, obsStr([]string{"r/" + o.String()}, n, data, err))
		} else {
			if len(o.data) == 0 {
				o.data = []byte{0x5a}
			}
			txs = append(txs, gans{n: len(o.data)})
			n, data, err := doOp(r.conn, o)
			_ = r.sink.SetReadDeadline(time.Now().Add(300 * time.Millisecond))
			buf := make([]byte, 256)
			var calls []string
			if k, _, e := r.sink.ReadFrom(buf); e == nil {
				calls = append(calls, "t/W"+hexOr(buf[:k]))
			}
			obs = append(obs, obsStr(calls, n, data, err))
		}
		ops = append(ops, o)
	}
	fmt.Fprintf(out, "UD real %s | %s | %s | %s\n", joinStr(ops), joinStr(rxs), joinStr(txs), strings.Join(obs, " "))
}

// ---------------------------------------------------------------- dialCtx

var nilCloses int32
var nilClosed = make(chan struct{}, 64)

type dconn struct {
	closes int32
	closed chan struct{}
}

func (c *dconn) Close() error {
	if c == nil {
		atomic.AddInt32(&nilCloses, 1)
		nilClosed <- struct{}{}
		return nil
	}
	atomic.AddInt32(&c.closes, 1)
	c.closed <- struct{}{}
	return nil
}
func (c *dconn) Read([]byte) (int, error)         { return 0, io.EOF }
func (c *dconn) Write(b []byte) (int, error)      { return len(b), nil }
func (c *dconn) LocalAddr() net.Addr              { return nil }
func (c *dconn) RemoteAddr() net.Addr             { return nil }
func (c *dconn) SetDeadline(time.Time) error      { return nil }
func (c *dconn) SetReadDeadline(time.Time) error  { return nil }
func (c *dconn) SetWriteDeadline(time.Time) error { return nil }

func emitDial(scen int, ctxKind byte, connKind int, hasErr bool) {
	var perr error
	if hasErr {
		perr = inj(5)
	}
	var c *dconn
	if connKind == 1 {
		c = &dconn{closed: make(chan struct{}, 8)}
	}
	nil0 := atomic.LoadInt32(&nilCloses)
	release := make(chan struct{})
	entered := make(chan struct{})
	provider := func() (net.Conn, error) {
		close(entered)
		<-release
		if connKind == 0 {
			return nil, perr
		}
		return c, perr // connKind 2: a nil *dconn in a non-nil interface
	}
	var ctx context.Context
	var cancel context.CancelFunc
	done := scen == 2 || scen == 3
	switch {
	case ctxKind == 'd' && done:
		ctx, cancel = context.WithDeadline(context.Background(), time.Now().Add(-time.Second))
	case ctxKind == 'd':
		ctx, cancel = context.WithDeadline(context.Background(), time.Now().Add(time.Hour))
	default:
		ctx, cancel = context.WithCancel(context.Background())
		if done {
			cancel()
		}
	}
	defer cancel()
	if scen == 1 || scen == 3 {
		close(release)
	}
	var ret net.Conn
	var err error
	if scen == 4 {
		res := make(chan struct{})
		go func() {
			ret, err = socketcan.VerifDialCtx(ctx, provider)
			close(res)
		}()
		<-entered
		cancel()
		<-res
	} else {
		ret, err = socketcan.VerifDialCtx(ctx, provider)
	}
	if scen == 2 || scen == 4 {
		close(release)
	}
	// let everything settle: a Close that has to happen is awaited (bounded), then a short grace
	// period for a Close that must not happen
	if connKind != 0 && ret == nil {
		ch := nilClosed
		if c != nil {
			ch = c.closed
		}
		select {
		case <-ch:
		case <-time.After(40 * time.Millisecond):
		}
	}
	time.Sleep(300 * time.Microsecond)
	closes := atomic.LoadInt32(&nilCloses) - nil0
	if c != nil {
		closes = atomic.LoadInt32(&c.closes)
	}
	rc := "0"
	if ret != nil {
		rc = "x"
		if connKind != 0 && ret == net.Conn(c) {
			rc = "1"
		}
	}
	re := "?"
	switch {
	case err == nil:
		re = "-"
	case err == perr:
		re = "p"
	case err == context.Canceled:
		re = "c"
	case err == context.DeadlineExceeded:
		re = "d"
	}
	fmt.Fprintf(out, "DC %d %c %d %s | %s %s %x\n", scen, ctxKind, connKind, b01(hasErr), rc, re, closes)
}

// ---------------------------------------------------------------- entry points

func glueFileConn(rng *rand.Rand, n int, kinds string) {
	for i := 0; i < n; i++ {
		emitFileConnHistory(rng, kinds, 1+rng.Intn(10))
	}
}

func c07glue(rng *rand.Rand, thorough bool) {
	scale := 1
	if thorough {
		scale = 10
	}
	// every operation kind alone with a fault, then histories (Close twice, operations after Close
	// are ordinary histories: the file keeps answering from its script)
	for _, k := range "RWDEFC" {
		glueFileConn(rng, 150*scale, string(k))
	}
	glueFileConn(rng, 4000*scale, "RRWWDEFC")
	glueFileConn(rng, 500*scale, "RC")
	var err error
	if glueUDP, err = net.ListenUDP("udp4", &net.UDPAddr{IP: net.IPv4(127, 0, 0, 1)}); err != nil {
		fmt.Fprintln(os.Stderr, "glue: no UDP socket, udpTxRx histories skipped:", err)
	} else {
		for i := 0; i < 4000*scale; i++ {
			emitUDPFakeHistory(rng, 1+rng.Intn(8))
		}
		glueUDP.Close()
		if rig, err := newUDPRig(); err != nil {
			fmt.Fprintln(os.Stderr, "glue: no loopback UDP rig, real udpTxRx histories skipped:", err)
		} else {
			for i := 0; i < 150*scale; i++ {
				emitUDPRealHistory(rng, rig, 1+rng.Intn(8))
			}
			rig.conn.Close()
			rig.sink.Close()
			rig.feeder.Close()
		}
	}
	for rep := 0; rep < 4*scale; rep++ {
		for scen := 1; scen <= 4; scen++ {
			for _, ck := range "cd" {
				if scen == 4 && ck == 'd' {
					continue
				}
				for connKind := 0; connKind <= 2; connKind++ {
					for _, he := range []bool{false, true} {
						emitDial(scen, byte(ck), connKind, he)
					}
				}
			}
		}
	}
}

// transmit side only (C06): the 16 bytes handed to Write reach the file unchanged
func c06glue(rng *rand.Rand, thorough bool) {
	n := 1500
	if thorough {
		n = 15000
	}
	glueFileConn(rng, n, "WWWF")
}
