// Correspondence harness for property C05 (internal/generate/compile.go).
//
// usage: verif_compile <seed> <class-files> <wild-files>
//
//	verif_compile text <file.dbc>...          (replay: compile the given files)
//
// First the classification of the non-ASCII runes as the scanner sees them (UNI L|D <lo> <hi>, from
// unicode.IsLetter / unicode.IsDigit: the oracle of the parser model, which the driver runs on every
// TEXT so that the source text - not the definitions the tree's parser produced - is the reference).
//
// Generates DBC files of the compile class (DESIGN.md 4.2) from a seeded PRNG, renders each in
// the original order and in permuted orders (messages among themselves, signals inside a
// message, resolved metadata lines among themselves: ALL permutations for <= 4 items, 24 random
// ones above, plus 8 combined shuffles), calls the tree's generate.Compile on every text and
// prints, per text, one block:
//
//	CASE <file> <variant> <class|wild> <what was permuted>
//	TEXT s:<hex of the DBC text>
//	DEF ... / SIG ...          the parser's definitions (harness/dbccommon/dump.go)
//	DB s:<source> s:<version> <#nodes> <#messages>
//	NODE s:<name> s:<description>
//	MSG s:<name> <id> <ext> <len> <sendtype> s:<description> s:<sender> <cycle ns> <delay ns> <#signals>
//	SGN s:<name> <start> <len> <be> <signed> <float> <mux> <muxed> <muxvalue> <offset> <scale> <min> <max>
//	    s:<unit> s:<description> <default> <#recv> s:<recv>... <#vd> {<value> s:<text>}...
//	WARN <kind> <line>:<col>:<off>
//	END
//
// numbers in hex (int64/int/durations as the hex of the uint64 reinterpretation), floats as bit
// patterns. "wild" files leave the class on purpose (duplicates, truncating sizes, non-integral
// VAL_ values ...): for them only model = implementation is compared.
// The generator does not use the code under test.
//
// Numeric paths exercised on purpose (the values must arrive in the database exactly as written):
// INT / HEX attribute values beyond 2^24, 2^32, 2^53 and up to the int64 limits (start values,
// attribute ranges and defaults, generic INT / HEX attributes; cycle and delay times up to the
// largest millisecond count whose nanoseconds fit an int64; decimal integers are read exactly since
// the fix F12, the ".0" and exponent spellings - only used up to 2^53 - still travel through float64), factors / offsets / minima /
// maxima with up to 25 significant digits and exponents (pool + random literals), message ids at the
// limits of the standard and extended ranges, signals at the limits of start / size / multiplexer
// value.  Signal names are reused across messages and the signal-level metadata lines of one name
// are, in half of the files, made consecutive (both orders), so that a lookup that remembers a
// signal by name only is exposed.
package main

import (
	"bufio"
	"encoding/hex"
	"fmt"
	"math"
	"math/rand"
	"os"
	"strconv"
	"strings"
	"unicode"

	"go.einride.tech/can/internal/generate"
	"go.einride.tech/can/pkg/dbc"
	"go.einride.tech/can/pkg/descriptor"
)

// ---------------------------------------------------------------------------- file structure

type sigT struct {
	name   string
	mux    string // "", "M", "m<k>"
	muxVal uint64
	start  int
	size   int
	be     bool
	signed bool
	factor string
	offset string
	min    string
	max    string
	unit   string
	recv   []string
}

type msgT struct {
	id   uint32 // raw DBC id (bit 31 = extended)
	name string
	size int
	tx   string
	sigs []sigT
}

type lineT struct {
	text     string
	resolved bool   // a metadata line addMetadata consumes (may be permuted)
	grp      string // signal-level metadata: the signal name it is about ("" otherwise)
}

type fileT struct {
	head []string // VERSION, NS_, BS_, BU_ ...
	msgs []msgT
	tail []lineT
}

func (s *sigT) render() string {
	mux := ""
	if s.mux != "" {
		mux = " " + s.mux
	}
	bo := "1"
	if s.be {
		bo = "0"
	}
	sign := "+"
	if s.signed {
		sign = "-"
	}
	return fmt.Sprintf(" SG_ %s%s : %d|%d@%s%s (%s,%s) [%s|%s] \"%s\" %s", s.name, mux, s.start, s.size, bo, sign,
		s.factor, s.offset, s.min, s.max, s.unit, strings.Join(s.recv, ","))
}

func (f *fileT) render(msgOrder []int, sigOrder [][]int, metaOrder []int) string {
	var b strings.Builder
	for _, h := range f.head {
		b.WriteString(h)
		b.WriteString("\n")
	}
	b.WriteString("\n")
	for _, mi := range msgOrder {
		m := &f.msgs[mi]
		fmt.Fprintf(&b, "BO_ %d %s: %d %s\n", m.id, m.name, m.size, m.tx)
		for _, si := range sigOrder[mi] {
			b.WriteString(m.sigs[si].render())
			b.WriteString("\n")
		}
		b.WriteString("\n")
	}
	// resolved lines are permuted among their own slots; everything else stays in place
	var slots []int
	for i, l := range f.tail {
		if l.resolved {
			slots = append(slots, i)
		}
	}
	out := make([]string, len(f.tail))
	for i, l := range f.tail {
		out[i] = l.text
	}
	for k, slot := range slots {
		out[slot] = f.tail[slots[metaOrder[k]]].text
	}
	for _, l := range out {
		b.WriteString(l)
		b.WriteString("\n")
	}
	return b.String()
}

// ---------------------------------------------------------------------------- generator

var identPool = []string{"A", "B", "Cc", "DRIVER", "MOTOR", "SENSOR", "IO", "DBG", "Node_1", "n2", "Zeta", "abc", "ABC", "Ab", "aB", "ECU1", "ECU10", "ECU2", "_x", "Gateway"}
var floatPool = []string{"1", "0", "0.5", "0.001", "-5", "100", "1e3", "2.5E-2", "65535", "-0", "0.1", "3.4E+38", "-1.5", "1.0", "12345.678"}

// many significant digits, rounding boundaries, the ends of the exponent range (the correctly rounded
// conversion of these is expensive in the model: used for about one number in seven)
var floatPoolRich = []string{"0.30000000000000004", "1.7976931348623157e308", "-1.7976931348623157E+308", "4.9406564584124654e-324", "5e-324", "2.2250738585072014E-308",
	"2.2250738585072011e-308", "0.1234567890123456789012345", "123456789012345678901234567890", "9007199254740993", "9007199254740992.5",
	"16777217", "4294967297", "1e-7", "6.02214076e23", "3.141592653589793238462643383279", "0.000001", "1E+2", "8.98846567431158e307",
	"0.333333333333333314829616256247", "1.00000000000000011102230246251565404236316680908203125", "4503599627370496.5", "-4503599627370497.5",
	"0.1e1", "1.0e+0", "299792.458E3", "1e22", "1e23", "8.41e21", "2.4703282292062328e-324", "1.5e-323"}
var unitPool = []string{"", "km/h", "V", "mNm", "%", "deg C", "m/s^2", "\\\"q\\\"", "°", "Ω·m", "°C", "µs", "m²", "‰", "–", "温度", "😀/s", "kΩ"}
var textPool = []string{"", "Sync message", "The driver controller", "x", "comment with \\\"quotes\\\"", "multi word comment 123", "ünï", "a;b", "BO_ 1 X: 0 Y",
	"Öl-Temperatur in °C", "größer – kleiner", "速度 (km/h)", "état: arrêté", "😀 ok", "naïve café ½", "Ω\\\"Ω\\\""}
var sendTypePool = []string{"Cyclic", "cyclic", "CYCLIC", "CyclicIfActive", "cyclicifactive", "Periodic", "PERIODIC", "FixedPeriodic", "fixedperiodic",
	"EnabledPeriodic", "EVENTPERIODIC", "EventPeriodic", "Event", "EVENT", "event", "OnEvent", "onevent", "ONEVENT", "None", "NoMsgSendType", "IfActive", "", "Cyclic ", "spontaneous", "cyclicX", "[Cyclic]", "cyclic`", "CYCLIC@"}
var enumDecl = []string{"None", "Cyclic", "OnEvent", "cyclicIfActive", "PERIODIC", "FixedPeriodic", "enabledperiodic", "EventPeriodic", "Event", "IfActive", "NoMsgSendType"}

type gen struct {
	r    *rand.Rand
	wild bool
}

func (g *gen) pick(xs []string) string { return xs[g.r.Intn(len(xs))] }

func (g *gen) digits(n int) string {
	b := make([]byte, n)
	for i := range b {
		b[i] = byte('0' + g.r.Intn(10))
	}
	return string(b)
}

// a float literal: from the pool, or random with up to 25 significant digits, optional fraction and
// exponent (always finite: the integer part has at most 25 digits and |exponent| <= 40)
func (g *gen) float() string {
	r := g.r
	switch k := r.Intn(20); {
	case k < 12:
		return g.pick(floatPool)
	case k < 15:
		return g.pick(floatPoolRich)
	}
	var b strings.Builder
	if r.Intn(3) == 0 {
		b.WriteString("-")
	}
	ni := 1 + r.Intn(25)
	ip := g.digits(ni)
	if ip[0] == '0' && ni > 1 { // no leading zeros (text/scanner reads them as octal)
		ip = "1" + ip[1:]
	}
	if r.Intn(4) == 0 {
		ip = "0"
	}
	b.WriteString(ip)
	if r.Intn(2) == 0 {
		b.WriteString(".")
		nf := 25 - len(ip)
		if nf < 1 {
			nf = 1
		}
		b.WriteString(g.digits(1 + r.Intn(nf)))
	}
	if r.Intn(2) == 0 {
		b.WriteString([]string{"e", "E"}[r.Intn(2)])
		b.WriteString([]string{"", "+", "-"}[r.Intn(3)])
		b.WriteString(strconv.Itoa(r.Intn(41)))
	}
	return b.String()
}

// an integer whose magnitude exercises the precision of whatever the parser routes INT values
// through: beyond 2^24 (float32), beyond 2^32, beyond 2^53 (float64; lim = math.MaxInt64 since the
// fix F12), up to lim, low bits set
func (g *gen) bigInt(lim int64) int64 {
	r := g.r
	var v int64
	switch r.Intn(8) {
	case 0:
		v = 1<<24 + 1 + int64(r.Intn(1<<20))
	case 1:
		v = 1<<32 + 1 + int64(r.Intn(1<<30))
	case 2:
		v = lim - int64(r.Intn(4))
	case 3:
		v = []int64{16777217, 33554435, 20000001, 2147483649, 4294967295, 4294967297, 1099511627777, 123456789, 987654321987}[r.Intn(9)]
	case 4: // around 2^53 and beyond it: not representable in float64
		v = []int64{1<<53 - 1, 1<<53 + 1, 1<<53 + 3, 1<<54 + 1, 36028797018963969, 1<<62 + 1, math.MaxInt64 - 2, math.MaxInt64}[r.Intn(8)]
	case 5:
		v = 1<<53 + 1 + 2*r.Int63n(1<<61)
	default:
		v = 1<<24 + r.Int63n(lim-1<<24)
	}
	v |= 1
	if v > lim {
		v = lim
	}
	return v
}

// spellings of an integer that Parser.int() accepts: digits (exact for every int64), digits ".0" and
// exponent form (these go through float64: only when that is exact, |v| <= 2^53)
func (g *gen) intText(v int64) string {
	switch g.r.Intn(6) {
	case 0:
		if v >= -(1<<53) && v <= 1<<53 {
			return strconv.FormatInt(v, 10) + ".0"
		}
	case 1:
		if v >= -(1<<53) && v <= 1<<53 {
			return strconv.FormatFloat(float64(v), 'e', -1, 64)
		}
	case 2:
		if v >= -(1<<53) && v <= 1<<53 {
			return strings.Replace(strconv.FormatFloat(float64(v), 'E', -1, 64), "E+", "E", 1)
		}
	}
	return strconv.FormatInt(v, 10)
}

func (g *gen) names(n int, prefix string) []string {
	seen := map[string]bool{}
	var out []string
	for len(out) < n {
		var s string
		if g.r.Intn(3) == 0 {
			s = g.pick(identPool)
		} else {
			s = fmt.Sprintf("%s%d", prefix, g.r.Intn(1000))
		}
		if seen[s] {
			continue
		}
		seen[s] = true
		out = append(out, s)
	}
	return out
}

func max0(x int) int {
	if x < 0 {
		return 0
	}
	return x
}

// big-endian start bit for stream position p (sawtooth numbering)
func beStart(p int) int { return 8*(p/8) + 7 - p%8 }

func (g *gen) signals(msize int, nodes []string, n int, earlier []string) []sigT {
	bits := 8 * msize
	if bits == 0 {
		return nil
	}
	names := g.names(n, "Sig")
	// reuse signal names of earlier messages (names only have to be unique inside a message)
	if len(earlier) > 0 && g.r.Intn(2) == 0 {
		seen := map[string]bool{}
		for _, nm := range names {
			seen[nm] = true
		}
		for i := range names {
			if g.r.Intn(2) == 0 {
				nm := earlier[g.r.Intn(len(earlier))]
				if !seen[nm] {
					seen[nm] = true
					names[i] = nm
				}
			}
		}
	}
	used := map[[2]uint64]bool{}
	var out []sigT
	hasMux := false
	muxed := g.r.Intn(2) == 0
	muxVals := []uint64{0, 1, 2, 3, 7, 15, 255, 256, 65535, 4294967296, 1<<63 - 1}
	for i := 0; i < n; i++ {
		s := sigT{name: names[i]}
		for try := 0; try < 50; try++ {
			s.be = g.r.Intn(3) == 0
			switch g.r.Intn(6) {
			case 0:
				s.size = 1
			case 1:
				s.size = 32
			case 2:
				s.size = 8
			default:
				s.size = 1 + g.r.Intn(64)
			}
			if s.size > bits {
				s.size = 1 + g.r.Intn(bits)
			}
			p := g.r.Intn(bits - s.size + 1)
			if g.r.Intn(2) == 0 {
				p = 8 * (p / 8) // byte aligned: more shared start bits
			}
			if g.r.Intn(8) == 0 {
				// the limits: the last bit alone, the whole payload, all but one bit at either end
				switch g.r.Intn(4) {
				case 0:
					s.size, p = 1, bits-1
				case 1:
					s.size, p = bits, 0
				case 2:
					s.size, p = bits-1, 1
				case 3:
					s.size, p = bits-1, 0
				}
				if s.size == 0 {
					s.size, p = 1, 0
				}
			}
			if s.be {
				if p+s.size > bits {
					continue
				}
				s.start = beStart(p)
			} else {
				s.start = p
			}
			s.mux, s.muxVal = "", 0
			if muxed {
				if !hasMux && g.r.Intn(3) == 0 {
					s.mux = "M"
				} else if g.r.Intn(3) != 0 {
					s.muxVal = muxVals[g.r.Intn(len(muxVals))]
					if g.r.Intn(2) == 0 {
						s.muxVal = uint64(g.r.Intn(4))
					}
					s.mux = "m" + strconv.FormatUint(s.muxVal, 10)
				}
			}
			k := [2]uint64{uint64(s.start), s.muxVal}
			if used[k] {
				continue
			}
			used[k] = true
			if s.mux == "M" {
				hasMux = true
			}
			s.signed = g.r.Intn(3) == 0
			s.factor, s.offset, s.min, s.max = g.float(), g.float(), g.float(), g.float()
			s.unit = g.pick(unitPool)
			nr := 1 + g.r.Intn(3)
			for j := 0; j < nr; j++ {
				if g.r.Intn(5) == 0 {
					s.recv = append(s.recv, "Vector__XXX")
				} else {
					s.recv = append(s.recv, nodes[g.r.Intn(len(nodes))])
				}
			}
			out = append(out, s)
			break
		}
	}
	return out
}

var valForms = []func(int64) string{
	func(v int64) string { return strconv.FormatInt(v, 10) },
	func(v int64) string { return strconv.FormatInt(v, 10) + ".0" },
	func(v int64) string { return strconv.FormatFloat(float64(v), 'e', -1, 64) },
}

// lim: values at the limits of the raw range of the signal (exactly representable as float64)
func (g *gen) valLine(target string, wild bool, lim []int64) string {
	n := g.r.Intn(6)
	seen := map[int64]bool{}
	var b strings.Builder
	b.WriteString("VAL_ " + target)
	for i := 0; i < n; i++ {
		var v int64
		switch g.r.Intn(5) {
		case 0:
			v = int64(g.r.Intn(4))
		case 1:
			v = -int64(g.r.Intn(6))
		case 2:
			v = []int64{255, 256, 65535, 4294967295, 4294967296, 1 << 52, -(1 << 53), 1<<53 - 1}[g.r.Intn(8)]
		case 3:
			if len(lim) > 0 {
				v = lim[g.r.Intn(len(lim))]
			} else {
				v = int64(g.r.Intn(40))
			}
		default:
			v = int64(g.r.Intn(40))
		}
		if seen[v] && !(wild && g.r.Intn(3) == 0) {
			continue
		}
		seen[v] = true
		txt := valForms[g.r.Intn(len(valForms))](v)
		if wild && g.r.Intn(3) == 0 {
			txt = []string{"1.5", "-0.5", "0.999", "1e30", "-1e300", "9223372036854775808", "-9223372036854775809", "1e-320", "2.5", "-2.5", "9223372036854775807"}[g.r.Intn(11)]
		}
		fmt.Fprintf(&b, " %s \"%s\"", txt, g.pick(textPool))
	}
	b.WriteString(" ;")
	return b.String()
}

func (g *gen) file() *fileT {
	r := g.r
	f := &fileT{}
	wild := g.wild
	// ---- head
	if r.Intn(8) != 0 {
		f.head = append(f.head, fmt.Sprintf("VERSION \"%s\"", g.pick([]string{"", "1.0", "v2 beta", "ünï"})))
	}
	if r.Intn(2) == 0 {
		f.head = append(f.head, "", "NS_ :", "\tCM_", "\tBA_DEF_", "\tVAL_")
	}
	f.head = append(f.head, "", "BS_:", "")
	nn := 1 + r.Intn(6)
	if r.Intn(10) == 0 {
		nn = 13 + r.Intn(8) // beyond the insertion-sort range of pdqsort
	}
	nodes := g.names(nn, "N")
	if wild && r.Intn(3) == 0 && len(nodes) < 12 {
		nodes = append(nodes, nodes[0]) // duplicate node name
	}
	if r.Intn(6) == 0 && len(nodes) > 2 {
		// two BU_ lines
		k := 1 + r.Intn(len(nodes)-1)
		f.head = append(f.head, "BU_: "+strings.Join(nodes[:k], " "), "BU_: "+strings.Join(nodes[k:], " "))
	} else {
		f.head = append(f.head, "BU_: "+strings.Join(nodes, " "))
	}
	if r.Intn(3) == 0 {
		f.head = append(f.head, "VAL_TABLE_ Table1 1 \"one\" 0 \"zero\" ;")
	}
	// ---- messages
	nm := r.Intn(7)
	if r.Intn(12) == 0 {
		nm = 13 + r.Intn(10)
	}
	if wild && nm > 11 {
		nm = 11
	}
	mnames := g.names(nm, "Msg")
	ids := map[uint32]bool{}
	var earlierSigs []string
	for i := 0; i < nm; i++ {
		m := msgT{name: mnames[i]}
		for {
			if r.Intn(3) == 0 {
				m.id = 0x80000000 | uint32(r.Intn(0x20000000))
				if r.Intn(3) == 0 {
					m.id = 0x80000000 | uint32(r.Intn(0x800))
				}
			} else {
				m.id = uint32(r.Intn(0x800))
			}
			if r.Intn(8) == 0 {
				// the limits of the standard and extended ranges
				m.id = []uint32{0, 1, 0x7fe, 0x7ff, 0x80000000, 0x80000001, 0x800007ff, 0x80000800, 0x9ffffffe, 0x9fffffff}[r.Intn(10)]
			}
			if !ids[m.id&0x7fffffff] {
				break
			}
		}
		ids[m.id&0x7fffffff] = true
		m.size = []int{0, 1, 2, 3, 4, 6, 8, 8, 8, 8}[r.Intn(10)]
		if r.Intn(6) == 0 {
			m.tx = "Vector__XXX"
		} else {
			m.tx = nodes[r.Intn(len(nodes))]
		}
		ns := r.Intn(13)
		if r.Intn(3) == 0 {
			ns = r.Intn(5)
		}
		m.sigs = g.signals(m.size, nodes, ns, earlierSigs)
		for _, sg := range m.sigs {
			earlierSigs = append(earlierSigs, sg.name)
		}
		if wild {
			switch r.Intn(6) {
			case 0:
				m.size = 256 + r.Intn(300) // uint8(def.Size) truncates
			case 1:
				if len(m.sigs) > 0 {
					m.sigs[0].size = 256 + r.Intn(100)
				}
			case 2:
				if len(m.sigs) > 0 {
					m.sigs[0].start = 250 + r.Intn(300)
				}
			case 3:
				if len(m.sigs) > 1 {
					m.sigs[1].name = m.sigs[0].name // duplicate signal name
				}
			case 4:
				if len(m.sigs) > 1 {
					m.sigs[1].start, m.sigs[1].muxVal, m.sigs[1].mux = m.sigs[0].start, m.sigs[0].muxVal, m.sigs[0].mux
					if m.sigs[1].mux == "M" {
						m.sigs[1].mux = ""
					}
				}
			}
		}
		f.msgs = append(f.msgs, m)
	}
	if wild && nm >= 2 && r.Intn(2) == 0 {
		// same CAN id once standard once extended
		f.msgs[1].id = (f.msgs[0].id & 0x7fffffff) | (^f.msgs[0].id & 0x80000000)
		if f.msgs[1].id&0x80000000 == 0 && f.msgs[1].id > 0x7ff {
			f.msgs[1].id = f.msgs[0].id
		}
	}
	if r.Intn(3) == 0 {
		// the pseudo message, with (possibly duplicate) signals that must not be compiled
		m := msgT{id: 0xC0000000, name: "VECTOR__INDEPENDENT_SIG_MSG", size: 0, tx: "Vector__XXX"}
		for i := 0; i < r.Intn(3); i++ {
			m.sigs = append(m.sigs, sigT{name: "Indep", start: 0, size: 8, factor: "1", offset: "0", min: "0", max: "0", recv: []string{"Vector__XXX"}})
		}
		pos := r.Intn(len(f.msgs) + 1)
		f.msgs = append(f.msgs[:pos], append([]msgT{m}, f.msgs[pos:]...)...)
	}
	// ---- fixed middle part
	fixed := func(s string) { f.tail = append(f.tail, lineT{s, false, ""}) }
	meta := func(s string) { f.tail = append(f.tail, lineT{s, true, ""}) }
	metaSig := func(name, s string) { f.tail = append(f.tail, lineT{s, true, name}) }
	// a time in ms whose nanosecond value still fits time.Duration (|v| * 10^6 < 2^63)
	const maxMs = 9223372036854
	msText := func() string {
		v := g.bigInt(maxMs)
		if r.Intn(6) == 0 {
			v = -v
		}
		return g.intText(v)
	}
	if len(f.msgs) > 0 && r.Intn(3) == 0 {
		fixed(fmt.Sprintf("BO_TX_BU_ %d : %s,%s;", f.msgs[0].id, nodes[0], nodes[len(nodes)-1]))
	}
	hasEnv := r.Intn(2) == 0
	if hasEnv {
		fixed("EV_ EnvVar1: 0 [0|1] \"\" 0 10 DUMMY_NODE_VECTOR0 Vector__XXX;")
	}
	if r.Intn(4) == 0 {
		fixed("FOO_ 1 2 3")
	}
	fixed("BA_DEF_ \"BusType\" STRING ;")
	fixed("BA_DEF_ BO_ \"GenMsgSendType\" ENUM \"" + strings.Join(enumDecl, "\",\"") + "\";")
	rng := func() string {
		switch r.Intn(4) {
		case 0:
			return "0 0"
		case 1:
			return "-10000 10000"
		case 2:
			return fmt.Sprintf("%s %s", g.intText(-g.bigInt(math.MaxInt64)), g.intText(g.bigInt(math.MaxInt64)))
		}
		return "0 " + g.intText(g.bigInt(math.MaxInt64))
	}
	fixed("BA_DEF_ BO_ \"GenMsgCycleTime\" INT " + rng() + ";")
	fixed("BA_DEF_ BO_ \"GenMsgDelayTime\" INT " + rng() + ";")
	fixed("BA_DEF_ SG_ \"GenSigStartValue\" INT " + rng() + ";")
	fixed("BA_DEF_ BO_ \"MsgHex\" HEX " + rng() + ";")
	fixed("BA_DEF_ SG_ \"SigHex\" HEX " + rng() + ";")
	fixed("BA_DEF_ SG_ \"FieldType\" STRING ;")
	fixed("BA_DEF_ BU_ \"NodeLayer\" INT 0 10;")
	fixed("BA_DEF_ BO_ \"Weight\" FLOAT 0 100;")
	fixed("BA_DEF_ EV_ \"EvAttr\" HEX 0 10;")
	fixed("BA_DEF_DEF_ \"BusType\" \"CAN\";")
	fixed("BA_DEF_DEF_ \"GenMsgSendType\" \"None\";")
	dflt := func() string {
		if r.Intn(2) == 0 {
			return "0"
		}
		return g.intText(g.bigInt(math.MaxInt64))
	}
	fixed("BA_DEF_DEF_ \"GenMsgCycleTime\" " + dflt() + ";")
	fixed("BA_DEF_DEF_ \"GenSigStartValue\" " + dflt() + ";")
	if r.Intn(2) == 0 {
		fixed("BA_DEF_DEF_ \"MsgHex\" " + dflt() + ";")
	}
	// ---- metadata
	type sigRef struct {
		id     uint32
		name   string
		len    int
		signed bool
	}
	// the largest float64 below 2^k as an integer (2^k - 1 when that is exact)
	below := func(k int) int64 {
		if k <= 53 {
			return 1<<uint(k) - 1
		}
		if k >= 64 {
			k = 63 // int64(float64) is only defined below 2^63: the class stops there
		}
		return 1<<uint(k) - 1<<uint(k-53)
	}
	rawLimits := func(s sigRef) []int64 {
		if s.signed {
			return []int64{-(1 << uint(s.len-1)), below(s.len - 1), -(1 << uint(s.len-1)) + 1<<uint(max0(s.len-54)), 0, -1}
		}
		return []int64{0, 1, below(s.len), below(s.len) - 1<<uint(max0(s.len-53))}
	}
	var sigRefs []sigRef
	var msgIDs []uint32
	for _, m := range f.msgs {
		if m.id == 0xC0000000 {
			continue
		}
		msgIDs = append(msgIDs, m.id)
		for _, s := range m.sigs {
			sigRefs = append(sigRefs, sigRef{m.id, s.name, s.size, s.signed})
		}
	}
	// how a metadata line spells the id of a message: as declared, or with the extended flag flipped
	// (resolution is by CAN id); only for ids that stay valid
	spell := func(id uint32) uint32 {
		if r.Intn(8) == 0 {
			if id&0x80000000 != 0 && id&0x7fffffff <= 0x7ff {
				return id & 0x7fffffff
			}
			if id&0x80000000 == 0 {
				return id | 0x80000000
			}
		}
		return id
	}
	unknownID := func() uint32 {
		for {
			id := uint32(r.Intn(0x800))
			if r.Intn(2) == 0 {
				id = 0x80000000 | uint32(r.Intn(0x20000000))
			}
			if !ids[id&0x7fffffff] {
				ids[id&0x7fffffff] = true // also keeps the undeclared targets pairwise distinct
				return id
			}
		}
	}
	dup := func() int {
		if wild && r.Intn(4) == 0 {
			return 2
		}
		return 1
	}
	// comments
	for _, n := range nodes {
		if r.Intn(3) == 0 {
			for k := dup(); k > 0; k-- {
				meta(fmt.Sprintf("CM_ BU_ %s \"%s\";", n, g.pick(textPool)))
			}
		}
	}
	for _, id := range msgIDs {
		if r.Intn(3) == 0 {
			for k := dup(); k > 0; k-- {
				meta(fmt.Sprintf("CM_ BO_ %d \"%s\";", spell(id), g.pick(textPool)))
			}
		}
		if r.Intn(2) == 0 {
			for k := dup(); k > 0; k-- {
				st := "\"" + g.pick(sendTypePool) + "\""
				if r.Intn(3) == 0 {
					st = strconv.Itoa(r.Intn(len(enumDecl)))
				}
				meta(fmt.Sprintf("BA_ \"GenMsgSendType\" BO_ %d %s;", spell(id), st))
			}
		}
		if r.Intn(2) == 0 {
			v := []string{"0", "1", "10", "100", "1000", "20", "-5", "60000", "3.0", "9223372036854", "-9223372036854", "2.5e2"}[r.Intn(12)]
			if r.Intn(2) == 0 {
				v = msText()
			}
			if wild && r.Intn(3) == 0 {
				v = []string{"9223372036855", "18446744073710", "1e19", "-1e19", "123456789012345678", "9007199254740993"}[r.Intn(6)]
			}
			meta(fmt.Sprintf("BA_ \"GenMsgCycleTime\" BO_ %d %s;", spell(id), v))
		}
		if r.Intn(4) == 0 {
			v := strconv.Itoa(r.Intn(500))
			if r.Intn(2) == 0 {
				v = msText()
			}
			meta(fmt.Sprintf("BA_ \"GenMsgDelayTime\" BO_ %d %s;", spell(id), v))
		}
		if r.Intn(6) == 0 {
			meta(fmt.Sprintf("BA_ \"MsgHex\" BO_ %d %s;", spell(id), g.intText(g.bigInt(math.MaxInt64))))
		}
		if r.Intn(6) == 0 {
			meta(fmt.Sprintf("BA_ \"Weight\" BO_ %d 2.5;", spell(id)))
		}
		if r.Intn(10) == 0 {
			meta(fmt.Sprintf("BA_ \"GenSigStartValue\" BO_ %d 3;", spell(id))) // signal attribute on a message: no effect
		}
	}
	valLines := map[string]int{}
	for _, s := range sigRefs {
		target := fmt.Sprintf("%d %s", spell(s.id), s.name)
		if r.Intn(4) == 0 {
			for k := dup(); k > 0; k-- {
				metaSig(s.name, fmt.Sprintf("CM_ SG_ %s \"%s\";", target, g.pick(textPool)))
			}
		}
		if r.Intn(4) == 0 || ((s.len == 1 || s.len >= 63) && r.Intn(2) == 0) {
			// at most two VAL_ lines (<= 10 entries) per (CAN id, signal name): with tied values the
			// insertion-sort model of sort.Slice is only exact up to 12 elements (Base/Sort.v)
			vk := fmt.Sprintf("%d %s", s.id&0x7fffffff, s.name)
			for k := dup(); k > 0 && valLines[vk] < 2; k-- {
				valLines[vk]++
				metaSig(s.name, g.valLine(target, wild, rawLimits(s)))
			}
		}
		if r.Intn(4) == 0 || (s.len == 32 && r.Intn(2) == 0) {
			colon := ""
			if r.Intn(2) == 0 {
				colon = " :"
			}
			for k := dup(); k > 0; k-- {
				vt := []int{0, 0, 1, 2}[r.Intn(4)]
				if s.len == 32 {
					vt = []int{0, 1, 1, 1, 2}[r.Intn(5)]
				}
				metaSig(s.name, fmt.Sprintf("SIG_VALTYPE_ %s%s %d;", target, colon, vt))
			}
		}
		if r.Intn(4) == 0 || (s.len > 24 && r.Intn(3) == 0) {
			v := []string{"0", "1", "2", "-3", "10000", "255", "7.0", "-9223372036854775808", "9223372036854775807", "9007199254740993",
				"-9007199254740993", "-9223372036854775807"}[r.Intn(12)]
			if s.len > 24 || r.Intn(3) == 0 {
				// start values of wide signals: beyond 2^24 / 2^32 / 2^53, up to the int64 limits, both signs
				x := g.bigInt(math.MaxInt64)
				if r.Intn(3) == 0 {
					x = -x
				}
				v = g.intText(x)
			}
			if wild && r.Intn(4) == 0 {
				v = []string{"9007199254740993", "-9007199254740995", "9223372036854775807", "1e19", "36028797018963969"}[r.Intn(5)]
			}
			metaSig(s.name, fmt.Sprintf("BA_ \"GenSigStartValue\" SG_ %s %s;", target, v))
		}
		if r.Intn(8) == 0 {
			metaSig(s.name, fmt.Sprintf("BA_ \"FieldType\" SG_ %s \"%s\";", target, []string{s.name, g.pick(textPool), g.pick(unitPool)}[r.Intn(3)]))
		}
		if r.Intn(8) == 0 {
			metaSig(s.name, fmt.Sprintf("BA_ \"SigHex\" SG_ %s %s;", target, g.intText(g.bigInt(math.MaxInt64))))
		}
	}
	// metadata that references nothing declared: must warn, must attach to nothing
	someSig := "Nope"
	if len(sigRefs) > 0 && r.Intn(2) == 0 {
		someSig = sigRefs[r.Intn(len(sigRefs))].name // a real signal name under a wrong message
	}
	nUndecl := r.Intn(4)
	for i := 0; i < nUndecl; i++ {
		uid := unknownID()
		switch r.Intn(9) {
		case 0:
			meta(fmt.Sprintf("CM_ BU_ Ghost%d \"%s\";", i, g.pick(textPool)))
		case 1:
			meta(fmt.Sprintf("CM_ BO_ %d \"%s\";", uid, g.pick(textPool)))
		case 2:
			metaSig(someSig, fmt.Sprintf("CM_ SG_ %d %s \"%s\";", uid, someSig, g.pick(textPool)))
		case 3:
			if len(msgIDs) > 0 {
				meta(fmt.Sprintf("CM_ SG_ %d Ghost%d \"%s\";", msgIDs[r.Intn(len(msgIDs))], i, g.pick(textPool)))
			}
		case 4:
			if len(msgIDs) > 0 {
				meta(g.valLine(fmt.Sprintf("%d Ghost%d", msgIDs[r.Intn(len(msgIDs))], i), wild, nil))
			} else {
				metaSig(someSig, g.valLine(fmt.Sprintf("%d %s", uid, someSig), wild, nil))
			}
		case 5:
			metaSig(someSig, fmt.Sprintf("SIG_VALTYPE_ %d %s : 1;", uid, someSig))
		case 6:
			meta(fmt.Sprintf("BA_ \"GenMsgCycleTime\" BO_ %d 100;", uid))
		case 7:
			metaSig(someSig, fmt.Sprintf("BA_ \"GenSigStartValue\" SG_ %d %s %s;", uid, someSig, g.intText(g.bigInt(math.MaxInt64))))
		case 8:
			if len(msgIDs) > 0 {
				meta(fmt.Sprintf("BA_ \"GenSigStartValue\" SG_ %d Ghost%d 1;", msgIDs[r.Intn(len(msgIDs))], i))
			}
		}
	}
	// metadata about the pseudo message: comments and value descriptions are skipped silently,
	// SIG_VALTYPE_ and BA_ are looked up (CAN id 0x40000000 is never declared) and warn
	if r.Intn(4) == 0 {
		switch r.Intn(5) {
		case 0:
			fixed("CM_ BO_ 3221225472 \"pseudo\";")
		case 1:
			fixed("CM_ SG_ 3221225472 Indep \"pseudo signal\";")
		case 2:
			fixed("VAL_ 3221225472 Indep 1 \"one\" ;")
		case 3:
			meta("SIG_VALTYPE_ 3221225472 Indep : 1;")
		case 4:
			meta("BA_ \"GenMsgCycleTime\" BO_ 3221225472 5;")
		}
	}
	// ignored forms at fixed places between the resolved lines
	var ign []string
	ign = append(ign, "CM_ \"global comment\";", "BA_ \"BusType\" \"CAN\";",
		fmt.Sprintf("BA_ \"NodeLayer\" BU_ %s 3;", nodes[0]), "BA_ \"NodeLayer\" BU_ GhostNode 3;", "FOO_ 1 2 3")
	if hasEnv {
		ign = append(ign, "CM_ EV_ EnvVar1 \"env comment\";", "VAL_ EnvVar1 1 \"on\" 0 \"off\" ;", "BA_ \"EvAttr\" EV_ EnvVar1 3;", "ENVVAR_DATA_ EnvVar1 : 4;")
	}
	// shuffle the resolved lines (the "original" order is already arbitrary), then interleave ignored ones
	var metas, fixeds []lineT
	for _, l := range f.tail {
		if l.resolved {
			metas = append(metas, l)
		} else {
			fixeds = append(fixeds, l)
		}
	}
	r.Shuffle(len(metas), func(i, j int) { metas[i], metas[j] = metas[j], metas[i] })
	// in half of the files the signal-level lines about one signal NAME (of whatever message) are made
	// consecutive, in the (random) order they have after the shuffle: lines for same-named signals of
	// different messages then directly follow each other, in both orders over the run
	adjacent := r.Intn(2) == 0
	if adjacent {
		var out []lineT
		done := map[string]bool{}
		for i, l := range metas {
			if l.grp == "" {
				out = append(out, l)
				continue
			}
			if done[l.grp] {
				continue
			}
			done[l.grp] = true
			for _, l2 := range metas[i:] {
				if l2.grp == l.grp {
					out = append(out, l2)
				}
			}
		}
		metas = out
	}
	f.tail = fixeds
	for i, l := range metas {
		if r.Intn(5) == 0 && !(adjacent && i > 0 && l.grp != "" && metas[i-1].grp == l.grp) {
			f.tail = append(f.tail, lineT{ign[r.Intn(len(ign))], false, ""})
		}
		f.tail = append(f.tail, l)
	}
	return f
}

// ---------------------------------------------------------------------------- permutations

func ident(n int) []int {
	p := make([]int, n)
	for i := range p {
		p[i] = i
	}
	return p
}

func allPerms(n int) [][]int {
	var out [][]int
	var rec func(cur []int, used []bool)
	rec = func(cur []int, used []bool) {
		if len(cur) == n {
			out = append(out, append([]int(nil), cur...))
			return
		}
		for i := 0; i < n; i++ {
			if !used[i] {
				used[i] = true
				rec(append(cur, i), used)
				used[i] = false
			}
		}
	}
	rec(nil, make([]bool, n))
	return out
}

// all non-identity permutations for n <= 4, else 24 random ones
func perms(r *rand.Rand, n int) [][]int {
	if n < 2 {
		return nil
	}
	if n <= 4 {
		return allPerms(n)[1:]
	}
	var out [][]int
	for i := 0; i < 24; i++ {
		out = append(out, r.Perm(n))
	}
	return out
}

// ---------------------------------------------------------------------------- dump

func hS(s string) string { return "s:" + hex.EncodeToString([]byte(s)) }
func b01(b bool) string {
	if b {
		return "1"
	}
	return "0"
}

func warnKind(reason string) string {
	switch {
	case reason == "no declared signal":
		return "nosignal"
	case reason == "no declared message":
		return "nomessage"
	case reason == "no declared node":
		return "nonode"
	case strings.HasPrefix(reason, "incorrect float signal length"):
		return "floatlength"
	case strings.HasPrefix(reason, "unsupported signal value type"):
		return "unsupportedtype"
	}
	return "other:" + hex.EncodeToString([]byte(reason))
}

func dumpDB(w *bufio.Writer, db *descriptor.Database) {
	fmt.Fprintf(w, "DB %s %s %x %x\n", hS(db.SourceFile), hS(db.Version), len(db.Nodes), len(db.Messages))
	for _, n := range db.Nodes {
		fmt.Fprintf(w, "NODE %s %s\n", hS(n.Name), hS(n.Description))
	}
	for _, m := range db.Messages {
		fmt.Fprintf(w, "MSG %s %x %s %x %x %s %s %x %x %x\n", hS(m.Name), m.ID, b01(m.IsExtended), m.Length, uint8(m.SendType),
			hS(m.Description), hS(m.SenderNode), uint64(m.CycleTime), uint64(m.DelayTime), len(m.Signals))
		for _, s := range m.Signals {
			fmt.Fprintf(w, "SGN %s %x %x %s %s %s %s %s %x %x %x %x %x %s %s %x", hS(s.Name), s.Start, s.Length, b01(s.IsBigEndian),
				b01(s.IsSigned), b01(s.IsFloat), b01(s.IsMultiplexer), b01(s.IsMultiplexed), uint64(s.MultiplexerValue),
				math.Float64bits(s.Offset), math.Float64bits(s.Scale), math.Float64bits(s.Min), math.Float64bits(s.Max),
				hS(s.Unit), hS(s.Description), uint64(int64(s.DefaultValue)))
			fmt.Fprintf(w, " %x", len(s.ReceiverNodes))
			for _, rn := range s.ReceiverNodes {
				fmt.Fprintf(w, " %s", hS(rn))
			}
			fmt.Fprintf(w, " %x", len(s.ValueDescriptions))
			for _, vd := range s.ValueDescriptions {
				fmt.Fprintf(w, " %x %s", uint64(vd.Value), hS(vd.Description))
			}
			fmt.Fprintln(w)
		}
	}
}

// ---------------------------------------------------------------------------- history
//
// A CompileResult is a value the caller keeps (cantool generate walks a directory and compiles file
// after file in one process).  The harness therefore keeps the results of the last histWindow Compile
// calls alive, together with the dump taken right after each call, and after EVERY later Compile call
// dumps the kept results again: database, warnings (kind, position and the full Error() text) must be
// unchanged.  At the end of every file the original order is compiled once more, after all the
// reorderings (and, through the window, after other files): the result must be identical to the first one.
//
//	HIST kept <file> <variant> <#kept results re-dumped> same
//	HIST kept <file> <variant> <#> changed <kept file> <kept variant> s:<dump before> s:<dump now> s:<kept text> s:<text compiled last>
//	HIST again <file> <variant> same | changed s:<first dump> s:<second dump> s:<text>
const histWindow = 4

type keptT struct {
	file, variant int
	text          string
	res           *generate.CompileResult
	dump          string
}

var kept []keptT

func histDump(res *generate.CompileResult) string {
	var sb strings.Builder
	bw := bufio.NewWriter(&sb)
	dumpDB(bw, res.Database)
	for _, wn := range res.Warnings {
		reason, def, ok := generate.VerifWarningInfo(wn)
		if ok {
			fmt.Fprintf(bw, "WARN %s %s ", warnKind(reason), dP(def.Position()))
		}
		fmt.Fprintf(bw, "WARNTEXT %s\n", wn.Error())
	}
	bw.Flush()
	return sb.String()
}

// after the Compile call of (file, variant): every kept result must still dump as it did
func histCheck(w *bufio.Writer, file, variant int, text string, res *generate.CompileResult) {
	first := histDump(res)
	bad := -1
	var now string
	for i := range kept {
		if d := histDump(kept[i].res); d != kept[i].dump {
			bad, now = i, d
			break
		}
	}
	if bad < 0 {
		fmt.Fprintf(w, "HIST kept %d %d %x same\n", file, variant, len(kept))
	} else {
		k := kept[bad]
		fmt.Fprintf(w, "HIST kept %d %d %x changed %d %d %s %s %s %s\n", file, variant, len(kept), k.file, k.variant,
			hS(k.dump), hS(now), hS(k.text), hS(text))
		kept[bad].dump = now // report each change once
	}
	kept = append(kept, keptT{file, variant, text, res, first})
	if len(kept) > histWindow {
		kept = kept[1:]
	}
}

// compile a text a second time, after other texts: identical result
func histAgain(w *bufio.Writer, file, variant int, source, text, firstDump string) {
	res, err := generate.Compile(source, []byte(text))
	if err != nil {
		fmt.Fprintf(w, "HIST again %d %d changed %s %s %s\n", file, variant, hS(firstDump), hS("error: "+err.Error()), hS(text))
		return
	}
	if d := histDump(res); d != firstDump {
		fmt.Fprintf(w, "HIST again %d %d changed %s %s %s\n", file, variant, hS(firstDump), hS(d), hS(text))
	} else {
		fmt.Fprintf(w, "HIST again %d %d same\n", file, variant)
	}
	histCheck(w, file, -1, text, res)
}

// dump of the result of the last runCase ("" when it did not compile)
var lastDump string

// failingCompilesBefore: every third case is preceded by compilations of CORRUPTED variants of the same text whose
// outcome is ignored - the text cut off inside a string literal (right after an opening quote and a few bytes
// further on), an ill-formed UTF-8 byte inside a string literal, the text cut off at an arbitrary offset. A compile
// result is a function of the text alone; a failure of an earlier call (in particular one raised in the middle of a
// string literal, where the parser holds a partly filled buffer) must not leak into it (seeded change C05-w10-m1:
// a pooled string buffer returned dirty on the panic path). Deterministic in (file, variant); prints nothing.
var faultyCompiles int

func failingCompilesBefore(file, variant int, source, text string) {
	if (file+variant)%3 != 0 || len(text) == 0 {
		return
	}
	var quotes []int
	for i := 0; i < len(text); i++ {
		if text[i] == '"' {
			quotes = append(quotes, i)
		}
	}
	try := func(t string) {
		defer func() { _ = recover() }()
		_, _ = generate.Compile(source, []byte(t))
		faultyCompiles++
	}
	if len(quotes) > 0 {
		q := quotes[(file*7+variant)%len(quotes)]
		try(text[:q+1])
		if q+4 <= len(text) {
			try(text[:q+4])
		}
		try(text[:q+1] + "left\xffover" + text[q+1:])
		try(text[:q+1] + "stale text that was never closed")
	}
	try(text[:(file*131+variant*17)%len(text)])
}

func runCase(w *bufio.Writer, file, variant int, kind, what, source, text string) {
	failingCompilesBefore(file, variant, source, text)
	lastDump = ""
	fmt.Fprintf(w, "CASE %d %d %s %s\n", file, variant, kind, what)
	fmt.Fprintf(w, "TEXT %s\n", hS(text))
	p := dbc.NewParser(source, []byte(text))
	if err := p.Parse(); err != nil {
		fmt.Fprintf(w, "PARSEERR %s\n", hS(err.Error()))
		fmt.Fprintln(w, "END")
		return
	}
	DumpDefs(w, p.Defs())
	res, err := generate.Compile(source, []byte(text))
	if err != nil {
		fmt.Fprintf(w, "COMPILEERR %s\n", hS(err.Error()))
		fmt.Fprintln(w, "END")
		return
	}
	dumpDB(w, res.Database)
	for _, wn := range res.Warnings {
		reason, def, ok := generate.VerifWarningInfo(wn)
		if !ok {
			fmt.Fprintf(w, "WARN other:%s 0:0:0\n", hex.EncodeToString([]byte(wn.Error())))
			continue
		}
		fmt.Fprintf(w, "WARN %s %s\n", warnKind(reason), dP(def.Position()))
	}
	fmt.Fprintln(w, "END")
	lastDump = histDump(res)
	histCheck(w, file, variant, text, res)
}

// the non-ASCII rune classes of the scanner (unicode.IsLetter / unicode.IsDigit), as maximal ranges
func emitUnicode(w *bufio.Writer) {
	emit := func(tag string, f func(rune) bool) {
		lo := rune(-1)
		for r := rune(128); r <= unicode.MaxRune+1; r++ {
			in := r <= unicode.MaxRune && f(r)
			if in && lo < 0 {
				lo = r
			}
			if !in && lo >= 0 {
				fmt.Fprintf(w, "UNI %s %x %x\n", tag, lo, r-1)
				lo = -1
			}
		}
	}
	emit("L", unicode.IsLetter)
	emit("D", unicode.IsDigit)
}

func main() {
	w := bufio.NewWriterSize(os.Stdout, 1<<20)
	defer w.Flush()
	emitUnicode(w)
	if len(os.Args) >= 2 && os.Args[1] == "text" {
		for i, fn := range os.Args[2:] {
			data, err := os.ReadFile(fn)
			if err != nil {
				panic(err)
			}
			runCase(w, i, 0, "class", "replay", "replay.dbc", string(data))
		}
		return
	}
	seed, _ := strconv.ParseInt(os.Args[1], 10, 64)
	nClass, _ := strconv.Atoi(os.Args[2])
	nWild := 0
	if len(os.Args) > 3 {
		nWild, _ = strconv.Atoi(os.Args[3])
	}
	r := rand.New(rand.NewSource(seed))
	type againT struct {
		file               int
		source, text, dump string
	}
	var prev *againT
	defer func() {
		if prev != nil {
			histAgain(w, prev.file, 0, prev.source, prev.text, prev.dump)
		}
	}()
	for fi := 0; fi < nClass+nWild; fi++ {
		kind := "class"
		if fi >= nClass {
			kind = "wild"
		}
		g := &gen{r: r, wild: kind == "wild"}
		f := g.file()
		source := fmt.Sprintf("gen/file%d.dbc", fi)
		nMeta := 0
		for _, l := range f.tail {
			if l.resolved {
				nMeta++
			}
		}
		idMsgs := ident(len(f.msgs))
		idSigs := make([][]int, len(f.msgs))
		for i := range f.msgs {
			idSigs[i] = ident(len(f.msgs[i].sigs))
		}
		idMeta := ident(nMeta)
		variant := 0
		emit := func(what string, mo []int, so [][]int, me []int) {
			runCase(w, fi, variant, kind, what, source, f.render(mo, so, me))
			variant++
		}
		emit("original", idMsgs, idSigs, idMeta)
		// the original order of the PREVIOUS file is compiled again now, after this file's original (and, for
		// class files, after all reorderings of its own): identical result required
		if prev != nil {
			histAgain(w, prev.file, 0, prev.source, prev.text, prev.dump)
			prev = nil
		}
		if lastDump != "" {
			prev = &againT{fi, source, f.render(idMsgs, idSigs, idMeta), lastDump}
		}
		if kind == "wild" {
			continue
		}
		for _, p := range perms(r, len(f.msgs)) {
			emit("messages", p, idSigs, idMeta)
		}
		// signal orders: every message with >= 2 signals, at most 3 messages per file
		cand := []int{}
		for i := range f.msgs {
			if len(f.msgs[i].sigs) >= 2 {
				cand = append(cand, i)
			}
		}
		r.Shuffle(len(cand), func(i, j int) { cand[i], cand[j] = cand[j], cand[i] })
		if len(cand) > 3 {
			cand = cand[:3]
		}
		for _, mi := range cand {
			for _, p := range perms(r, len(f.msgs[mi].sigs)) {
				so := append([][]int(nil), idSigs...)
				so[mi] = p
				emit("signals", idMsgs, so, idMeta)
			}
		}
		for _, p := range perms(r, nMeta) {
			emit("metadata", idMsgs, idSigs, p)
		}
		for i := 0; i < 8; i++ {
			so := make([][]int, len(f.msgs))
			for j := range so {
				so[j] = r.Perm(len(f.msgs[j].sigs))
			}
			emit("all", r.Perm(len(f.msgs)), so, r.Perm(nMeta))
		}
	}
}
