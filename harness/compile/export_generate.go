// Overlaid into /repo/internal/generate (see overlay.json): gives the harness access to the
// unexported compileError (reason + the definition the warning is about).
package generate

import "go.einride.tech/can/pkg/dbc"

// VerifWarningInfo returns the reason and the definition of a compile warning.
func VerifWarningInfo(err error) (reason string, def dbc.Def, ok bool) {
	ce, ok := err.(*compileError)
	if !ok {
		return "", nil, false
	}
	return ce.reason, ce.def, true
}
