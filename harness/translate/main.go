// verif_translate: regenerates Gallina definitions from the CURRENT Go source of a whitelist of
// functions of go.einride.tech/can. Compiled into /repo's working tree with `go build -overlay`
// as cmd/verif_translate (checks/translate_tie.py); the output `Translated.v` is proved equal to
// the hand-written Coq models by coq/translate/Equiv.v on every run.
//
//	usage: verif_translate <module root> <output dir> [-only name,name,...] [-list]
//
// The packages are loaded and TYPE-CHECKED with golang.org/x/tools/go/packages (go/parser +
// go/types); every decision about the static type of an expression, about constant values and
// about the type an untyped constant assumes (including the rule for untyped constant operands of
// non-constant shifts) is read off go/types' Info, never re-implemented here.
//
// SUPPORTED SUBSET (anything else: error with file:line, exit status 2, no output file):
//
//	types       uint8/16/32/64, int8/16/32/64, int, uint (64 bit), named integer types, bool,
//	            [N]byte arrays (can.Data), named structs whose USED fields have these types,
//	            pointers to such arrays/structs as parameters/receivers only, `error` results
//	functions   at most one result; a function without result must write through exactly one
//	            pointer parameter and is translated to a function returning that parameter's final
//	            value; a function with a result must not write through pointers; no recursion
//	statements  x := e, x = e, x op= e, x++, x--, `var x T`, `var x T = e` on locals;
//	            a[i] = e, a[i] op= e, s.f = e, s.f op= e (functional update of arrays / records);
//	            if / else if / else (with init statement), switch with or without tag (constant or
//	            non-constant cases, default anywhere, no fallthrough/break), return, nested blocks,
//	            calls of whitelisted result-less functions as statements
//	expressions constants (folded by go/types), locals, parameters, + - * / % (divisor: non-zero
//	            constant) << >> (count: unsigned type or constant) & | ^ &^, unary - ^ ! +,
//	            == != < <= > >= on integers, == != on bools, && ||, conversions between integer
//	            types, a[i], s.f, struct literals with keyed fields, calls of whitelisted
//	            functions/methods, fmt.Errorf(...) (= non-nil error), nil (error)
//
// Every integer operation is emitted at the static type go/types reports for that expression,
// against the operators of coq/theories/Translate/GoSem.v (see that file's header for the reading
// of Go's semantics and for what is trusted).
package main

import (
	"fmt"
	"go/ast"
	"go/constant"
	"go/token"
	"go/types"
	"os"
	"path/filepath"
	"runtime"
	"sort"
	"strings"

	"golang.org/x/tools/go/packages"
)

const modPath = "go.einride.tech/can"

// whitelist: package path (relative to the module), receiver type ("" for functions), name.
var whitelist = []struct{ pkg, recv, name string }{
	{"", "Data", "UnsignedBitsLittleEndian"},
	{"", "Data", "UnsignedBitsBigEndian"},
	{"", "Data", "SignedBitsLittleEndian"},
	{"", "Data", "SignedBitsBigEndian"},
	{"", "Data", "SetUnsignedBitsLittleEndian"},
	{"", "Data", "SetUnsignedBitsBigEndian"},
	{"", "Data", "SetSignedBitsLittleEndian"},
	{"", "Data", "SetSignedBitsBigEndian"},
	{"", "Data", "Bit"},
	{"", "Data", "SetBit"},
	{"", "Data", "PackLittleEndian"},
	{"", "Data", "PackBigEndian"},
	{"", "Data", "UnpackLittleEndian"},
	{"", "Data", "UnpackBigEndian"},
	{"", "", "invertEndian"},
	{"", "", "CheckBitRangeLittleEndian"},
	{"", "", "CheckBitRangeBigEndian"},
	{"", "", "CheckValue"},
	{"", "Frame", "Validate"},
	{"internal/reinterpret", "", "AsSigned"},
	{"internal/reinterpret", "", "AsUnsigned"},
	{"pkg/descriptor", "Signal", "MaxUnsigned"},
	{"pkg/descriptor", "Signal", "MinSigned"},
	{"pkg/descriptor", "Signal", "MaxSigned"},
	{"pkg/descriptor", "Signal", "SaturatedCastSigned"},
	{"pkg/descriptor", "Signal", "SaturatedCastUnsigned"},
	{"pkg/descriptor", "Signal", "UnmarshalUnsigned"},
	{"pkg/descriptor", "Signal", "UnmarshalSigned"},
	{"pkg/descriptor", "Signal", "UnmarshalBool"},
	{"pkg/descriptor", "Signal", "MarshalUnsigned"},
	{"pkg/descriptor", "Signal", "MarshalSigned"},
	{"pkg/descriptor", "Signal", "MarshalBool"},
	{"pkg/socketcan", "frame", "encodeFrame"},
	{"pkg/socketcan", "frame", "decodeFrame"},
	{"pkg/socketcan", "frame", "isExtended"},
	{"pkg/socketcan", "frame", "isRemote"},
	{"pkg/socketcan", "frame", "isError"},
	{"pkg/socketcan", "frame", "id"},
}

// ---------------------------------------------------------------------------- errors

type transErr struct{ msg string }

type translator struct {
	root    string
	fset    *token.FileSet
	pkgs    map[string]*packages.Package // by import path
	decls   map[string]*fnDecl           // by key
	fns     map[string]*fn               // analysed functions by key
	order   []*fn                        // callees first
	structs map[string]*structInfo       // by qualified type name
	sorder  []*structInfo
	names   map[string]string // Coq global name -> what owns it
	cur     *fn               // function being processed (for messages)
}

func (t *translator) failf(pos token.Pos, format string, a ...interface{}) {
	where := "?"
	if pos.IsValid() {
		p := t.fset.Position(pos)
		rel, err := filepath.Rel(t.root, p.Filename)
		if err != nil {
			rel = p.Filename
		}
		where = fmt.Sprintf("%s:%d:%d", rel, p.Line, p.Column)
	}
	in := ""
	if t.cur != nil {
		in = " (in " + t.cur.display + ")"
	}
	panic(transErr{fmt.Sprintf("%s: %s%s", where, fmt.Sprintf(format, a...), in)})
}

// ---------------------------------------------------------------------------- types of the subset

type kind int

const (
	kInt kind = iota
	kBool
	kArray
	kStruct
	kErr
)

type gtype struct {
	k      kind
	signed bool
	bits   int
	n      int64
	st     *structInfo
	ptr    bool
}

type structInfo struct {
	qual   string // "pkgpath.Name"
	coq    string // Coq record name
	named  *types.Named
	st     *types.Struct
	used   map[string]bool
	fields []*types.Var // used fields in declaration order (filled by finish)
}

func (t *translator) classify(pos token.Pos, typ types.Type) gtype {
	if p, ok := typ.(*types.Pointer); ok {
		g := t.classify(pos, p.Elem())
		if g.ptr || (g.k != kArray && g.k != kStruct) {
			t.failf(pos, "pointer type %s is outside the subset", typ)
		}
		g.ptr = true
		return g
	}
	if types.Identical(typ, types.Universe.Lookup("error").Type()) {
		return gtype{k: kErr}
	}
	switch u := typ.Underlying().(type) {
	case *types.Basic:
		switch u.Kind() {
		case types.Bool, types.UntypedBool:
			return gtype{k: kBool}
		case types.Uint8:
			return gtype{k: kInt, bits: 8}
		case types.Uint16:
			return gtype{k: kInt, bits: 16}
		case types.Uint32:
			return gtype{k: kInt, bits: 32}
		case types.Uint64, types.Uint:
			return gtype{k: kInt, bits: 64}
		case types.Int8:
			return gtype{k: kInt, bits: 8, signed: true}
		case types.Int16:
			return gtype{k: kInt, bits: 16, signed: true}
		case types.Int32:
			return gtype{k: kInt, bits: 32, signed: true}
		case types.Int64, types.Int:
			return gtype{k: kInt, bits: 64, signed: true}
		}
	case *types.Array:
		if b, ok := u.Elem().Underlying().(*types.Basic); ok && b.Kind() == types.Uint8 {
			return gtype{k: kArray, n: u.Len()}
		}
	case *types.Struct:
		if n, ok := typ.(*types.Named); ok {
			return gtype{k: kStruct, st: t.structOf(n, u)}
		}
	}
	t.failf(pos, "type %s is outside the subset", typ)
	panic("unreachable")
}

func (t *translator) structOf(n *types.Named, st *types.Struct) *structInfo {
	q := n.Obj().Pkg().Path() + "." + n.Obj().Name()
	if s, ok := t.structs[q]; ok {
		return s
	}
	s := &structInfo{qual: q, coq: n.Obj().Name(), named: n, st: st, used: map[string]bool{}}
	t.claim(s.coq, "struct "+q)
	t.structs[q] = s
	t.sorder = append(t.sorder, s)
	return s
}

func (t *translator) claim(name, owner string) {
	if o, ok := t.names[name]; ok && o != owner {
		t.failf(token.NoPos, "Coq name %s needed for %s is already used for %s", name, owner, o)
	}
	t.names[name] = owner
}

func (g gtype) coq() string {
	switch g.k {
	case kInt:
		return "Z"
	case kBool:
		return "bool"
	case kArray:
		return "data"
	case kStruct:
		return g.st.coq
	}
	return "err"
}

func (t *translator) zero(pos token.Pos, g gtype) string {
	switch g.k {
	case kInt:
		return "0"
	case kBool:
		return "false"
	case kArray:
		return fmt.Sprintf("(data_zero %d)", g.n)
	case kErr:
		return "err_nil"
	}
	// struct: only meaningful once the used-field set is complete (phase 2)
	var parts []string
	for _, f := range g.st.fields {
		parts = append(parts, fmt.Sprintf("%s_%s := %s", g.st.coq, f.Name(), t.zero(pos, t.classify(pos, f.Type()))))
	}
	return "{| " + strings.Join(parts, "; ") + " |}"
}

// ---------------------------------------------------------------------------- functions

type fnDecl struct {
	pkg  *packages.Package
	decl *ast.FuncDecl
	obj  *types.Func
}

type param struct {
	v    *types.Var
	g    gtype
	name string
}

type fn struct {
	key, coq, display string
	d                 *fnDecl
	params            []*param // receiver first
	res               *gtype   // nil: no result
	mut               *param   // pointer parameter written through, or nil
	state             int      // 1 = being analysed, 2 = analysed
	text              string
	pos               token.Position
}

func funcKey(f *types.Func) string {
	sig := f.Type().(*types.Signature)
	if r := sig.Recv(); r != nil {
		rt := r.Type()
		if p, ok := rt.(*types.Pointer); ok {
			rt = p.Elem()
		}
		if n, ok := rt.(*types.Named); ok {
			return f.Pkg().Path() + "." + n.Obj().Name() + "." + f.Name()
		}
		return f.Pkg().Path() + ".?." + f.Name()
	}
	return f.Pkg().Path() + "." + f.Name()
}

func (t *translator) index() {
	for _, p := range t.pkgs {
		for _, file := range p.Syntax {
			for _, d := range file.Decls {
				fd, ok := d.(*ast.FuncDecl)
				if !ok {
					continue
				}
				obj, ok := p.TypesInfo.Defs[fd.Name].(*types.Func)
				if !ok {
					continue
				}
				t.decls[funcKey(obj)] = &fnDecl{pkg: p, decl: fd, obj: obj}
			}
		}
	}
}

func wlKey(pkg, recv, name string) string {
	path := modPath
	if pkg != "" {
		path += "/" + pkg
	}
	if recv != "" {
		return path + "." + recv + "." + name
	}
	return path + "." + name
}

func wlCoq(recv, name string) string {
	if recv != "" {
		return recv + "_" + name
	}
	return name
}

var wlByKey = map[string]string{} // key -> Coq name

// callee resolves the function a call expression invokes (nil for conversions / builtins).
func calleeOf(info *types.Info, call *ast.CallExpr) *types.Func {
	fun := ast.Unparen(call.Fun)
	switch f := fun.(type) {
	case *ast.Ident:
		if o, ok := info.Uses[f].(*types.Func); ok {
			return o
		}
	case *ast.SelectorExpr:
		if sel, ok := info.Selections[f]; ok {
			if o, ok := sel.Obj().(*types.Func); ok {
				return o
			}
			return nil
		}
		if o, ok := info.Uses[f.Sel].(*types.Func); ok {
			return o
		}
	}
	return nil
}

func isErrorf(f *types.Func) bool {
	return f != nil && f.Pkg() != nil && f.Pkg().Path() == "fmt" && f.Name() == "Errorf"
}

// rootIdent strips parentheses, &, *, indexing and field selection.
func rootIdent(e ast.Expr) *ast.Ident {
	for {
		switch x := e.(type) {
		case *ast.ParenExpr:
			e = x.X
		case *ast.StarExpr:
			e = x.X
		case *ast.UnaryExpr:
			if x.Op != token.AND {
				return nil
			}
			e = x.X
		case *ast.IndexExpr:
			e = x.X
		case *ast.SelectorExpr:
			e = x.X
		case *ast.Ident:
			return x
		default:
			return nil
		}
	}
}

// analyse: phase 1 for one function (callees first): signature, callees, used struct fields,
// the pointer parameter written through.
func (t *translator) analyse(key string, from token.Pos) *fn {
	if f, ok := t.fns[key]; ok {
		if f.state == 1 {
			t.failf(from, "recursive call of %s is outside the subset", key)
		}
		return f
	}
	coq, ok := wlByKey[key]
	if !ok {
		t.failf(from, "call of %s, which is not a whitelisted function", key)
	}
	d, ok := t.decls[key]
	if !ok {
		t.failf(from, "whitelisted function %s does not exist in the source tree", key)
	}
	saved := t.cur
	defer func() { t.cur = saved }()
	f := &fn{key: key, coq: coq, d: d, state: 1, display: strings.TrimPrefix(strings.TrimPrefix(key, modPath), "/")}
	f.display = strings.TrimPrefix(f.display, ".")
	f.pos = t.fset.Position(d.decl.Pos())
	t.fns[key] = f
	t.cur = f
	t.claim(coq, "function "+key)
	if d.decl.Body == nil {
		t.failf(d.decl.Pos(), "function without body")
	}
	sig := d.obj.Type().(*types.Signature)
	if sig.Variadic() || sig.TypeParams() != nil || sig.RecvTypeParams() != nil {
		t.failf(d.decl.Pos(), "variadic or generic function")
	}
	add := func(v *types.Var) {
		if v.Name() == "" || v.Name() == "_" {
			t.failf(v.Pos(), "unnamed parameter")
		}
		f.params = append(f.params, &param{v: v, g: t.classify(v.Pos(), v.Type())})
	}
	if r := sig.Recv(); r != nil {
		add(r)
	}
	for i := 0; i < sig.Params().Len(); i++ {
		add(sig.Params().At(i))
	}
	for _, p := range f.params {
		if p.g.k == kErr {
			t.failf(p.v.Pos(), "parameter of type error")
		}
	}
	switch sig.Results().Len() {
	case 0:
	case 1:
		rv := sig.Results().At(0)
		if rv.Name() != "" {
			t.failf(rv.Pos(), "named result")
		}
		g := t.classify(d.decl.Type.Results.Pos(), rv.Type())
		if g.ptr {
			t.failf(d.decl.Type.Results.Pos(), "pointer result")
		}
		f.res = &g
	default:
		t.failf(d.decl.Type.Results.Pos(), "more than one result")
	}
	info := d.pkg.TypesInfo
	paramOf := func(id *ast.Ident) *param {
		if id == nil {
			return nil
		}
		o := info.Uses[id]
		for _, p := range f.params {
			if types.Object(p.v) == o {
				return p
			}
		}
		return nil
	}
	mutated := map[*param]token.Pos{}
	noteWrite := func(lhs ast.Expr) {
		if p := paramOf(rootIdent(lhs)); p != nil && p.g.ptr {
			if _, isIdent := ast.Unparen(lhs).(*ast.Ident); isIdent {
				t.failf(lhs.Pos(), "assignment to the pointer parameter %s itself", p.v.Name())
			}
			if _, seen := mutated[p]; !seen {
				mutated[p] = lhs.Pos()
			}
		}
	}
	ast.Inspect(d.decl.Body, func(n ast.Node) bool {
		switch x := n.(type) {
		case *ast.FuncLit:
			t.failf(x.Pos(), "function literal")
		case *ast.AssignStmt:
			for _, l := range x.Lhs {
				noteWrite(l)
			}
		case *ast.IncDecStmt:
			noteWrite(x.X)
		case *ast.SelectorExpr:
			if sel, ok := info.Selections[x]; ok && sel.Kind() == types.FieldVal {
				t.useField(x.Pos(), sel.Recv(), sel.Obj().(*types.Var), len(sel.Index()))
			}
		case *ast.CompositeLit:
			tv := info.Types[x]
			g := t.classify(x.Pos(), tv.Type)
			if g.k != kStruct || g.ptr {
				t.failf(x.Pos(), "composite literal of type %s", tv.Type)
			}
			for _, el := range x.Elts {
				kv, ok := el.(*ast.KeyValueExpr)
				if !ok {
					t.failf(el.Pos(), "struct literal without field names")
				}
				id, ok := kv.Key.(*ast.Ident)
				if !ok {
					t.failf(kv.Pos(), "struct literal key")
				}
				g.st.used[id.Name] = true
			}
		case *ast.CallExpr:
			if tv, ok := info.Types[x.Fun]; ok && tv.IsType() {
				return true
			}
			callee := calleeOf(info, x)
			if callee == nil {
				t.failf(x.Pos(), "call of a builtin, a function value or an interface method")
			}
			if isErrorf(callee) {
				return false // arguments are ignored
			}
			g := t.analyse(funcKey(callee), x.Pos())
			if g.mut != nil {
				args := t.callArgs(info, x, g)
				for i, p := range g.params {
					if p == g.mut {
						noteWrite(&ast.StarExpr{Star: args[i].Pos(), X: args[i]})
					}
				}
			}
		}
		return true
	})
	if len(mutated) > 1 {
		t.failf(d.decl.Pos(), "writes through more than one pointer parameter")
	}
	for p := range mutated {
		f.mut = p
	}
	if f.mut != nil && f.res != nil {
		t.failf(mutated[f.mut], "a function with a result writes through pointer parameter %s", f.mut.v.Name())
	}
	if f.mut == nil && f.res == nil {
		t.failf(d.decl.Pos(), "function without result that writes through no pointer parameter (no observable effect in the subset)")
	}
	f.state = 2
	t.order = append(t.order, f)
	return f
}

func (t *translator) useField(pos token.Pos, recv types.Type, fld *types.Var, depth int) {
	if depth != 1 {
		t.failf(pos, "promoted (embedded) field %s", fld.Name())
	}
	g := t.classify(pos, recv)
	if g.k != kStruct {
		t.failf(pos, "field selection on %s", recv)
	}
	g.st.used[fld.Name()] = true
}

// callArgs returns the argument expressions of a call in the order of g.params (receiver first).
func (t *translator) callArgs(info *types.Info, call *ast.CallExpr, g *fn) []ast.Expr {
	var args []ast.Expr
	if g.d.obj.Type().(*types.Signature).Recv() != nil {
		sel, ok := ast.Unparen(call.Fun).(*ast.SelectorExpr)
		if !ok {
			t.failf(call.Pos(), "method call through a method value/expression")
		}
		if s, ok := info.Selections[sel]; !ok || s.Kind() != types.MethodVal || len(s.Index()) != 1 {
			t.failf(call.Pos(), "method expression or promoted method")
		}
		args = append(args, sel.X)
	}
	args = append(args, call.Args...)
	if len(args) != len(g.params) || call.Ellipsis.IsValid() {
		t.failf(call.Pos(), "call with %d arguments for %d parameters", len(args), len(g.params))
	}
	return args
}

// ---------------------------------------------------------------------------- phase 2: bodies

type fctx struct {
	t     *translator
	f     *fn
	info  *types.Info
	vars  map[types.Object]string // Go variable -> Coq name
	taken map[string]bool
}

func pad(n int) string { return strings.Repeat(" ", n) }

func (c *fctx) declare(o types.Object) string {
	if n, ok := c.vars[o]; ok {
		return n
	}
	base := "v_" + o.Name()
	n := base
	for i := 1; c.taken[n]; i++ {
		n = fmt.Sprintf("%s_%d", base, i)
	}
	c.taken[n] = true
	c.vars[o] = n
	return n
}

func (c *fctx) typeOf(e ast.Expr) gtype {
	tv, ok := c.info.Types[e]
	if !ok || tv.Type == nil {
		c.t.failf(e.Pos(), "expression without a type")
	}
	typ := tv.Type
	if b, ok := typ.(*types.Basic); ok && b.Info()&types.IsUntyped != 0 {
		if tv.Value == nil && b.Kind() != types.UntypedBool {
			c.t.failf(e.Pos(), "non-constant expression of untyped type %s", typ)
		}
		typ = types.Default(typ)
	}
	return c.t.classify(e.Pos(), typ)
}

func wrap(g gtype, s string) string {
	if g.signed {
		return fmt.Sprintf("(wrap_s %d (%s))", g.bits, s)
	}
	return fmt.Sprintf("(wrap_u %d (%s))", g.bits, s)
}

func (c *fctx) constant(e ast.Expr, v constant.Value) string {
	switch v.Kind() {
	case constant.Bool:
		if constant.BoolVal(v) {
			return "true"
		}
		return "false"
	case constant.Int, constant.Float:
		g := c.typeOf(e)
		if g.k != kInt {
			c.t.failf(e.Pos(), "numeric constant of non-integer type")
		}
		iv := constant.ToInt(v)
		if iv.Kind() != constant.Int {
			c.t.failf(e.Pos(), "constant %s is not an integer", v.ExactString())
		}
		s := iv.ExactString()
		if strings.HasPrefix(s, "-") {
			return "(" + s + ")"
		}
		return s
	}
	c.t.failf(e.Pos(), "constant %s of a kind outside the subset", v.ExactString())
	panic("unreachable")
}

func (c *fctx) expr(e ast.Expr) string {
	t := c.t
	tv, ok := c.info.Types[e]
	if ok && tv.Value != nil {
		return c.constant(e, tv.Value)
	}
	switch x := e.(type) {
	case *ast.ParenExpr:
		return c.expr(x.X)
	case *ast.Ident:
		if ok && tv.IsNil() {
			t.failf(x.Pos(), "nil outside a return of type error")
		}
		o := c.info.Uses[x]
		if n, ok := c.vars[o]; ok {
			return n
		}
		t.failf(x.Pos(), "identifier %s is not a local variable, parameter or constant", x.Name)
	case *ast.StarExpr:
		if id, ok := ast.Unparen(x.X).(*ast.Ident); ok {
			if n, ok := c.vars[c.info.Uses[id]]; ok {
				return n // a pointer parameter IS the value it points to
			}
		}
		t.failf(x.Pos(), "dereference of something that is not a parameter")
	case *ast.UnaryExpr:
		g := c.typeOf(e)
		switch x.Op {
		case token.ADD:
			return c.expr(x.X)
		case token.SUB:
			if g.k == kInt {
				return wrap(g, "- "+c.expr(x.X))
			}
		case token.XOR:
			if g.k == kInt && g.signed {
				return fmt.Sprintf("(go_not_s %s)", c.expr(x.X))
			} else if g.k == kInt {
				return fmt.Sprintf("(go_not_u %d %s)", g.bits, c.expr(x.X))
			}
		case token.NOT:
			if g.k == kBool {
				return fmt.Sprintf("(negb %s)", c.expr(x.X))
			}
		}
		t.failf(x.Pos(), "unary operator %s on %s", x.Op, c.info.TypeOf(e))
	case *ast.BinaryExpr:
		return c.binary(x.Pos(), x.Op, c.typeOf(e), x.X, x.Y, c.expr(x.X))
	case *ast.IndexExpr:
		a := c.typeOf(x.X)
		if a.k != kArray {
			t.failf(x.Pos(), "indexing of %s", c.info.TypeOf(x.X))
		}
		if i := c.typeOf(x.Index); i.k != kInt {
			t.failf(x.Index.Pos(), "index of non-integer type")
		}
		return fmt.Sprintf("(data_get %s %s)", c.expr(x.X), c.expr(x.Index))
	case *ast.SelectorExpr:
		sel, ok := c.info.Selections[x]
		if !ok || sel.Kind() != types.FieldVal || len(sel.Index()) != 1 {
			t.failf(x.Pos(), "selector %s is not a direct struct field", x.Sel.Name)
		}
		g := c.typeOf(x.X)
		if g.k != kStruct {
			t.failf(x.Pos(), "field selection on a value of type %s", c.info.TypeOf(x.X))
		}
		c.typeOf(e) // the field's own type must be in the subset
		return fmt.Sprintf("(%s_%s %s)", g.st.coq, x.Sel.Name, c.expr(x.X))
	case *ast.CompositeLit:
		g := c.typeOf(e)
		given := map[string]string{}
		for _, el := range x.Elts {
			kv := el.(*ast.KeyValueExpr)
			given[kv.Key.(*ast.Ident).Name] = c.expr(kv.Value)
		}
		var parts []string
		for _, f := range g.st.fields {
			v, ok := given[f.Name()]
			if !ok {
				v = t.zero(x.Pos(), t.classify(x.Pos(), f.Type()))
			}
			parts = append(parts, fmt.Sprintf("%s_%s := %s", g.st.coq, f.Name(), v))
		}
		return "{| " + strings.Join(parts, "; ") + " |}"
	case *ast.CallExpr:
		if ftv, ok := c.info.Types[x.Fun]; ok && ftv.IsType() {
			return c.conversion(x)
		}
		callee := calleeOf(c.info, x)
		if isErrorf(callee) {
			return "err_nonnil"
		}
		g := t.fns[funcKey(callee)]
		if g == nil {
			t.failf(x.Pos(), "call of a function that was not analysed")
		}
		if g.res == nil {
			t.failf(x.Pos(), "call of the result-less function %s in an expression", g.display)
		}
		return "(" + c.call(x, g) + ")"
	}
	t.failf(e.Pos(), "expression of kind %T is outside the subset", e)
	panic("unreachable")
}

func (c *fctx) call(x *ast.CallExpr, g *fn) string {
	args := c.t.callArgs(c.info, x, g)
	parts := []string{g.coq}
	for i, a := range args {
		want := g.params[i].g
		a = ast.Unparen(a)
		if u, ok := a.(*ast.UnaryExpr); ok && u.Op == token.AND {
			a = u.X
		}
		have := c.typeOf(a)
		if have.k != want.k || have.n != want.n || have.st != want.st || (have.k == kInt && (have.bits != want.bits || have.signed != want.signed)) {
			c.t.failf(a.Pos(), "argument type does not match parameter %s of %s", g.params[i].v.Name(), g.display)
		}
		parts = append(parts, c.expr(a))
	}
	return strings.Join(parts, " ")
}

func (c *fctx) conversion(x *ast.CallExpr) string {
	if len(x.Args) != 1 {
		c.t.failf(x.Pos(), "conversion with %d arguments", len(x.Args))
	}
	to := c.typeOf(x)
	from := c.typeOf(x.Args[0])
	switch {
	case to.k == kInt && from.k == kInt:
		return wrap(to, c.expr(x.Args[0]))
	case to.k == kBool && from.k == kBool, to.k == kArray && from.k == kArray && to.n == from.n && !to.ptr && !from.ptr:
		return c.expr(x.Args[0])
	}
	c.t.failf(x.Pos(), "conversion from %s to %s", c.info.TypeOf(x.Args[0]), c.info.TypeOf(x))
	panic("unreachable")
}

// binary emits [xs op y] at result type g; xs is the already translated left operand (so that
// op-assignments can reuse it).
func (c *fctx) binary(pos token.Pos, op token.Token, g gtype, xe, ye ast.Expr, xs string) string {
	t := c.t
	ys := c.expr(ye)
	xg, yg := c.typeOf(xe), c.typeOf(ye)
	intOp := func() {
		if g.k != kInt || xg.k != kInt || xg.bits != g.bits || xg.signed != g.signed {
			t.failf(pos, "operator %s: operand/result types outside the subset", op)
		}
	}
	sameInts := func() {
		intOp()
		if yg.k != kInt || yg.bits != g.bits || yg.signed != g.signed {
			t.failf(pos, "operator %s: operands of different types", op)
		}
	}
	switch op {
	case token.ADD:
		sameInts()
		return wrap(g, xs+" + "+ys)
	case token.SUB:
		sameInts()
		return wrap(g, xs+" - "+ys)
	case token.MUL:
		sameInts()
		return wrap(g, xs+" * "+ys)
	case token.QUO, token.REM:
		sameInts()
		ytv := c.info.Types[ye]
		if ytv.Value == nil || constant.Sign(constant.ToInt(ytv.Value)) == 0 {
			t.failf(pos, "divisor of %s is not a non-zero constant", op)
		}
		switch {
		case op == token.QUO && g.signed:
			return fmt.Sprintf("(go_div_s %d %s %s)", g.bits, xs, ys)
		case op == token.QUO:
			return fmt.Sprintf("(go_div_u %s %s)", xs, ys)
		case g.signed:
			return fmt.Sprintf("(go_rem_s %s %s)", xs, ys)
		}
		return fmt.Sprintf("(go_rem_u %s %s)", xs, ys)
	case token.AND:
		sameInts()
		return fmt.Sprintf("(go_and %s %s)", xs, ys)
	case token.OR:
		sameInts()
		return fmt.Sprintf("(go_or %s %s)", xs, ys)
	case token.XOR:
		sameInts()
		return fmt.Sprintf("(go_xor %s %s)", xs, ys)
	case token.AND_NOT:
		sameInts()
		return fmt.Sprintf("(go_andnot %s %s)", xs, ys)
	case token.SHL, token.SHR:
		intOp()
		if ytv := c.info.Types[ye]; ytv.Value != nil {
			if yg.k != kInt || constant.Sign(constant.ToInt(ytv.Value)) < 0 {
				t.failf(pos, "negative or non-integer constant shift count")
			}
		} else if yg.k != kInt || yg.signed {
			t.failf(pos, "shift count of signed or non-integer type %s", c.info.TypeOf(ye))
		}
		name := map[bool]string{true: "go_shl", false: "go_shr"}[op == token.SHL]
		sfx := map[bool]string{true: "_s", false: "_u"}[g.signed]
		return fmt.Sprintf("(%s%s %d %s %s)", name, sfx, g.bits, xs, ys)
	case token.LAND, token.LOR:
		if g.k != kBool || xg.k != kBool || yg.k != kBool {
			t.failf(pos, "operator %s on non-bool", op)
		}
		if op == token.LAND {
			return fmt.Sprintf("(%s && %s)", xs, ys)
		}
		return fmt.Sprintf("(%s || %s)", xs, ys)
	case token.EQL, token.NEQ, token.LSS, token.LEQ, token.GTR, token.GEQ:
		if g.k != kBool {
			t.failf(pos, "comparison with non-bool result")
		}
		if xg.k == kBool && yg.k == kBool && (op == token.EQL || op == token.NEQ) {
			if op == token.EQL {
				return fmt.Sprintf("(Bool.eqb %s %s)", xs, ys)
			}
			return fmt.Sprintf("(negb (Bool.eqb %s %s))", xs, ys)
		}
		if xg.k != kInt || yg.k != kInt || xg.bits != yg.bits || xg.signed != yg.signed {
			t.failf(pos, "comparison %s of operands outside the subset (%s, %s)", op, c.info.TypeOf(xe), c.info.TypeOf(ye))
		}
		switch op {
		case token.EQL:
			return fmt.Sprintf("(%s =? %s)", xs, ys)
		case token.NEQ:
			return fmt.Sprintf("(negb (%s =? %s))", xs, ys)
		case token.LSS:
			return fmt.Sprintf("(%s <? %s)", xs, ys)
		case token.LEQ:
			return fmt.Sprintf("(%s <=? %s)", xs, ys)
		case token.GTR:
			return fmt.Sprintf("(%s <? %s)", ys, xs)
		}
		return fmt.Sprintf("(%s <=? %s)", ys, xs)
	}
	t.failf(pos, "binary operator %s is outside the subset", op)
	panic("unreachable")
}

var assignOps = map[token.Token]token.Token{
	token.ADD_ASSIGN: token.ADD, token.SUB_ASSIGN: token.SUB, token.MUL_ASSIGN: token.MUL,
	token.QUO_ASSIGN: token.QUO, token.REM_ASSIGN: token.REM, token.AND_ASSIGN: token.AND,
	token.OR_ASSIGN: token.OR, token.XOR_ASSIGN: token.XOR, token.SHL_ASSIGN: token.SHL,
	token.SHR_ASSIGN: token.SHR, token.AND_NOT_ASSIGN: token.AND_NOT,
}

// store: the binding [let <root> := <updated root value>] that realises [lhs = val].
func (c *fctx) store(lhs ast.Expr, val string) (name, newval string) {
	t := c.t
	switch x := lhs.(type) {
	case *ast.ParenExpr:
		return c.store(x.X, val)
	case *ast.Ident:
		if x.Name == "_" {
			t.failf(x.Pos(), "assignment to the blank identifier")
		}
		o := c.info.Uses[x]
		if o == nil {
			o = c.info.Defs[x]
		}
		n, ok := c.vars[o]
		if !ok {
			t.failf(x.Pos(), "assignment to %s, which is not a local variable", x.Name)
		}
		return n, val
	case *ast.StarExpr:
		if id, ok := ast.Unparen(x.X).(*ast.Ident); ok && c.f.mut != nil && c.info.Uses[id] == types.Object(c.f.mut.v) {
			return c.f.mut.name, val
		}
		t.failf(x.Pos(), "store through a pointer that is not the written parameter")
	case *ast.IndexExpr:
		if a := c.typeOf(x.X); a.k != kArray {
			t.failf(x.Pos(), "indexed assignment to %s", c.info.TypeOf(x.X))
		}
		if i := c.typeOf(x.Index); i.k != kInt {
			t.failf(x.Index.Pos(), "index of non-integer type")
		}
		return c.store(x.X, fmt.Sprintf("(data_set %s %s %s)", c.expr(x.X), c.expr(x.Index), val))
	case *ast.SelectorExpr:
		sel, ok := c.info.Selections[x]
		if !ok || sel.Kind() != types.FieldVal || len(sel.Index()) != 1 {
			t.failf(x.Pos(), "assignment to selector %s", x.Sel.Name)
		}
		g := c.typeOf(x.X)
		if g.k != kStruct {
			t.failf(x.Pos(), "field assignment on a value of type %s", c.info.TypeOf(x.X))
		}
		return c.store(x.X, fmt.Sprintf("(set_%s_%s %s %s)", g.st.coq, x.Sel.Name, c.expr(x.X), val))
	}
	t.failf(lhs.Pos(), "assignment target of kind %T", lhs)
	panic("unreachable")
}

// checkRoot: the variable at the root of a written l-value must be a local (incl. value
// parameters) or THE written pointer parameter.
func (c *fctx) checkRoot(lhs ast.Expr) {
	id := rootIdent(lhs)
	if id == nil {
		c.t.failf(lhs.Pos(), "assignment target without a variable at its root")
	}
	o := c.info.Uses[id]
	if o == nil {
		o = c.info.Defs[id]
	}
	for _, p := range c.f.params {
		if types.Object(p.v) == o && p.g.ptr && p != c.f.mut {
			c.t.failf(lhs.Pos(), "internal: write through %s not found by the analysis", id.Name)
		}
	}
}

type cont func(ind int) string

func (c *fctx) block(list []ast.Stmt, ind int, k cont) string {
	if len(list) == 0 {
		return k(ind)
	}
	t := c.t
	rest := func(ind int) string { return c.block(list[1:], ind, k) }
	let := func(name, val string) string {
		return pad(ind) + "let " + name + " := " + val + " in\n" + rest(ind)
	}
	switch s := list[0].(type) {
	case *ast.EmptyStmt:
		return rest(ind)
	case *ast.BlockStmt:
		return c.block(s.List, ind, rest)
	case *ast.ReturnStmt:
		if c.f.res == nil {
			if len(s.Results) != 0 {
				t.failf(s.Pos(), "return with a value in a result-less function")
			}
			return pad(ind) + c.f.mut.name
		}
		if len(s.Results) != 1 {
			t.failf(s.Pos(), "return without exactly one value")
		}
		r := ast.Unparen(s.Results[0])
		if c.f.res.k == kErr {
			if tv := c.info.Types[r]; tv.IsNil() {
				return pad(ind) + "err_nil"
			}
		}
		return pad(ind) + c.expr(r)
	case *ast.DeclStmt:
		gd, ok := s.Decl.(*ast.GenDecl)
		if !ok || (gd.Tok != token.VAR && gd.Tok != token.CONST) {
			t.failf(s.Pos(), "declaration of this kind inside a function")
		}
		if gd.Tok == token.CONST {
			return rest(ind) // constants are folded by go/types wherever they are used
		}
		var lets []string
		for _, sp := range gd.Specs {
			vs := sp.(*ast.ValueSpec)
			if len(vs.Values) != 0 && len(vs.Values) != len(vs.Names) {
				t.failf(vs.Pos(), "var declaration with a multi-valued initialiser")
			}
			for i, id := range vs.Names {
				if id.Name == "_" {
					t.failf(id.Pos(), "blank variable")
				}
				o := c.info.Defs[id]
				g := t.classify(id.Pos(), o.Type())
				if g.ptr || g.k == kErr {
					t.failf(id.Pos(), "local variable of pointer or error type")
				}
				val := t.zero(id.Pos(), g)
				if len(vs.Values) != 0 {
					val = c.expr(vs.Values[i])
				}
				lets = append(lets, pad(ind)+"let "+c.declare(o)+" := "+val+" in\n")
			}
		}
		return strings.Join(lets, "") + rest(ind)
	case *ast.AssignStmt:
		if len(s.Lhs) != 1 || len(s.Rhs) != 1 {
			t.failf(s.Pos(), "assignment with more than one operand on a side")
		}
		lhs := s.Lhs[0]
		switch s.Tok {
		case token.DEFINE:
			id, ok := lhs.(*ast.Ident)
			if !ok || id.Name == "_" {
				t.failf(s.Pos(), "short variable declaration of something that is not a new variable")
			}
			val := c.expr(s.Rhs[0]) // before the new variable comes into scope
			o := c.info.Defs[id]
			if o == nil {
				t.failf(s.Pos(), "short variable declaration that redeclares %s", id.Name)
			}
			g := t.classify(id.Pos(), o.Type())
			if g.ptr || g.k == kErr {
				t.failf(id.Pos(), "local variable of pointer or error type")
			}
			return let(c.declare(o), val)
		case token.ASSIGN:
			c.checkRoot(lhs)
			val := c.expr(s.Rhs[0])
			name, nv := c.store(lhs, val)
			return let(name, nv)
		default:
			op, ok := assignOps[s.Tok]
			if !ok {
				t.failf(s.Pos(), "assignment operator %s", s.Tok)
			}
			c.checkRoot(lhs)
			val := c.binary(s.Pos(), op, c.typeOf(lhs), lhs, s.Rhs[0], c.expr(lhs))
			name, nv := c.store(lhs, val)
			return let(name, nv)
		}
	case *ast.IncDecStmt:
		c.checkRoot(s.X)
		g := c.typeOf(s.X)
		if g.k != kInt {
			t.failf(s.Pos(), "++/-- on a non-integer")
		}
		op := map[bool]string{true: " + 1", false: " - 1"}[s.Tok == token.INC]
		name, nv := c.store(s.X, wrap(g, c.expr(s.X)+op))
		return let(name, nv)
	case *ast.ExprStmt:
		call, ok := ast.Unparen(s.X).(*ast.CallExpr)
		if !ok {
			t.failf(s.Pos(), "expression statement that is not a call")
		}
		callee := calleeOf(c.info, call)
		if callee == nil || isErrorf(callee) {
			t.failf(s.Pos(), "call statement of a non-whitelisted function")
		}
		g := t.fns[funcKey(callee)]
		if g == nil || g.mut == nil {
			t.failf(s.Pos(), "call statement of a function that writes through no pointer")
		}
		args := t.callArgs(c.info, call, g)
		for i, p := range g.params {
			if p == g.mut {
				target := ast.Unparen(args[i])
				if u, ok := target.(*ast.UnaryExpr); ok && u.Op == token.AND {
					target = u.X
				}
				c.checkRoot(target)
				val := c.call(call, g)
				if id, ok := ast.Unparen(target).(*ast.Ident); ok {
					n, ok := c.vars[c.info.Uses[id]]
					if !ok {
						t.failf(target.Pos(), "pointer argument %s is not a variable of this function", id.Name)
					}
					return let(n, val)
				}
				name, nv := c.store(target, "("+val+")")
				return let(name, nv)
			}
		}
		t.failf(s.Pos(), "internal: written parameter not found")
	case *ast.IfStmt:
		body := func(ind int) string {
			if g := c.typeOf(s.Cond); g.k != kBool {
				t.failf(s.Cond.Pos(), "condition of non-bool type")
			}
			els := rest
			if s.Else != nil {
				els = func(ind int) string { return c.block([]ast.Stmt{s.Else}, ind, rest) }
			}
			return pad(ind) + "if " + c.expr(s.Cond) + " then (\n" + c.block(s.Body.List, ind+2, rest) + "\n" +
				pad(ind) + ") else (\n" + els(ind+2) + "\n" + pad(ind) + ")"
		}
		if s.Init != nil {
			return c.block([]ast.Stmt{s.Init}, ind, body)
		}
		return body(ind)
	case *ast.SwitchStmt:
		body := func(ind int) string {
			tag, head := "", ""
			var tg gtype
			if s.Tag != nil {
				tg = c.typeOf(s.Tag)
				if tg.k != kInt && tg.k != kBool {
					t.failf(s.Tag.Pos(), "switch on a value of type %s", c.info.TypeOf(s.Tag))
				}
				tag = fmt.Sprintf("sw_%d", t.fset.Position(s.Pos()).Line)
				head = pad(ind) + "let " + tag + " := " + c.expr(s.Tag) + " in\n"
			}
			var clauses []*ast.CaseClause
			var def *ast.CaseClause
			for _, st := range s.Body.List {
				cc := st.(*ast.CaseClause)
				for _, b := range cc.Body {
					if br, ok := b.(*ast.BranchStmt); ok {
						t.failf(br.Pos(), "%s in a switch", br.Tok)
					}
				}
				if cc.List == nil {
					def = cc
				} else {
					clauses = append(clauses, cc)
				}
			}
			var chain func(i, ind int) string
			chain = func(i, ind int) string {
				if i == len(clauses) {
					if def != nil {
						return c.block(def.Body, ind, rest)
					}
					return rest(ind)
				}
				cc := clauses[i]
				var conds []string
				for _, ce := range cc.List {
					cg := c.typeOf(ce)
					switch {
					case s.Tag == nil:
						if cg.k != kBool {
							t.failf(ce.Pos(), "case of non-bool type in a tagless switch")
						}
						conds = append(conds, c.expr(ce))
					case tg.k == kBool && cg.k == kBool:
						conds = append(conds, fmt.Sprintf("(Bool.eqb %s %s)", tag, c.expr(ce)))
					case tg.k == kInt && cg.k == kInt && cg.bits == tg.bits && cg.signed == tg.signed:
						conds = append(conds, fmt.Sprintf("(%s =? %s)", tag, c.expr(ce)))
					default:
						t.failf(ce.Pos(), "case value of a type different from the tag's")
					}
				}
				cond := conds[0]
				if len(conds) > 1 {
					cond = "(" + strings.Join(conds, " || ") + ")"
				}
				return pad(ind) + "if " + cond + " then (\n" + c.block(cc.Body, ind+2, rest) + "\n" +
					pad(ind) + ") else (\n" + chain(i+1, ind+2) + "\n" + pad(ind) + ")"
			}
			return head + chain(0, ind)
		}
		if s.Init != nil {
			return c.block([]ast.Stmt{s.Init}, ind, body)
		}
		return body(ind)
	}
	t.failf(list[0].Pos(), "statement of kind %s is outside the subset", stmtKind(list[0]))
	panic("unreachable")
}

func stmtKind(s ast.Stmt) string {
	switch x := s.(type) {
	case *ast.ForStmt:
		return "for"
	case *ast.RangeStmt:
		return "for-range"
	case *ast.GoStmt:
		return "go"
	case *ast.DeferStmt:
		return "defer"
	case *ast.BranchStmt:
		return x.Tok.String()
	case *ast.LabeledStmt:
		return "label"
	case *ast.TypeSwitchStmt:
		return "type switch"
	case *ast.SelectStmt:
		return "select"
	case *ast.SendStmt:
		return "send"
	}
	return fmt.Sprintf("%T", s)
}

func (t *translator) translate(f *fn) {
	t.cur = f
	defer func() { t.cur = nil }()
	c := &fctx{t: t, f: f, info: f.d.pkg.TypesInfo, vars: map[types.Object]string{}, taken: map[string]bool{}}
	var ps []string
	for _, p := range f.params {
		p.name = c.declare(p.v)
		ps = append(ps, fmt.Sprintf("(%s : %s)", p.name, p.g.coq()))
	}
	ret := ""
	if f.res != nil {
		ret = f.res.coq()
	} else {
		ret = f.mut.g.coq()
	}
	end := func(ind int) string {
		if f.res != nil {
			t.failf(f.d.decl.Body.Rbrace, "control reaches the end of a function with a result")
		}
		return pad(ind) + f.mut.name
	}
	body := c.block(f.d.decl.Body.List, 2, end)
	rel, _ := filepath.Rel(t.root, f.pos.Filename)
	f.text = fmt.Sprintf("(** %s:%d  %s *)\nDefinition %s %s : %s :=\n%s.\n", rel, f.pos.Line, f.display, f.coq, strings.Join(ps, " "), ret, body)
}

// ---------------------------------------------------------------------------- main

func moduleRootOfBuild() string {
	_, file, _, ok := runtime.Caller(0)
	if !ok {
		return ""
	}
	for dir := filepath.Dir(file); dir != "/" && dir != "."; dir = filepath.Dir(dir) {
		if _, err := os.Stat(filepath.Join(dir, "go.mod")); err == nil {
			return dir
		}
	}
	return ""
}

func main() {
	var only []string
	var pos []string
	list := false
	for i := 1; i < len(os.Args); i++ {
		switch os.Args[i] {
		case "-only":
			i++
			if i < len(os.Args) && os.Args[i] != "" {
				only = strings.Split(os.Args[i], ",")
			}
		case "-list":
			list = true
		default:
			pos = append(pos, os.Args[i])
		}
	}
	for _, w := range whitelist {
		wlByKey[wlKey(w.pkg, w.recv, w.name)] = wlCoq(w.recv, w.name)
	}
	if list {
		for _, w := range whitelist {
			fmt.Printf("WHITELIST %s %s\n", wlCoq(w.recv, w.name), wlKey(w.pkg, w.recv, w.name))
		}
		return
	}
	root, out := "", ""
	switch len(pos) {
	case 1:
		root, out = moduleRootOfBuild(), pos[0]
	case 2:
		root, out = pos[0], pos[1]
	default:
		fmt.Fprintln(os.Stderr, "usage: verif_translate [<module root>] <output dir> [-only name,...]")
		os.Exit(64)
	}
	if root == "" {
		fmt.Fprintln(os.Stderr, "TRANSLATE-ERROR cannot determine the module root")
		os.Exit(2)
	}
	root, _ = filepath.Abs(root)
	if r, err := filepath.EvalSymlinks(root); err == nil {
		root = r
	}
	os.Exit(run(root, out, only))
}

func run(root, out string, only []string) (status int) {
	t := &translator{root: root, fset: token.NewFileSet(), pkgs: map[string]*packages.Package{},
		decls: map[string]*fnDecl{}, fns: map[string]*fn{}, structs: map[string]*structInfo{}, names: map[string]string{}}
	// roots
	type rootT struct{ key, coq string }
	var roots []rootT
	want := map[string]bool{}
	for _, o := range only {
		want[o] = true
	}
	pkgSet := map[string]bool{}
	for _, w := range whitelist {
		coq := wlCoq(w.recv, w.name)
		if len(only) > 0 && !want[coq] {
			continue
		}
		delete(want, coq)
		roots = append(roots, rootT{wlKey(w.pkg, w.recv, w.name), coq})
	}
	if len(want) > 0 {
		fmt.Fprintf(os.Stderr, "TRANSLATE-ERROR -only names that are not whitelisted: %v\n", want)
		return 2
	}
	// every whitelisted package is loaded (a root may call into any of them)
	for _, w := range whitelist {
		p := modPath
		if w.pkg != "" {
			p += "/" + w.pkg
		}
		pkgSet[p] = true
	}
	var patterns []string
	for p := range pkgSet {
		patterns = append(patterns, p)
	}
	sort.Strings(patterns)
	cfg := &packages.Config{
		Mode: packages.NeedName | packages.NeedFiles | packages.NeedCompiledGoFiles | packages.NeedImports |
			packages.NeedTypes | packages.NeedTypesSizes | packages.NeedSyntax | packages.NeedTypesInfo,
		Dir:  root,
		Fset: t.fset,
		Env:  append(os.Environ(), "GOFLAGS=-mod=mod", "GOPROXY=off", "GOSUMDB=off", "GOTOOLCHAIN=local", "GOOS=linux", "GOARCH=amd64"),
	}
	pkgs, err := packages.Load(cfg, patterns...)
	if err != nil {
		fmt.Fprintf(os.Stderr, "TRANSLATE-ERROR loading packages: %v\n", err)
		return 2
	}
	bad := false
	for _, p := range pkgs {
		for _, e := range p.Errors {
			fmt.Fprintf(os.Stderr, "TRANSLATE-ERROR %s: does not type-check: %s\n", p.PkgPath, strings.ReplaceAll(e.Error(), root+"/", ""))
			bad = true
		}
		if p.TypesInfo == nil || p.Types == nil {
			fmt.Fprintf(os.Stderr, "TRANSLATE-ERROR %s: no type information\n", p.PkgPath)
			bad = true
		}
		t.pkgs[p.PkgPath] = p
	}
	if bad {
		return 2
	}
	t.index()
	// phase 1 (per root: a failure is reported for every root, not just the first)
	var errs []string
	guard := func(f func()) {
		defer func() {
			if r := recover(); r != nil {
				te, ok := r.(transErr)
				if !ok {
					panic(r)
				}
				errs = append(errs, te.msg)
				t.cur = nil
				for k, f := range t.fns { // abandoned mid-analysis: must not look like recursion later
					if f.state == 1 {
						delete(t.fns, k)
					}
				}
			}
		}()
		f()
	}
	for _, r := range roots {
		r := r
		guard(func() { t.analyse(r.key, token.NoPos) })
	}
	if len(errs) == 0 {
		for _, s := range t.sorder {
			for i := 0; i < s.st.NumFields(); i++ {
				if fl := s.st.Field(i); s.used[fl.Name()] {
					fl := fl
					guard(func() { t.classify(fl.Pos(), fl.Type()) })
					s.fields = append(s.fields, fl)
					guard(func() {
						t.claim(s.coq+"_"+fl.Name(), "field of "+s.qual)
						t.claim("set_"+s.coq+"_"+fl.Name(), "setter of "+s.qual)
					})
				}
			}
		}
	}
	if len(errs) == 0 {
		for _, f := range t.order {
			f := f
			guard(func() { t.translate(f) })
		}
	}
	if len(errs) > 0 {
		seen := map[string]bool{}
		for _, e := range errs {
			if !seen[e] {
				fmt.Fprintf(os.Stderr, "TRANSLATE-ERROR %s\n", e)
			}
			seen[e] = true
		}
		return 2
	}
	// output
	var b strings.Builder
	b.WriteString("(* GENERATED by /verif/harness/translate/main.go from the Go source tree at\n     " + root + "\n   DO NOT EDIT. Semantics of the operators: CanVerif.Translate.GoSem. *)\n")
	b.WriteString("From Coq Require Import ZArith List Bool.\nFrom CanVerif Require Import Translate.GoSem.\nImport ListNotations.\nOpen Scope Z_scope.\nOpen Scope bool_scope.\n\n")
	// records: a struct may contain another one; emit in dependency order
	emitted := map[*structInfo]bool{}
	var emit func(s *structInfo)
	emit = func(s *structInfo) {
		if emitted[s] {
			return
		}
		emitted[s] = true
		var fl []string
		for _, f := range s.fields {
			g := t.classify(f.Pos(), f.Type())
			if g.k == kStruct {
				emit(g.st)
			}
			fl = append(fl, fmt.Sprintf("%s_%s : %s", s.coq, f.Name(), g.coq()))
		}
		p := t.fset.Position(s.named.Obj().Pos())
		rel, _ := filepath.Rel(root, p.Filename)
		fmt.Fprintf(&b, "(** %s:%d  struct %s, the fields used by the translated functions *)\n", rel, p.Line, strings.TrimPrefix(s.qual, modPath))
		fmt.Fprintf(&b, "Record %s := { %s }.\n", s.coq, strings.Join(fl, "; "))
		for _, f := range s.fields {
			var parts []string
			for _, h := range s.fields {
				if h == f {
					parts = append(parts, fmt.Sprintf("%s_%s := v", s.coq, h.Name()))
				} else {
					parts = append(parts, fmt.Sprintf("%s_%s := %s_%s r", s.coq, h.Name(), s.coq, h.Name()))
				}
			}
			g := t.classify(f.Pos(), f.Type())
			fmt.Fprintf(&b, "Definition set_%s_%s (r : %s) (v : %s) : %s :=\n  {| %s |}.\n", s.coq, f.Name(), s.coq, g.coq(), s.coq, strings.Join(parts, "; "))
		}
		b.WriteString("\n")
		fmt.Printf("RECORD %s %d fields\n", s.coq, len(s.fields))
	}
	for _, s := range t.sorder {
		if len(s.fields) == 0 {
			fmt.Fprintf(os.Stderr, "TRANSLATE-ERROR struct %s is used but none of its fields is\n", s.qual)
			return 2
		}
		emit(s)
	}
	files := map[string]bool{}
	for _, f := range t.order {
		b.WriteString(f.text)
		b.WriteString("\n")
		rel, _ := filepath.Rel(root, f.pos.Filename)
		files[rel] = true
		fmt.Printf("TRANSLATED %s %s:%d %s\n", f.coq, rel, f.pos.Line, f.key)
	}
	if err := os.MkdirAll(out, 0o755); err != nil {
		fmt.Fprintf(os.Stderr, "TRANSLATE-ERROR %v\n", err)
		return 2
	}
	if err := os.WriteFile(filepath.Join(out, "Translated.v"), []byte(b.String()), 0o644); err != nil {
		fmt.Fprintf(os.Stderr, "TRANSLATE-ERROR %v\n", err)
		return 2
	}
	var fl []string
	for f := range files {
		fl = append(fl, f)
	}
	sort.Strings(fl)
	fmt.Printf("FILES %s\n", strings.Join(fl, " "))
	return 0
}
