// verif_translate: regenerates Gallina definitions from the CURRENT Go source of a whitelist of
// functions of go.einride.tech/can. Compiled into /repo's working tree with `go build -overlay`
// as cmd/verif_translate (checks/translate_tie.py); the output `Translated.v` is proved equal to
// the hand-written Coq models by coq/translate/Equiv.v on every run.
//
//	usage: verif_translate <module root> <output dir> [-only name,name,...] [-list]
//
// The packages are loaded and TYPE-CHECKED with golang.org/x/tools/go/packages (go/parser +
// go/types); every decision about the static type of an expression, about constant values and
// about the type an untyped constant assumes (including the rule for untyped constant operands of
// non-constant shifts) is read off go/types' Info, never re-implemented here.
//
// SUPPORTED SUBSET (anything else: error with file:line, exit status 2, no output file):
//
//	types       uint8/16/32/64, int8/16/32/64, int, uint (64 bit), named integer types, bool,
//	            float64, float32 (values, constants, conversions; arithmetic on float64 only),
//	            [N]byte arrays (can.Data), []byte (contents only, see "slices" below), []S / []*S with S
//	            a named struct of this module (the LIST of the element values: len, range; elements of
//	            a []*S assumed non-nil), slices of any
//	            other element type reduced to their LENGTH (only len(x)), string (constants, locals,
//	            parameters, results; == != and switch), go/types.Type / *go/types.Basic values obtained as
//	            types.Typ[kind] (reduced to the kind), named structs whose USED fields have these
//	            types - including fields promoted through embedded structs (x.f = x.E.f) -,
//	            pointers to such arrays/structs as parameters/receivers (= the value pointed to);
//	            *S as a RESULT or as a LOCAL (range variable over a []*S, result of a call) is option S
//	            (nil = None; p.f reads the zero value for nil: that panic is not modelled); `error` results
//	functions   any number of results (several results = a tuple); a function may write through at
//	            most ONE pointer parameter OR one []byte parameter: without results it is translated
//	            to a function returning that parameter's final value (for a []byte: its final
//	            contents), with results to one returning (that value, results...); a function that
//	            contains the explicit bounds check `_ = b[k]` returns option (None = that check
//	            panics) and cannot be called from another translated function;
//	            only functions with exactly one result and no written pointer can be CALLED in an
//	            expression, only result-less ones as a statement; a pure function with several results
//	            can be called as `x, y := g(...)` and as `return g(...)`; no recursion; unnamed / blank
//	            parameters are kept
//	statements  x := e, x = e, x op= e, x++, x--, `var x T`, `var x T = e` on locals;
//	            a[i] = e, a[i] op= e, s.f = e, s.f op= e (functional update of arrays / records);
//	            if / else if / else (with init statement), switch with or without tag (constant or
//	            non-constant cases, default anywhere, no fallthrough/break), return, nested blocks,
//	            calls of whitelisted result-less functions as statements; named results if the body
//	            never mentions them; `defer func() { if err != nil { err = fmt.Errorf(...) } }()` (a
//	            no-op under the nil / non-nil reduction of errors), no other defer;
//	            loops: `for k, x := range e {...}` (e a []S / []*S / []byte; k, x new variables or _) and
//	            `for k, r := range s` over a string (k = byte index, r = the decoded rune; GoSem.v
//	            go_range_string / go_utf8_decode) and
//	            `for i := 0; i < len(x); i++ {...}` (i an int, the body assigns neither i nor x) whose
//	            body consists of statements of this subset, `continue` and `return`: translated to
//	            GoSem.v's go_range (a fold over the list with early exit; the state = the locals
//	            declared before the loop that the body assigns); no break/goto/labels;
//	            nlenc.PutUint8/16/32/64 / PutInt32(b[lo:hi], v), binary.LittleEndian.PutUint16/32/64
//	            (b[lo:hi], v) and copy(dst, src) as statements; `_ = b[k]` (b []byte, k constant)
//	expressions constants (folded by go/types; floats printed as the IEEE bit pattern of the rounded
//	            value; strings as byte lists), locals, parameters, + - * / % (divisor: non-zero
//	            constant) << >> (count: unsigned type or constant) & | ^ &^, unary - ^ ! +,
//	            == != < <= > >= on integers and on float64, + - * / and unary - on float64,
//	            == != on bools and on strings (also: switch on a string), && ||, conversions between integer types, integer -> float64,
//	            float64 <-> float32, a[i], s.f, struct literals with keyed fields, calls of
//	            whitelisted functions/methods, fmt.Errorf(...) (= non-nil error), nil (error or
//	            []byte result), len(x), make([]byte, const), b[lo:hi] / b[lo:] / b[:hi] of a []byte
//	            (integer bounds, constant or not; of a [N]byte array only as the source of copy or
//	            the argument of a library reader),
//	            types.Typ[k], the library functions math.Max/Min/IsNaN/Float32bits/Float32frombits/
//	            Float64bits/Float64frombits, unicode.IsDigit/IsUpper/IsLower/IsLetter (WITHOUT a model:
//	            they become leading parameters `Z -> bool` of every translated function that uses
//	            them, directly or through a callee), nlenc.Uint8/Uint16/Uint32/Uint64/Int32 and
//	            binary.LittleEndian.Uint16/Uint32/Uint64 (encoding/binary), and the
//	            reinterpreting load *(*T)(unsafe.Pointer(&x)) of a local x for (x's type -> T) in
//	            uint64->float32, uint32->float32, uint64->float64, float32->uint32, float64->uint64
//	slices      no aliasing: a []byte LOCAL can only be bound to make(...); stores (b[i] = v,
//	            nlenc/binary PutXxx(b[lo:hi], v) with constant bounds, copy(b[lo:hi], src) with
//	            constant bounds or open-ended b[lo:]) are accepted only when b is such a local or THE
//	            written []byte parameter of the function (or, for copy, an array l-value) and are
//	            printed as functional updates of b; the written []byte parameter is ASSUMED not to
//	            overlap any other parameter (GoSem.v header); every other []byte parameter can be
//	            read, sliced, passed to readers and returned, never written; nlenc readers/writers on
//	            a constant sub-slice of the wrong width (binary.LittleEndian: of a smaller width) are
//	            rejected
//
// text        (frame text family; semantics and TRUSTED library readings: Translate/GoSemText.v)
//	            strings as byte lists: len(s), s + t, ==, s[i], s[lo:hi] / s[lo:] / s[:hi] with constant or
//	            non-constant bounds; a[lo:hi] of a [N]byte array with non-constant bounds as the []byte
//	            argument of a text library function. THE RUN-TIME PANICS of these operations ARE MODELLED:
//	            a function containing one returns option (None = panic, like the `_ = b[k]` check) and
//	            the test `if negb (go_index_ok ..) / (go_slice_ok ..) then None else ...` is printed in
//	            front of the statement whose expressions contain the operation; such an operation in
//	            the right operand of && / || or inside a loop is an error.
//	            library calls: fmt.Sprintf("%0wX" / "%0wx", unsigned) (no other format), strconv.Itoa,
//	            hex.EncodeToString, strings.ToUpper (ASCII reading) in expressions;
//	            `v, err := strconv.ParseUint(s, const, const)` / strconv.Atoi(s) / hex.DecodeString(s)
//	            (the pair (value, error); a variable that already exists in the scope is assigned; the
//	            []byte result is a fresh slice), `err != nil` / `err == nil` on such a local;
//	            `parts := strings.Split(s, "<one byte constant>")` with parts used only as len(parts) and
//	            parts[k] (index panic modelled); `a, b := e1, e2` with all variables new;
//	            `*f = v` through the written pointer receiver wherever it occurs (the final value of *f is
//	            returned with the results, so an assignment on the success paths only is visible as
//	            the unchanged parameter on the error paths).
//	            `err := json.Unmarshal(b, &x)` (x a local of a named struct type S; also as an if's init): NO MODEL,
//	            ORACLE o_json_Unmarshal_S : go_bytes -> S -> err * S, a leading parameter (all fields of S are kept);
//	            struct members of type *string / *uint8 / *bool are options: p == nil, p != nil, *p (nil
//	            dereference not modelled: zero value); the empty array literal Data{}; `return err` of a local error.
//
// render      (renderings family: pkg/cantext/encode.go, pkg/canjson/encode.go; readings: Translate/GoSemText.v, last block)
//	            append-style byte building on a []byte variable v that is a make'd local or a []byte PARAMETER (a
//	            parameter assigned as a whole is a rebound local, nothing is written through it; rebinding AND
//	            storing through the same parameter is an error): `v = append(v, x...)` (x a string or []byte),
//	            `v = append(v, b1, .., bn)` (bytes), `v = strconv.AppendUint(v, u, 10|16)`, `AppendInt(v, i, 10)`,
//	            `AppendBool(v, b)`, `AppendFloat(v, f, 'g'|'f', -1, 64)`, `v = F(v, ...)` with F a whitelisted
//	            function returning []byte; all read as go_append = concatenation of CONTENTS (whether the result
//	            shares v's backing array is not represented). strconv.FormatUint(u, 10|16), FormatInt(i, 10),
//	            FormatBool = the printers of Gen/RenderNum.v (other bases: error). strconv.FormatFloat /
//	            AppendFloat with format 'g' or 'f', precision -1, bit size 64 HAVE NO MODEL: ORACLES
//	            o_strconv_FormatFloat_g / _f : Z -> go_string, leading parameters of every translated function
//	            that uses them (directly or through a callee), applied to the bit pattern go_math_Float64bits f;
//	            any other format / precision / bit size: error. Conversions between string types (json.Number),
//	            string([]byte), []byte(string): the same bytes. d.String() on a time.Duration: ORACLE
//	            o_time_Duration_String : Z -> go_string (nanoseconds -> text), like the float formattings.
//	            INTERFACE generated.Message: a parameter m of that type is read as the PAIR of the values its
//	            methods return, m_Frame (can.Frame) and m_Descriptor (descriptor.Message); m.Frame() / m.Descriptor()
//	            are the components (the methods are taken to be pure and stable across calls; THAT the generated
//	            Frame() / Descriptor() methods return what the interpreter's model says is what C03 / C10's wiring
//	            tie establishes), m can only be passed on to another translated function; any other method: error.
//	            make([]byte, n, cap) = make([]byte, n) (capacity not observable on contents; its panics not modelled).
//
// Every integer operation is emitted at the static type go/types reports for that expression,
// against the operators of coq/theories/Translate/GoSem.v, every floating-point operation against
// those of coq/theories/Translate/GoSemFloat.v (see those files' headers for the reading of Go's
// semantics and for what is trusted). The packages are loaded for GOOS=linux GOARCH=amd64 (build
// tags, unsafe.Sizeof constants).
package main

import (
	"fmt"
	"go/ast"
	"go/constant"
	"go/token"
	"go/types"
	"math"
	"os"
	"path/filepath"
	"regexp"
	"runtime"
	"sort"
	"strings"

	"golang.org/x/tools/go/packages"
)

const modPath = "go.einride.tech/can"

// whitelist: package path (relative to the module), receiver type ("" for functions), name.
var whitelist = []struct{ pkg, recv, name string }{
	{"", "Data", "UnsignedBitsLittleEndian"},
	{"", "Data", "UnsignedBitsBigEndian"},
	{"", "Data", "SignedBitsLittleEndian"},
	{"", "Data", "SignedBitsBigEndian"},
	{"", "Data", "SetUnsignedBitsLittleEndian"},
	{"", "Data", "SetUnsignedBitsBigEndian"},
	{"", "Data", "SetSignedBitsLittleEndian"},
	{"", "Data", "SetSignedBitsBigEndian"},
	{"", "Data", "Bit"},
	{"", "Data", "SetBit"},
	{"", "Data", "PackLittleEndian"},
	{"", "Data", "PackBigEndian"},
	{"", "Data", "UnpackLittleEndian"},
	{"", "Data", "UnpackBigEndian"},
	{"", "", "invertEndian"},
	{"", "", "CheckBitRangeLittleEndian"},
	{"", "", "CheckBitRangeBigEndian"},
	{"", "", "CheckValue"},
	{"", "Frame", "Validate"},
	{"internal/reinterpret", "", "AsSigned"},
	{"internal/reinterpret", "", "AsUnsigned"},
	{"pkg/descriptor", "Signal", "MaxUnsigned"},
	{"pkg/descriptor", "Signal", "MinSigned"},
	{"pkg/descriptor", "Signal", "MaxSigned"},
	{"pkg/descriptor", "Signal", "SaturatedCastSigned"},
	{"pkg/descriptor", "Signal", "SaturatedCastUnsigned"},
	{"pkg/descriptor", "Signal", "UnmarshalUnsigned"},
	{"pkg/descriptor", "Signal", "UnmarshalSigned"},
	{"pkg/descriptor", "Signal", "UnmarshalBool"},
	{"pkg/descriptor", "Signal", "MarshalUnsigned"},
	{"pkg/descriptor", "Signal", "MarshalSigned"},
	{"pkg/descriptor", "Signal", "MarshalBool"},
	{"pkg/descriptor", "Signal", "MinFloat"},
	{"pkg/descriptor", "Signal", "MaxFloat"},
	{"pkg/descriptor", "Signal", "SaturatedCastFloat"},
	{"pkg/descriptor", "Signal", "ToPhysical"},
	{"pkg/descriptor", "Signal", "FromPhysical"},
	{"pkg/descriptor", "Signal", "UnmarshalPhysical"},
	{"pkg/descriptor", "Signal", "UnmarshalFloat"},
	{"pkg/descriptor", "Signal", "MarshalFloat"},
	{"internal/generate", "", "hasPhysicalRepresentation"},
	{"internal/generate", "", "hasCustomType"},
	{"internal/generate", "", "signalPrimitiveType"},
	{"internal/generate", "", "signalPrimitiveSuperType"},
	{"internal/generate", "", "signalSuperType"},
	{"pkg/candevice", "ifInfoMsg", "marshalBinary"},
	{"pkg/candevice", "ifInfoMsg", "unmarshalBinary"},
	{"pkg/candevice", "BitTiming", "marshalBinary"},
	{"pkg/candevice", "BitTiming", "unmarshalBinary"},
	{"pkg/candevice", "BitTimingConst", "unmarshalBinary"},
	{"pkg/candevice", "Clock", "unmarshalBinary"},
	{"pkg/candevice", "CtrlMode", "marshalBinary"},
	{"pkg/candevice", "CtrlMode", "unmarshalBinary"},
	{"pkg/candevice", "BusErrorCounters", "unmarshalBinary"},
	{"pkg/candevice", "Stats", "unmarshalBinary"},
	{"pkg/socketcan", "", "scanFrames"},
	{"pkg/socketcan", "frame", "encodeFrame"},
	{"pkg/socketcan", "frame", "decodeFrame"},
	{"pkg/socketcan", "frame", "isExtended"},
	{"pkg/socketcan", "frame", "isRemote"},
	{"pkg/socketcan", "frame", "isError"},
	{"pkg/socketcan", "frame", "id"},
	{"pkg/socketcan", "frame", "unmarshalBinary"},
	{"pkg/socketcan", "frame", "marshalBinary"},
	{"pkg/socketcan", "frame", "errorClass"},
	{"pkg/socketcan", "frame", "lostArbitrationBit"},
	{"pkg/socketcan", "frame", "controllerError"},
	{"pkg/socketcan", "frame", "protocolError"},
	{"pkg/socketcan", "frame", "protocolErrorLocation"},
	{"pkg/socketcan", "frame", "transceiverError"},
	{"pkg/socketcan", "frame", "controllerSpecificInformation"},
	{"pkg/socketcan", "frame", "decodeErrorFrame"},
	{"pkg/dbc", "MessageID", "IsExtended"},
	{"pkg/dbc", "MessageID", "ToCAN"},
	{"pkg/dbc", "MessageID", "Validate"},
	{"internal/identifiers", "", "IsAlphaChar"},
	{"internal/identifiers", "", "IsNumChar"},
	{"pkg/dbc", "SignalValueType", "Validate"},
	{"pkg/dbc", "AccessType", "Validate"},
	{"pkg/dbc", "EnvironmentVariableType", "Validate"},
	{"pkg/dbc", "AttributeValueType", "Validate"},
	{"pkg/dbc", "ObjectType", "Validate"},
	{"pkg/descriptor", "Database", "Message"},
	{"pkg/descriptor", "Database", "Node"},
	{"pkg/descriptor", "Database", "Signal"},
	{"pkg/descriptor", "Message", "MultiplexerSignal"},
	{"pkg/descriptor", "Signal", "ValueDescription"},
	{"pkg/descriptor", "Signal", "UnmarshalValueDescription"},
	{"pkg/dbc", "Identifier", "Validate"},
	{"internal/identifiers", "", "IsCamelCase"},
	{"", "Frame", "String"},
	{"", "Frame", "UnmarshalString"},
	{"", "Frame", "JSON"},
	{"", "Frame", "UnmarshalJSON"},
	{"pkg/canjson", "", "uintToJSON"},
	{"pkg/canjson", "", "intToJSON"},
	{"pkg/canjson", "", "floatToJSON"},
	{"pkg/canjson", "signal", "setUnsignedValue"},
	{"pkg/canjson", "signal", "setSignedValue"},
	{"pkg/canjson", "signal", "setBoolValue"},
	{"pkg/canjson", "signal", "set"},
	{"pkg/cantext", "", "AppendSignalCompact"},
	{"pkg/cantext", "", "AppendSignal"},
	{"pkg/cantext", "", "AppendID"},
	{"pkg/cantext", "", "appendAttributeString"},
	{"pkg/cantext", "", "AppendSender"},
	{"pkg/cantext", "", "Marshal"},
	{"pkg/cantext", "", "MarshalCompact"},
	{"pkg/cantext", "", "MessageString"},
	{"pkg/cantext", "", "AppendCycleTime"},
	{"pkg/cantext", "", "AppendDelayTime"},
}

// ---------------------------------------------------------------------------- errors

type transErr struct{ msg string }

type translator struct {
	root    string
	fset    *token.FileSet
	pkgs    map[string]*packages.Package // by import path
	decls   map[string]*fnDecl           // by key
	fns     map[string]*fn               // analysed functions by key
	order   []*fn                        // callees first
	structs map[string]*structInfo       // by qualified type name
	sorder  []*structInfo
	names   map[string]string // Coq global name -> what owns it
	cur     *fn               // function being processed (for messages)

	usesFloat bool // a float type was classified: Translated.v imports Translate.GoSemFloat
	usesText  bool // a text library function / string operation of GoSemText.v is used: imports Translate.GoSemText
}

func (t *translator) failf(pos token.Pos, format string, a ...interface{}) {
	where := "?"
	if pos.IsValid() {
		p := t.fset.Position(pos)
		rel, err := filepath.Rel(t.root, p.Filename)
		if err != nil {
			rel = p.Filename
		}
		where = fmt.Sprintf("%s:%d:%d", rel, p.Line, p.Column)
	}
	in := ""
	if t.cur != nil {
		in = " (in " + t.cur.display + ")"
	}
	panic(transErr{fmt.Sprintf("%s: %s%s", where, fmt.Sprintf(format, a...), in)})
}

// ---------------------------------------------------------------------------- types of the subset

type kind int

const (
	kInt kind = iota
	kBool
	kArray
	kStruct
	kErr
	kFloat // float64 / float32 (bits = 64 / 32); semantics: Translate/GoSemFloat.v
	kBytes // []byte: a list of bytes (nil = empty)
	kLen   // a slice whose elements are outside the subset: only its length is kept (len(x))
	kString
	kBasicTy // go/types.Type values obtained as types.Typ[kind]: the kind
	kList    // []*S / []S with S a named struct of the subset: the list of the element VALUES
	kIface   // the interface generated.Message: the PAIR (value of Frame(), value of Descriptor()); st / st2
)

type gtype struct {
	k      kind
	signed bool
	bits   int
	n      int64
	st     *structInfo
	st2    *structInfo // kIface: the struct behind Descriptor() (st: the one Frame() returns)
	ptr    bool
	opt    bool // a *S result or local: option S (nil = None); parameters/receivers of type *S are the value
	popt   bool // *string / *uint8 / *bool (struct members filled by json.Unmarshal): option of the base type (nil = None)
}

type structInfo struct {
	qual   string // "pkgpath.Name"
	coq    string // Coq record name
	named  *types.Named
	st     *types.Struct
	used   map[string]bool
	fields []*types.Var // used fields in declaration order (filled by finish)
}

func (t *translator) classify(pos token.Pos, typ types.Type) gtype {
	if p, ok := typ.(*types.Pointer); ok {
		if n, ok := p.Elem().(*types.Named); ok && n.Obj().Pkg() != nil && n.Obj().Pkg().Path() == "go/types" && n.Obj().Name() == "Basic" {
			return gtype{k: kBasicTy} // only ever obtained as types.Typ[kind]
		}
		if b, ok := p.Elem().(*types.Basic); ok && (b.Kind() == types.String || b.Kind() == types.Uint8 || b.Kind() == types.Bool) {
			g := t.classify(pos, b)
			g.popt = true // only read: == nil, != nil, *p
			return g
		}
		g := t.classify(pos, p.Elem())
		if g.ptr || (g.k != kArray && g.k != kStruct) {
			t.failf(pos, "pointer type %s is outside the subset", typ)
		}
		g.ptr = true
		return g
	}
	if types.Identical(typ, types.Universe.Lookup("error").Type()) {
		return gtype{k: kErr}
	}
	switch u := typ.Underlying().(type) {
	case *types.Basic:
		switch u.Kind() {
		case types.Bool, types.UntypedBool:
			return gtype{k: kBool}
		case types.Uint8:
			return gtype{k: kInt, bits: 8}
		case types.Uint16:
			return gtype{k: kInt, bits: 16}
		case types.Uint32:
			return gtype{k: kInt, bits: 32}
		case types.Uint64, types.Uint:
			return gtype{k: kInt, bits: 64}
		case types.Int8:
			return gtype{k: kInt, bits: 8, signed: true}
		case types.Int16:
			return gtype{k: kInt, bits: 16, signed: true}
		case types.Int32:
			return gtype{k: kInt, bits: 32, signed: true}
		case types.Int64, types.Int:
			return gtype{k: kInt, bits: 64, signed: true}
		case types.Float64:
			t.usesFloat = true
			return gtype{k: kFloat, bits: 64}
		case types.Float32:
			t.usesFloat = true
			return gtype{k: kFloat, bits: 32}
		case types.String:
			return gtype{k: kString}
		}
	case *types.Array:
		if b, ok := u.Elem().Underlying().(*types.Basic); ok && b.Kind() == types.Uint8 {
			return gtype{k: kArray, n: u.Len()}
		}
	case *types.Slice:
		if b, ok := u.Elem().Underlying().(*types.Basic); ok && b.Kind() == types.Uint8 {
			return gtype{k: kBytes}
		}
		et := u.Elem()
		if p, ok := et.(*types.Pointer); ok {
			et = p.Elem()
		}
		if n, ok := et.(*types.Named); ok {
			if est, ok := n.Underlying().(*types.Struct); ok && n.Obj().Pkg() != nil && strings.HasPrefix(n.Obj().Pkg().Path(), modPath) {
				return gtype{k: kList, st: t.structOf(n, est)}
			}
		}
		return gtype{k: kLen}
	case *types.Interface:
		if n, ok := typ.(*types.Named); ok && n.Obj().Pkg() != nil && n.Obj().Pkg().Path() == "go/types" && n.Obj().Name() == "Type" {
			return gtype{k: kBasicTy}
		}
		if isGeneratedMessage(typ) {
			// generated.Message: read as the pair of the values its methods Frame() and Descriptor() return
			g := gtype{k: kIface}
			for i := 0; i < u.NumMethods(); i++ {
				m := u.Method(i)
				sig := m.Type().(*types.Signature)
				if sig.Params().Len() != 0 || sig.Results().Len() != 1 {
					continue
				}
				switch m.Name() {
				case "Frame":
					g.st = t.classify(pos, sig.Results().At(0).Type()).st
				case "Descriptor":
					g.st2 = t.classify(pos, sig.Results().At(0).Type()).st
				}
			}
			if g.st == nil || g.st2 == nil {
				t.failf(pos, "generated.Message without Frame() / Descriptor() of struct type")
			}
			return g
		}
	case *types.Struct:
		if n, ok := typ.(*types.Named); ok {
			return gtype{k: kStruct, st: t.structOf(n, u)}
		}
	}
	t.failf(pos, "type %s is outside the subset", typ)
	panic("unreachable")
}

func (t *translator) structOf(n *types.Named, st *types.Struct) *structInfo {
	q := n.Obj().Pkg().Path() + "." + n.Obj().Name()
	if s, ok := t.structs[q]; ok {
		return s
	}
	s := &structInfo{qual: q, coq: n.Obj().Name(), named: n, st: st, used: map[string]bool{}}
	t.claim(s.coq, "struct "+q)
	t.structs[q] = s
	t.sorder = append(t.sorder, s)
	return s
}

func (t *translator) claim(name, owner string) {
	if o, ok := t.names[name]; ok && o != owner {
		t.failf(token.NoPos, "Coq name %s needed for %s is already used for %s", name, owner, o)
	}
	t.names[name] = owner
}

func isGeneratedMessage(typ types.Type) bool {
	n, ok := typ.(*types.Named)
	if !ok || n.Obj().Pkg() == nil {
		return false
	}
	_, isIface := n.Underlying().(*types.Interface)
	return isIface && n.Obj().Pkg().Path() == modPath+"/pkg/generated" && n.Obj().Name() == "Message"
}

// ifaceCall: x.Frame() / x.Descriptor() on a variable x of type generated.Message: the component of the pair.
func ifaceCall(info *types.Info, call *ast.CallExpr) (*ast.Ident, string, bool) {
	sel, ok := ast.Unparen(call.Fun).(*ast.SelectorExpr)
	if !ok || len(call.Args) != 0 {
		return nil, "", false
	}
	s, ok := info.Selections[sel]
	if !ok || s.Kind() != types.MethodVal || !isGeneratedMessage(s.Recv()) {
		return nil, "", false
	}
	id, ok := ast.Unparen(sel.X).(*ast.Ident)
	if !ok || (sel.Sel.Name != "Frame" && sel.Sel.Name != "Descriptor") {
		return nil, "", false
	}
	return id, sel.Sel.Name, true
}

func (g gtype) coq() string {
	if g.popt {
		h := g
		h.popt = false
		return "(option " + h.coq() + ")"
	}
	switch g.k {
	case kInt:
		return "Z"
	case kBool:
		return "bool"
	case kArray:
		return "data"
	case kStruct:
		if g.opt {
			return "(option " + g.st.coq + ")"
		}
		return g.st.coq
	case kList:
		return "(list " + g.st.coq + ")"
	case kFloat:
		return fmt.Sprintf("go_f%d", g.bits)
	case kBytes:
		return "go_bytes"
	case kLen:
		return "go_len"
	case kString:
		return "go_string"
	case kBasicTy:
		return "go_basic_type"
	}
	return "err"
}

// same: identical types of the subset (pointer-ness aside).
func (g gtype) same(h gtype) bool {
	if g.k != h.k || g.popt != h.popt {
		return false
	}
	switch g.k {
	case kInt:
		return g.bits == h.bits && g.signed == h.signed
	case kFloat:
		return g.bits == h.bits
	case kArray:
		return g.n == h.n
	case kStruct, kList:
		return g.st == h.st
	case kIface:
		return g.st == h.st && g.st2 == h.st2
	}
	return true
}

func (t *translator) zero(pos token.Pos, g gtype) string {
	if g.popt {
		return "None"
	}
	switch g.k {
	case kInt:
		return "0"
	case kBool:
		return "false"
	case kArray:
		return fmt.Sprintf("(data_zero %d)", g.n)
	case kErr:
		return "err_nil"
	case kFloat:
		return fmt.Sprintf("(go_f%d_const 0)", g.bits)
	case kBytes:
		return "bytes_nil"
	case kLen:
		return "0"
	case kString:
		return "(@nil Z)"
	case kList:
		return "[]"
	case kBasicTy:
		t.failf(pos, "zero value of go/types.Type")
	}
	if g.opt {
		return "None"
	}
	if len(g.st.fields) == 0 {
		return "mk_" + g.st.coq
	}
	// struct: only meaningful once the used-field set is complete (phase 2)
	var parts []string
	for _, f := range g.st.fields {
		parts = append(parts, fmt.Sprintf("%s_%s := %s", g.st.coq, f.Name(), t.zero(pos, t.classify(pos, f.Type()))))
	}
	return "{| " + strings.Join(parts, "; ") + " |}"
}

// ---------------------------------------------------------------------------- functions

type fnDecl struct {
	pkg  *packages.Package
	decl *ast.FuncDecl
	obj  *types.Func
}

type param struct {
	v    *types.Var
	g    gtype
	name string
}

type fn struct {
	key, coq, display string
	d                 *fnDecl
	params            []*param // receiver first
	res               *gtype   // nil: no result; otherwise the first result
	results           []gtype  // all results
	mut               *param   // pointer (or []byte) parameter written through, or nil
	oracles           []string // uninterpreted library functions used (own and callees'): leading parameters
	partial           bool     // contains an explicit bounds check `_ = b[k]`: result type option (None = panic)
	state             int      // 1 = being analysed, 2 = analysed
	text              string
	pos               token.Position
}

func funcKey(f *types.Func) string {
	sig := f.Type().(*types.Signature)
	if r := sig.Recv(); r != nil {
		rt := r.Type()
		if p, ok := rt.(*types.Pointer); ok {
			rt = p.Elem()
		}
		if n, ok := rt.(*types.Named); ok {
			return f.Pkg().Path() + "." + n.Obj().Name() + "." + f.Name()
		}
		return f.Pkg().Path() + ".?." + f.Name()
	}
	return f.Pkg().Path() + "." + f.Name()
}

func (t *translator) index() {
	for _, p := range t.pkgs {
		for _, file := range p.Syntax {
			for _, d := range file.Decls {
				fd, ok := d.(*ast.FuncDecl)
				if !ok {
					continue
				}
				obj, ok := p.TypesInfo.Defs[fd.Name].(*types.Func)
				if !ok {
					continue
				}
				t.decls[funcKey(obj)] = &fnDecl{pkg: p, decl: fd, obj: obj}
			}
		}
	}
}

func wlKey(pkg, recv, name string) string {
	path := modPath
	if pkg != "" {
		path += "/" + pkg
	}
	if recv != "" {
		return path + "." + recv + "." + name
	}
	return path + "." + name
}

func wlCoq(pkg, recv, name string) string {
	if recv == "" && name == "Marshal" && (pkg == "pkg/cantext" || pkg == "pkg/canjson") {
		return pkg[len("pkg/"):] + "_Marshal" // two functions of that name
	}
	if recv != "" {
		return recv + "_" + name
	}
	return name
}

var wlByKey = map[string]string{} // key -> Coq name

// callee resolves the function a call expression invokes (nil for conversions / builtins).
func calleeOf(info *types.Info, call *ast.CallExpr) *types.Func {
	fun := ast.Unparen(call.Fun)
	switch f := fun.(type) {
	case *ast.Ident:
		if o, ok := info.Uses[f].(*types.Func); ok {
			return o
		}
	case *ast.SelectorExpr:
		if sel, ok := info.Selections[f]; ok {
			if o, ok := sel.Obj().(*types.Func); ok {
				return o
			}
			return nil
		}
		if o, ok := info.Uses[f.Sel].(*types.Func); ok {
			return o
		}
	}
	return nil
}

func isErrorf(f *types.Func) bool {
	return f != nil && f.Pkg() != nil && f.Pkg().Path() == "fmt" && f.Name() == "Errorf"
}

// rootIdent strips parentheses, &, *, indexing and field selection.
func rootIdent(e ast.Expr) *ast.Ident {
	for {
		switch x := e.(type) {
		case *ast.ParenExpr:
			e = x.X
		case *ast.StarExpr:
			e = x.X
		case *ast.UnaryExpr:
			if x.Op != token.AND {
				return nil
			}
			e = x.X
		case *ast.IndexExpr:
			e = x.X
		case *ast.SliceExpr:
			e = x.X
		case *ast.SelectorExpr:
			e = x.X
		case *ast.Ident:
			return x
		default:
			return nil
		}
	}
}

// analyse: phase 1 for one function (callees first): signature, callees, used struct fields,
// the pointer parameter written through.
func (t *translator) analyse(key string, from token.Pos) *fn {
	if f, ok := t.fns[key]; ok {
		if f.state == 1 {
			t.failf(from, "recursive call of %s is outside the subset", key)
		}
		return f
	}
	coq, ok := wlByKey[key]
	if !ok {
		t.failf(from, "call of %s, which is not a whitelisted function", key)
	}
	d, ok := t.decls[key]
	if !ok {
		t.failf(from, "whitelisted function %s does not exist in the source tree", key)
	}
	saved := t.cur
	defer func() { t.cur = saved }()
	f := &fn{key: key, coq: coq, d: d, state: 1, display: strings.TrimPrefix(strings.TrimPrefix(key, modPath), "/")}
	f.display = strings.TrimPrefix(f.display, ".")
	f.pos = t.fset.Position(d.decl.Pos())
	t.fns[key] = f
	t.cur = f
	t.claim(coq, "function "+key)
	if d.decl.Body == nil {
		t.failf(d.decl.Pos(), "function without body")
	}
	sig := d.obj.Type().(*types.Signature)
	if sig.Variadic() || sig.TypeParams() != nil || sig.RecvTypeParams() != nil {
		t.failf(d.decl.Pos(), "variadic or generic function")
	}
	named := map[*types.Var]bool{}
	add := func(v *types.Var) {
		// (an unnamed or blank parameter cannot be mentioned by the body; it stays a parameter of the
		// translated function)
		f.params = append(f.params, &param{v: v, g: t.classify(v.Pos(), v.Type())})
	}
	if r := sig.Recv(); r != nil {
		add(r)
	}
	for i := 0; i < sig.Params().Len(); i++ {
		add(sig.Params().At(i))
	}
	for _, p := range f.params {
		if p.g.k == kErr {
			t.failf(p.v.Pos(), "parameter of type error")
		}
	}
	for i := 0; i < sig.Results().Len(); i++ {
		rv := sig.Results().At(i)
		if rv.Name() != "" && rv.Name() != "_" {
			// a named result is accepted when the body never mentions it outside the one recognised
			// `defer` (errWrapDefer): every return then has explicit values
			named[rv] = true
		}
		g := t.classify(d.decl.Type.Results.Pos(), rv.Type())
		if g.ptr {
			if g.k != kStruct {
				t.failf(d.decl.Type.Results.Pos(), "pointer result")
			}
			g.ptr, g.opt = false, true // *S result: option S
		}
		f.results = append(f.results, g)
	}
	if len(f.results) > 0 {
		f.res = &f.results[0]
	}
	info := d.pkg.TypesInfo
	paramOf := func(id *ast.Ident) *param {
		if id == nil {
			return nil
		}
		o := info.Uses[id]
		for _, p := range f.params {
			if types.Object(p.v) == o {
				return p
			}
		}
		return nil
	}
	mutated := map[*param]token.Pos{}
	rebound := map[*param]token.Pos{}
	noteWrite := func(lhs ast.Expr) {
		if p := paramOf(rootIdent(lhs)); p != nil && (p.g.ptr || p.g.k == kBytes) {
			if _, isIdent := ast.Unparen(lhs).(*ast.Ident); isIdent {
				if p.g.k == kBytes && !p.g.ptr {
					// `buf = append(buf, ...)`: the parameter variable is REBOUND (block1 accepts only the
					// append-style right-hand sides); nothing is written through it
					rebound[p] = lhs.Pos()
					return
				}
				t.failf(lhs.Pos(), "assignment to the pointer / []byte parameter %s itself", p.v.Name())
			}
			if _, seen := mutated[p]; !seen {
				mutated[p] = lhs.Pos()
			}
		}
	}
	ast.Inspect(d.decl.Body, func(n ast.Node) bool {
		switch x := n.(type) {
		case *ast.DeferStmt:
			if errWrapDefer(info, x) {
				return false // no effect on the nil-ness of the error result
			}
			t.failf(x.Pos(), "defer (other than `defer func() { if err != nil { err = fmt.Errorf(...) } }()` on a named error result)")
		case *ast.Ident:
			if v, ok := info.Uses[x].(*types.Var); ok && named[v] {
				t.failf(x.Pos(), "use of the named result %s", x.Name)
			}
		case *ast.FuncLit:
			t.failf(x.Pos(), "function literal")
		case *ast.IndexExpr:
			// s[i] on a string, parts[k] on a []string: the index panic is modelled (GoSemText.v)
			if tv, ok := info.Types[x.X]; ok && tv.Type != nil {
				switch u := tv.Type.Underlying().(type) {
				case *types.Basic:
					if u.Info()&types.IsString != 0 && tv.Value == nil {
						f.partial = true
					}
				case *types.Slice:
					if b, ok := u.Elem().Underlying().(*types.Basic); ok && b.Info()&types.IsString != 0 {
						f.partial = true
					}
				}
			}
		case *ast.SliceExpr:
			if tv, ok := info.Types[x.X]; ok && tv.Type != nil {
				if b, ok := tv.Type.Underlying().(*types.Basic); ok && b.Info()&types.IsString != 0 {
					f.partial = true
				}
			}
		case *ast.AssignStmt:
			if isBoundsCheck(x) {
				f.partial = true
			}
			for _, l := range x.Lhs {
				noteWrite(l)
			}
		case *ast.IncDecStmt:
			noteWrite(x.X)
		case *ast.SelectorExpr:
			if sel, ok := info.Selections[x]; ok && sel.Kind() == types.FieldVal {
				for _, st := range t.fieldSteps(x.Pos(), sel) {
					st.st.used[st.fld.Name()] = true
				}
			}
		case *ast.CompositeLit:
			tv := info.Types[x]
			g := t.classify(x.Pos(), tv.Type)
			if g.k == kArray && !g.ptr && len(x.Elts) == 0 {
				return true // Data{}: the zero array
			}
			if g.k != kStruct || g.ptr {
				t.failf(x.Pos(), "composite literal of type %s", tv.Type)
			}
			for _, el := range x.Elts {
				kv, ok := el.(*ast.KeyValueExpr)
				if !ok {
					t.failf(el.Pos(), "struct literal without field names")
				}
				id, ok := kv.Key.(*ast.Ident)
				if !ok {
					t.failf(kv.Pos(), "struct literal key")
				}
				g.st.used[id.Name] = true
			}
		case *ast.CallExpr:
			if tv, ok := info.Types[x.Fun]; ok && tv.IsType() {
				return true
			}
			if b := builtinOf(info, x); b != "" {
				switch b {
				case "len", "make":
				case "append":
					t.usesText = true // GoSemText.v go_append
				case "copy":
					if len(x.Args) == 2 {
						noteWrite(x.Args[0])
					}
				default:
					t.failf(x.Pos(), "call of the builtin %s", b)
				}
				return true
			}
			if _, _, ok := ifaceCall(info, x); ok {
				return true
			}
			callee := calleeOf(info, x)
			if callee == nil {
				t.failf(x.Pos(), "call of a function value or an interface method")
			}
			if isErrorf(callee) {
				return false // arguments are ignored
			}
			if _, ok := putIntrinsicOf(callee); ok {
				if len(x.Args) == 2 {
					noteWrite(x.Args[0])
				}
				return true
			}
			if _, ok := intrinsicOf(callee); ok {
				return true // semantics in GoSem*.v; the arguments are ordinary expressions
			}
			if o, ok := t.floatFmt(info, x, callee); ok {
				t.usesText = true
				f.addOracle(o)
				return true
			}
			if isJSONUnmarshal(callee) {
				id := jsonTarget(info, x)
				if id == nil {
					t.failf(x.Pos(), "json.Unmarshal whose second argument is not &x with x a variable")
				}
				g := t.classify(id.Pos(), info.TypeOf(id))
				if g.k != kStruct || g.ptr || g.opt {
					t.failf(x.Pos(), "json.Unmarshal into a %s", info.TypeOf(id))
				}
				for i := 0; i < g.st.st.NumFields(); i++ {
					g.st.used[g.st.st.Field(i).Name()] = true
				}
				t.usesText = true
				f.addOracle(jsonOraclePrefix + g.st.coq)
				return true
			}
			if _, ok := textLibOf(callee); ok {
				t.usesText = true
				for _, a := range x.Args {
					// a[lo:hi] of an array with a non-constant bound as an argument: its panic is modelled
					if sl, ok := ast.Unparen(a).(*ast.SliceExpr); ok {
						if _, isArr := info.TypeOf(sl.X).Underlying().(*types.Array); isArr {
							for _, bnd := range []ast.Expr{sl.Low, sl.High} {
								if bnd != nil && info.Types[bnd].Value == nil {
									f.partial = true
								}
							}
						}
					}
				}
				return true
			}
			if o, ok := oracleOf(callee); ok {
				f.addOracle(o)
				return true
			}
			g := t.analyse(funcKey(callee), x.Pos())
			for _, o := range g.oracles {
				f.addOracle(o)
			}
			if g.partial {
				t.failf(x.Pos(), "call of %s, which contains an explicit bounds check (may panic)", g.display)
			}
			if g.mut != nil {
				args := t.callArgs(info, x, g)
				for i, p := range g.params {
					if p == g.mut {
						noteWrite(&ast.StarExpr{Star: args[i].Pos(), X: args[i]})
					}
				}
			}
		}
		return true
	})
	for p, pos := range rebound {
		if _, both := mutated[p]; both {
			t.failf(pos, "[]byte parameter %s is both rebound and written through", p.v.Name())
		}
	}
	if len(mutated) > 1 {
		t.failf(d.decl.Pos(), "writes through more than one pointer parameter")
	}
	for p := range mutated {
		f.mut = p
	}
	// a function with results that also writes through a pointer parameter returns the pair
	// (final value of that parameter, results...)
	if f.mut == nil && f.res == nil {
		t.failf(d.decl.Pos(), "function without result that writes through no pointer parameter (no observable effect in the subset)")
	}
	f.state = 2
	t.order = append(t.order, f)
	return f
}

// fieldSteps: the chain of (struct, field) steps of a field selection x.f, including the implicit
// steps through embedded struct fields (x.f = x.Emb.f).
type fieldStep struct {
	st  *structInfo
	fld *types.Var
}

func (t *translator) fieldSteps(pos token.Pos, sel *types.Selection) []fieldStep {
	cur := sel.Recv()
	var steps []fieldStep
	for i, idx := range sel.Index() {
		if p, ok := cur.(*types.Pointer); ok {
			if i != 0 {
				t.failf(pos, "selection through an embedded pointer")
			}
			cur = p.Elem()
		}
		g := t.classify(pos, cur)
		if g.k != kStruct {
			t.failf(pos, "field selection on %s", cur)
		}
		fld := g.st.st.Field(idx)
		steps = append(steps, fieldStep{g.st, fld})
		cur = fld.Type()
	}
	return steps
}

// errWrapDefer recognises
//
//	defer func() { if err != nil { err = fmt.Errorf(...) } }()
//
// with err a variable of type error (the named result): it replaces a non-nil error by another
// non-nil error and leaves nil alone, so under the reduction of errors to nil / non-nil it is a no-op.
func errWrapDefer(info *types.Info, d *ast.DeferStmt) bool {
	fl, ok := d.Call.Fun.(*ast.FuncLit)
	if !ok || len(d.Call.Args) != 0 || fl.Type.Params.NumFields() != 0 || fl.Type.Results.NumFields() != 0 || len(fl.Body.List) != 1 {
		return false
	}
	ifs, ok := fl.Body.List[0].(*ast.IfStmt)
	if !ok || ifs.Init != nil || ifs.Else != nil || len(ifs.Body.List) != 1 {
		return false
	}
	cond, ok := ifs.Cond.(*ast.BinaryExpr)
	if !ok || cond.Op != token.NEQ {
		return false
	}
	ev, ok := cond.X.(*ast.Ident)
	if !ok || !info.Types[cond.Y].IsNil() {
		return false
	}
	v, ok := info.Uses[ev].(*types.Var)
	if !ok || !types.Identical(v.Type(), types.Universe.Lookup("error").Type()) {
		return false
	}
	as, ok := ifs.Body.List[0].(*ast.AssignStmt)
	if !ok || as.Tok != token.ASSIGN || len(as.Lhs) != 1 || len(as.Rhs) != 1 {
		return false
	}
	if l, ok := as.Lhs[0].(*ast.Ident); !ok || info.Uses[l] != types.Object(v) {
		return false
	}
	call, ok := as.Rhs[0].(*ast.CallExpr)
	return ok && isErrorf(calleeOf(info, call))
}

// isBoundsCheck: the statement `_ = x[k]` (the idiom that makes the compiler check len(x) > k once).
func isBoundsCheck(s *ast.AssignStmt) bool {
	if s.Tok != token.ASSIGN || len(s.Lhs) != 1 || len(s.Rhs) != 1 {
		return false
	}
	id, ok := s.Lhs[0].(*ast.Ident)
	if !ok || id.Name != "_" {
		return false
	}
	_, ok = ast.Unparen(s.Rhs[0]).(*ast.IndexExpr)
	return ok
}

func builtinOf(info *types.Info, call *ast.CallExpr) string {
	if id, ok := ast.Unparen(call.Fun).(*ast.Ident); ok {
		if b, ok := info.Uses[id].(*types.Builtin); ok {
			return b.Name()
		}
	}
	return ""
}

// callArgs returns the argument expressions of a call in the order of g.params (receiver first).
func (t *translator) callArgs(info *types.Info, call *ast.CallExpr, g *fn) []ast.Expr {
	var args []ast.Expr
	if g.d.obj.Type().(*types.Signature).Recv() != nil {
		sel, ok := ast.Unparen(call.Fun).(*ast.SelectorExpr)
		if !ok {
			t.failf(call.Pos(), "method call through a method value/expression")
		}
		if s, ok := info.Selections[sel]; !ok || s.Kind() != types.MethodVal || len(s.Index()) != 1 {
			t.failf(call.Pos(), "method expression or promoted method")
		}
		args = append(args, sel.X)
	}
	args = append(args, call.Args...)
	if len(args) != len(g.params) || call.Ellipsis.IsValid() {
		t.failf(call.Pos(), "call with %d arguments for %d parameters", len(args), len(g.params))
	}
	return args
}

// ---------------------------------------------------------------------------- phase 2: bodies

type fctx struct {
	t     *translator
	f     *fn
	info  *types.Info
	vars  map[types.Object]string // Go variable -> Coq name
	taken map[string]bool
	// optVars: locals of type *S (range variables over a []*S, results of calls): option S
	optVars map[types.Object]bool
	loops   []string // enclosing loops, innermost last: the tuple of the loop's state variables
	// guards: the run-time panic conditions (Coq bools that must hold) of the expressions translated so far
	// for the CURRENT statement (string index / slice, array slice with non-constant bounds, []string index);
	// block() prints them in front of the statement: if negb (g1 && g2) then None else ...
	guards []string
	// strLists: locals bound to strings.Split(...): the list of the pieces (GoSemText.v)
	strLists map[types.Object]bool
}

func pad(n int) string { return strings.Repeat(" ", n) }

func (c *fctx) declare(o types.Object) string {
	if n, ok := c.vars[o]; ok {
		return n
	}
	base := "v_" + o.Name()
	n := base
	for i := 1; c.taken[n]; i++ {
		n = fmt.Sprintf("%s_%d", base, i)
	}
	c.taken[n] = true
	c.vars[o] = n
	return n
}

func (c *fctx) typeOf(e ast.Expr) gtype {
	tv, ok := c.info.Types[e]
	if !ok || tv.Type == nil {
		c.t.failf(e.Pos(), "expression without a type")
	}
	typ := tv.Type
	if b, ok := typ.(*types.Basic); ok && b.Info()&types.IsUntyped != 0 {
		if tv.Value == nil && b.Kind() != types.UntypedBool {
			c.t.failf(e.Pos(), "non-constant expression of untyped type %s", typ)
		}
		typ = types.Default(typ)
	}
	return c.t.classify(e.Pos(), typ)
}

func wrap(g gtype, s string) string {
	if g.signed {
		return fmt.Sprintf("(wrap_s %d (%s))", g.bits, s)
	}
	return fmt.Sprintf("(wrap_u %d (%s))", g.bits, s)
}

func (c *fctx) constant(e ast.Expr, v constant.Value) string {
	switch v.Kind() {
	case constant.Bool:
		if constant.BoolVal(v) {
			return "true"
		}
		return "false"
	case constant.Int, constant.Float:
		g := c.typeOf(e)
		if g.k == kFloat {
			return c.t.floatConst(e.Pos(), g, v)
		}
		if g.k != kInt {
			c.t.failf(e.Pos(), "numeric constant of non-integer type")
		}
		iv := constant.ToInt(v)
		if iv.Kind() != constant.Int {
			c.t.failf(e.Pos(), "constant %s is not an integer", v.ExactString())
		}
		s := iv.ExactString()
		if strings.HasPrefix(s, "-") {
			return "(" + s + ")"
		}
		return s
	case constant.String:
		if g := c.typeOf(e); g.k != kString {
			c.t.failf(e.Pos(), "string constant of non-string type")
		}
		return stringLit(constant.StringVal(v))
	}
	c.t.failf(e.Pos(), "constant %s of a kind outside the subset", v.ExactString())
	panic("unreachable")
}

// stringLit: a Go string as the list of its bytes, with the text as a comment.
func stringLit(v string) string {
	var parts []string
	for i := 0; i < len(v); i++ {
		parts = append(parts, fmt.Sprint(v[i]))
	}
	note := ""
	if ok, _ := regexp.MatchString(`^[A-Za-z0-9_ .,:/-]*$`, v); ok {
		note = " (* \"" + v + "\" *)"
	}
	return "[" + strings.Join(parts, "; ") + "]" + note
}

// floatConst: the IEEE bit pattern of a constant of type float64 / float32. go/types has already
// checked representability and rounded the typed constant (round to nearest even); Float64Val /
// Float32Val give that nearest value. Go constants have no negative zero, no infinity, no NaN.
func (t *translator) floatConst(pos token.Pos, g gtype, v constant.Value) string {
	fv := constant.ToFloat(v)
	if fv.Kind() != constant.Float {
		t.failf(pos, "constant %s cannot be read as a floating-point number", v.ExactString())
	}
	if g.bits == 64 {
		f, _ := constant.Float64Val(fv)
		if math.IsInf(f, 0) || math.IsNaN(f) {
			t.failf(pos, "constant %s is not a finite float64", v.ExactString())
		}
		if f == 0 {
			f = 0 // +0: an underflowing negative constant still is the constant 0
		}
		return fmt.Sprintf("(go_f64_const 0x%016x)", math.Float64bits(f))
	}
	f, _ := constant.Float32Val(fv)
	if math.IsInf(float64(f), 0) || f != f {
		t.failf(pos, "constant %s is not a finite float32", v.ExactString())
	}
	if f == 0 {
		f = 0
	}
	return fmt.Sprintf("(go_f32_const 0x%08x)", math.Float32bits(f))
}

// intrinsics: library functions with a fixed reading in GoSem*.v (part of the trusted base).
type intrinsic struct {
	coq      string
	params   []gtype
	res      gtype
	sliceLen int64 // > 0: the (single) []byte argument must have exactly this length
	atLeast  bool  // ... or (encoding/binary) at least this length: only the first sliceLen bytes are read
}

var (
	gF64  = gtype{k: kFloat, bits: 64}
	gF32  = gtype{k: kFloat, bits: 32}
	gU32  = gtype{k: kInt, bits: 32}
	gU64  = gtype{k: kInt, bits: 64}
	gBool = gtype{k: kBool}
	gByts = gtype{k: kBytes}
)

const nlencPath = "github.com/mdlayher/netlink/nlenc"

// putIntrinsics: nlenc.PutXxx(b, v) stores v in host (little-endian) order THROUGH the slice b;
// only accepted as a statement whose first argument is (a constant sub-slice of) a variable.
type putIntrinsic struct {
	coq     string
	size    int64
	val     gtype
	atLeast bool // encoding/binary: the slice may be longer, the first size bytes are written
}

// libKey: the table key of a library function: "pkgpath.Name" for package-level functions,
// "encoding/binary.LittleEndian.Name" for the methods of encoding/binary's littleEndian (a struct{}
// without state: every value of the type, in particular the variable binary.LittleEndian, behaves
// the same, so the receiver expression is not looked at).
func libKey(f *types.Func) (string, bool) {
	if f == nil || f.Pkg() == nil {
		return "", false
	}
	if r := f.Type().(*types.Signature).Recv(); r != nil {
		if n, ok := r.Type().(*types.Named); ok && f.Pkg().Path() == "encoding/binary" && n.Obj().Name() == "littleEndian" {
			return "encoding/binary.LittleEndian." + f.Name(), true
		}
		if n, ok := r.Type().(*types.Named); ok && f.Pkg().Path() == "time" && n.Obj().Name() == "Duration" {
			return "time.Duration." + f.Name(), true // method of the integer type time.Duration
		}
		return "", false
	}
	return f.Pkg().Path() + "." + f.Name(), true
}

const binLE = "encoding/binary.LittleEndian"

// oracles: library functions WITHOUT a model (Unicode tables). A translated function that uses one
// (directly or through a callee) takes it as a leading parameter of type Z -> bool; the lemma about
// the function is then stated for EVERY such function, in particular the real one.
var oracles = map[string]string{
	"unicode.IsDigit":  "o_unicode_IsDigit",
	"unicode.IsUpper":  "o_unicode_IsUpper",
	"unicode.IsLower":  "o_unicode_IsLower",
	"unicode.IsLetter": "o_unicode_IsLetter",
	// time.Duration.String(): no model (the hand model's GoDuration segment): Z (nanoseconds) -> text
	"time.Duration.String": "o_time_Duration_String",
}

func oracleOf(f *types.Func) (string, bool) {
	k, ok := libKey(f)
	if !ok {
		return "", false
	}
	o, ok := oracles[k]
	return o, ok
}

// oracleType: the unicode predicates are Z -> bool; the two shortest-round-trip float formattings
// (strconv.FormatFloat / AppendFloat with precision -1, bit size 64, format 'g' resp. 'f') are functions
// from the float64's BIT PATTERN (go_math_Float64bits) to the text - exactly how the hand model
// Gen/Render.v carries them (segments FloatG bits / FloatF bits, rendered by a Section variable).
func oracleType(o string) string {
	if strings.HasPrefix(o, jsonOraclePrefix) {
		st := strings.TrimPrefix(o, jsonOraclePrefix)
		return "go_bytes -> " + st + " -> err * " + st
	}
	if strings.HasPrefix(o, "o_strconv_") || strings.HasPrefix(o, "o_time_") {
		return "Z -> go_string"
	}
	return "Z -> bool"
}

// floatFmt: strconv.FormatFloat(f, c, -1, 64) / strconv.AppendFloat(buf, f, c, -1, 64) with c the
// constant 'g' or 'f': the oracle's name. Any other format / precision / bit size is an error.
func (t *translator) floatFmt(info *types.Info, x *ast.CallExpr, callee *types.Func) (string, bool) {
	k, ok := libKey(callee)
	if !ok || (k != "strconv.FormatFloat" && k != "strconv.AppendFloat") {
		return "", false
	}
	first := 0
	if k == "strconv.AppendFloat" {
		first = 1
	}
	if len(x.Args) != first+4 || x.Ellipsis.IsValid() {
		t.failf(x.Pos(), "%s with %d arguments", k, len(x.Args))
	}
	cv := func(i int) int64 {
		tv := info.Types[x.Args[first+i]]
		if tv.Value == nil {
			t.failf(x.Args[first+i].Pos(), "%s with a non-constant format / precision / bit size", k)
		}
		n, exact := constant.Int64Val(constant.ToInt(tv.Value))
		if !exact {
			t.failf(x.Args[first+i].Pos(), "%s: constant %s", k, tv.Value.ExactString())
		}
		return n
	}
	f, prec, bits := cv(1), cv(2), cv(3)
	if prec != -1 || bits != 64 || (f != 'g' && f != 'f') {
		t.failf(x.Pos(), "%s(.., %q, %d, %d) is outside the subset (only 'g' / 'f' with precision -1 and bit size 64)", k, rune(f), prec, bits)
	}
	return "o_strconv_FormatFloat_" + string(rune(f)), true
}

func (f *fn) addOracle(o string) {
	for _, x := range f.oracles {
		if x == o {
			return
		}
	}
	f.oracles = append(f.oracles, o)
	sort.Strings(f.oracles)
}

var putIntrinsics = map[string]putIntrinsic{
	nlencPath + ".PutUint8":  {"nlenc_PutUint8", 1, gtype{k: kInt, bits: 8}, false},
	nlencPath + ".PutUint16": {"nlenc_PutUint16", 2, gtype{k: kInt, bits: 16}, false},
	nlencPath + ".PutUint32": {"nlenc_PutUint32", 4, gU32, false},
	nlencPath + ".PutUint64": {"nlenc_PutUint64", 8, gU64, false},
	nlencPath + ".PutInt32":  {"nlenc_PutInt32", 4, gtype{k: kInt, bits: 32, signed: true}, false},
	binLE + ".PutUint16":     {"binary_le_PutUint16", 2, gtype{k: kInt, bits: 16}, true},
	binLE + ".PutUint32":     {"binary_le_PutUint32", 4, gU32, true},
	binLE + ".PutUint64":     {"binary_le_PutUint64", 8, gU64, true},
}

func putIntrinsicOf(f *types.Func) (putIntrinsic, bool) {
	k, ok := libKey(f)
	if !ok {
		return putIntrinsic{}, false
	}
	in, ok := putIntrinsics[k]
	return in, ok
}

var intrinsics = map[string]intrinsic{
	"math.Max":             {"go_math_Max", []gtype{gF64, gF64}, gF64, 0, false},
	"math.Min":             {"go_math_Min", []gtype{gF64, gF64}, gF64, 0, false},
	"math.IsNaN":           {"go_math_IsNaN", []gtype{gF64}, gBool, 0, false},
	"math.Float32bits":     {"go_math_Float32bits", []gtype{gF32}, gU32, 0, false},
	"math.Float32frombits": {"go_math_Float32frombits", []gtype{gU32}, gF32, 0, false},
	"math.Float64bits":     {"go_math_Float64bits", []gtype{gF64}, gU64, 0, false},
	"math.Float64frombits": {"go_math_Float64frombits", []gtype{gU64}, gF64, 0, false},
	nlencPath + ".Uint8":   {"nlenc_Uint8", []gtype{gByts}, gtype{k: kInt, bits: 8}, 1, false},
	nlencPath + ".Uint16":  {"nlenc_Uint16", []gtype{gByts}, gtype{k: kInt, bits: 16}, 2, false},
	nlencPath + ".Uint32":  {"nlenc_Uint32", []gtype{gByts}, gU32, 4, false},
	nlencPath + ".Uint64":  {"nlenc_Uint64", []gtype{gByts}, gU64, 8, false},
	nlencPath + ".Int32":   {"nlenc_Int32", []gtype{gByts}, gtype{k: kInt, bits: 32, signed: true}, 4, false},
	binLE + ".Uint16":      {"binary_le_Uint16", []gtype{gByts}, gtype{k: kInt, bits: 16}, 2, true},
	binLE + ".Uint32":      {"binary_le_Uint32", []gtype{gByts}, gU32, 4, true},
	binLE + ".Uint64":      {"binary_le_Uint64", []gtype{gByts}, gU64, 8, true},
}

func intrinsicOf(f *types.Func) (intrinsic, bool) {
	k, ok := libKey(f)
	if !ok {
		return intrinsic{}, false
	}
	in, ok := intrinsics[k]
	return in, ok
}

// json.Unmarshal(b, &x) with x a local of a named struct type S of this module HAS NO MODEL: ORACLE
// o_json_Unmarshal_S : go_bytes -> S -> err * S (document, value of x before -> error, value of x after),
// a leading parameter of the translated function; only as `err := json.Unmarshal(b, &x)` (also as the init
// statement of an if). All fields of S count as used. The lemma in Equiv.v is stated for every such function
// that agrees with the hand model's oracle (FrameJSON.read_doc).
const jsonOraclePrefix = "o_json_Unmarshal_"

func isJSONUnmarshal(f *types.Func) bool {
	k, ok := libKey(f)
	return ok && k == "encoding/json.Unmarshal"
}

// jsonTarget: the struct variable x of `json.Unmarshal(b, &x)`.
func jsonTarget(info *types.Info, call *ast.CallExpr) *ast.Ident {
	if len(call.Args) != 2 {
		return nil
	}
	u, ok := ast.Unparen(call.Args[1]).(*ast.UnaryExpr)
	if !ok || u.Op != token.AND {
		return nil
	}
	id, _ := ast.Unparen(u.X).(*ast.Ident)
	return id
}

// optNilTest: `p == nil` / `p != nil` with p of type *string / *uint8 / *bool (an option).
func (c *fctx) optNilTest(x *ast.BinaryExpr) (string, bool) {
	if x.Op != token.EQL && x.Op != token.NEQ {
		return "", false
	}
	v, n := x.X, x.Y
	if c.info.Types[v].IsNil() {
		v, n = n, v
	}
	if !c.info.Types[n].IsNil() || c.info.Types[v].IsNil() {
		return "", false
	}
	if g := c.typeOf(v); !g.popt {
		return "", false
	}
	c.t.usesText = true
	if x.Op == token.NEQ {
		return "(go_notnil " + c.expr(v) + ")", true
	}
	return "(negb (go_notnil " + c.expr(v) + "))", true
}

// textLibs: the string / text-conversion library functions with a fixed reading in Translate/GoSemText.v
// (part of the trusted base: see that file's header for which Go behaviour each name stands for).
// special: "split" (strings.Split(s, "<one byte>"): only as `x := strings.Split(...)`), "sprintf"
// (fmt.Sprintf("%0wX" / "%0wx", unsigned)).
type textLib struct {
	coq     string
	params  []gtype
	results []gtype
	special string
}

var (
	gInt = gtype{k: kInt, bits: 64, signed: true}
	gStr = gtype{k: kString}
	gI64 = gtype{k: kInt, bits: 64, signed: true}
	gErr = gtype{k: kErr}
)

var textLibs = map[string]textLib{
	"strconv.Itoa":                {"go_strconv_Itoa", []gtype{gInt}, []gtype{gStr}, ""},
	"encoding/hex.EncodeToString": {"go_hex_EncodeToString", []gtype{gByts}, []gtype{gStr}, ""},
	"strings.ToUpper":             {"go_strings_ToUpper", []gtype{gStr}, []gtype{gStr}, ""},
	"strconv.ParseUint":           {"go_strconv_ParseUint", []gtype{gStr, gInt, gInt}, []gtype{gU64, gErr}, ""},
	"strconv.Atoi":                {"go_strconv_Atoi", []gtype{gStr}, []gtype{gInt, gErr}, ""},
	"encoding/hex.DecodeString":   {"go_hex_DecodeString", []gtype{gStr}, []gtype{gByts, gErr}, ""},
	"strings.Split":               {"go_strings_Split1", nil, nil, "split"},
	"strconv.FormatUint":          {"go_strconv_FormatUint", []gtype{gU64}, []gtype{gStr}, "fmtint"},
	"strconv.FormatInt":           {"go_strconv_FormatInt", []gtype{gI64}, []gtype{gStr}, "fmtint"},
	"strconv.FormatBool":          {"go_strconv_FormatBool", []gtype{gBool}, []gtype{gStr}, ""},
	"strconv.AppendUint":          {"go_strconv_FormatUint", []gtype{gU64}, []gtype{gByts}, "appint"},
	"strconv.AppendInt":           {"go_strconv_FormatInt", []gtype{gI64}, []gtype{gByts}, "appint"},
	"strconv.AppendBool":          {"go_strconv_FormatBool", []gtype{gBool}, []gtype{gByts}, "appbool"},
	"fmt.Sprintf":                 {"", nil, nil, "sprintf"},
}

func textLibOf(f *types.Func) (textLib, bool) {
	k, ok := libKey(f)
	if !ok {
		return textLib{}, false
	}
	tl, ok := textLibs[k]
	return tl, ok
}

var sprintfHex = regexp.MustCompile(`^%0([1-9][0-9]?)([Xx])$`)

// guard: record a run-time panic condition of the statement being translated.
func (c *fctx) guard(pos token.Pos, g string) {
	if !c.f.partial {
		c.t.failf(pos, "internal: operation with a modelled panic in a function not marked partial")
	}
	if len(c.loops) > 0 {
		c.t.failf(pos, "operation that may panic (string index/slice, array slice with non-constant bounds) inside a loop")
	}
	c.guards = append(c.guards, g)
}

// textArg: an argument of a text library function at parameter type want. A []byte argument may be a
// slice a[lo:hi] of a [N]byte array with non-constant bounds: its slice-bounds panic is modelled (guard).
func (c *fctx) textArg(a ast.Expr, want gtype, what string) string {
	t := c.t
	if want.k == kBytes {
		if sl, ok := ast.Unparen(a).(*ast.SliceExpr); ok {
			if g := c.typeOf(sl.X); g.k == kArray {
				si := c.sliceParts(sl, true)
				if !si.constant {
					c.guard(a.Pos(), fmt.Sprintf("(go_slice_ok %s %s %d)", si.lo, si.hi, si.g.n))
				}
				return fmt.Sprintf("(bytes_slice %s %s %s)", si.base, si.lo, si.hi)
			}
		}
	}
	if have := c.typeOf(a); !have.same(want) || have.ptr {
		t.failf(a.Pos(), "argument of %s has type %s", what, c.info.TypeOf(a))
	}
	return c.expr(a)
}

// textCall: the application of a text library function (not "split").
func (c *fctx) textCall(x *ast.CallExpr, callee *types.Func, tl textLib) string {
	t := c.t
	what := callee.Pkg().Name() + "." + callee.Name()
	if x.Ellipsis.IsValid() {
		t.failf(x.Pos(), "call of %s with ...", what)
	}
	if tl.special == "sprintf" {
		if len(x.Args) != 2 {
			t.failf(x.Pos(), "fmt.Sprintf with %d arguments (only Sprintf(\"%%0wX\" / \"%%0wx\", unsigned) is in the subset)", len(x.Args))
		}
		ftv := c.info.Types[x.Args[0]]
		if ftv.Value == nil || ftv.Value.Kind() != constant.String {
			t.failf(x.Pos(), "fmt.Sprintf with a non-constant format")
		}
		m := sprintfHex.FindStringSubmatch(constant.StringVal(ftv.Value))
		if m == nil {
			t.failf(x.Pos(), "fmt.Sprintf format %q is outside the subset (only %%0wX / %%0wx)", constant.StringVal(ftv.Value))
		}
		if a := c.typeOf(x.Args[1]); a.k != kInt || a.signed || a.ptr {
			t.failf(x.Args[1].Pos(), "fmt.Sprintf(%q) of %s (only unsigned integers)", constant.StringVal(ftv.Value), c.info.TypeOf(x.Args[1]))
		}
		name := map[string]string{"X": "go_fmt_hex_upper", "x": "go_fmt_hex_lower"}[m[2]]
		return fmt.Sprintf("(%s %s %s)", name, m[1], c.expr(x.Args[1]))
	}
	switch tl.special {
	case "fmtint", "appint", "appbool":
		// strconv.FormatUint/FormatInt(v, base), AppendUint/AppendInt(buf, v, base), AppendBool(buf, b):
		// base = the constant 10 (FormatInt: only 10) or 16; Append* = go_append buf (the Format* text)
		args := x.Args
		pre, post := "", ""
		if tl.special != "fmtint" {
			if len(args) < 1 || c.typeOf(args[0]).k != kBytes || c.typeOf(args[0]).ptr {
				t.failf(x.Pos(), "%s without a []byte first argument", what)
			}
			pre, post = "(go_append "+c.expr(args[0])+" ", ")"
			args = args[1:]
		}
		want := 2
		if tl.special == "appbool" {
			want = 1
		}
		if len(args) != want {
			t.failf(x.Pos(), "call of %s with %d arguments", what, len(x.Args))
		}
		if have := c.typeOf(args[0]); !have.same(tl.params[0]) || have.ptr {
			t.failf(args[0].Pos(), "argument of %s has type %s", what, c.info.TypeOf(args[0]))
		}
		name := tl.coq
		if want == 2 {
			btv := c.info.Types[args[1]]
			if btv.Value == nil {
				t.failf(args[1].Pos(), "%s with a non-constant base", what)
			}
			b, _ := constant.Int64Val(constant.ToInt(btv.Value))
			if b != 10 && !(b == 16 && !tl.params[0].signed) {
				t.failf(args[1].Pos(), "%s with base %s is outside the subset (unsigned: 10, 16; signed: 10)", what, btv.Value.ExactString())
			}
			name = fmt.Sprintf("%s_%d", name, b)
		}
		return fmt.Sprintf("%s(%s %s)%s", pre, name, c.expr(args[0]), post)
	}
	if tl.special != "" {
		t.failf(x.Pos(), "%s is only accepted as `x := %s(s, \"<one byte>\")`", what, what)
	}
	if len(x.Args) != len(tl.params) {
		t.failf(x.Pos(), "call of %s with %d arguments", what, len(x.Args))
	}
	parts := []string{tl.coq}
	for i, a := range x.Args {
		if i > 0 && callee.Name() == "ParseUint" && c.info.Types[a].Value == nil {
			t.failf(a.Pos(), "strconv.ParseUint with a non-constant base / bit size")
		}
		parts = append(parts, c.textArg(a, tl.params[i], what))
	}
	return "(" + strings.Join(parts, " ") + ")"
}

// errNilTest: `err == nil` / `err != nil` on a local error variable (err_nil = true).
func (c *fctx) errNilTest(x *ast.BinaryExpr) (string, bool) {
	if x.Op != token.EQL && x.Op != token.NEQ {
		return "", false
	}
	v, n := x.X, x.Y
	if c.info.Types[v].IsNil() {
		v, n = n, v
	}
	if !c.info.Types[n].IsNil() {
		return "", false
	}
	id, ok := ast.Unparen(v).(*ast.Ident)
	if !ok {
		return "", false
	}
	name, ok := c.vars[c.info.Uses[id]]
	if !ok || c.typeOf(id).k != kErr {
		return "", false
	}
	if x.Op == token.EQL {
		return name, true
	}
	return "(negb " + name + ")", true
}

// unsafeLoad recognises  *(*T)(unsafe.Pointer(&x))  with x a local variable or parameter: the
// reinterpretation of the first sizeof(T) bytes of x (little-endian host: the LOW bits).
// Accepted (x's type -> T): uint64 -> float32, uint32 -> float32, uint64 -> float64,
// float32 -> uint32, float64 -> uint64.
func (c *fctx) unsafeLoad(x *ast.StarExpr) (string, bool) {
	conv, ok := ast.Unparen(x.X).(*ast.CallExpr)
	if !ok || len(conv.Args) != 1 {
		return "", false
	}
	if ftv, ok := c.info.Types[conv.Fun]; !ok || !ftv.IsType() {
		return "", false
	}
	if _, ok := c.info.TypeOf(conv.Fun).(*types.Pointer); !ok {
		return "", false
	}
	up, ok := ast.Unparen(conv.Args[0]).(*ast.CallExpr)
	if !ok || len(up.Args) != 1 {
		return "", false
	}
	if b, ok := c.info.TypeOf(up.Fun).(*types.Basic); !ok || b.Kind() != types.UnsafePointer {
		return "", false
	}
	if ftv, ok := c.info.Types[up.Fun]; !ok || !ftv.IsType() {
		return "", false
	}
	addr, ok := ast.Unparen(up.Args[0]).(*ast.UnaryExpr)
	if !ok || addr.Op != token.AND {
		c.t.failf(x.Pos(), "unsafe.Pointer of something that is not the address of a variable")
	}
	id, ok := ast.Unparen(addr.X).(*ast.Ident)
	if !ok {
		c.t.failf(x.Pos(), "unsafe.Pointer of something that is not the address of a variable")
	}
	name, ok := c.vars[c.info.Uses[id]]
	if !ok {
		c.t.failf(x.Pos(), "unsafe.Pointer(&%s): not a local variable or parameter", id.Name)
	}
	from, to := c.typeOf(id), c.typeOf(x)
	if from.ptr {
		c.t.failf(x.Pos(), "unsafe.Pointer(&%s): %s is a pointer", id.Name, id.Name)
	}
	switch {
	case from.k == kInt && !from.signed && from.bits == 64 && to.k == kFloat && to.bits == 32:
		return fmt.Sprintf("(go_math_Float32frombits (go_unsafe_low 32 %s))", name), true
	case from.k == kInt && !from.signed && from.bits == 32 && to.k == kFloat && to.bits == 32:
		return fmt.Sprintf("(go_math_Float32frombits %s)", name), true
	case from.k == kInt && !from.signed && from.bits == 64 && to.k == kFloat && to.bits == 64:
		return fmt.Sprintf("(go_math_Float64frombits %s)", name), true
	case from.k == kFloat && from.bits == 32 && to.k == kInt && !to.signed && to.bits == 32:
		return fmt.Sprintf("(go_math_Float32bits %s)", name), true
	case from.k == kFloat && from.bits == 64 && to.k == kInt && !to.signed && to.bits == 64:
		return fmt.Sprintf("(go_math_Float64bits %s)", name), true
	}
	c.t.failf(x.Pos(), "unsafe reinterpretation of %s as %s is outside the subset", c.info.TypeOf(id), c.info.TypeOf(x))
	panic("unreachable")
}

// isTypesTyp: the expression denotes the package-level table go/types.Typ.
func (c *fctx) isTypesTyp(e ast.Expr) bool {
	sel, ok := ast.Unparen(e).(*ast.SelectorExpr)
	if !ok {
		return false
	}
	v, ok := c.info.Uses[sel.Sel].(*types.Var)
	return ok && v.Pkg() != nil && v.Pkg().Path() == "go/types" && v.Name() == "Typ" && !v.IsField()
}

// sliceParts: x[lo:hi]. lo defaults to 0; hi defaults to the length of an array operand, and to
// len(x) for a []byte operand (open-ended slice). Non-constant bounds (integer expressions) are
// accepted only with allowVar (read positions); constant bounds are checked against each other and
// against the length of an array operand.
type sliceInfo struct {
	base     string
	g        gtype
	lo, hi   string
	loC, hiC int64
	constant bool // both bounds are known constants (hi-lo = the static length of the slice)
}

func (c *fctx) sliceParts(x *ast.SliceExpr, allowVar bool) sliceInfo {
	t := c.t
	if x.Slice3 {
		t.failf(x.Pos(), "3-index slice expression")
	}
	si := sliceInfo{g: c.typeOf(x.X), constant: true}
	if si.g.k != kBytes && si.g.k != kArray && si.g.k != kString {
		t.failf(x.Pos(), "slicing of %s", c.info.TypeOf(x.X))
	}
	si.base = c.expr(x.X)
	bound := func(e ast.Expr) (string, int64, bool) {
		tv := c.info.Types[e]
		if tv.Value == nil {
			if !allowVar {
				t.failf(e.Pos(), "non-constant slice bound")
			}
			if g := c.typeOf(e); g.k != kInt {
				t.failf(e.Pos(), "slice bound of non-integer type")
			}
			return c.expr(e), 0, false
		}
		n, exact := constant.Int64Val(constant.ToInt(tv.Value))
		if !exact || n < 0 {
			t.failf(e.Pos(), "slice bound %s", tv.Value.ExactString())
		}
		return fmt.Sprint(n), n, true
	}
	si.lo, si.loC = "0", 0
	if x.Low != nil {
		var k bool
		si.lo, si.loC, k = bound(x.Low)
		si.constant = si.constant && k
	}
	hiConst := true
	switch {
	case x.High != nil:
		si.hi, si.hiC, hiConst = bound(x.High)
	case si.g.k == kArray:
		si.hi, si.hiC = fmt.Sprint(si.g.n), si.g.n
	default:
		si.hi, hiConst = fmt.Sprintf("(bytes_len %s)", si.base), false
	}
	si.constant = si.constant && hiConst
	if hiConst && si.g.k == kArray && si.hiC > si.g.n {
		t.failf(x.Pos(), "slice bound %d beyond the array", si.hiC)
	}
	if si.constant && si.loC > si.hiC {
		t.failf(x.Pos(), "inverted slice bounds %d:%d", si.loC, si.hiC)
	}
	return si
}

// bytesOperand: an expression read as a []byte by copy (source) or by a library reader: a []byte
// expression, or a slice a[lo:hi] of a [N]byte array (the array's bytes lo..hi-1; the slice value does
// not outlive the call, so no alias of the array is created).
func (c *fctx) bytesOperand(e ast.Expr) string {
	if sl, ok := ast.Unparen(e).(*ast.SliceExpr); ok {
		if g := c.typeOf(sl.X); g.k == kArray {
			si := c.sliceParts(sl, true)
			return fmt.Sprintf("(bytes_slice %s %s %s)", si.base, si.lo, si.hi)
		}
	}
	if g := c.typeOf(e); g.k != kBytes {
		c.t.failf(e.Pos(), "%s used as a []byte operand", c.info.TypeOf(e))
	}
	return c.expr(e)
}

func (c *fctx) expr(e ast.Expr) string {
	t := c.t
	tv, ok := c.info.Types[e]
	if ok && tv.Value != nil {
		out := c.constant(e, tv.Value)
		// a named constant of a defined (enumeration) type keeps its name as a comment
		var id *ast.Ident
		switch x := ast.Unparen(e).(type) {
		case *ast.Ident:
			id = x
		case *ast.SelectorExpr:
			id = x.Sel
		}
		if id != nil {
			if k, isConst := c.info.Uses[id].(*types.Const); isConst {
				if _, named := k.Type().(*types.Named); named && k.Pkg() != nil {
					return fmt.Sprintf("%s (* %s.%s *)", out, k.Pkg().Name(), k.Name())
				}
			}
		}
		return out
	}
	switch x := e.(type) {
	case *ast.ParenExpr:
		return c.expr(x.X)
	case *ast.Ident:
		if ok && tv.IsNil() {
			t.failf(x.Pos(), "nil outside a return of type error")
		}
		o := c.info.Uses[x]
		if c.strLists[o] {
			t.failf(x.Pos(), "the result of strings.Split used other than as len(x) / x[k]")
		}
		if n, ok := c.vars[o]; ok {
			return n
		}
		t.failf(x.Pos(), "identifier %s is not a local variable, parameter or constant", x.Name)
	case *ast.StarExpr:
		if id, ok := ast.Unparen(x.X).(*ast.Ident); ok {
			if n, ok := c.vars[c.info.Uses[id]]; ok {
				return n // a pointer parameter IS the value it points to
			}
		}
		if s, ok := c.unsafeLoad(x); ok {
			return s
		}
		if pg := c.typeOf(x.X); pg.popt {
			// *p with p a *string / *uint8 / *bool: the nil-dereference panic is not modelled (zero value), as for go_deref on *S
			base := pg
			base.popt = false
			return fmt.Sprintf("(go_deref %s %s)", t.zero(x.Pos(), base), c.expr(x.X))
		}
		t.failf(x.Pos(), "dereference of something that is not a parameter")
	case *ast.UnaryExpr:
		g := c.typeOf(e)
		switch x.Op {
		case token.ADD:
			return c.expr(x.X)
		case token.SUB:
			if g.k == kInt {
				return wrap(g, "- "+c.expr(x.X))
			}
			if g.k == kFloat {
				return fmt.Sprintf("(go_fneg%d %s)", g.bits, c.expr(x.X))
			}
		case token.XOR:
			if g.k == kInt && g.signed {
				return fmt.Sprintf("(go_not_s %s)", c.expr(x.X))
			} else if g.k == kInt {
				return fmt.Sprintf("(go_not_u %d %s)", g.bits, c.expr(x.X))
			}
		case token.NOT:
			if g.k == kBool {
				return fmt.Sprintf("(negb %s)", c.expr(x.X))
			}
		}
		t.failf(x.Pos(), "unary operator %s on %s", x.Op, c.info.TypeOf(e))
	case *ast.BinaryExpr:
		if s, ok := c.errNilTest(x); ok {
			return s
		}
		if s, ok := c.optNilTest(x); ok {
			return s
		}
		return c.binary(x.Pos(), x.Op, c.typeOf(e), x.X, x.Y, c.expr(x.X))
	case *ast.IndexExpr:
		if id, ok := ast.Unparen(x.X).(*ast.Ident); ok && c.strLists[c.info.Uses[id]] {
			// parts[k] on the result of strings.Split: index panic modelled
			if i := c.typeOf(x.Index); i.k != kInt {
				t.failf(x.Index.Pos(), "index of non-integer type")
			}
			l, ix := c.vars[c.info.Uses[id]], c.expr(x.Index)
			c.guard(x.Pos(), fmt.Sprintf("(go_index_ok %s (list_len %s))", ix, l))
			return fmt.Sprintf("(go_strlist_get %s %s)", l, ix)
		}
		if a := c.typeOf(x.X); a.k == kString {
			// s[i]: the byte; index panic modelled
			if i := c.typeOf(x.Index); i.k != kInt {
				t.failf(x.Index.Pos(), "index of non-integer type")
			}
			sv, ix := c.expr(x.X), c.expr(x.Index)
			c.guard(x.Pos(), fmt.Sprintf("(go_index_ok %s (bytes_len %s))", ix, sv))
			return fmt.Sprintf("(bytes_get %s %s)", sv, ix)
		}
		if c.isTypesTyp(x.X) {
			if i := c.typeOf(x.Index); i.k != kInt {
				t.failf(x.Index.Pos(), "index of non-integer type")
			}
			if g := c.typeOf(e); g.k != kBasicTy {
				t.failf(x.Pos(), "types.Typ[...] used at type %s", c.info.TypeOf(e))
			}
			return fmt.Sprintf("(go_types_Typ %s)", c.expr(x.Index))
		}
		a := c.typeOf(x.X)
		if a.k != kArray && a.k != kBytes {
			t.failf(x.Pos(), "indexing of %s", c.info.TypeOf(x.X))
		}
		if i := c.typeOf(x.Index); i.k != kInt {
			t.failf(x.Index.Pos(), "index of non-integer type")
		}
		if a.k == kBytes {
			return fmt.Sprintf("(bytes_get %s %s)", c.expr(x.X), c.expr(x.Index))
		}
		return fmt.Sprintf("(data_get %s %s)", c.expr(x.X), c.expr(x.Index))
	case *ast.SliceExpr:
		if g := c.typeOf(x.X); g.k == kString {
			// s[lo:hi] on a string: slice-bounds panic modelled
			si := c.sliceParts(x, true)
			c.guard(x.Pos(), fmt.Sprintf("(go_slice_ok %s %s (bytes_len %s))", si.lo, si.hi, si.base))
			return fmt.Sprintf("(bytes_slice %s %s %s)", si.base, si.lo, si.hi)
		}
		if g := c.typeOf(x.X); g.k != kBytes {
			t.failf(x.Pos(), "slicing of %s in an expression (only as the source of copy or the argument of a library reader)", c.info.TypeOf(x.X))
		}
		si := c.sliceParts(x, true)
		return fmt.Sprintf("(bytes_slice %s %s %s)", si.base, si.lo, si.hi)
	case *ast.SelectorExpr:
		sel, ok := c.info.Selections[x]
		if !ok || sel.Kind() != types.FieldVal {
			t.failf(x.Pos(), "selector %s is not a struct field", x.Sel.Name)
		}
		c.typeOf(e) // the field's own type must be in the subset
		out := c.structVal(x.X)
		for _, st := range t.fieldSteps(x.Pos(), sel) {
			out = fmt.Sprintf("(%s_%s %s)", st.st.coq, st.fld.Name(), out)
		}
		return out
	case *ast.CompositeLit:
		g := c.typeOf(e)
		if g.k == kArray {
			return t.zero(x.Pos(), g)
		}
		given := map[string]string{}
		for _, el := range x.Elts {
			kv := el.(*ast.KeyValueExpr)
			c.freshBytes(kv.Value.Pos(), c.typeOf(kv.Value), kv.Value)
			given[kv.Key.(*ast.Ident).Name] = c.expr(kv.Value)
		}
		var parts []string
		for _, f := range g.st.fields {
			v, ok := given[f.Name()]
			if !ok {
				v = t.zero(x.Pos(), t.classify(x.Pos(), f.Type()))
			}
			parts = append(parts, fmt.Sprintf("%s_%s := %s", g.st.coq, f.Name(), v))
		}
		return "{| " + strings.Join(parts, "; ") + " |}"
	case *ast.CallExpr:
		if ftv, ok := c.info.Types[x.Fun]; ok && ftv.IsType() {
			return c.conversion(x)
		}
		if id, meth, ok := ifaceCall(c.info, x); ok {
			n, ok := c.vars[c.info.Uses[id]]
			if !ok {
				t.failf(x.Pos(), "%s.%s() on something that is not a parameter of type generated.Message", id.Name, meth)
			}
			return n + "_" + meth
		}
		switch builtinOf(c.info, x) {
		case "len":
			if len(x.Args) != 1 {
				t.failf(x.Pos(), "len with %d arguments", len(x.Args))
			}
			if id, ok := ast.Unparen(x.Args[0]).(*ast.Ident); ok && c.strLists[c.info.Uses[id]] {
				return fmt.Sprintf("(list_len %s)", c.vars[c.info.Uses[id]])
			}
			switch a := c.typeOf(x.Args[0]); a.k {
			case kBytes:
				return fmt.Sprintf("(bytes_len %s)", c.expr(x.Args[0]))
			case kLen:
				return c.expr(x.Args[0]) // the slice IS its length
			case kList:
				return fmt.Sprintf("(list_len %s)", c.expr(x.Args[0]))
			case kString:
				return fmt.Sprintf("(bytes_len %s)", c.expr(x.Args[0])) // the number of BYTES
			}
			t.failf(x.Pos(), "len of %s", c.info.TypeOf(x.Args[0]))
		case "make":
			if g := c.typeOf(x); g.k != kBytes || (len(x.Args) != 2 && len(x.Args) != 3) {
				t.failf(x.Pos(), "make of something that is not []byte with a length")
			}
			if len(x.Args) == 3 {
				// make([]byte, n, cap): the capacity is not observable on contents (a negative or too small
				// cap panics: not modelled); its expression must still be in the subset
				if cg := c.typeOf(x.Args[2]); cg.k != kInt {
					t.failf(x.Args[2].Pos(), "make with a capacity of type %s", c.info.TypeOf(x.Args[2]))
				}
				_ = c.expr(x.Args[2])
			}
			ntv := c.info.Types[x.Args[1]]
			if ntv.Value == nil {
				t.failf(x.Pos(), "make with a non-constant length")
			}
			n, exact := constant.Int64Val(constant.ToInt(ntv.Value))
			if !exact || n < 0 {
				t.failf(x.Pos(), "make with length %s", ntv.Value.ExactString())
			}
			return fmt.Sprintf("(bytes_make %d)", n)
		case "append":
			// append(a, s...) with s a string / []byte, append(a, b1, .., bn) with bytes: the CONTENTS a ++ ...
			// (GoSemText.v go_append; whether the result shares a's array is not represented)
			if len(x.Args) < 2 || c.typeOf(x.Args[0]).k != kBytes || c.typeOf(x.Args[0]).ptr {
				t.failf(x.Pos(), "append to something that is not a []byte, or without elements")
			}
			if x.Ellipsis.IsValid() {
				if a := c.typeOf(x.Args[1]); len(x.Args) != 2 || (a.k != kString && a.k != kBytes) || a.ptr {
					t.failf(x.Pos(), "append(a, x...) with x of type %s", c.info.TypeOf(x.Args[1]))
				}
				return fmt.Sprintf("(go_append %s %s)", c.expr(x.Args[0]), c.expr(x.Args[1]))
			}
			var els []string
			for _, a := range x.Args[1:] {
				if g := c.typeOf(a); g.k != kInt || g.bits != 8 || g.signed {
					t.failf(a.Pos(), "appended element of type %s", c.info.TypeOf(a))
				}
				els = append(els, c.expr(a))
			}
			return fmt.Sprintf("(go_append %s [%s])", c.expr(x.Args[0]), strings.Join(els, "; "))
		case "":
		default:
			t.failf(x.Pos(), "builtin %s in an expression", builtinOf(c.info, x))
		}
		callee := calleeOf(c.info, x)
		if isErrorf(callee) {
			return "err_nonnil"
		}
		if o, ok := t.floatFmt(c.info, x, callee); ok {
			first := len(x.Args) - 4
			if a := c.typeOf(x.Args[first]); a.k != kFloat || a.bits != 64 {
				t.failf(x.Args[first].Pos(), "formatted value of type %s", c.info.TypeOf(x.Args[first]))
			}
			txt := fmt.Sprintf("(%s (go_math_Float64bits %s))", o, c.expr(x.Args[first]))
			if first == 1 {
				if b := c.typeOf(x.Args[0]); b.k != kBytes || b.ptr {
					t.failf(x.Args[0].Pos(), "strconv.AppendFloat without a []byte first argument")
				}
				return fmt.Sprintf("(go_append %s %s)", c.expr(x.Args[0]), txt)
			}
			return txt
		}
		if _, ok := putIntrinsicOf(callee); ok {
			t.failf(x.Pos(), "%s.%s used as an expression", callee.Pkg().Name(), callee.Name())
		}
		if tl, ok := textLibOf(callee); ok {
			if len(tl.results) > 1 {
				t.failf(x.Pos(), "%s.%s (value, error) used in an expression: only `v, err := ...`", callee.Pkg().Name(), callee.Name())
			}
			return c.textCall(x, callee, tl)
		}
		if o, ok := oracleOf(callee); ok && o == "o_time_Duration_String" {
			sel, isSel := ast.Unparen(x.Fun).(*ast.SelectorExpr)
			if !isSel || len(x.Args) != 0 {
				t.failf(x.Pos(), "time.Duration.String not called as d.String()")
			}
			if a := c.typeOf(sel.X); a.k != kInt || !a.signed || a.bits != 64 || a.ptr {
				t.failf(x.Pos(), "receiver of time.Duration.String is not a Duration value")
			}
			return fmt.Sprintf("(%s %s)", o, c.expr(sel.X))
		}
		if o, ok := oracleOf(callee); ok {
			if len(x.Args) != 1 {
				t.failf(x.Pos(), "call of %s.%s with %d arguments", callee.Pkg().Name(), callee.Name(), len(x.Args))
			}
			if a := c.typeOf(x.Args[0]); a.k != kInt || !a.signed || a.bits != 32 {
				t.failf(x.Pos(), "argument of %s.%s is not a rune", callee.Pkg().Name(), callee.Name())
			}
			if r := c.typeOf(x); r.k != kBool {
				t.failf(x.Pos(), "result of %s.%s is not a bool", callee.Pkg().Name(), callee.Name())
			}
			return fmt.Sprintf("(%s %s)", o, c.expr(x.Args[0]))
		}
		if in, ok := intrinsicOf(callee); ok {
			if len(x.Args) != len(in.params) || x.Ellipsis.IsValid() {
				t.failf(x.Pos(), "call of %s.%s with %d arguments", callee.Pkg().Path(), callee.Name(), len(x.Args))
			}
			parts := []string{in.coq}
			for i, a := range x.Args {
				if have := c.typeOf(a); !have.same(in.params[i]) || have.ptr {
					t.failf(a.Pos(), "argument %d of %s.%s has type %s", i+1, callee.Pkg().Path(), callee.Name(), c.info.TypeOf(a))
				}
				if in.sliceLen > 0 {
					// nlenc.UintNN panics unless the slice has exactly that many bytes, binary.LittleEndian.UintNN
					// unless it has at least that many
					if sl, ok := ast.Unparen(a).(*ast.SliceExpr); ok {
						si := c.sliceParts(sl, true)
						if !si.constant {
							t.failf(a.Pos(), "%s.%s on a slice whose length is not a constant", callee.Pkg().Name(), callee.Name())
						}
						if n := si.hiC - si.loC; n != in.sliceLen && !(in.atLeast && n > in.sliceLen) {
							t.failf(a.Pos(), "%s.%s on a slice of %d bytes panics", callee.Pkg().Name(), callee.Name(), n)
						}
					}
					parts = append(parts, c.bytesOperand(a))
					continue
				}
				parts = append(parts, c.expr(a))
			}
			if got := c.typeOf(x); !got.same(in.res) {
				t.failf(x.Pos(), "result type of %s.%s is not the expected one", callee.Pkg().Path(), callee.Name())
			}
			return "(" + strings.Join(parts, " ") + ")"
		}
		g := t.fns[funcKey(callee)]
		if g == nil {
			t.failf(x.Pos(), "call of a function that was not analysed")
		}
		if g.res == nil {
			t.failf(x.Pos(), "call of the result-less function %s in an expression", g.display)
		}
		if len(g.results) > 1 || g.mut != nil {
			t.failf(x.Pos(), "call of %s, which has several results or writes through a pointer besides returning a value", g.display)
		}
		return "(" + c.call(x, g) + ")"
	}
	t.failf(e.Pos(), "expression of kind %T is outside the subset", e)
	panic("unreachable")
}

// structVal: the struct VALUE an expression of type S or *S denotes: a parameter *S is the value; a
// local *S (option S) is dereferenced with go_deref (nil dereference panics in Go: not modelled, the
// zero value is read).
func (c *fctx) structVal(e ast.Expr) string {
	if id, ok := ast.Unparen(e).(*ast.Ident); ok && c.optVars[c.info.Uses[id]] {
		g := c.typeOf(id)
		return fmt.Sprintf("(go_deref zero_%s %s)", g.st.coq, c.vars[c.info.Uses[id]])
	}
	return c.expr(e)
}

func (c *fctx) call(x *ast.CallExpr, g *fn) string {
	args := c.t.callArgs(c.info, x, g)
	parts := []string{g.coq}
	parts = append(parts, g.oracles...)
	for i, a := range args {
		want := g.params[i].g
		a = ast.Unparen(a)
		if u, ok := a.(*ast.UnaryExpr); ok && u.Op == token.AND {
			a = u.X
		}
		have := c.typeOf(a)
		if !have.same(want) {
			c.t.failf(a.Pos(), "argument type does not match parameter %s of %s", g.params[i].v.Name(), g.display)
		}
		if want.k == kStruct {
			parts = append(parts, c.structVal(a))
			continue
		}
		if want.k == kIface {
			id, ok := a.(*ast.Ident)
			if !ok {
				c.t.failf(a.Pos(), "generated.Message argument that is not a variable")
			}
			n, ok := c.vars[c.info.Uses[id]]
			if !ok {
				c.t.failf(a.Pos(), "generated.Message argument that is not a parameter")
			}
			parts = append(parts, n+"_Frame", n+"_Descriptor")
			continue
		}
		parts = append(parts, c.expr(a))
	}
	return strings.Join(parts, " ")
}

func (c *fctx) conversion(x *ast.CallExpr) string {
	if len(x.Args) != 1 {
		c.t.failf(x.Pos(), "conversion with %d arguments", len(x.Args))
	}
	to := c.typeOf(x)
	from := c.typeOf(x.Args[0])
	switch {
	case to.k == kInt && from.k == kInt:
		return wrap(to, c.expr(x.Args[0]))
	case to.k == kFloat && to.bits == 64 && from.k == kInt:
		return fmt.Sprintf("(go_f64_of_int %s)", c.expr(x.Args[0]))
	case to.k == kFloat && from.k == kFloat && to.bits == from.bits:
		return c.expr(x.Args[0]) // every operation is already rounded to its static type
	case to.k == kFloat && from.k == kFloat && to.bits == 32:
		return fmt.Sprintf("(go_f32_of_f64 %s)", c.expr(x.Args[0]))
	case to.k == kFloat && from.k == kFloat && to.bits == 64:
		return fmt.Sprintf("(go_f64_of_f32 %s)", c.expr(x.Args[0]))
	case (to.k == kString || to.k == kBytes) && (from.k == kString || from.k == kBytes) && !to.ptr && !from.ptr:
		// string <-> named string types (json.Number), string([]byte), []byte(string): the same bytes
		// (the copy a conversion makes is not observable without aliasing)
		return c.expr(x.Args[0])
	case to.k == kBool && from.k == kBool, to.k == kArray && from.k == kArray && to.n == from.n && !to.ptr && !from.ptr:
		return c.expr(x.Args[0])
	}
	c.t.failf(x.Pos(), "conversion from %s to %s", c.info.TypeOf(x.Args[0]), c.info.TypeOf(x))
	panic("unreachable")
}

// binary emits [xs op y] at result type g; xs is the already translated left operand (so that
// op-assignments can reuse it).
func (c *fctx) binary(pos token.Pos, op token.Token, g gtype, xe, ye ast.Expr, xs string) string {
	t := c.t
	nGuards := len(c.guards)
	ys := c.expr(ye)
	if (op == token.LAND || op == token.LOR) && len(c.guards) != nGuards {
		t.failf(pos, "operation that may panic in the conditionally evaluated right operand of %s", op)
	}
	xg, yg := c.typeOf(xe), c.typeOf(ye)
	if op == token.ADD && g.k == kString {
		if xg.k != kString || yg.k != kString {
			t.failf(pos, "string concatenation of non-strings")
		}
		t.usesText = true
		return fmt.Sprintf("(go_string_cat %s %s)", xs, ys)
	}
	intOp := func() {
		if g.k != kInt || xg.k != kInt || xg.bits != g.bits || xg.signed != g.signed {
			t.failf(pos, "operator %s: operand/result types outside the subset", op)
		}
	}
	sameInts := func() {
		intOp()
		if yg.k != kInt || yg.bits != g.bits || yg.signed != g.signed {
			t.failf(pos, "operator %s: operands of different types", op)
		}
	}
	if g.k == kFloat {
		name, ok := map[token.Token]string{token.ADD: "go_fadd", token.SUB: "go_fsub", token.MUL: "go_fmul", token.QUO: "go_fdiv"}[op]
		if !ok || g.bits != 64 || !xg.same(g) || !yg.same(g) {
			t.failf(pos, "operator %s on %s is outside the subset (float64 + - * / only)", op, c.info.TypeOf(xe))
		}
		return fmt.Sprintf("(%s%d %s %s)", name, g.bits, xs, ys)
	}
	switch op {
	case token.ADD:
		sameInts()
		return wrap(g, xs+" + "+ys)
	case token.SUB:
		sameInts()
		return wrap(g, xs+" - "+ys)
	case token.MUL:
		sameInts()
		return wrap(g, xs+" * "+ys)
	case token.QUO, token.REM:
		sameInts()
		ytv := c.info.Types[ye]
		if ytv.Value == nil || constant.Sign(constant.ToInt(ytv.Value)) == 0 {
			t.failf(pos, "divisor of %s is not a non-zero constant", op)
		}
		switch {
		case op == token.QUO && g.signed:
			return fmt.Sprintf("(go_div_s %d %s %s)", g.bits, xs, ys)
		case op == token.QUO:
			return fmt.Sprintf("(go_div_u %s %s)", xs, ys)
		case g.signed:
			return fmt.Sprintf("(go_rem_s %s %s)", xs, ys)
		}
		return fmt.Sprintf("(go_rem_u %s %s)", xs, ys)
	case token.AND:
		sameInts()
		return fmt.Sprintf("(go_and %s %s)", xs, ys)
	case token.OR:
		sameInts()
		return fmt.Sprintf("(go_or %s %s)", xs, ys)
	case token.XOR:
		sameInts()
		return fmt.Sprintf("(go_xor %s %s)", xs, ys)
	case token.AND_NOT:
		sameInts()
		return fmt.Sprintf("(go_andnot %s %s)", xs, ys)
	case token.SHL, token.SHR:
		intOp()
		if ytv := c.info.Types[ye]; ytv.Value != nil {
			if yg.k != kInt || constant.Sign(constant.ToInt(ytv.Value)) < 0 {
				t.failf(pos, "negative or non-integer constant shift count")
			}
		} else if yg.k != kInt || yg.signed {
			t.failf(pos, "shift count of signed or non-integer type %s", c.info.TypeOf(ye))
		}
		name := map[bool]string{true: "go_shl", false: "go_shr"}[op == token.SHL]
		sfx := map[bool]string{true: "_s", false: "_u"}[g.signed]
		return fmt.Sprintf("(%s%s %d %s %s)", name, sfx, g.bits, xs, ys)
	case token.LAND, token.LOR:
		if g.k != kBool || xg.k != kBool || yg.k != kBool {
			t.failf(pos, "operator %s on non-bool", op)
		}
		if op == token.LAND {
			return fmt.Sprintf("(%s && %s)", xs, ys)
		}
		return fmt.Sprintf("(%s || %s)", xs, ys)
	case token.EQL, token.NEQ, token.LSS, token.LEQ, token.GTR, token.GEQ:
		if g.k != kBool {
			t.failf(pos, "comparison with non-bool result")
		}
		if xg.k == kBool && yg.k == kBool && (op == token.EQL || op == token.NEQ) {
			if op == token.EQL {
				return fmt.Sprintf("(Bool.eqb %s %s)", xs, ys)
			}
			return fmt.Sprintf("(negb (Bool.eqb %s %s))", xs, ys)
		}
		if xg.k == kString && yg.k == kString && (op == token.EQL || op == token.NEQ) {
			if op == token.EQL {
				return fmt.Sprintf("(go_string_eqb %s %s)", xs, ys)
			}
			return fmt.Sprintf("(negb (go_string_eqb %s %s))", xs, ys)
		}
		if xg.k == kFloat && yg.k == kFloat && xg.bits == 64 && yg.bits == 64 {
			switch op { // IEEE: every comparison with a NaN is false, except != which is true
			case token.EQL:
				return fmt.Sprintf("(go_feq64 %s %s)", xs, ys)
			case token.NEQ:
				return fmt.Sprintf("(negb (go_feq64 %s %s))", xs, ys)
			case token.LSS:
				return fmt.Sprintf("(go_flt64 %s %s)", xs, ys)
			case token.LEQ:
				return fmt.Sprintf("(go_fle64 %s %s)", xs, ys)
			case token.GTR:
				return fmt.Sprintf("(go_flt64 %s %s)", ys, xs)
			}
			return fmt.Sprintf("(go_fle64 %s %s)", ys, xs)
		}
		if xg.k != kInt || yg.k != kInt || xg.bits != yg.bits || xg.signed != yg.signed {
			t.failf(pos, "comparison %s of operands outside the subset (%s, %s)", op, c.info.TypeOf(xe), c.info.TypeOf(ye))
		}
		switch op {
		case token.EQL:
			return fmt.Sprintf("(%s =? %s)", xs, ys)
		case token.NEQ:
			return fmt.Sprintf("(negb (%s =? %s))", xs, ys)
		case token.LSS:
			return fmt.Sprintf("(%s <? %s)", xs, ys)
		case token.LEQ:
			return fmt.Sprintf("(%s <=? %s)", xs, ys)
		case token.GTR:
			return fmt.Sprintf("(%s <? %s)", ys, xs)
		}
		return fmt.Sprintf("(%s <=? %s)", ys, xs)
	}
	t.failf(pos, "binary operator %s is outside the subset", op)
	panic("unreachable")
}

var assignOps = map[token.Token]token.Token{
	token.ADD_ASSIGN: token.ADD, token.SUB_ASSIGN: token.SUB, token.MUL_ASSIGN: token.MUL,
	token.QUO_ASSIGN: token.QUO, token.REM_ASSIGN: token.REM, token.AND_ASSIGN: token.AND,
	token.OR_ASSIGN: token.OR, token.XOR_ASSIGN: token.XOR, token.SHL_ASSIGN: token.SHL,
	token.SHR_ASSIGN: token.SHR, token.AND_NOT_ASSIGN: token.AND_NOT,
}

// store: the binding [let <root> := <updated root value>] that realises [lhs = val].
func (c *fctx) store(lhs ast.Expr, val string) (name, newval string) {
	t := c.t
	switch x := lhs.(type) {
	case *ast.ParenExpr:
		return c.store(x.X, val)
	case *ast.Ident:
		if x.Name == "_" {
			t.failf(x.Pos(), "assignment to the blank identifier")
		}
		o := c.info.Uses[x]
		if o == nil {
			o = c.info.Defs[x]
		}
		n, ok := c.vars[o]
		if !ok {
			t.failf(x.Pos(), "assignment to %s, which is not a local variable", x.Name)
		}
		return n, val
	case *ast.StarExpr:
		if id, ok := ast.Unparen(x.X).(*ast.Ident); ok && c.f.mut != nil && c.info.Uses[id] == types.Object(c.f.mut.v) {
			return c.f.mut.name, val
		}
		t.failf(x.Pos(), "store through a pointer that is not the written parameter")
	case *ast.IndexExpr:
		a := c.typeOf(x.X)
		if a.k != kArray && a.k != kBytes {
			t.failf(x.Pos(), "indexed assignment to %s", c.info.TypeOf(x.X))
		}
		if i := c.typeOf(x.Index); i.k != kInt {
			t.failf(x.Index.Pos(), "index of non-integer type")
		}
		if a.k == kBytes {
			c.ownedBytes(x.X, "indexed store into")
			return c.store(x.X, fmt.Sprintf("(bytes_set %s %s %s)", c.expr(x.X), c.expr(x.Index), val))
		}
		return c.store(x.X, fmt.Sprintf("(data_set %s %s %s)", c.expr(x.X), c.expr(x.Index), val))
	case *ast.SelectorExpr:
		sel, ok := c.info.Selections[x]
		if !ok || sel.Kind() != types.FieldVal {
			t.failf(x.Pos(), "assignment to selector %s", x.Sel.Name)
		}
		// x.f = v with f reached through embedded fields: x.E.f = v, i.e. x = set_E x (set_f (E x) v)
		steps := t.fieldSteps(x.Pos(), sel)
		holders := []string{c.expr(x.X)}
		for _, st := range steps[:len(steps)-1] {
			holders = append(holders, fmt.Sprintf("(%s_%s %s)", st.st.coq, st.fld.Name(), holders[len(holders)-1]))
		}
		for i := len(steps) - 1; i >= 0; i-- {
			val = fmt.Sprintf("(set_%s_%s %s %s)", steps[i].st.coq, steps[i].fld.Name(), holders[i], val)
		}
		return c.store(x.X, val)
	}
	t.failf(lhs.Pos(), "assignment target of kind %T", lhs)
	panic("unreachable")
}

// checkRoot: the variable at the root of a written l-value must be a local (incl. value
// parameters) or THE written pointer parameter.
func (c *fctx) checkRoot(lhs ast.Expr) {
	id := rootIdent(lhs)
	if id == nil {
		c.t.failf(lhs.Pos(), "assignment target without a variable at its root")
	}
	o := c.info.Uses[id]
	if o == nil {
		o = c.info.Defs[id]
	}
	for _, p := range c.f.params {
		if _, bare := ast.Unparen(lhs).(*ast.Ident); bare && types.Object(p.v) == o && p.g.k == kBytes && !p.g.ptr && p != c.f.mut {
			return // rebinding of a []byte parameter (append style; block1 checks the right-hand side)
		}
		if types.Object(p.v) == o && (p.g.ptr || p.g.k == kBytes) && p != c.f.mut {
			c.t.failf(lhs.Pos(), "internal: write through %s not found by the analysis", id.Name)
		}
	}
}

// ownedBytes: e is a local []byte VARIABLE of this function (not a parameter, not a field). Such a
// variable can only have been initialised by make (freshBytes), so it is the only reference to its
// array and a store through it is a functional update of that variable alone.
func (c *fctx) ownedBytes(e ast.Expr, what string) {
	id, ok := ast.Unparen(e).(*ast.Ident)
	if !ok {
		c.t.failf(e.Pos(), "%s a []byte that is not a local variable (possible aliasing)", what)
	}
	o := c.info.Uses[id]
	for _, p := range c.f.params {
		if types.Object(p.v) == o {
			if p == c.f.mut {
				return // THE written parameter: its final contents are what the function returns
			}
			c.t.failf(e.Pos(), "internal: write through the []byte parameter %s not found by the analysis", id.Name)
		}
	}
	if _, ok := c.vars[o]; !ok {
		c.t.failf(e.Pos(), "%s %s, which is not a local variable", what, id.Name)
	}
}

// appendStyle: `x = append(x, ...)`, `x = strconv.AppendXxx(x, ...)`, `x = F(x, ...)` with F a whitelisted
// function returning []byte: the []byte variable x (local or parameter) is rebound to a value computed
// from its own old value, which is dead afterwards - no second live reference to the array arises.
func (c *fctx) appendStyle(lhs, rhs ast.Expr) bool {
	id, ok := ast.Unparen(lhs).(*ast.Ident)
	if !ok || c.typeOf(lhs).k != kBytes {
		return false
	}
	call, ok := ast.Unparen(rhs).(*ast.CallExpr)
	if !ok || len(call.Args) == 0 {
		return false
	}
	a0, ok := ast.Unparen(call.Args[0]).(*ast.Ident)
	if !ok || c.info.Uses[a0] == nil || c.info.Uses[a0] != c.info.Uses[id] {
		return false
	}
	if builtinOf(c.info, call) == "append" {
		return true
	}
	callee := calleeOf(c.info, call)
	if callee == nil {
		return false
	}
	if k, ok := libKey(callee); ok && strings.HasPrefix(k, "strconv.Append") {
		return true
	}
	if g := c.t.fns[funcKey(callee)]; g != nil && g.mut == nil && len(g.results) == 1 && g.results[0].k == kBytes {
		return true
	}
	return false
}

// freshBytes: a []byte local may only be bound to a freshly made slice.
func (c *fctx) freshBytes(pos token.Pos, g gtype, rhs ast.Expr) {
	if g.k != kBytes {
		return
	}
	if call, ok := ast.Unparen(rhs).(*ast.CallExpr); ok && builtinOf(c.info, call) == "make" {
		return
	}
	c.t.failf(pos, "a []byte variable bound to something other than make(...) (aliasing is outside the subset)")
}

// putStmt: nlenc.PutXxx(b[lo:hi], v) / nlenc.PutXxx(b, v) as the functional update of the variable at
// the root of the first argument (the callee stores THROUGH the slice, which shares b's array).
func (c *fctx) putStmt(call *ast.CallExpr, callee *types.Func, put putIntrinsic) (name, newval string) {
	t := c.t
	if len(call.Args) != 2 || call.Ellipsis.IsValid() {
		t.failf(call.Pos(), "%s.%s with %d arguments", callee.Pkg().Name(), callee.Name(), len(call.Args))
	}
	if have := c.typeOf(call.Args[1]); !have.same(put.val) {
		t.failf(call.Args[1].Pos(), "value argument of %s.%s has type %s", callee.Pkg().Name(), callee.Name(), c.info.TypeOf(call.Args[1]))
	}
	val := c.expr(call.Args[1])
	dst := ast.Unparen(call.Args[0])
	c.checkRoot(dst)
	if sl, ok := dst.(*ast.SliceExpr); ok {
		si := c.sliceParts(sl, false)
		if si.g.k != kBytes {
			t.failf(dst.Pos(), "%s.%s through a slice of %s", callee.Pkg().Name(), callee.Name(), c.info.TypeOf(sl.X))
		}
		if !si.constant {
			t.failf(dst.Pos(), "%s.%s through a slice whose length is not a constant", callee.Pkg().Name(), callee.Name())
		}
		if n := si.hiC - si.loC; n != put.size && !(put.atLeast && n > put.size) {
			t.failf(dst.Pos(), "%s.%s on a slice of %d bytes panics", callee.Pkg().Name(), callee.Name(), n)
		}
		c.ownedBytes(sl.X, "store through")
		return c.store(sl.X, fmt.Sprintf("(%s %s %d %s)", put.coq, si.base, si.loC, val))
	}
	if g := c.typeOf(dst); g.k != kBytes {
		t.failf(dst.Pos(), "%s.%s on %s", callee.Pkg().Name(), callee.Name(), c.info.TypeOf(dst))
	}
	c.ownedBytes(dst, "store through")
	return c.store(dst, fmt.Sprintf("(%s %s 0 %s)", put.coq, c.expr(dst), val))
}

// copyStmt: copy(dst, src) as a statement (the count is discarded). dst: a[lo:hi] with a an array
// or []byte l-value and constant bounds (a[:] for an array), or a []byte variable; src: []byte.
func (c *fctx) copyStmt(call *ast.CallExpr) (name, newval string) {
	t := c.t
	if len(call.Args) != 2 {
		t.failf(call.Pos(), "copy with %d arguments", len(call.Args))
	}
	if g := c.typeOf(call.Args[1]); g.k != kBytes {
		t.failf(call.Args[1].Pos(), "copy from %s", c.info.TypeOf(call.Args[1]))
	}
	src := c.bytesOperand(call.Args[1])
	dst := ast.Unparen(call.Args[0])
	c.checkRoot(dst)
	if sl, ok := dst.(*ast.SliceExpr); ok {
		si := c.sliceParts(sl, false) // constant bounds, or open-ended b[lo:] = b[lo:len(b)]
		if si.g.k == kBytes {
			c.ownedBytes(sl.X, "copy into")
		}
		return c.store(sl.X, fmt.Sprintf("(bytes_copy_at %s %s %s %s)", si.base, si.lo, si.hi, src))
	}
	if g := c.typeOf(dst); g.k != kBytes {
		t.failf(dst.Pos(), "copy to %s", c.info.TypeOf(dst))
	}
	c.ownedBytes(dst, "copy into")
	b := c.expr(dst)
	return c.store(dst, fmt.Sprintf("(bytes_copy_at %s 0 (bytes_len %s) %s)", b, b, src))
}

type cont func(ind int) string

// block: the statements of list followed by the continuation k. The modelled run-time panics of
// the FIRST statement's own expressions (c.guards) are tested in front of it.
func (c *fctx) block(list []ast.Stmt, ind int, k cont) string {
	if len(list) == 0 {
		return k(ind)
	}
	saved := c.guards
	c.guards = nil
	out := c.block1(list, ind, k) // nested block() calls restore c.guards to this statement's own
	mine := c.guards
	c.guards = saved
	if len(mine) > 0 {
		none := "None"
		if len(c.loops) > 0 {
			c.t.failf(list[0].Pos(), "operation that may panic inside a loop")
		}
		out = pad(ind) + "if negb (" + strings.Join(mine, " && ") + ") then " + none + " (* run-time panic *) else (\n" + out + "\n" + pad(ind) + ")"
	}
	return out
}

func (c *fctx) block1(list []ast.Stmt, ind int, k cont) string {
	t := c.t
	rest := func(ind int) string { return c.block(list[1:], ind, k) }
	let := func(name, val string) string {
		return pad(ind) + "let " + name + " := " + val + " in\n" + rest(ind)
	}
	switch s := list[0].(type) {
	case *ast.EmptyStmt:
		return rest(ind)
	case *ast.BlockStmt:
		return c.block(s.List, ind, rest)
	case *ast.ReturnStmt:
		if c.f.res == nil {
			if len(s.Results) != 0 {
				t.failf(s.Pos(), "return with a value in a result-less function")
			}
			return pad(ind) + c.ret(c.f.mut.name)
		}
		if len(s.Results) == 1 && len(c.f.results) > 1 && c.f.mut == nil {
			// return g(...) forwarding all results of a whitelisted function
			call, ok := ast.Unparen(s.Results[0]).(*ast.CallExpr)
			if !ok {
				t.failf(s.Pos(), "return with 1 value for %d results", len(c.f.results))
			}
			g := c.tupleCallee(call)
			if len(g.results) != len(c.f.results) {
				t.failf(s.Pos(), "return of a call with %d results for %d results", len(g.results), len(c.f.results))
			}
			for i := range g.results {
				if !g.results[i].same(c.f.results[i]) || g.results[i].opt != c.f.results[i].opt {
					t.failf(s.Pos(), "result %d of %s does not have the result type", i+1, g.display)
				}
			}
			return pad(ind) + c.ret("("+c.call(call, g)+")")
		}
		if len(s.Results) != len(c.f.results) {
			t.failf(s.Pos(), "return with %d values for %d results", len(s.Results), len(c.f.results))
		}
		var vals []string
		if c.f.mut != nil {
			vals = append(vals, c.f.mut.name)
		}
		for i, re := range s.Results {
			r := ast.Unparen(re)
			want := c.f.results[i]
			if tv := c.info.Types[r]; tv.IsNil() {
				switch want.k {
				case kErr:
					vals = append(vals, "err_nil")
				case kBytes:
					vals = append(vals, "bytes_nil")
				case kLen:
					vals = append(vals, "0")
				case kList:
					vals = append(vals, "[]")
				case kStruct:
					if !want.opt {
						t.failf(r.Pos(), "nil returned at a type outside the subset")
					}
					vals = append(vals, "None")
				default:
					t.failf(r.Pos(), "nil returned at a type outside the subset")
				}
				continue
			}
			if want.opt {
				id, ok := r.(*ast.Ident)
				if !ok || !c.optVars[c.info.Uses[id]] {
					t.failf(r.Pos(), "a *%s result that is neither nil nor a local pointer variable", want.st.coq)
				}
				if have := c.typeOf(r); !have.same(want) {
					t.failf(r.Pos(), "returned pointer of type %s does not have the result type", c.info.TypeOf(r))
				}
				vals = append(vals, c.vars[c.info.Uses[id]])
				continue
			}
			if have := c.typeOf(r); !have.same(want) {
				t.failf(r.Pos(), "returned value of type %s does not have the result type", c.info.TypeOf(r))
			}
			vals = append(vals, c.expr(r))
		}
		if len(vals) == 1 {
			return pad(ind) + c.ret(vals[0])
		}
		return pad(ind) + c.ret("("+strings.Join(vals, ", ")+")")
	case *ast.DeclStmt:
		gd, ok := s.Decl.(*ast.GenDecl)
		if !ok || (gd.Tok != token.VAR && gd.Tok != token.CONST) {
			t.failf(s.Pos(), "declaration of this kind inside a function")
		}
		if gd.Tok == token.CONST {
			return rest(ind) // constants are folded by go/types wherever they are used
		}
		var lets []string
		for _, sp := range gd.Specs {
			vs := sp.(*ast.ValueSpec)
			if len(vs.Values) != 0 && len(vs.Values) != len(vs.Names) {
				t.failf(vs.Pos(), "var declaration with a multi-valued initialiser")
			}
			for i, id := range vs.Names {
				if id.Name == "_" {
					t.failf(id.Pos(), "blank variable")
				}
				o := c.info.Defs[id]
				g := t.classify(id.Pos(), o.Type())
				if g.ptr || g.k == kErr {
					t.failf(id.Pos(), "local variable of pointer or error type")
				}
				val := t.zero(id.Pos(), g)
				if len(vs.Values) != 0 {
					c.freshBytes(id.Pos(), g, vs.Values[i])
					val = c.expr(vs.Values[i])
				}
				lets = append(lets, pad(ind)+"let "+c.declare(o)+" := "+val+" in\n")
			}
		}
		return strings.Join(lets, "") + rest(ind)
	case *ast.AssignStmt:
		if isBoundsCheck(s) {
			// `_ = b[k]`: panics unless k < len(b); the one run-time panic that is modelled (None)
			ix := ast.Unparen(s.Rhs[0]).(*ast.IndexExpr)
			if g := c.typeOf(ix.X); g.k != kBytes {
				t.failf(s.Pos(), "bounds check on %s", c.info.TypeOf(ix.X))
			}
			itv := c.info.Types[ix.Index]
			if itv.Value == nil {
				t.failf(s.Pos(), "bounds check with a non-constant index")
			}
			k, exact := constant.Int64Val(constant.ToInt(itv.Value))
			if !exact || k < 0 || !c.f.partial {
				t.failf(s.Pos(), "bounds check with index %s", itv.Value.ExactString())
			}
			return pad(ind) + fmt.Sprintf("if (bytes_len %s <=? %d) then None (* panic: index out of range *) else (\n", c.expr(ix.X), k) +
				rest(ind+2) + "\n" + pad(ind) + ")"
		}
		if len(s.Lhs) > 1 && len(s.Rhs) == 1 && s.Tok == token.DEFINE {
			// x, y := g(...) with g a whitelisted function with that many results (a *S result: option S)
			call, ok := ast.Unparen(s.Rhs[0]).(*ast.CallExpr)
			if !ok {
				t.failf(s.Pos(), "multi-valued short variable declaration from something that is not a call")
			}
			if callee := calleeOf(c.info, call); callee != nil && builtinOf(c.info, call) == "" {
				if tl, ok := textLibOf(callee); ok && len(tl.results) > 1 {
					// v, err := strconv.ParseUint(...) etc.: the pair of GoSemText.v. A variable that already
					// exists in this scope (err) is assigned.
					if len(tl.results) != len(s.Lhs) {
						t.failf(s.Pos(), "%d variables for the %d results of %s.%s", len(s.Lhs), len(tl.results), callee.Pkg().Name(), callee.Name())
					}
					val := c.textCall(call, callee, tl)
					var names []string
					for i, l := range s.Lhs {
						id, ok := l.(*ast.Ident)
						if !ok {
							t.failf(l.Pos(), "short variable declaration of something that is not a variable")
						}
						if id.Name == "_" {
							names = append(names, "_")
							continue
						}
						if o := c.info.Defs[id]; o != nil {
							if g := t.classify(id.Pos(), o.Type()); !g.same(tl.results[i]) {
								t.failf(l.Pos(), "variable %s does not have the type of result %d", id.Name, i+1)
							}
							names = append(names, c.declare(o))
							continue
						}
						n, ok := c.vars[c.info.Uses[id]]
						if !ok || !t.classify(id.Pos(), c.info.Uses[id].Type()).same(tl.results[i]) {
							t.failf(l.Pos(), "%s is not a local variable of the result's type", id.Name)
						}
						names = append(names, n)
					}
					return pad(ind) + "let '(" + strings.Join(names, ", ") + ") := " + val + " in\n" + rest(ind)
				}
			}
			g := c.tupleCallee(call)
			if len(g.results) != len(s.Lhs) {
				t.failf(s.Pos(), "%d variables for the %d results of %s", len(s.Lhs), len(g.results), g.display)
			}
			val := c.call(call, g) // before the new variables come into scope
			var names []string
			for i, l := range s.Lhs {
				id, ok := l.(*ast.Ident)
				if !ok {
					t.failf(l.Pos(), "short variable declaration of something that is not a variable")
				}
				if id.Name == "_" {
					names = append(names, "_")
					continue
				}
				o := c.info.Defs[id]
				if o == nil {
					t.failf(l.Pos(), "short variable declaration that redeclares %s", id.Name)
				}
				r := g.results[i]
				if r.k == kErr || r.k == kBytes {
					t.failf(l.Pos(), "local variable of error or []byte type bound to a call result")
				}
				if r.opt {
					c.optVars[o] = true
				}
				names = append(names, c.declare(o))
			}
			return pad(ind) + "let '(" + strings.Join(names, ", ") + ") := (" + val + ") in\n" + rest(ind)
		}
		if len(s.Lhs) > 1 && len(s.Lhs) == len(s.Rhs) && s.Tok == token.DEFINE {
			// a, b := e1, e2 with ALL variables new (so no right-hand side can mention them)
			var vals []string
			for _, r := range s.Rhs {
				vals = append(vals, c.expr(r))
			}
			var lets []string
			for i, l := range s.Lhs {
				id, ok := l.(*ast.Ident)
				if !ok || id.Name == "_" || c.info.Defs[id] == nil {
					t.failf(l.Pos(), "parallel short variable declaration with a blank or already declared variable")
				}
				o := c.info.Defs[id]
				g := t.classify(id.Pos(), o.Type())
				if g.ptr || g.k == kErr || g.k == kBytes || g.k == kLen {
					t.failf(id.Pos(), "local variable of pointer, error or slice type")
				}
				lets = append(lets, pad(ind)+"let "+c.declare(o)+" := "+vals[i]+" in\n")
			}
			return strings.Join(lets, "") + rest(ind)
		}
		if len(s.Lhs) != 1 || len(s.Rhs) != 1 {
			t.failf(s.Pos(), "assignment with more than one operand on a side")
		}
		lhs := s.Lhs[0]
		if call, ok := ast.Unparen(s.Rhs[0]).(*ast.CallExpr); ok && s.Tok == token.DEFINE && builtinOf(c.info, call) == "" {
			if ftv, isConv := c.info.Types[call.Fun]; !(isConv && ftv.IsType()) {
				if callee := calleeOf(c.info, call); callee != nil {
					if isJSONUnmarshal(callee) {
						// err := json.Unmarshal(b, &x): the oracle returns the error and the new value of x
						id, ok := lhs.(*ast.Ident)
						if !ok || id.Name == "_" || c.info.Defs[id] == nil {
							t.failf(s.Pos(), "json.Unmarshal's error bound to something that is not a new variable")
						}
						tgt := jsonTarget(c.info, call)
						tn, ok := c.vars[c.info.Uses[tgt]]
						if !ok {
							t.failf(s.Pos(), "json.Unmarshal into something that is not a local variable")
						}
						for _, p := range c.f.params {
							if types.Object(p.v) == c.info.Uses[tgt] {
								t.failf(s.Pos(), "json.Unmarshal into a parameter")
							}
						}
						if g := c.typeOf(call.Args[0]); g.k != kBytes {
							t.failf(s.Pos(), "json.Unmarshal of a %s", c.info.TypeOf(call.Args[0]))
						}
						val := fmt.Sprintf("(%s%s %s %s)", jsonOraclePrefix, c.typeOf(tgt).st.coq, c.expr(call.Args[0]), tn)
						return pad(ind) + "let '(" + c.declare(c.info.Defs[id]) + ", " + tn + ") := " + val + " in\n" + rest(ind)
					}
					if tl, ok := textLibOf(callee); ok && tl.special == "split" {
						// parts := strings.Split(s, "<one byte>")
						id, ok := lhs.(*ast.Ident)
						if !ok || id.Name == "_" || c.info.Defs[id] == nil {
							t.failf(s.Pos(), "strings.Split bound to something that is not a new variable")
						}
						if len(call.Args) != 2 || c.typeOf(call.Args[0]).k != kString {
							t.failf(s.Pos(), "strings.Split with unexpected arguments")
						}
						sep := c.info.Types[call.Args[1]]
						if sep.Value == nil || sep.Value.Kind() != constant.String || len(constant.StringVal(sep.Value)) != 1 {
							t.failf(call.Args[1].Pos(), "strings.Split with a separator that is not a constant of one byte")
						}
						val := fmt.Sprintf("(%s %s %d)", tl.coq, c.expr(call.Args[0]), constant.StringVal(sep.Value)[0])
						o := c.info.Defs[id]
						c.strLists[o] = true
						return let(c.declare(o), val)
					}
				}
			}
		}
		switch s.Tok {
		case token.DEFINE:
			id, ok := lhs.(*ast.Ident)
			if !ok || id.Name == "_" {
				t.failf(s.Pos(), "short variable declaration of something that is not a new variable")
			}
			val := c.expr(s.Rhs[0]) // before the new variable comes into scope
			o := c.info.Defs[id]
			if o == nil {
				t.failf(s.Pos(), "short variable declaration that redeclares %s", id.Name)
			}
			g := t.classify(id.Pos(), o.Type())
			if g.ptr || g.k == kErr {
				t.failf(id.Pos(), "local variable of pointer or error type")
			}
			c.freshBytes(id.Pos(), g, s.Rhs[0])
			return let(c.declare(o), val)
		case token.ASSIGN:
			c.checkRoot(lhs)
			if !c.appendStyle(lhs, s.Rhs[0]) {
				c.freshBytes(lhs.Pos(), c.typeOf(lhs), s.Rhs[0])
			}
			val := c.expr(s.Rhs[0])
			name, nv := c.store(lhs, val)
			return let(name, nv)
		default:
			op, ok := assignOps[s.Tok]
			if !ok {
				t.failf(s.Pos(), "assignment operator %s", s.Tok)
			}
			c.checkRoot(lhs)
			val := c.binary(s.Pos(), op, c.typeOf(lhs), lhs, s.Rhs[0], c.expr(lhs))
			name, nv := c.store(lhs, val)
			return let(name, nv)
		}
	case *ast.IncDecStmt:
		c.checkRoot(s.X)
		g := c.typeOf(s.X)
		if g.k != kInt {
			t.failf(s.Pos(), "++/-- on a non-integer")
		}
		op := map[bool]string{true: " + 1", false: " - 1"}[s.Tok == token.INC]
		name, nv := c.store(s.X, wrap(g, c.expr(s.X)+op))
		return let(name, nv)
	case *ast.ExprStmt:
		call, ok := ast.Unparen(s.X).(*ast.CallExpr)
		if !ok {
			t.failf(s.Pos(), "expression statement that is not a call")
		}
		if builtinOf(c.info, call) == "copy" {
			name, nv := c.copyStmt(call)
			return let(name, nv)
		}
		callee := calleeOf(c.info, call)
		if callee == nil || isErrorf(callee) {
			t.failf(s.Pos(), "call statement of a non-whitelisted function")
		}
		if put, ok := putIntrinsicOf(callee); ok {
			name, nv := c.putStmt(call, callee, put)
			return let(name, nv)
		}
		g := t.fns[funcKey(callee)]
		if g == nil || g.mut == nil {
			t.failf(s.Pos(), "call statement of a function that writes through no pointer")
		}
		if g.res != nil {
			t.failf(s.Pos(), "call statement that discards the results of %s", g.display)
		}
		args := t.callArgs(c.info, call, g)
		for i, p := range g.params {
			if p == g.mut {
				target := ast.Unparen(args[i])
				if u, ok := target.(*ast.UnaryExpr); ok && u.Op == token.AND {
					target = u.X
				}
				c.checkRoot(target)
				val := c.call(call, g)
				if id, ok := ast.Unparen(target).(*ast.Ident); ok {
					n, ok := c.vars[c.info.Uses[id]]
					if !ok {
						t.failf(target.Pos(), "pointer argument %s is not a variable of this function", id.Name)
					}
					return let(n, val)
				}
				name, nv := c.store(target, "("+val+")")
				return let(name, nv)
			}
		}
		t.failf(s.Pos(), "internal: written parameter not found")
	case *ast.DeferStmt:
		if !errWrapDefer(c.info, s) {
			t.failf(s.Pos(), "defer")
		}
		return rest(ind)
	case *ast.BranchStmt:
		if s.Tok != token.CONTINUE || s.Label != nil || len(c.loops) == 0 {
			t.failf(s.Pos(), "%s outside the subset (only an unlabelled continue inside a loop)", s.Tok)
		}
		return pad(ind) + "LoopNext " + c.loops[len(c.loops)-1]
	case *ast.RangeStmt:
		return c.rangeStmt(s, ind, rest)
	case *ast.ForStmt:
		return c.forStmt(s, ind, rest)
	case *ast.IfStmt:
		body := func(ind int) string {
			if g := c.typeOf(s.Cond); g.k != kBool {
				t.failf(s.Cond.Pos(), "condition of non-bool type")
			}
			els := rest
			if s.Else != nil {
				els = func(ind int) string { return c.block([]ast.Stmt{s.Else}, ind, rest) }
			}
			return pad(ind) + "if " + c.expr(s.Cond) + " then (\n" + c.block(s.Body.List, ind+2, rest) + "\n" +
				pad(ind) + ") else (\n" + els(ind+2) + "\n" + pad(ind) + ")"
		}
		if s.Init != nil {
			return c.block([]ast.Stmt{s.Init}, ind, body)
		}
		return body(ind)
	case *ast.SwitchStmt:
		body := func(ind int) string {
			tag, head := "", ""
			var tg gtype
			if s.Tag != nil {
				tg = c.typeOf(s.Tag)
				if tg.k != kInt && tg.k != kBool && tg.k != kString {
					t.failf(s.Tag.Pos(), "switch on a value of type %s", c.info.TypeOf(s.Tag))
				}
				tag = fmt.Sprintf("sw_%d", t.fset.Position(s.Pos()).Line)
				head = pad(ind) + "let " + tag + " := " + c.expr(s.Tag) + " in\n"
			}
			var clauses []*ast.CaseClause
			var def *ast.CaseClause
			for _, st := range s.Body.List {
				cc := st.(*ast.CaseClause)
				for _, b := range cc.Body {
					if br, ok := b.(*ast.BranchStmt); ok {
						t.failf(br.Pos(), "%s in a switch", br.Tok)
					}
				}
				if cc.List == nil {
					def = cc
				} else {
					clauses = append(clauses, cc)
				}
			}
			var chain func(i, ind int) string
			chain = func(i, ind int) string {
				if i == len(clauses) {
					if def != nil {
						return c.block(def.Body, ind, rest)
					}
					return rest(ind)
				}
				cc := clauses[i]
				var conds []string
				for _, ce := range cc.List {
					cg := c.typeOf(ce)
					switch {
					case s.Tag == nil:
						if cg.k != kBool {
							t.failf(ce.Pos(), "case of non-bool type in a tagless switch")
						}
						conds = append(conds, c.expr(ce))
					case tg.k == kBool && cg.k == kBool:
						conds = append(conds, fmt.Sprintf("(Bool.eqb %s %s)", tag, c.expr(ce)))
					case tg.k == kInt && cg.k == kInt && cg.bits == tg.bits && cg.signed == tg.signed:
						conds = append(conds, fmt.Sprintf("(%s =? %s)", tag, c.expr(ce)))
					case tg.k == kString && cg.k == kString:
						conds = append(conds, fmt.Sprintf("(go_string_eqb %s %s)", tag, c.expr(ce)))
					default:
						t.failf(ce.Pos(), "case value of a type different from the tag's")
					}
				}
				cond := conds[0]
				if len(conds) > 1 {
					cond = "(" + strings.Join(conds, " || ") + ")"
				}
				return pad(ind) + "if " + cond + " then (\n" + c.block(cc.Body, ind+2, rest) + "\n" +
					pad(ind) + ") else (\n" + chain(i+1, ind+2) + "\n" + pad(ind) + ")"
			}
			return head + chain(0, ind)
		}
		if s.Init != nil {
			return c.block([]ast.Stmt{s.Init}, ind, body)
		}
		return body(ind)
	}
	t.failf(list[0].Pos(), "statement of kind %s is outside the subset", stmtKind(list[0]))
	panic("unreachable")
}

// tupleCallee: the whitelisted function a call with several results invokes.
func (c *fctx) tupleCallee(call *ast.CallExpr) *fn {
	if ftv, ok := c.info.Types[call.Fun]; (ok && ftv.IsType()) || builtinOf(c.info, call) != "" {
		c.t.failf(call.Pos(), "conversion or builtin where a call with several results is needed")
	}
	callee := calleeOf(c.info, call)
	if callee == nil {
		c.t.failf(call.Pos(), "call of a function value or an interface method")
	}
	g := c.t.fns[funcKey(callee)]
	if g == nil {
		c.t.failf(call.Pos(), "call of %s, which is not a whitelisted function", callee.Name())
	}
	if g.mut != nil || g.partial || len(g.results) < 2 {
		c.t.failf(call.Pos(), "call of %s where a pure function with several results is needed", g.display)
	}
	return g
}

// loopState: the variables declared OUTSIDE the loop body that the body assigns (in order of first
// assignment): the state threaded through the iterations.
func (c *fctx) loopState(body *ast.BlockStmt, own map[types.Object]bool) (tuple string, names []string) {
	seen := map[types.Object]bool{}
	note := func(lhs ast.Expr) {
		id := rootIdent(lhs)
		if id == nil || id.Name == "_" {
			return
		}
		o := c.info.Uses[id]
		if o == nil || own[o] || seen[o] {
			return
		}
		if n, ok := c.vars[o]; ok { // declared before the loop
			seen[o] = true
			names = append(names, n)
		}
	}
	ast.Inspect(body, func(n ast.Node) bool {
		switch x := n.(type) {
		case *ast.AssignStmt:
			if x.Tok != token.DEFINE {
				for _, l := range x.Lhs {
					note(l)
				}
			}
		case *ast.IncDecStmt:
			note(x.X)
		case *ast.CallExpr:
			if builtinOf(c.info, x) == "copy" && len(x.Args) == 2 {
				note(x.Args[0])
			} else if callee := calleeOf(c.info, x); callee != nil {
				if _, ok := putIntrinsicOf(callee); ok && len(x.Args) == 2 {
					note(x.Args[0])
				} else if g := c.t.fns[funcKey(callee)]; g != nil && g.mut != nil {
					args := c.t.callArgs(c.info, x, g)
					for i, p := range g.params {
						if p == g.mut {
							note(args[i])
						}
					}
				}
			}
		}
		return true
	})
	switch len(names) {
	case 0:
		return "tt", names
	case 1:
		return names[0], names
	}
	return "(" + strings.Join(names, ", ") + ")", names
}

// loop emits  match <combinator> (fun <key> <elem> <state> => body) <init...> <state> with ... end.
func (c *fctx) loop(ind int, comb, key, elem, bind, args, state string, nstate int, body *ast.BlockStmt, rest cont) string {
	st := state
	if nstate == 0 {
		st = "_"
	}
	pat := st
	if nstate > 1 {
		pat = "st__"
	}
	out := pad(ind) + "match " + comb + " (fun " + key + " " + elem + " " + pat + " =>\n"
	if nstate > 1 {
		out += pad(ind+4) + "let '" + state + " := st__ in\n"
	}
	out += bind
	c.loops = append(c.loops, state)
	out += c.block(body.List, ind+4, func(ind int) string { return pad(ind) + "LoopNext " + state })
	c.loops = c.loops[:len(c.loops)-1]
	out += "\n" + pad(ind+2) + ") " + args + " " + state + " with\n"
	out += pad(ind) + "| LoopReturn r__ => " + c.loopRet("r__") + "\n"
	out += pad(ind) + "| LoopNext " + st + " =>\n" + rest(ind+4) + "\n" + pad(ind) + "end"
	return out
}

// rangeStmt: for k, x := range e { ... } over a []S / []*S (kList), a []byte or a string. The body may
// assign locals, continue and return; break, goto and labels are outside the subset.
func (c *fctx) rangeStmt(s *ast.RangeStmt, ind int, rest cont) string {
	t := c.t
	if s.Tok != token.DEFINE && (s.Key != nil || s.Value != nil) {
		t.failf(s.Pos(), "range that assigns to existing variables")
	}
	xg := c.typeOf(s.X)
	xs := c.expr(s.X)
	own := map[types.Object]bool{}
	name := func(e ast.Expr) (string, types.Object) {
		if e == nil {
			return "_", nil
		}
		id, ok := e.(*ast.Ident)
		if !ok {
			t.failf(e.Pos(), "range variable that is not an identifier")
		}
		if id.Name == "_" {
			return "_", nil
		}
		o := c.info.Defs[id]
		own[o] = true
		return c.declare(o), o
	}
	key, _ := name(s.Key)
	elem, eo := name(s.Value)
	bind := ""
	comb := "go_range"
	switch xg.k {
	case kList:
		if eo != nil {
			if _, isPtr := eo.Type().(*types.Pointer); isPtr {
				// the element of a []*S is a pointer: the range variable is a local *S (option S); the
				// elements of the slice are assumed non-nil
				c.optVars[eo] = true
				bind = pad(ind+4) + "let " + elem + " := Some " + elem + "__ in\n"
				elem += "__"
			}
		}
	case kBytes:
	case kString:
		comb = "go_range_string"
	default:
		t.failf(s.X.Pos(), "range over %s", c.info.TypeOf(s.X))
	}
	state, names := c.loopState(s.Body, own)
	if id := rootIdent(s.X); id != nil {
		// the elements of a slice are read when they are reached: a body that stores into the slice it
		// ranges over would see its own stores, which the fold over the initial contents does not show
		if n, ok := c.vars[c.info.Uses[id]]; ok {
			for _, m := range names {
				if m == n {
					t.failf(s.X.Pos(), "loop body assigns %s, which the loop ranges over", id.Name)
				}
			}
		}
	}
	args := "0 " + xs
	return c.loop(ind, comb, key, elem, bind, args, state, len(names), s.Body, rest)
}

// forStmt: for i := 0; i < len(x); i++ { ... } with a body that assigns neither i nor x: the same
// fold, over the indices 0 .. len(x)-1 (go_iota).
func (c *fctx) forStmt(s *ast.ForStmt, ind int, rest cont) string {
	t := c.t
	bad := func() { t.failf(s.Pos(), "for loop that is not of the form `for i := 0; i < len(x); i++`") }
	init, ok := s.Init.(*ast.AssignStmt)
	if !ok || init.Tok != token.DEFINE || len(init.Lhs) != 1 || len(init.Rhs) != 1 {
		bad()
	}
	iv, ok := init.Lhs[0].(*ast.Ident)
	if !ok || iv.Name == "_" {
		bad()
	}
	if tv := c.info.Types[init.Rhs[0]]; tv.Value == nil || constant.Sign(constant.ToInt(tv.Value)) != 0 {
		bad()
	}
	io := c.info.Defs[iv]
	if g := t.classify(iv.Pos(), io.Type()); g.k != kInt || !g.signed || g.bits != 64 {
		bad()
	}
	cond, ok := s.Cond.(*ast.BinaryExpr)
	if !ok || cond.Op != token.LSS {
		bad()
	}
	if id, ok := ast.Unparen(cond.X).(*ast.Ident); !ok || c.info.Uses[id] != io {
		bad()
	}
	lenCall, ok := ast.Unparen(cond.Y).(*ast.CallExpr)
	if !ok || builtinOf(c.info, lenCall) != "len" || len(lenCall.Args) != 1 {
		bad()
	}
	xid, ok := ast.Unparen(lenCall.Args[0]).(*ast.Ident)
	if !ok {
		bad()
	}
	xo := c.info.Uses[xid]
	post, ok := s.Post.(*ast.IncDecStmt)
	if !ok || post.Tok != token.INC {
		bad()
	}
	if id, ok := ast.Unparen(post.X).(*ast.Ident); !ok || c.info.Uses[id] != io {
		bad()
	}
	n := c.expr(cond.Y) // len(x), before i comes into scope
	own := map[types.Object]bool{io: true}
	key := c.declare(io)
	state, names := c.loopState(s.Body, own)
	// the body must assign neither i nor x
	ast.Inspect(s.Body, func(nd ast.Node) bool {
		check := func(l ast.Expr) {
			if id := rootIdent(l); id != nil && (c.info.Uses[id] == io || c.info.Uses[id] == xo) {
				t.failf(l.Pos(), "loop body assigns the loop variable or the slice the loop runs over")
			}
		}
		switch x := nd.(type) {
		case *ast.AssignStmt:
			for _, l := range x.Lhs {
				check(l)
			}
		case *ast.IncDecStmt:
			check(x.X)
		case *ast.CallExpr:
			if builtinOf(c.info, x) == "copy" && len(x.Args) == 2 {
				check(x.Args[0])
			}
		}
		return true
	})
	return c.loop(ind, "go_range", key, "_", "", "0 (go_iota "+n+")", state, len(names), s.Body, rest)
}

// ret: the value a return yields: wrapped in Some for a function with an explicit bounds check.
func (c *fctx) ret(v string) string {
	if c.f.partial {
		v = "Some " + v
	}
	return c.loopRet(v)
}

// loopRet: inside a loop body a return leaves the loop with LoopReturn (GoSem.v go_range).
func (c *fctx) loopRet(v string) string {
	if len(c.loops) > 0 {
		return "LoopReturn (" + v + ")"
	}
	return v
}

func stmtKind(s ast.Stmt) string {
	switch x := s.(type) {
	case *ast.ForStmt:
		return "for"
	case *ast.RangeStmt:
		return "for-range"
	case *ast.GoStmt:
		return "go"
	case *ast.DeferStmt:
		return "defer"
	case *ast.BranchStmt:
		return x.Tok.String()
	case *ast.LabeledStmt:
		return "label"
	case *ast.TypeSwitchStmt:
		return "type switch"
	case *ast.SelectStmt:
		return "select"
	case *ast.SendStmt:
		return "send"
	}
	return fmt.Sprintf("%T", s)
}

func (t *translator) translate(f *fn) {
	t.cur = f
	defer func() { t.cur = nil }()
	c := &fctx{t: t, f: f, info: f.d.pkg.TypesInfo, vars: map[types.Object]string{}, taken: map[string]bool{}, optVars: map[types.Object]bool{}, strLists: map[types.Object]bool{}}
	var ps []string
	for _, o := range f.oracles {
		c.taken[o] = true
		ps = append(ps, fmt.Sprintf("(%s : %s)", o, oracleType(o)))
	}
	for _, p := range f.params {
		p.name = c.declare(p.v)
		if p.g.k == kIface {
			c.taken[p.name+"_Frame"], c.taken[p.name+"_Descriptor"] = true, true
			ps = append(ps, fmt.Sprintf("(%s_Frame : %s) (%s_Descriptor : %s)", p.name, p.g.st.coq, p.name, p.g.st2.coq))
			continue
		}
		ps = append(ps, fmt.Sprintf("(%s : %s)", p.name, p.g.coq()))
	}
	var rts []string
	if f.mut != nil {
		rts = append(rts, f.mut.g.coq())
	}
	for _, g := range f.results {
		rts = append(rts, g.coq())
	}
	ret := strings.Join(rts, " * ")
	if len(rts) > 1 {
		ret = "(" + ret + ")"
	}
	if f.partial {
		ret = "option " + ret
	}
	end := func(ind int) string {
		if f.res != nil {
			t.failf(f.d.decl.Body.Rbrace, "control reaches the end of a function with a result")
		}
		return pad(ind) + c.ret(f.mut.name)
	}
	body := c.block(f.d.decl.Body.List, 2, end)
	rel, _ := filepath.Rel(t.root, f.pos.Filename)
	f.text = fmt.Sprintf("(** %s:%d  %s *)\nDefinition %s %s : %s :=\n%s.\n", rel, f.pos.Line, f.display, f.coq, strings.Join(ps, " "), ret, body)
}

// ---------------------------------------------------------------------------- main

func moduleRootOfBuild() string {
	_, file, _, ok := runtime.Caller(0)
	if !ok {
		return ""
	}
	for dir := filepath.Dir(file); dir != "/" && dir != "."; dir = filepath.Dir(dir) {
		if _, err := os.Stat(filepath.Join(dir, "go.mod")); err == nil {
			return dir
		}
	}
	return ""
}

func main() {
	var only []string
	var pos []string
	list := false
	for i := 1; i < len(os.Args); i++ {
		switch os.Args[i] {
		case "-only":
			i++
			if i < len(os.Args) && os.Args[i] != "" {
				only = strings.Split(os.Args[i], ",")
			}
		case "-list":
			list = true
		default:
			pos = append(pos, os.Args[i])
		}
	}
	for _, w := range whitelist {
		wlByKey[wlKey(w.pkg, w.recv, w.name)] = wlCoq(w.pkg, w.recv, w.name)
	}
	if list {
		for _, w := range whitelist {
			fmt.Printf("WHITELIST %s %s\n", wlCoq(w.pkg, w.recv, w.name), wlKey(w.pkg, w.recv, w.name))
		}
		return
	}
	root, out := "", ""
	switch len(pos) {
	case 1:
		root, out = moduleRootOfBuild(), pos[0]
	case 2:
		root, out = pos[0], pos[1]
	default:
		fmt.Fprintln(os.Stderr, "usage: verif_translate [<module root>] <output dir> [-only name,...]")
		os.Exit(64)
	}
	if root == "" {
		fmt.Fprintln(os.Stderr, "TRANSLATE-ERROR cannot determine the module root")
		os.Exit(2)
	}
	root, _ = filepath.Abs(root)
	if r, err := filepath.EvalSymlinks(root); err == nil {
		root = r
	}
	os.Exit(run(root, out, only))
}

func run(root, out string, only []string) (status int) {
	t := &translator{root: root, fset: token.NewFileSet(), pkgs: map[string]*packages.Package{},
		decls: map[string]*fnDecl{}, fns: map[string]*fn{}, structs: map[string]*structInfo{}, names: map[string]string{}}
	// roots
	type rootT struct{ key, coq string }
	var roots []rootT
	want := map[string]bool{}
	for _, o := range only {
		want[o] = true
	}
	pkgSet := map[string]bool{}
	for _, w := range whitelist {
		coq := wlCoq(w.pkg, w.recv, w.name)
		if len(only) > 0 && !want[coq] {
			continue
		}
		delete(want, coq)
		roots = append(roots, rootT{wlKey(w.pkg, w.recv, w.name), coq})
	}
	if len(want) > 0 {
		fmt.Fprintf(os.Stderr, "TRANSLATE-ERROR -only names that are not whitelisted: %v\n", want)
		return 2
	}
	// every whitelisted package is loaded (a root may call into any of them)
	for _, w := range whitelist {
		p := modPath
		if w.pkg != "" {
			p += "/" + w.pkg
		}
		pkgSet[p] = true
	}
	var patterns []string
	for p := range pkgSet {
		patterns = append(patterns, p)
	}
	sort.Strings(patterns)
	cfg := &packages.Config{
		Mode: packages.NeedName | packages.NeedFiles | packages.NeedCompiledGoFiles | packages.NeedImports |
			packages.NeedTypes | packages.NeedTypesSizes | packages.NeedSyntax | packages.NeedTypesInfo,
		Dir:  root,
		Fset: t.fset,
		Env:  append(os.Environ(), "GOFLAGS=-mod=mod", "GOPROXY=off", "GOSUMDB=off", "GOTOOLCHAIN=local", "GOOS=linux", "GOARCH=amd64"),
	}
	pkgs, err := packages.Load(cfg, patterns...)
	if err != nil {
		fmt.Fprintf(os.Stderr, "TRANSLATE-ERROR loading packages: %v\n", err)
		return 2
	}
	bad := false
	for _, p := range pkgs {
		for _, e := range p.Errors {
			fmt.Fprintf(os.Stderr, "TRANSLATE-ERROR %s: does not type-check: %s\n", p.PkgPath, strings.ReplaceAll(e.Error(), root+"/", ""))
			bad = true
		}
		if p.TypesInfo == nil || p.Types == nil {
			fmt.Fprintf(os.Stderr, "TRANSLATE-ERROR %s: no type information\n", p.PkgPath)
			bad = true
		}
		t.pkgs[p.PkgPath] = p
	}
	if bad {
		return 2
	}
	t.index()
	// phase 1 (per root: a failure is reported for every root, not just the first)
	var errs []string
	guard := func(f func()) {
		defer func() {
			if r := recover(); r != nil {
				te, ok := r.(transErr)
				if !ok {
					panic(r)
				}
				errs = append(errs, te.msg)
				t.cur = nil
				for k, f := range t.fns { // abandoned mid-analysis: must not look like recursion later
					if f.state == 1 {
						delete(t.fns, k)
					}
				}
			}
		}()
		f()
	}
	for _, r := range roots {
		r := r
		guard(func() { t.analyse(r.key, token.NoPos) })
	}
	if len(errs) == 0 {
		for _, s := range t.sorder {
			for i := 0; i < s.st.NumFields(); i++ {
				if fl := s.st.Field(i); s.used[fl.Name()] {
					fl := fl
					guard(func() { t.classify(fl.Pos(), fl.Type()) })
					s.fields = append(s.fields, fl)
					guard(func() {
						t.claim(s.coq+"_"+fl.Name(), "field of "+s.qual)
						t.claim("set_"+s.coq+"_"+fl.Name(), "setter of "+s.qual)
						t.claim("zero_"+s.coq, "zero value of "+s.qual)
					})
				}
			}
		}
	}
	if len(errs) == 0 {
		for _, f := range t.order {
			f := f
			guard(func() { t.translate(f) })
		}
	}
	if len(errs) > 0 {
		seen := map[string]bool{}
		for _, e := range errs {
			if !seen[e] {
				fmt.Fprintf(os.Stderr, "TRANSLATE-ERROR %s\n", e)
			}
			seen[e] = true
		}
		return 2
	}
	// output
	var b strings.Builder
	b.WriteString("(* GENERATED by /verif/harness/translate/main.go from the Go source tree at\n     " + root + "\n   DO NOT EDIT. Semantics of the operators: CanVerif.Translate.GoSem. *)\n")
	b.WriteString("From Coq Require Import ZArith List Bool.\nFrom CanVerif Require Import Translate.GoSem.\n")
	if t.usesFloat {
		b.WriteString("From CanVerif Require Import Translate.GoSemFloat.\n")
	}
	if t.usesText {
		b.WriteString("From CanVerif Require Import Translate.GoSemText.\n")
	}
	b.WriteString("Import ListNotations.\nOpen Scope Z_scope.\nOpen Scope bool_scope.\n\n")
	// records: a struct may contain another one; emit in dependency order
	emitted := map[*structInfo]bool{}
	var emit func(s *structInfo)
	emit = func(s *structInfo) {
		if emitted[s] {
			return
		}
		emitted[s] = true
		var fl []string
		for _, f := range s.fields {
			g := t.classify(f.Pos(), f.Type())
			if g.k == kStruct || g.k == kList {
				emit(g.st)
			}
			fl = append(fl, fmt.Sprintf("%s_%s : %s", s.coq, f.Name(), g.coq()))
		}
		p := t.fset.Position(s.named.Obj().Pos())
		rel, _ := filepath.Rel(root, p.Filename)
		if len(s.fields) == 0 {
			// only ever an element of a slice whose length is taken: a type with one value
			fmt.Fprintf(&b, "(** %s:%d  struct %s: none of its fields is used by the translated functions *)\n", rel, p.Line, strings.TrimPrefix(s.qual, modPath))
			fmt.Fprintf(&b, "Inductive %s := mk_%s.\nDefinition zero_%s : %s := mk_%s.\n\n", s.coq, s.coq, s.coq, s.coq, s.coq)
			fmt.Printf("RECORD %s 0 fields\n", s.coq)
			return
		}
		fmt.Fprintf(&b, "(** %s:%d  struct %s, the fields used by the translated functions *)\n", rel, p.Line, strings.TrimPrefix(s.qual, modPath))
		fmt.Fprintf(&b, "Record %s := { %s }.\n", s.coq, strings.Join(fl, "; "))
		for _, f := range s.fields {
			var parts []string
			for _, h := range s.fields {
				if h == f {
					parts = append(parts, fmt.Sprintf("%s_%s := v", s.coq, h.Name()))
				} else {
					parts = append(parts, fmt.Sprintf("%s_%s := %s_%s r", s.coq, h.Name(), s.coq, h.Name()))
				}
			}
			g := t.classify(f.Pos(), f.Type())
			fmt.Fprintf(&b, "Definition set_%s_%s (r : %s) (v : %s) : %s :=\n  {| %s |}.\n", s.coq, f.Name(), s.coq, g.coq(), s.coq, strings.Join(parts, "; "))
		}
		fmt.Fprintf(&b, "Definition zero_%s : %s :=\n  %s.\n", s.coq, s.coq, t.zero(token.NoPos, gtype{k: kStruct, st: s}))
		b.WriteString("\n")
		fmt.Printf("RECORD %s %d fields\n", s.coq, len(s.fields))
	}
	for _, s := range t.sorder {
		emit(s)
	}
	files := map[string]bool{}
	for _, f := range t.order {
		b.WriteString(f.text)
		b.WriteString("\n")
		rel, _ := filepath.Rel(root, f.pos.Filename)
		files[rel] = true
		fmt.Printf("TRANSLATED %s %s:%d %s\n", f.coq, rel, f.pos.Line, f.key)
	}
	if err := os.MkdirAll(out, 0o755); err != nil {
		fmt.Fprintf(os.Stderr, "TRANSLATE-ERROR %v\n", err)
		return 2
	}
	if err := os.WriteFile(filepath.Join(out, "Translated.v"), []byte(b.String()), 0o644); err != nil {
		fmt.Fprintf(os.Stderr, "TRANSLATE-ERROR %v\n", err)
		return 2
	}
	var fl []string
	for f := range files {
		fl = append(fl, f)
	}
	sort.Strings(fl)
	fmt.Printf("FILES %s\n", strings.Join(fl, " "))
	return 0
}
