// verif_linttrans: regenerates, from the CURRENT Go source of the lint analyzers
// go.einride.tech/can/pkg/dbc/analysis/passes/*/analyzer.go, one Gallina function per analyzer
// (`<analyzer>_run : file -> outcome`, the ordered list of diagnostics) over the data types of
// coq/theories/Dbc/Ast.v and the diagnostics of coq/theories/Dbc/Lint.v. Compiled into the tree under
// test with `go build -overlay` as cmd/verif_linttrans (checks/lint.py, stage lint_tie); the output is
// proved equal to the hand model Dbc/Lint.v, for all files, by coq/translate/LintEquiv.v on every run of C18.
//
//	usage:  verif_linttrans <module root> <output dir>
//	output: <dir>/LintTranslated.v
//	stdout: TRANSLATED <analyzer> <file>:<line>    per analyzer whose run function is in the subset
//	        UNTRANSLATED <analyzer> <file>:<line>: <first construct outside the subset>
//	        FILES <go files>
//	exit:   0; 2 (and TRANSLATE-ERROR on stderr) when packages do not load or type-check.
//	An analyzer outside the subset is NEVER skipped silently: it is listed with file:line and the check
//	reports a violation when a lemma of LintEquiv.v exists for it (a tied analyzer left the subset).
//
// The packages are loaded and type-checked with golang.org/x/tools/go/packages; static types and constant
// values are read off go/types.
//
// SUPPORTED SUBSET AND ITS READING (trusted; anything else = error with file:line for that analyzer):
//
//	function    `func run(pass *analysis.Pass) error` whose last statement is `return nil`. Reading: a function
//	            of the FILE (pass.File: raw bytes + definitions) to `Ok ds`, ds = the diagnostics appended to
//	            pass.Diagnostics in order (Pass.Reportf of analysis.go = fmt.Sprintf + append; the pass starts
//	            with no diagnostics). The File is only read (no assignment through pass / def pointers is in
//	            the subset). The only panics of the subset's operations would be nil dereferences: elements of
//	            File.Defs / results of successful type assertions are assumed non-nil (parser output).
//	values      *dbc.XxxDef / dbc.XxxDef = the VALUE of Dbc/Ast.v (glue LintGlue.v: as_XxxDef, XxxDef_Field);
//	            strings / Identifier = byte lists; integers = Z in the type's range; uint64 `*` wraps
//	            (go_u64); float64 = bit pattern (only `>` -> Lint.f64_gt); a Go local is the Coq variable
//	            v_<name>, assignment = shadowing `let`.
//	statements  x := e; x, ok := d.(*dbc.T) directly followed by `if !ok [|| c] { continue }`
//	            (-> match as_T d with None => continue | Some x => [if c then continue else] rest);
//	            if x, ok := d.(*dbc.T); ok { .. }   (-> match as_T d with Some x => .. | None => unchanged);
//	            switch x := d.(type) { case *dbc.T: .. } without default/fallthrough (-> nested match as_T in
//	            source order; the dynamic types are disjoint, no case = unchanged);
//	            if c { .. } [else { .. }]: a branch ending in continue/break makes the rest the else branch,
//	            otherwise both branches yield the tuple of the outer variables they assign;
//	            if _, ok := m[k]; ok / !ok {..} [else {..}]   (-> set_mem / map_mem);
//	            if v, ok := m[k]; ok {..}                     (-> match map_get k m with Some v => .. | None => ..);
//	            m := make(map[K]V) (-> []), m := map[K]struct{}{k: {}} (-> [k]), m := helper() where helper's body
//	            is `return map[K]V{constant: constant, ...}` (-> association list in SOURCE order; Go rejects
//	            duplicate constant keys, so first-match lookup = map lookup); m[k] = struct{}{} (-> k :: m);
//	            reading: a map is the list of its insertions, newest first; lookup = first match under Go's ==
//	            on the key type (bytes_eqb on strings, Z.eqb on integers); maps are never iterated or deleted from;
//	            for _, x := range l { .. } and `for i := range l { x := &l[i]; .. }` (i used nowhere else, x only
//	            read) -> lint_for body l state: a left-to-right fold with `continue` = next element with the
//	            current state, `break` = stop; state = tuple of the outer variables the body assigns (ds =
//	            the diagnostics); the range expression is evaluated once (it is not assigned in the body);
//	            pass.Reportf(pos, "constant format", args...) -> ds ++ [diag pos (lint_msg format [args])] where
//	            LintGlue.lint_msg maps the format literal to the message constructor of Lint.v (table there);
//	            every literal/argument-kind combination is checked to be in the table (fmt_known_k lemmas
//	            in the generated file); arguments: strings -> FStr, integers -> FInt, floats -> FFloat;
//	            continue, break (unlabelled), return nil;
//	            counts := make(map[reflect.Type]int); counts[k]++ (-> map_inc_kind: the entry becomes old value + 1,
//	            absent = 0; Go's int does not wrap here: a count is bounded by the number of definitions);
//	            `if len(pass.File.Defs) > 0 { .. pass.File.Defs[0] .. }` (-> match on the list, l[0] = its head; no
//	            other slice indexing is in the subset, so no index panic is).
//	            `for i := range l { x := l[len(l)-i-1]; .. }` (i used nowhere else) -> lint_for over (rev l): i runs
//	            over 0..len(l)-1, so the index is in range and the elements are visited last to first;
//	            f(d) for a helper `func f(d dbc.Def) uint64 { for i, x := range []dbc.Def{&dbc.T{},..} { if c { return
//	            uint64(i) } }; return CONST }` -> lint_first_index (fun x => c) [zero_T; ..] CONST (index of the first
//	            element satisfying c, CONST when none); reflect.TypeOf(a) == reflect.TypeOf(b) -> kind_eqb.
//	            further expressions: counts[k] (absent = 0), reflect.TypeOf(d) on a dbc.Def (-> Lint.kind_of d; a
//	            helper `return []dbc.Def{&dbc.T{}, ..}` is the list of LintGlue's zero_T values, of which only the
//	            dynamic type can be observed), scanner.Position{Filename: _, Line: a, Column: b} (-> go_position a b:
//	            the model's positions carry no file name; offset 0).
//	expressions constants (go/types), locals, x.F, pass.File.Defs / .Data, len (go_len), string conversions
//	            (identity), ! && ||, == != < <= > >= on integers and == != on strings, > on float64, uint64 * + ,
//	            strings.HasPrefix/HasSuffix (Lint.has_prefix/has_suffix), identifiers.IsCamelCase
//	            (Lint.is_camel_case over the two oracle parameters uni_digit/uni_upper, tied to the source by
//	            group lintnames), dbc.IsIndependentSignalsMessage (translated from independent_signals.go into
//	            IsIndependentSignalsMessage, itself tied by TL_IsIndependentSignalsMessage_eq), d.Position() (def_pos).
package main

import (
	"fmt"
	"go/ast"
	"go/constant"
	"go/token"
	"go/types"
	"os"
	"path/filepath"
	"sort"
	"strings"

	"golang.org/x/tools/go/packages"
)

const dbcPath = "go.einride.tech/can/pkg/dbc"
const passesPath = "go.einride.tech/can/pkg/dbc/analysis/passes/"

type terr struct{ msg string }

var fset = token.NewFileSet()
var root string

type tr struct {
	info     *types.Info
	pkg      *packages.Package
	camel    bool              // uses IsCamelCase -> oracle parameters
	helpers  map[string]string // helper name -> Coq definition text
	horder   []string
	names    map[types.Object]string // Go local -> Coq name
	fmts     *[]string               // fmt_known lemmas (shared)
	analyzer string
	guarded  string // Coq text of the slice l inside `if len(l) > 0 { .. }`: l[0] is the matched head g_hd
}

func (t *tr) failAt(n ast.Node, format string, a ...interface{}) {
	p := fset.Position(n.Pos())
	rel, err := filepath.Rel(root, p.Filename)
	if err != nil {
		rel = p.Filename
	}
	panic(terr{fmt.Sprintf("%s:%d: %s", rel, p.Line, fmt.Sprintf(format, a...))})
}

func bytesLit(s string) string {
	if len(s) == 0 {
		return "(@nil Z)"
	}
	var parts []string
	for i := 0; i < len(s); i++ {
		parts = append(parts, fmt.Sprint(s[i]))
	}
	return "[" + strings.Join(parts, "; ") + "]"
}

func under(t types.Type) types.Type {
	if p, ok := t.Underlying().(*types.Pointer); ok {
		return p.Elem().Underlying()
	}
	return t.Underlying()
}

func isString(t types.Type) bool {
	b, ok := t.Underlying().(*types.Basic)
	return ok && b.Info()&types.IsString != 0
}
func isInteger(t types.Type) bool {
	b, ok := t.Underlying().(*types.Basic)
	return ok && b.Info()&types.IsInteger != 0
}
func isFloat(t types.Type) bool {
	b, ok := t.Underlying().(*types.Basic)
	return ok && b.Info()&types.IsFloat != 0
}
func isBool(t types.Type) bool {
	b, ok := t.Underlying().(*types.Basic)
	return ok && b.Info()&types.IsBoolean != 0
}

// dbcStruct: name of the struct type of package dbc that t (or *t) is, "" otherwise
func dbcStruct(t types.Type) string {
	if p, ok := t.(*types.Pointer); ok {
		t = p.Elem()
	}
	n, ok := t.(*types.Named)
	if !ok || n.Obj().Pkg() == nil || n.Obj().Pkg().Path() != dbcPath {
		return ""
	}
	if _, ok := n.Underlying().(*types.Struct); !ok {
		return ""
	}
	return n.Obj().Name()
}

func (t *tr) constOf(e ast.Expr) (string, bool) {
	tv, ok := t.info.Types[e]
	if !ok || tv.Value == nil {
		return "", false
	}
	switch tv.Value.Kind() {
	case constant.String:
		return bytesLit(constant.StringVal(tv.Value)), true
	case constant.Int:
		s := tv.Value.ExactString()
		if strings.HasPrefix(s, "-") {
			return "(" + s + ")", true
		}
		return s, true
	case constant.Bool:
		return fmt.Sprint(constant.BoolVal(tv.Value)), true
	}
	t.failAt(e, "constant of unsupported kind %v", tv.Value.Kind())
	return "", false
}

func (t *tr) name(o types.Object) string {
	if n, ok := t.names[o]; ok {
		return n
	}
	n := "v_" + o.Name()
	t.names[o] = n
	return n
}

func (t *tr) isPass(e ast.Expr) bool {
	id, ok := e.(*ast.Ident)
	if !ok {
		return false
	}
	o := t.info.Uses[id]
	if o == nil {
		return false
	}
	p, ok := o.Type().(*types.Pointer)
	return ok && namedIs(p.Elem(), "go.einride.tech/can/pkg/dbc/analysis", "Pass")
}

func namedIs(t types.Type, pkg, name string) bool {
	n, ok := t.(*types.Named)
	return ok && n.Obj().Pkg() != nil && n.Obj().Pkg().Path() == pkg && n.Obj().Name() == name
}

// callee: (package path, name) of a called package-level function, or ("", "") otherwise
func (t *tr) callee(c *ast.CallExpr) (string, string) {
	var id *ast.Ident
	switch f := c.Fun.(type) {
	case *ast.Ident:
		id = f
	case *ast.SelectorExpr:
		id = f.Sel
	default:
		return "", ""
	}
	o, ok := t.info.Uses[id].(*types.Func)
	if !ok || o.Pkg() == nil {
		return "", ""
	}
	if sig := o.Type().(*types.Signature); sig.Recv() != nil {
		return "", ""
	}
	return o.Pkg().Path(), o.Name()
}

func (t *tr) expr(e ast.Expr) string {
	if c, ok := t.constOf(e); ok {
		return c
	}
	switch x := e.(type) {
	case *ast.ParenExpr:
		return t.expr(x.X)
	case *ast.Ident:
		o := t.info.Uses[x]
		if v, ok := o.(*types.Var); ok && !v.IsField() && v.Pkg() == t.pkg.Types && v.Parent() != t.pkg.Types.Scope() {
			return t.name(o)
		}
		t.failAt(e, "identifier %s is not a local variable or constant", x.Name)
	case *ast.SelectorExpr:
		// pass.File.Defs / pass.File.Data
		if in, ok := x.X.(*ast.SelectorExpr); ok && t.isPass(in.X) && in.Sel.Name == "File" {
			switch x.Sel.Name {
			case "Defs":
				return "(f_defs v_file)"
			case "Data":
				return "(f_data v_file)"
			}
			t.failAt(e, "pass.File.%s is not modelled (the file is its bytes and its definitions)", x.Sel.Name)
		}
		if s := dbcStruct(t.info.TypeOf(x.X)); s != "" {
			if sel, ok := t.info.Selections[x]; ok && sel.Kind() == types.FieldVal && len(sel.Index()) == 1 {
				return fmt.Sprintf("(%s_%s %s)", s, x.Sel.Name, t.expr(x.X))
			}
		}
		t.failAt(e, "selector .%s outside the subset", x.Sel.Name)
	case *ast.UnaryExpr:
		if x.Op == token.NOT {
			return "(negb " + t.expr(x.X) + ")"
		}
		t.failAt(e, "unary operator %s", x.Op)
	case *ast.BinaryExpr:
		return t.binary(x)
	case *ast.CallExpr:
		return t.call(x)
	case *ast.IndexExpr:
		if mt, isSet := t.mapKind(x.X); mt != nil {
			if isSet || !isInteger(mt.Elem()) {
				t.failAt(e, "map read without comma-ok on a map whose values are not integers")
			}
			return fmt.Sprintf("(map_getd_%s %s %s)", t.keySuffix(e, mt), t.expr(x.Index), t.expr(x.X))
		}
		if tv, ok := t.info.Types[x.Index]; ok && tv.Value != nil && tv.Value.ExactString() == "0" && t.guarded != "" && t.expr(x.X) == t.guarded {
			return "g_hd"
		}
		t.failAt(e, "index expression outside the subset (only l[0] directly under `if len(l) > 0`, and integer-valued map reads)")
	case *ast.CompositeLit:
		if namedIs(t.info.TypeOf(x), "text/scanner", "Position") {
			line, col := "0", "0"
			for _, el := range x.Elts {
				kv, ok := el.(*ast.KeyValueExpr)
				if !ok {
					t.failAt(el, "scanner.Position literal without field names")
				}
				switch kv.Key.(*ast.Ident).Name {
				case "Filename": // positions of the model carry no file name
				case "Line":
					line = t.expr(kv.Value)
				case "Column":
					col = t.expr(kv.Value)
				default:
					t.failAt(kv, "scanner.Position field %s outside the subset", kv.Key.(*ast.Ident).Name)
				}
			}
			return "(go_position " + line + " " + col + ")"
		}
		t.failAt(e, "composite literal outside the subset")
	}
	t.failAt(e, "expression %T outside the subset", e)
	return ""
}

func (t *tr) binary(x *ast.BinaryExpr) string {
	a, b := t.expr(x.X), t.expr(x.Y)
	lt := t.info.TypeOf(x.X)
	switch x.Op {
	case token.LAND:
		return "(" + a + " && " + b + ")"
	case token.LOR:
		return "(" + a + " || " + b + ")"
	}
	if namedIs(lt, "reflect", "Type") && x.Op == token.EQL {
		return "(kind_eqb " + a + " " + b + ")"
	}
	switch {
	case isInteger(lt):
		switch x.Op {
		case token.EQL:
			return "(" + a + " =? " + b + ")"
		case token.NEQ:
			return "(negb (" + a + " =? " + b + "))"
		case token.LSS:
			return "(" + a + " <? " + b + ")"
		case token.LEQ:
			return "(" + a + " <=? " + b + ")"
		case token.GTR:
			return "(" + b + " <? " + a + ")"
		case token.GEQ:
			return "(" + b + " <=? " + a + ")"
		case token.MUL, token.ADD:
			bt := lt.Underlying().(*types.Basic)
			if bt.Kind() != types.Uint64 {
				t.failAt(x, "arithmetic on %s (only uint64 wrap-around is modelled)", bt.Name())
			}
			op := "*"
			if x.Op == token.ADD {
				op = "+"
			}
			return "(go_u64 (" + a + " " + op + " " + b + "))"
		}
	case isString(lt):
		switch x.Op {
		case token.EQL:
			return "(bytes_eqb " + a + " " + b + ")"
		case token.NEQ:
			return "(negb (bytes_eqb " + a + " " + b + "))"
		}
	case isFloat(lt):
		if x.Op == token.GTR {
			return "(f64_gt " + a + " " + b + ")"
		}
	}
	t.failAt(x, "operator %s on %s outside the subset", x.Op, lt)
	return ""
}

func (t *tr) call(c *ast.CallExpr) string {
	// conversions between string types
	if tv, ok := t.info.Types[c.Fun]; ok && tv.IsType() {
		if len(c.Args) == 1 && isString(tv.Type) && isString(t.info.TypeOf(c.Args[0])) {
			return t.expr(c.Args[0])
		}
		t.failAt(c, "conversion to %s outside the subset", tv.Type)
	}
	if id, ok := c.Fun.(*ast.Ident); ok {
		if b, ok := t.info.Uses[id].(*types.Builtin); ok {
			if b.Name() == "len" && len(c.Args) == 1 {
				at := t.info.TypeOf(c.Args[0]).Underlying()
				if _, ok := at.(*types.Slice); ok || isString(at) {
					return "(go_len " + t.expr(c.Args[0]) + ")"
				}
			}
			t.failAt(c, "builtin %s outside the subset", b.Name())
		}
	}
	// d.Position() on a dbc.Def
	if sel, ok := c.Fun.(*ast.SelectorExpr); ok && sel.Sel.Name == "Position" && len(c.Args) == 0 &&
		namedIs(t.info.TypeOf(sel.X), dbcPath, "Def") {
		return "(def_pos " + t.expr(sel.X) + ")"
	}
	pkg, name := t.callee(c)
	switch pkg + "." + name {
	case "strings.HasPrefix":
		return "(has_prefix " + t.expr(c.Args[1]) + " " + t.expr(c.Args[0]) + ")"
	case "strings.HasSuffix":
		return "(has_suffix " + t.expr(c.Args[1]) + " " + t.expr(c.Args[0]) + ")"
	case "go.einride.tech/can/internal/identifiers.IsCamelCase":
		t.camel = true
		return "(is_camel_case uni_digit uni_upper " + t.expr(c.Args[0]) + ")"
	case "reflect.TypeOf":
		if !namedIs(t.info.TypeOf(c.Args[0]), dbcPath, "Def") {
			t.failAt(c, "reflect.TypeOf of a value that is not a dbc.Def")
		}
		return "(kind_of " + t.expr(c.Args[0]) + ")"
	case dbcPath + ".IsIndependentSignalsMessage":
		return "(IsIndependentSignalsMessage " + t.expr(c.Args[0]) + ")"
	}
	if pkg == t.pkg.PkgPath && len(c.Args) == 0 {
		return t.helper(c, name)
	}
	if pkg == t.pkg.PkgPath && len(c.Args) == 1 {
		return "(" + t.indexHelper(c, name) + " " + t.expr(c.Args[0]) + ")"
	}
	t.failAt(c, "call outside the subset")
	return ""
}

// helper: a function of the analyzer's package whose body is `return map[K]V{const: const, ...}`
func (t *tr) helper(at ast.Node, name string) string {
	if _, ok := t.helpers[name]; ok {
		return "h_" + t.analyzer + "_" + name
	}
	for _, f := range t.pkg.Syntax {
		for _, d := range f.Decls {
			fd, ok := d.(*ast.FuncDecl)
			if !ok || fd.Recv != nil || fd.Name.Name != name || fd.Body == nil {
				continue
			}
			if len(fd.Body.List) != 1 {
				t.failAt(fd, "helper %s: body is not a single return of a map literal", name)
			}
			rs, ok := fd.Body.List[0].(*ast.ReturnStmt)
			if !ok || len(rs.Results) != 1 {
				t.failAt(fd, "helper %s: body is not a single return of a map literal", name)
			}
			cn := "h_" + t.analyzer + "_" + name
			var lit string
			if cl, ok := rs.Results[0].(*ast.CompositeLit); ok {
				if sl, ok := t.info.TypeOf(cl).Underlying().(*types.Slice); ok && namedIs(sl.Elem(), dbcPath, "Def") {
					var items []string
					for _, el := range cl.Elts {
						u, ok := el.(*ast.UnaryExpr)
						var in *ast.CompositeLit
						if ok && u.Op == token.AND {
							in, _ = u.X.(*ast.CompositeLit)
						}
						if in == nil || len(in.Elts) != 0 || dbcStruct(t.info.TypeOf(in)) == "" {
							t.failAt(el, "element of a []dbc.Def literal that is not &dbc.XxxDef{}")
						}
						items = append(items, "zero_"+dbcStruct(t.info.TypeOf(in)))
					}
					lit = "[" + strings.Join(items, "; ") + "]"
				}
			}
			if lit == "" {
				lit = t.mapLit(rs.Results[0])
			}
			t.helpers[name] = fmt.Sprintf("Definition %s := %s.\n", cn, lit)
			t.horder = append(t.horder, name)
			return cn
		}
	}
	t.failAt(at, "helper %s not found", name)
	return ""
}

// indexHelper: func f(d dbc.Def) uint64 { for i, x := range []dbc.Def{&dbc.T{}, ..} { if c { return uint64(i) } }; return CONST }
// -> lint_first_index (fun x => c) [zero_T; ..] CONST : the index of the first element satisfying c, CONST if none
func (t *tr) indexHelper(at ast.Node, name string) string {
	cn := "h_" + t.analyzer + "_" + name
	if _, ok := t.helpers[name]; ok {
		return cn
	}
	fd := findFunc(t.pkg, name)
	if fd == nil {
		t.failAt(at, "helper %s not found", name)
	}
	bad := func() {
		t.failAt(fd, "helper %s is not `for i, x := range []dbc.Def{..} { if c { return uint64(i) } }; return CONST`", name)
	}
	if fd.Type.Params.NumFields() != 1 || len(fd.Type.Params.List[0].Names) != 1 || len(fd.Body.List) != 2 ||
		!namedIs(t.info.TypeOf(fd.Type.Params.List[0].Type), dbcPath, "Def") {
		bad()
	}
	rg, ok1 := fd.Body.List[0].(*ast.RangeStmt)
	rt, ok2 := fd.Body.List[1].(*ast.ReturnStmt)
	if !ok1 || !ok2 || rg.Tok != token.DEFINE || rg.Key == nil || rg.Value == nil || len(rg.Body.List) != 1 || len(rt.Results) != 1 {
		bad()
	}
	dflt, isConst := t.constOf(rt.Results[0])
	cl, isLit := rg.X.(*ast.CompositeLit)
	is, isIf := rg.Body.List[0].(*ast.IfStmt)
	if !isConst || !isLit || !isIf || is.Init != nil || is.Else != nil || len(is.Body.List) != 1 {
		bad()
	}
	sl, isSl := t.info.TypeOf(cl).Underlying().(*types.Slice)
	if !isSl || !namedIs(sl.Elem(), dbcPath, "Def") {
		bad()
	}
	var items []string
	for _, el := range cl.Elts {
		u, ok := el.(*ast.UnaryExpr)
		var in *ast.CompositeLit
		if ok && u.Op == token.AND {
			in, _ = u.X.(*ast.CompositeLit)
		}
		if in == nil || len(in.Elts) != 0 || dbcStruct(t.info.TypeOf(in)) == "" {
			t.failAt(el, "element of a []dbc.Def literal that is not &dbc.XxxDef{}")
		}
		items = append(items, "zero_"+dbcStruct(t.info.TypeOf(in)))
	}
	ret, isRet := is.Body.List[0].(*ast.ReturnStmt)
	if !isRet || len(ret.Results) != 1 {
		bad()
	}
	conv, isCall := ret.Results[0].(*ast.CallExpr)
	if !isCall || len(conv.Args) != 1 {
		bad()
	}
	tv := t.info.Types[conv.Fun]
	id, isId := conv.Args[0].(*ast.Ident)
	if !tv.IsType() || !isInteger(tv.Type) || tv.Type.Underlying().(*types.Basic).Kind() != types.Uint64 || !isId ||
		t.info.Uses[id] != t.info.Defs[rg.Key.(*ast.Ident)] {
		bad()
	}
	ast.Inspect(is.Cond, func(n ast.Node) bool {
		if i2, ok := n.(*ast.Ident); ok && t.info.Uses[i2] == t.info.Defs[rg.Key.(*ast.Ident)] {
			bad()
		}
		return true
	})
	p := t.name(t.info.Defs[fd.Type.Params.List[0].Names[0]])
	x := t.name(t.info.Defs[rg.Value.(*ast.Ident)])
	t.helpers[name] = fmt.Sprintf("Definition %s (%s : def) : Z :=\n  lint_first_index (fun %s => %s) [%s] %s.\n", cn, p, x, t.expr(is.Cond), strings.Join(items, "; "), dflt)
	t.horder = append(t.horder, name)
	return cn
}

func (t *tr) mapLit(e ast.Expr) string {
	cl, ok := e.(*ast.CompositeLit)
	if !ok {
		t.failAt(e, "expected a map literal")
	}
	mt, ok := t.info.TypeOf(cl).Underlying().(*types.Map)
	if !ok {
		t.failAt(e, "expected a map literal")
	}
	_, isSet := mt.Elem().Underlying().(*types.Struct)
	var items []string
	for _, el := range cl.Elts {
		kv := el.(*ast.KeyValueExpr)
		k, ok := t.constOf(kv.Key)
		if !ok {
			t.failAt(kv, "map literal key is not a constant")
		}
		if isSet {
			items = append(items, k)
			continue
		}
		v, ok := t.constOf(kv.Value)
		if !ok {
			t.failAt(kv, "map literal value is not a constant")
		}
		items = append(items, "("+k+", "+v+")")
	}
	if len(items) == 0 {
		return "[]"
	}
	return "[" + strings.Join(items, "; ") + "]"
}

// ---- statements -------------------------------------------------------------------------------

type ctx struct {
	inLoop bool
	state  []string // names of the loop's state variables
	top    bool
}

func tuple(vs []string) string {
	if len(vs) == 0 {
		return "tt"
	}
	if len(vs) == 1 {
		return vs[0]
	}
	return "(" + strings.Join(vs, ", ") + ")"
}
func pat(vs []string) string {
	if len(vs) == 0 {
		return "_"
	}
	if len(vs) == 1 {
		return vs[0]
	}
	return "'(" + strings.Join(vs, ", ") + ")"
}

// assigned: Coq names of the variables declared OUTSIDE stmts that stmts assign ("ds" for Reportf), in a fixed order
func (t *tr) assigned(stmts []ast.Stmt) []string {
	declared := map[types.Object]bool{}
	set := map[string]token.Pos{}
	var walk func(n ast.Node) bool
	note := func(e ast.Expr) {
		switch x := e.(type) {
		case *ast.Ident:
			if o := t.info.Uses[x]; o != nil && !declared[o] {
				set[t.name(o)] = o.Pos()
			}
		case *ast.IndexExpr:
			if id, ok := x.X.(*ast.Ident); ok {
				if o := t.info.Uses[id]; o != nil && !declared[o] {
					set[t.name(o)] = o.Pos()
				}
			} else {
				t.failAt(e, "assignment target outside the subset")
			}
		default:
			t.failAt(e, "assignment target outside the subset")
		}
	}
	walk = func(n ast.Node) bool {
		switch x := n.(type) {
		case *ast.Ident:
			if o := t.info.Defs[x]; o != nil {
				declared[o] = true
			}
		case *ast.AssignStmt:
			if x.Tok != token.DEFINE {
				for _, l := range x.Lhs {
					note(l)
				}
			}
		case *ast.IncDecStmt:
			note(x.X)
		case *ast.CallExpr:
			if sel, ok := x.Fun.(*ast.SelectorExpr); ok && sel.Sel.Name == "Reportf" && t.isPass(sel.X) {
				set["ds"] = token.NoPos
			}
		}
		return true
	}
	for _, s := range stmts {
		ast.Inspect(s, walk)
	}
	var out []string
	for n := range set {
		out = append(out, n)
	}
	sort.Slice(out, func(i, j int) bool {
		return set[out[i]] < set[out[j]] || (set[out[i]] == set[out[j]] && out[i] < out[j])
	})
	return out
}

func terminates(stmts []ast.Stmt) bool {
	if len(stmts) == 0 {
		return false
	}
	switch s := stmts[len(stmts)-1].(type) {
	case *ast.BranchStmt:
		return true
	case *ast.ReturnStmt:
		return true
	default:
		_ = s
	}
	return false
}

// typeAssert: e is `d.(*dbc.T)`; returns T and the Coq expression of d
func (t *tr) typeAssert(e ast.Expr) (string, string, bool) {
	ta, ok := e.(*ast.TypeAssertExpr)
	if !ok || ta.Type == nil {
		return "", "", false
	}
	if !namedIs(t.info.TypeOf(ta.X), dbcPath, "Def") {
		t.failAt(e, "type assertion on a value that is not a dbc.Def")
	}
	tt := t.info.TypeOf(ta.Type)
	if _, isPtr := tt.(*types.Pointer); !isPtr || dbcStruct(tt) == "" {
		t.failAt(e, "type assertion to %s (only *dbc.XxxDef)", tt)
	}
	return dbcStruct(tt), t.expr(ta.X), true
}

func isMapType(t types.Type) bool {
	_, ok := t.Underlying().(*types.Map)
	return ok
}

func isIdent(e ast.Expr, name string) bool {
	id, ok := e.(*ast.Ident)
	return ok && id.Name == name
}

// seq translates stmts; fall = the expression for falling off the end
func (t *tr) seq(stmts []ast.Stmt, c ctx, fall string) string {
	if len(stmts) == 0 {
		return fall
	}
	s, rest := stmts[0], stmts[1:]
	restE := func() string { return t.seq(rest, c, fall) }
	switch x := s.(type) {
	case *ast.ReturnStmt:
		if !c.top || len(rest) != 0 || len(x.Results) != 1 || !isIdent(x.Results[0], "nil") {
			t.failAt(s, "return outside the subset (only a final `return nil` of run)")
		}
		return "Ok ds"
	case *ast.BranchStmt:
		if x.Label != nil || !c.inLoop || len(rest) != 0 {
			t.failAt(s, "labelled, misplaced or dead-code-followed %s", x.Tok)
		}
		switch x.Tok {
		case token.CONTINUE:
			return "Next " + tuple(c.state)
		case token.BREAK:
			return "Break " + tuple(c.state)
		}
		t.failAt(s, "%s outside the subset", x.Tok)
	case *ast.ExprStmt:
		call, ok := x.X.(*ast.CallExpr)
		if ok {
			if sel, ok := call.Fun.(*ast.SelectorExpr); ok && sel.Sel.Name == "Reportf" && t.isPass(sel.X) {
				return "let ds := ds ++ [" + t.report(call) + "] in\n" + restE()
			}
		}
		t.failAt(s, "expression statement outside the subset (only pass.Reportf)")
	case *ast.IncDecStmt:
		ix, ok := x.X.(*ast.IndexExpr)
		if !ok || x.Tok != token.INC {
			t.failAt(s, "++/-- outside the subset (only m[k]++ on an integer-valued map)")
		}
		mt, isSet := t.mapKind(ix.X)
		id, isId := ix.X.(*ast.Ident)
		if mt == nil || isSet || !isId || !isInteger(mt.Elem()) {
			t.failAt(s, "++/-- outside the subset (only m[k]++ on an integer-valued map)")
		}
		m := t.name(t.info.Uses[id])
		return fmt.Sprintf("let %s := map_inc_%s %s %s in\n", m, t.keySuffix(s, mt), t.expr(ix.Index), m) + restE()
	case *ast.AssignStmt:
		return t.assign(x, rest, c, fall)
	case *ast.IfStmt:
		return t.ifStmt(x, rest, c, fall)
	case *ast.RangeStmt:
		return t.rangeStmt(x, c) + restE()
	case *ast.TypeSwitchStmt:
		return t.typeSwitch(x, c) + restE()
	}
	t.failAt(s, "statement %T outside the subset", s)
	return ""
}

func (t *tr) report(call *ast.CallExpr) string {
	if len(call.Args) < 2 {
		t.failAt(call, "Reportf without format")
	}
	tv := t.info.Types[call.Args[1]]
	if tv.Value == nil || tv.Value.Kind() != constant.String {
		t.failAt(call, "Reportf format is not a constant string")
	}
	lit := bytesLit(constant.StringVal(tv.Value))
	var args, binders, gen []string
	for i, a := range call.Args[2:] {
		at := t.info.TypeOf(a)
		var k string
		switch {
		case isString(at):
			k = "FStr"
		case isInteger(at):
			k = "FInt"
		case isFloat(at):
			k = "FFloat"
		default:
			t.failAt(a, "Reportf argument of type %s outside the subset", at)
		}
		args = append(args, "("+k+" "+t.expr(a)+")")
		binders = append(binders, fmt.Sprintf("a%d", i))
		gen = append(gen, fmt.Sprintf("(%s a%d)", k, i))
	}
	al, gl := "[]", "[]"
	if len(args) > 0 {
		al = "[" + strings.Join(args, "; ") + "]"
		gl = "[" + strings.Join(gen, "; ") + "]"
	}
	p := fset.Position(call.Pos())
	rel, _ := filepath.Rel(root, p.Filename)
	q := ""
	if len(binders) > 0 {
		q = "forall " + strings.Join(binders, " ") + ", "
	}
	*t.fmts = append(*t.fmts, fmt.Sprintf("(* %s:%d %q *)\nLemma fmt_known_%d : %sfmt_is_known %s %s = true.\nProof. reflexivity. Qed.\n",
		rel, p.Line, constant.StringVal(tv.Value), len(*t.fmts), q, lit, gl))
	return "diag " + t.expr(call.Args[0]) + " (lint_msg " + lit + " " + al + ")"
}

func (t *tr) mapKind(e ast.Expr) (*types.Map, bool) {
	mt, ok := t.info.TypeOf(e).Underlying().(*types.Map)
	if !ok {
		return nil, false
	}
	_, isSet := mt.Elem().Underlying().(*types.Struct)
	return mt, isSet
}

func (t *tr) keySuffix(at ast.Node, mt *types.Map) string {
	switch {
	case isString(mt.Key()):
		return "bytes"
	case isInteger(mt.Key()):
		return "Z"
	case namedIs(mt.Key(), "reflect", "Type"):
		return "kind"
	}
	t.failAt(at, "map key type %s outside the subset", mt.Key())
	return ""
}

func (t *tr) assign(x *ast.AssignStmt, rest []ast.Stmt, c ctx, fall string) string {
	restE := func() string { return t.seq(rest, c, fall) }
	// x, ok := d.(*dbc.T) ; if !ok [|| c] { continue }
	if x.Tok == token.DEFINE && len(x.Lhs) == 2 && len(x.Rhs) == 1 {
		if T, d, ok := t.typeAssert(x.Rhs[0]); ok {
			okObj := t.info.Defs[x.Lhs[1].(*ast.Ident)]
			if len(rest) == 0 {
				t.failAt(x, "`x, ok := d.(*T)` must be followed by `if !ok [|| c] { continue }`")
			}
			is, isIf := rest[0].(*ast.IfStmt)
			if !isIf || is.Init != nil || is.Else != nil || len(is.Body.List) != 1 {
				t.failAt(x, "`x, ok := d.(*T)` must be followed by `if !ok [|| c] { continue }`")
			}
			br, isBr := is.Body.List[0].(*ast.BranchStmt)
			if !isBr || br.Tok != token.CONTINUE || br.Label != nil || !c.inLoop {
				t.failAt(is, "`x, ok := d.(*T)` must be followed by `if !ok [|| c] { continue }`")
			}
			isNotOk := func(e ast.Expr) bool {
				u, ok := e.(*ast.UnaryExpr)
				if !ok || u.Op != token.NOT {
					return false
				}
				id, ok := u.X.(*ast.Ident)
				return ok && t.info.Uses[id] == okObj
			}
			var extra ast.Expr
			if !isNotOk(is.Cond) {
				b, ok := is.Cond.(*ast.BinaryExpr)
				if !ok || b.Op != token.LOR || !isNotOk(b.X) {
					t.failAt(is, "`x, ok := d.(*T)` must be followed by `if !ok [|| c] { continue }`")
				}
				extra = b.Y
			}
			// ok must not be used afterwards
			for _, r := range rest[1:] {
				ast.Inspect(r, func(n ast.Node) bool {
					if id, ok := n.(*ast.Ident); ok && t.info.Uses[id] == okObj {
						t.failAt(id, "`ok` of a type assertion used after its guard")
					}
					return true
				})
			}
			if extra != nil {
				ast.Inspect(extra, func(n ast.Node) bool {
					if id, ok := n.(*ast.Ident); ok && t.info.Uses[id] == okObj {
						t.failAt(id, "`ok` of a type assertion used after its guard")
					}
					return true
				})
			}
			v := t.name(t.info.Defs[x.Lhs[0].(*ast.Ident)])
			cont := "Next " + tuple(c.state)
			body := t.seq(rest[1:], c, fall)
			if extra != nil {
				body = "if " + t.expr(extra) + " then " + cont + " else\n" + body
			}
			return fmt.Sprintf("match as_%s %s with\n| None => %s\n| Some %s =>\n%s\nend", T, d, cont, v, body)
		}
	}
	if len(x.Lhs) != 1 || len(x.Rhs) != 1 {
		t.failAt(x, "tuple assignment outside the subset")
	}
	// m[k] = struct{}{}
	if ix, ok := x.Lhs[0].(*ast.IndexExpr); ok && x.Tok == token.ASSIGN {
		mt, isSet := t.mapKind(ix.X)
		id, isId := ix.X.(*ast.Ident)
		if mt == nil || !isId {
			t.failAt(x, "indexed assignment to a non-map")
		}
		m := t.name(t.info.Uses[id])
		if isSet {
			if cl, ok := x.Rhs[0].(*ast.CompositeLit); !ok || len(cl.Elts) != 0 {
				t.failAt(x, "set insertion must assign struct{}{}")
			}
			return fmt.Sprintf("let %s := %s :: %s in\n", m, t.expr(ix.Index), m) + restE()
		}
		return fmt.Sprintf("let %s := (%s, %s) :: %s in\n", m, t.expr(ix.Index), t.expr(x.Rhs[0]), m) + restE()
	}
	id, ok := x.Lhs[0].(*ast.Ident)
	if !ok {
		t.failAt(x, "assignment target outside the subset")
	}
	var o types.Object
	if x.Tok == token.DEFINE {
		o = t.info.Defs[id]
	} else if x.Tok == token.ASSIGN {
		o = t.info.Uses[id]
	} else {
		t.failAt(x, "assignment operator %s outside the subset", x.Tok)
	}
	if o == nil {
		t.failAt(x, "assignment target outside the subset")
	}
	var rhs string
	if call, ok := x.Rhs[0].(*ast.CallExpr); ok && isIdent(call.Fun, "make") {
		if _, ok := t.info.TypeOf(call).Underlying().(*types.Map); !ok || len(call.Args) != 1 {
			t.failAt(x, "make of a non-map or with a size")
		}
		rhs = "[]"
	} else if cl, ok := x.Rhs[0].(*ast.CompositeLit); ok && isMapType(t.info.TypeOf(cl)) {
		rhs = t.mapLit(cl)
	} else {
		rhs = t.expr(x.Rhs[0])
	}
	return fmt.Sprintf("let %s := %s in\n", t.name(o), rhs) + restE()
}

// branch: a block inside if/switch; yields either a terminating expression or the tuple of `as`
func (t *tr) branch(stmts []ast.Stmt, c ctx, as []string) string {
	c.top = false
	return t.seq(stmts, c, tuple(as))
}

func (t *tr) ifStmt(x *ast.IfStmt, rest []ast.Stmt, c ctx, fall string) string {
	var elseStmts []ast.Stmt
	if x.Else != nil {
		eb, ok := x.Else.(*ast.BlockStmt)
		if !ok {
			t.failAt(x.Else, "else-if chain outside the subset")
		}
		elseStmts = eb.List
	}
	// the scrutinee: plain condition, comma-ok map lookup, or type assertion
	head, mid, tail := "", "", "" // head THEN mid ELSE tail
	negated := false
	if l := t.lenPositive(x); l != "" {
		if t.guarded != "" {
			t.failAt(x, "nested `if len(l) > 0` guards")
		}
		t.guarded = l
		defer func() { t.guarded = "" }()
		head, mid, tail = "match "+l+" with\n| g_hd :: _ =>\n", "\n| [] =>\n", "\nend"
	} else if x.Init == nil {
		head, mid, tail = "if "+t.expr(x.Cond)+" then\n", "\nelse\n", ""
	} else {
		as, ok := x.Init.(*ast.AssignStmt)
		if !ok || as.Tok != token.DEFINE || len(as.Lhs) != 2 || len(as.Rhs) != 1 {
			t.failAt(x, "if-init outside the subset")
		}
		okObj := t.info.Defs[as.Lhs[1].(*ast.Ident)]
		switch cnd := x.Cond.(type) {
		case *ast.Ident:
			if t.info.Uses[cnd] != okObj {
				t.failAt(x, "if-init condition must be `ok` or `!ok`")
			}
		case *ast.UnaryExpr:
			id, isId := cnd.X.(*ast.Ident)
			if cnd.Op != token.NOT || !isId || t.info.Uses[id] != okObj {
				t.failAt(x, "if-init condition must be `ok` or `!ok`")
			}
			negated = true
		default:
			t.failAt(x, "if-init condition must be `ok` or `!ok`")
		}
		for _, b := range [][]ast.Stmt{x.Body.List, elseStmts} {
			for _, st := range b {
				ast.Inspect(st, func(n ast.Node) bool {
					if id, ok := n.(*ast.Ident); ok && t.info.Uses[id] == okObj {
						t.failAt(id, "`ok` used inside the guarded block")
					}
					return true
				})
			}
		}
		v := as.Lhs[0].(*ast.Ident)
		if T, d, isTA := t.typeAssert(as.Rhs[0]); isTA {
			if negated || v.Name == "_" {
				t.failAt(x, "negated / blank type assertion outside the subset")
			}
			head, mid, tail = fmt.Sprintf("match as_%s %s with\n| Some %s =>\n", T, d, t.name(t.info.Defs[v])), "\n| None =>\n", "\nend"
		} else if ix, isIx := as.Rhs[0].(*ast.IndexExpr); isIx {
			mt, isSet := t.mapKind(ix.X)
			if mt == nil {
				t.failAt(x, "comma-ok on a non-map")
			}
			sfx := t.keySuffix(x, mt)
			if v.Name == "_" {
				fn := "map_mem_"
				if isSet {
					fn = "set_mem_"
				}
				cond := fmt.Sprintf("%s%s %s %s", fn, sfx, t.expr(ix.Index), t.expr(ix.X))
				if negated {
					cond = "negb (" + cond + ")"
				}
				head, mid, tail = "if "+cond+" then\n", "\nelse\n", ""
			} else {
				if negated || isSet {
					t.failAt(x, "`v, ok := m[k]; !ok` / value of a set outside the subset")
				}
				head = fmt.Sprintf("match map_get_%s %s %s with\n| Some %s =>\n", sfx, t.expr(ix.Index), t.expr(ix.X), t.name(t.info.Defs[v]))
				mid, tail = "\n| None =>\n", "\nend"
			}
		} else {
			t.failAt(x, "if-init outside the subset")
		}
	}
	thenT, elseT := terminates(x.Body.List), terminates(elseStmts)
	if thenT && x.Else == nil {
		return head + t.branch(x.Body.List, c, nil) + mid + t.seq(rest, c, fall) + tail
	}
	if thenT || elseT {
		t.failAt(x, "if/else with a terminating branch outside the subset")
	}
	as := t.assigned(append(append([]ast.Stmt{}, x.Body.List...), elseStmts...))
	if len(as) == 0 {
		t.failAt(x, "if statement without effect")
	}
	return "let " + pat(as) + " :=\n" + head + t.branch(x.Body.List, ctx{}, as) + mid + t.branch(elseStmts, ctx{}, as) + tail + " in\n" +
		t.seq(rest, c, fall)
}

// lenPositive: `if len(l) > 0 { .. }` without init and else, l a slice that the body does not assign -> Coq text of l
func (t *tr) lenPositive(x *ast.IfStmt) string {
	b, ok := x.Cond.(*ast.BinaryExpr)
	if x.Init != nil || x.Else != nil || !ok || b.Op != token.GTR {
		return ""
	}
	if tv, ok := t.info.Types[b.Y]; !ok || tv.Value == nil || tv.Value.ExactString() != "0" {
		return ""
	}
	c, ok := b.X.(*ast.CallExpr)
	if !ok || !isIdent(c.Fun, "len") || len(c.Args) != 1 {
		return ""
	}
	if _, ok := t.info.TypeOf(c.Args[0]).Underlying().(*types.Slice); !ok {
		return ""
	}
	if sel, ok := c.Args[0].(*ast.SelectorExpr); !ok || sel.Sel.Name != "Defs" {
		return "" // only the read-only pass.File.Defs
	}
	return t.expr(c.Args[0])
}

func (t *tr) typeSwitch(x *ast.TypeSwitchStmt, c ctx) string {
	as, ok := x.Assign.(*ast.AssignStmt)
	if x.Init != nil || !ok || len(as.Lhs) != 1 || len(as.Rhs) != 1 {
		t.failAt(x, "type switch must have the form `switch x := d.(type)`")
	}
	ta := as.Rhs[0].(*ast.TypeAssertExpr)
	if !namedIs(t.info.TypeOf(ta.X), dbcPath, "Def") {
		t.failAt(x, "type switch on a value that is not a dbc.Def")
	}
	d := t.expr(ta.X)
	var all []ast.Stmt
	for _, cc := range x.Body.List {
		all = append(all, cc.(*ast.CaseClause).Body...)
	}
	st := t.assigned(all)
	if len(st) == 0 {
		t.failAt(x, "type switch without effect")
	}
	out, closeS := "let "+pat(st)+" :=\n", ""
	for _, cc0 := range x.Body.List {
		cc := cc0.(*ast.CaseClause)
		if len(cc.List) != 1 {
			t.failAt(cc, "default / multi-type case outside the subset")
		}
		tt := t.info.TypeOf(cc.List[0])
		if _, isPtr := tt.(*types.Pointer); !isPtr || dbcStruct(tt) == "" {
			t.failAt(cc, "case %s (only *dbc.XxxDef)", tt)
		}
		if terminates(cc.Body) {
			t.failAt(cc, "case ending in continue/break/return outside the subset")
		}
		v := t.name(t.info.Implicits[cc])
		out += fmt.Sprintf("match as_%s %s with\n| Some %s =>\n%s\n| None =>\n", dbcStruct(tt), d, v, t.branch(cc.Body, ctx{}, st))
		closeS += "\nend"
	}
	return out + tuple(st) + closeS + " in\n"
}

func (t *tr) rangeStmt(x *ast.RangeStmt, c ctx) string {
	if x.Tok != token.DEFINE {
		t.failAt(x, "range without := outside the subset")
	}
	if _, ok := t.info.TypeOf(x.X).Underlying().(*types.Slice); !ok {
		t.failAt(x, "range over %s (only slices)", t.info.TypeOf(x.X))
	}
	l := t.expr(x.X)
	body := x.Body.List
	var elem string
	if x.Value != nil {
		if !isIdent(x.Key, "_") {
			t.failAt(x, "range with both index and value outside the subset")
		}
		elem = t.name(t.info.Defs[x.Value.(*ast.Ident)])
	} else {
		// for i := range l { x := &l[i]; ... }
		iObj := t.info.Defs[x.Key.(*ast.Ident)]
		bad := func() { t.failAt(x, "`for i := range l` must start with `x := &l[i]` and use i nowhere else") }
		if len(body) == 0 {
			bad()
		}
		as, ok := body[0].(*ast.AssignStmt)
		if !ok || as.Tok != token.DEFINE || len(as.Lhs) != 1 || len(as.Rhs) != 1 {
			bad()
		}
		if t.isReverseIndex(as.Rhs[0], l, iObj) {
			// x := l[len(l)-i-1]: i runs over 0..len-1, so the index is in range and the elements come in reverse order
			for _, st := range body[1:] {
				ast.Inspect(st, func(n ast.Node) bool {
					if id, ok := n.(*ast.Ident); ok && t.info.Uses[id] == iObj {
						bad()
					}
					return true
				})
			}
			l = "(rev " + l + ")"
			elem = t.name(t.info.Defs[as.Lhs[0].(*ast.Ident)])
			body = body[1:]
			goto loop
		}
		u, ok := as.Rhs[0].(*ast.UnaryExpr)
		if !ok || u.Op != token.AND {
			bad()
		}
		ix, ok := u.X.(*ast.IndexExpr)
		if !ok {
			bad()
		}
		id, ok := ix.Index.(*ast.Ident)
		if !ok || t.info.Uses[id] != iObj || t.expr(ix.X) != l {
			bad()
		}
		for _, st := range body[1:] {
			ast.Inspect(st, func(n ast.Node) bool {
				if id, ok := n.(*ast.Ident); ok && t.info.Uses[id] == iObj {
					bad()
				}
				return true
			})
		}
		elem = t.name(t.info.Defs[as.Lhs[0].(*ast.Ident)])
		body = body[1:]
	}
loop:
	st := t.assigned(body)
	if len(st) == 0 {
		t.failAt(x, "loop without effect")
	}
	// the range expression must not be assigned in the body
	ast.Inspect(x.X, func(n ast.Node) bool {
		if id, ok := n.(*ast.Ident); ok {
			if o := t.info.Uses[id]; o != nil {
				for _, s := range st {
					if t.names[o] == s {
						t.failAt(x, "range expression assigned in the loop body")
					}
				}
			}
		}
		return true
	})
	inner := t.seq(body, ctx{inLoop: true, state: st}, "Next "+tuple(st))
	return fmt.Sprintf("let %s := lint_for (fun %s %s =>\n%s) %s %s in\n", pat(st), elem, pat(st), inner, l, tuple(st))
}

// isReverseIndex: e is l[len(l)-i-1] for the Coq text l and the loop index i
func (t *tr) isReverseIndex(e ast.Expr, l string, iObj types.Object) bool {
	ix, ok := e.(*ast.IndexExpr)
	if !ok {
		return false
	}
	if _, isSl := t.info.TypeOf(ix.X).Underlying().(*types.Slice); !isSl || t.expr(ix.X) != l {
		return false
	}
	o, ok := ix.Index.(*ast.BinaryExpr)
	if !ok || o.Op != token.SUB {
		return false
	}
	if tv, ok := t.info.Types[o.Y]; !ok || tv.Value == nil || tv.Value.ExactString() != "1" {
		return false
	}
	in, ok := o.X.(*ast.BinaryExpr)
	if !ok || in.Op != token.SUB {
		return false
	}
	id, ok := in.Y.(*ast.Ident)
	if !ok || t.info.Uses[id] != iObj {
		return false
	}
	c, ok := in.X.(*ast.CallExpr)
	return ok && isIdent(c.Fun, "len") && len(c.Args) == 1 && t.expr(c.Args[0]) == l
}

// ---- driver -----------------------------------------------------------------------------------

func findFunc(pkg *packages.Package, name string) *ast.FuncDecl {
	for _, f := range pkg.Syntax {
		for _, d := range f.Decls {
			if fd, ok := d.(*ast.FuncDecl); ok && fd.Recv == nil && fd.Name.Name == name && fd.Body != nil {
				return fd
			}
		}
	}
	return nil
}

func try(f func()) (msg string) {
	defer func() {
		if r := recover(); r != nil {
			if te, ok := r.(terr); ok {
				msg = te.msg
				return
			}
			panic(r)
		}
	}()
	f()
	return ""
}

func relPos(n ast.Node) (string, int) {
	p := fset.Position(n.Pos())
	rel, _ := filepath.Rel(root, p.Filename)
	return rel, p.Line
}

func run(rootDir, out string) int {
	root = rootDir
	cfg := &packages.Config{
		Mode: packages.NeedName | packages.NeedFiles | packages.NeedCompiledGoFiles | packages.NeedImports |
			packages.NeedTypes | packages.NeedTypesSizes | packages.NeedSyntax | packages.NeedTypesInfo,
		Dir:  root,
		Fset: fset,
		Env:  append(os.Environ(), "GOFLAGS=-mod=mod", "GOPROXY=off", "GOSUMDB=off", "GOTOOLCHAIN=local", "GOOS=linux", "GOARCH=amd64"),
	}
	pkgs, err := packages.Load(cfg, passesPath+"...", dbcPath)
	if err != nil || len(pkgs) == 0 {
		fmt.Fprintf(os.Stderr, "TRANSLATE-ERROR loading packages: %v\n", err)
		return 2
	}
	sort.Slice(pkgs, func(i, j int) bool { return pkgs[i].PkgPath < pkgs[j].PkgPath })
	for _, pkg := range pkgs {
		for _, e := range pkg.Errors {
			fmt.Fprintf(os.Stderr, "TRANSLATE-ERROR %s: does not type-check: %s\n", pkg.PkgPath, strings.ReplaceAll(e.Error(), root+"/", ""))
			return 2
		}
		if pkg.TypesInfo == nil {
			fmt.Fprintf(os.Stderr, "TRANSLATE-ERROR %s: no type information\n", pkg.PkgPath)
			return 2
		}
	}
	var b strings.Builder
	b.WriteString("(** GENERATED by harness/linttrans from pkg/dbc/analysis/passes/*/analyzer.go and pkg/dbc/independent_signals.go -\n    do not edit. One function per analyzer whose run function is in the translator's subset. *)\n")
	b.WriteString("From Coq Require Import ZArith List Bool.\nFrom CanVerif Require Import Dbc.Ast Dbc.Lint.\nFrom CanTranslated Require Import LintGlue.\nImport ListNotations.\nOpen Scope Z_scope.\nOpen Scope bool_scope.\n\n")
	var fmts []string
	files := map[string]bool{}
	var report []string
	n := 0
	// independent_signals.go
	for _, pkg := range pkgs {
		if pkg.PkgPath != dbcPath {
			continue
		}
		fd := findFunc(pkg, "IsIndependentSignalsMessage")
		if fd == nil {
			fmt.Fprintln(os.Stderr, "TRANSLATE-ERROR dbc.IsIndependentSignalsMessage not found")
			return 2
		}
		t := &tr{info: pkg.TypesInfo, pkg: pkg, helpers: map[string]string{}, names: map[types.Object]string{}, fmts: &fmts, analyzer: "dbc"}
		rel, line := relPos(fd)
		var text string
		msg := try(func() {
			if len(fd.Body.List) != 1 || fd.Type.Params.NumFields() != 1 {
				t.failAt(fd, "IsIndependentSignalsMessage: body is not a single return")
			}
			rs, ok := fd.Body.List[0].(*ast.ReturnStmt)
			if !ok || len(rs.Results) != 1 {
				t.failAt(fd, "IsIndependentSignalsMessage: body is not a single return")
			}
			p := t.name(t.info.Defs[fd.Type.Params.List[0].Names[0]])
			text = fmt.Sprintf("(* %s:%d *)\nDefinition IsIndependentSignalsMessage (%s : message_def) : bool :=\n  %s.\n\n", rel, line, p, t.expr(rs.Results[0]))
		})
		if msg != "" {
			fmt.Fprintf(os.Stderr, "TRANSLATE-ERROR %s\n", msg)
			return 2
		}
		b.WriteString(text)
		files[rel] = true
		report = append(report, fmt.Sprintf("TRANSLATED IsIndependentSignalsMessage %s:%d", rel, line))
	}
	for _, pkg := range pkgs {
		if !strings.HasPrefix(pkg.PkgPath, passesPath) {
			continue
		}
		an := strings.TrimPrefix(pkg.PkgPath, passesPath)
		if strings.Contains(an, "/") {
			continue
		}
		fd := findFunc(pkg, "run")
		if fd == nil {
			report = append(report, fmt.Sprintf("UNTRANSLATED %s %s: no func run", an, pkg.PkgPath))
			continue
		}
		rel, line := relPos(fd)
		files[rel] = true
		nf := len(fmts)
		t := &tr{info: pkg.TypesInfo, pkg: pkg, helpers: map[string]string{}, names: map[types.Object]string{}, fmts: &fmts, analyzer: an}
		var body string
		msg := try(func() {
			sig := pkg.TypesInfo.Defs[fd.Name].Type().(*types.Signature)
			if sig.Params().Len() != 1 || sig.Results().Len() != 1 || !t.isPassType(sig.Params().At(0).Type()) {
				t.failAt(fd, "run does not have the signature func(*analysis.Pass) error")
			}
			body = t.seq(fd.Body.List, ctx{top: true}, "")
			if body == "" || !terminates(fd.Body.List) {
				t.failAt(fd, "run does not end in `return nil`")
			}
			// state variables must have unique names
			seen := map[string]types.Object{}
			for o, nm := range t.names {
				if p, dup := seen[nm]; dup && p != o {
					for _, s := range t.assigned(fd.Body.List) {
						if s == nm {
							t.failAt(fd, "two variables named %s, one of them assigned", o.Name())
						}
					}
				}
				seen[nm] = o
			}
		})
		if msg != "" {
			fmts = fmts[:nf]
			report = append(report, fmt.Sprintf("UNTRANSLATED %s %s", an, msg))
			continue
		}
		for _, h := range t.horder {
			b.WriteString(t.helpers[h])
		}
		params := "(v_file : file)"
		if t.camel {
			params = "(uni_digit uni_upper : Z -> bool) " + params
		}
		fmt.Fprintf(&b, "(* %s:%d *)\nDefinition %s_run %s : outcome :=\nlet ds := @nil diagnostic in\n%s.\n\n", rel, line, an, params, body)
		report = append(report, fmt.Sprintf("TRANSLATED %s %s:%d", an, rel, line))
		n++
	}
	b.WriteString("(* every format literal / argument-kind combination of the Reportf calls above is in LintGlue's table *)\n")
	for _, f := range fmts {
		b.WriteString(f)
	}
	if err := os.MkdirAll(out, 0o755); err != nil {
		fmt.Fprintf(os.Stderr, "TRANSLATE-ERROR %v\n", err)
		return 2
	}
	if err := os.WriteFile(filepath.Join(out, "LintTranslated.v"), []byte(b.String()), 0o644); err != nil {
		fmt.Fprintf(os.Stderr, "TRANSLATE-ERROR %v\n", err)
		return 2
	}
	for _, r := range report {
		fmt.Println(r)
	}
	var fl []string
	for f := range files {
		fl = append(fl, f)
	}
	sort.Strings(fl)
	fmt.Println("FILES " + strings.Join(fl, " "))
	return 0
}

func (t *tr) isPassType(ty types.Type) bool {
	p, ok := ty.(*types.Pointer)
	return ok && namedIs(p.Elem(), "go.einride.tech/can/pkg/dbc/analysis", "Pass")
}

func main() {
	if len(os.Args) != 3 {
		fmt.Fprintln(os.Stderr, "usage: verif_linttrans <module root> <output dir>")
		os.Exit(64)
	}
	r, _ := filepath.Abs(os.Args[1])
	if rr, err := filepath.EvalSymlinks(r); err == nil {
		r = rr
	}
	os.Exit(run(r, os.Args[2]))
}
