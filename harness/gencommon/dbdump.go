// Canonical line dump of a descriptor.Database (format documented in checks/genprogs.py).
package main

import (
	"encoding/hex"
	"fmt"
	"io"
	"math"

	"go.einride.tech/can/pkg/descriptor"
)

func gS(s string) string { return "s:" + hex.EncodeToString([]byte(s)) }
func gF(f float64) string { return fmt.Sprintf("%x", math.Float64bits(f)) }
func gB(b bool) int {
	if b {
		return 1
	}
	return 0
}

// DumpDatabase writes the canonical dump of db.
func DumpDatabase(w io.Writer, db *descriptor.Database) {
	fmt.Fprintf(w, "DB %s %s %x %x\n", gS(db.SourceFile), gS(db.Version), len(db.Messages), len(db.Nodes))
	for _, n := range db.Nodes {
		fmt.Fprintf(w, "NODE %s %s\n", gS(n.Name), gS(n.Description))
	}
	for _, m := range db.Messages {
		fmt.Fprintf(w, "MSG %s %x %d %x %d %s %s %x %x %x\n", gS(m.Name), m.ID, gB(m.IsExtended), m.Length, uint8(m.SendType),
			gS(m.Description), gS(m.SenderNode), uint64(m.CycleTime), uint64(m.DelayTime), len(m.Signals))
		for _, s := range m.Signals {
			line := fmt.Sprintf("SIGD %s %x %x %d %d %d %d %d %x %s %s %s %s %s %s %x %x", gS(s.Name), s.Start, s.Length,
				gB(s.IsBigEndian), gB(s.IsSigned), gB(s.IsFloat), gB(s.IsMultiplexer), gB(s.IsMultiplexed), s.MultiplexerValue,
				gF(s.Offset), gF(s.Scale), gF(s.Min), gF(s.Max), gS(s.Unit), gS(s.Description), uint64(s.DefaultValue),
				len(s.ValueDescriptions))
			for _, vd := range s.ValueDescriptions {
				line += fmt.Sprintf(" %x %s", uint64(vd.Value), gS(vd.Description))
			}
			line += fmt.Sprintf(" %x", len(s.ReceiverNodes))
			for _, r := range s.ReceiverNodes {
				line += " " + gS(r)
			}
			fmt.Fprintln(w, line)
		}
	}
}
